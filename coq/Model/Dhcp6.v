(* Model of pkg/dhcpv6/server.go: handleMessage and its handlers, buildAdvertise / buildReply, with
   the legacy AddressPool and PrefixPool (free lists keyed by client DUID) as coded.

   Configuration modelled: both legacy pools configured, no integrated PoolAllocator (that
   branch is NOT modelled).  Every message carries a Client ID; at most one IA_NA and one IA_PD
   (Information-Request: IAs in the message are ignored by the code and by the Model).
   DUIDs, addresses (128-bit) and delegated prefixes (their base address) are numbers.

   The server never compares a lifetime with the clock: leases are never expired.  The Model keeps
   a ghost table [granted] (duid -> time until which the last Reply's lifetimes run) that no
   transition reads; it only places the ghost markers:
     0211  Decline handled as Release: the declined address/prefix goes back to the free list
     0212  a request is refused (NoAddrsAvail / NoPrefixAvail) while a binding whose valid
           lifetime has run out still holds a value of that pool. *)
From Coq Require Import NArith List Bool.
From Verif Require Import Model.Dhcp4.
Import ListNotations.
Local Open Scope N_scope.

Record cfg6 := { a_base : N; a_size : N;      (* address pool CIDR: base, number of addresses *)
                 p_base : N; p_step : N; p_count : N;   (* prefix pool: base, 2^(128-dlen), count *)
                 c_valid : N }.               (* valid lifetime, seconds *)

Definition contains6 (c : cfg6) (a : N) : bool := (a_base c <=? a) && (a <? a_base c + a_size c).
(* NewAddressPool: nextIPv6 from the network address while inside the CIDR (first 1000) *)
Definition init_aavail (c : cfg6) : list N :=
  map (fun i => a_base c + N.of_nat i) (seq 1 (N.to_nat (N.min (a_size c - 1) 1000))).
(* NewPrefixPool: index i placed in bits [ones, dlen) *)
Definition init_pavail (c : cfg6) : list N :=
  map (fun i => p_base c + N.of_nat i * p_step c) (seq 0 (N.to_nat (N.min (p_count c) 1000))).
Definition in_ppool (c : cfg6) (p : N) : bool :=
  (p_base c <=? p) && (p <? p_base c + p_count c * p_step c).

Record lease6 := { l6_addr : option N; l6_pfx : option N; l6_vend : N (* 0 = zero time *) }.
Record state6 := { leases6 : list (N * lease6);
                   aalloc : list (N * N); aavail : list N;
                   palloc : list (N * N); pavail : list N;
                   now6 : N;
                   granted : list (N * N) (* ghost *) }.

Definition init6 (c : cfg6) : state6 :=
  {| leases6 := []; aalloc := []; aavail := init_aavail c; palloc := []; pavail := init_pavail c;
     now6 := 0; granted := [] |}.

Inductive op6 :=
| Solicit (d : N) (rapid na pd : bool)
| Request6 (d : N) (sid_ok na pd : bool)
| Renew (d : N) (na pd : bool)
| Rebind (d : N) (na pd : bool)
| Confirm (d : N) (addr : option N)        (* one IA_NA holding [addr], or no IA_NA *)
| Release6 (d : N)
| Decline6 (d : N)
| InfoReq (d : N)                          (* Information-Request: stateless, no IA is processed *)
| Advance6 (t : N).

Inductive ia6 := IaNone | IaVal (v : N) | IaErr (code : N).
Inductive reply6 :=
| R6None
| R6Adv (na pd : ia6)
| R6Reply (na pd : ia6) (rapid : bool)     (* Reply with top-level status Success *)
| R6Status (code : N)                      (* Reply carrying only a status code *)
| R6Info.                                  (* Reply to Information-Request: ids (+DNS), no IA, no status *)

(* AddressPool.Release(duid) / PrefixPool.Release(duid) *)
Definition pool_release_key (h : N) (al : list (N * N)) (av : list N) : list (N * N) * list N :=
  match alookup h al with
  | Some v => (aremove h al, av ++ [v])
  | None => (al, av)
  end.

Definition get_lease (s : state6) (d : N) : lease6 :=
  match alookup d (leases6 s) with Some l => l | None => {| l6_addr := None; l6_pfx := None; l6_vend := 0 |} end.

(* some binding (a lease holding a value of the pool selected by [pd]) has outlived its lifetime *)
Definition expired_holder (s : state6) (pd : bool) : bool :=
  existsb (fun p => (match (if pd then l6_pfx (snd p) else l6_addr (snd p)) with Some _ => true | None => false end) &&
                    match alookup (fst p) (granted s) with Some u => u <? now6 s | None => false end)
          (leases6 s).

(* buildAdvertise *)
Definition advertise (s : state6) (d : N) (na pd : bool) : state6 * reply6 :=
  let '(rna, al, av) :=
    if na then match pool_alloc d (aalloc s) (aavail s) with
               | Some (v, al, av) => (IaVal v, al, av)
               | None => (IaNone, aalloc s, aavail s)
               end
    else (IaNone, aalloc s, aavail s) in
  let '(rpd, pl, pv) :=
    if pd then match pool_alloc d (palloc s) (pavail s) with
               | Some (v, pl, pv) => (IaVal v, pl, pv)
               | None => (IaNone, palloc s, pavail s)
               end
    else (IaNone, palloc s, pavail s) in
  ({| leases6 := leases6 s; aalloc := al; aavail := av; palloc := pl; pavail := pv;
      now6 := now6 s; granted := granted s |}, R6Adv rna rpd).

(* buildReply; [l0] is the lease the handler sees (handleRenew has already extended it) *)
Definition build_reply (c : cfg6) (s : state6) (d : N) (na pd rapid : bool) : state6 * reply6 * list N :=
  let l0 := get_lease s d in
  let '(rna, al, av, l1, m1) :=
    if na then match pool_alloc d (aalloc s) (aavail s) with
               | Some (v, al, av) =>
                   (IaVal v, al, av, {| l6_addr := Some v; l6_pfx := l6_pfx l0; l6_vend := now6 s + c_valid c |}, [])
               | None => (IaErr 2, aalloc s, aavail s, l0, if expired_holder s false then [212] else [])
               end
    else (IaNone, aalloc s, aavail s, l0, []) in
  let '(rpd, pl, pv, l2, m2) :=
    if pd then match pool_alloc d (palloc s) (pavail s) with
               | Some (v, pl, pv) =>
                   (IaVal v, pl, pv, {| l6_addr := l6_addr l1; l6_pfx := Some v; l6_vend := l6_vend l1 |}, [])
               | None => (IaErr 6, palloc s, pavail s, l1, if expired_holder s true then [212] else [])
               end
    else (IaNone, palloc s, pavail s, l1, []) in
  let got := match rna, rpd with IaVal _, _ | _, IaVal _ => true | _, _ => false end in
  ({| leases6 := aset d l2 (leases6 s); aalloc := al; aavail := av; palloc := pl; pavail := pv;
      now6 := now6 s;
      granted := if got then aset d (now6 s + c_valid c) (granted s) else granted s |},
   R6Reply rna rpd rapid, m1 ++ m2).

Definition release6 (s : state6) (d : N) : state6 :=
  match alookup d (leases6 s) with
  | Some l =>
      let '(al, av) := match l6_addr l with Some _ => pool_release_key d (aalloc s) (aavail s)
                                           | None => (aalloc s, aavail s) end in
      let '(pl, pv) := match l6_pfx l with Some _ => pool_release_key d (palloc s) (pavail s)
                                          | None => (palloc s, pavail s) end in
      {| leases6 := aremove d (leases6 s); aalloc := al; aavail := av; palloc := pl; pavail := pv;
         now6 := now6 s; granted := aremove d (granted s) |}
  | None => s
  end.

Definition renew (c : cfg6) (s : state6) (d : N) (na pd : bool) : state6 * reply6 * list N :=
  match alookup d (leases6 s) with
  | None => (s, R6Status 3, [])
  | Some l =>
      let l' := {| l6_addr := l6_addr l; l6_pfx := l6_pfx l; l6_vend := now6 s + c_valid c |} in
      let s1 := {| leases6 := aset d l' (leases6 s); aalloc := aalloc s; aavail := aavail s;
                   palloc := palloc s; pavail := pavail s; now6 := now6 s; granted := granted s |} in
      build_reply c s1 d na pd false
  end.

Definition step6 (c : cfg6) (s : state6) (o : op6) : state6 * reply6 * list N :=
  match o with
  | Solicit d rapid na pd =>
      if rapid then build_reply c s d na pd true
      else let '(s', r) := advertise s d na pd in (s', r, [])
  | Request6 d sid_ok na pd =>
      if sid_ok then build_reply c s d na pd false else (s, R6None, [])
  | Renew d na pd => renew c s d na pd
  | Rebind d na pd => renew c s d na pd
  | Confirm d addr =>
      let ok := match addr with
                | Some a =>
                    contains6 c a &&
                    match alookup d (leases6 s) with
                    | Some l => match l6_addr l with Some b => a =? b | None => false end
                    | None => true
                    end
                | None => false
                end in
      (s, R6Status (if ok then 0 else 4), [])
  | Release6 d => (release6 s d, R6Status 0, [])
  | Decline6 d =>
      let frees := match alookup d (leases6 s) with
                   | Some l => match l6_addr l, l6_pfx l with None, None => false | _, _ => true end
                   | None => false
                   end in
      (release6 s d, R6Status 0, if frees then [211] else [])
  | InfoReq d => (s, R6Info, [])
  | Advance6 t =>
      ({| leases6 := leases6 s; aalloc := aalloc s; aavail := aavail s; palloc := palloc s;
          pavail := pavail s; now6 := now6 s + t; granted := granted s |}, R6None, [])
  end.

Definition step6s (c : cfg6) (s : state6) (o : op6) : state6 := fst (fst (step6 c s o)).
Definition run6 (c : cfg6) (ops : list op6) : state6 := fold_left (step6s c) ops (init6 c).

(* ---- observables ---- *)
Record snap6 := { s6_leases : list (N * (N * N * N));   (* duid -> (addr+1 or 0, prefix+1 or 0, valid end) *)
                  s6_aalloc : list (N * N); s6_aavail : list N;
                  s6_palloc : list (N * N); s6_pavail : list N }.
Definition out6 := (reply6 * snap6)%type.

Definition optn (o : option N) : N := match o with Some v => v + 1 | None => 0 end.
Definition snap6_of (s : state6) : snap6 :=
  {| s6_leases := map (fun p => (fst p, (optn (l6_addr (snd p)), optn (l6_pfx (snd p)), l6_vend (snd p)))) (leases6 s);
     s6_aalloc := aalloc s; s6_aavail := aavail s; s6_palloc := palloc s; s6_pavail := pavail s |}.

Definition step6o (c : cfg6) (s : state6) (o : op6) : state6 * out6 * list N :=
  let '(s', r, mk) := step6 c s o in (s', (r, snap6_of s'), mk).

Definition ia6_eqb (a b : ia6) : bool :=
  match a, b with
  | IaNone, IaNone => true
  | IaVal x, IaVal y | IaErr x, IaErr y => x =? y
  | _, _ => false
  end.
Definition reply6_eqb (a b : reply6) : bool :=
  match a, b with
  | R6None, R6None | R6Info, R6Info => true
  | R6Adv a1 a2, R6Adv b1 b2 => ia6_eqb a1 b1 && ia6_eqb a2 b2
  | R6Reply a1 a2 ar, R6Reply b1 b2 br => ia6_eqb a1 b1 && ia6_eqb a2 b2 && Bool.eqb ar br
  | R6Status x, R6Status y => x =? y
  | _, _ => false
  end.
Definition snap6_eqb (a b : snap6) : bool :=
  set_eqb e3_eqb (s6_leases a) (s6_leases b) &&
  set_eqb e2_eqb (s6_aalloc a) (s6_aalloc b) && listN_eqb (s6_aavail a) (s6_aavail b) &&
  set_eqb e2_eqb (s6_palloc a) (s6_palloc b) && listN_eqb (s6_pavail a) (s6_pavail b).
Definition out6_eqb (a b : out6) : bool := reply6_eqb (fst a) (fst b) && snap6_eqb (snd a) (snd b).
