(* Model of pkg/dhcp/server.go in the "external allocator" configuration: SetHTTPAllocator(alloc, pool)
   with a non-empty pool id (walled-garden mode; no Nexus client, no peer pool, RADIUS off), as coded
   after fix 9e598d4 (handleRequest accepts an address outside the local checks only when the
   allocator's lookup returns it for that MAC).

   The remote allocator is an ORACLE: the answer LookupIPv4(mac, pool) would give during a message is
   an input of the op ([lookup]); nothing is assumed about it here (the theorems state their guard).
     handleDiscover: an unexpired existing lease is re-offered (no lookup); otherwise the lookup is
       made: hit a -> OFFER a, nothing recorded anywhere; miss / error -> local pool as without allocator.
     handleRequest: existing lease -> renewal exactly as without allocator (no lookup); no lease ->
       lookup: hit a with a = requested address -> lease created, ACK, local pool untouched; any other
       answer -> the local-pool path (Contains + Reserve).
     RELEASE / DECLINE / INFORM / expiry are the same code: Pool.Release of an address the local pool
       never allocated is a no-op (the server never calls the allocator's release).

   Ghost marker 0203: the address the allocator names has been declined (it is in Pool.unavailable)
   and is OFFERed / ACKed all the same - DECLINE is neither reported to the allocator nor consulted
   for allocator addresses. *)
From Coq Require Import NArith List Bool.
From Verif Require Import Model.Dhcp4.
Import ListNotations.
Local Open Scope N_scope.

Inductive lookup := LkHit (ip : N) | LkMiss | LkErr.
Definition op4h := (op4 * lookup)%type.

Definition mark_declined (s : state4) (a : N) : list N := if memN a (unavail s) then [203] else [].

Definition step4h (c : cfg4) (s : state4) (oh : op4h) : state4 * reply4 * list N :=
  let '(o, lk) := oh in
  match o with
  | Discover m =>
      let reuse := match existing s m with Some e => now s <? l_exp (fst e) | None => false end in
      if reuse then step4 c s o
      else match lk with
           | LkHit a => (s, ROffer a, mark_declined s a)
           | _ => step4 c s o
           end
  | Request m =>
      match existing s m with
      | Some _ => step4 c s o
      | None =>
          match lk with
          | LkHit a => if a =? requested m then (do_ack c s m None a, RAck a, mark_declined s a) else step4 c s o
          | _ => step4 c s o
          end
      end
  | _ => step4 c s o
  end.

Definition step4hs (c : cfg4) (s : state4) (o : op4h) : state4 := fst (fst (step4h c s o)).
Definition run4h (c : cfg4) (ops : list op4h) : state4 := fold_left (step4hs c) ops (init4 c).

Definition step4ho (c : cfg4) (s : state4) (o : op4h) : state4 * out4 * list N :=
  let '(s', r, mk) := step4h c s o in (s', (r, snap_of s'), mk).
