(* C05 / C01 at the level where "live subscriber" is defined: pkg/dhcpv6/server.go, the lease table
   of dhcpv6.Server composed with its two legacy pools (AddressPool, PrefixPool).  The pools are the
   ONE parametric free-list Model (Model/FreeList.v, [FreeList.step] on [Alloc d] / [Release d]);
   this file adds the server's handlers as coded:

     handleSolicit   rapid commit -> buildReply, else buildAdvertise (allocates in the pools for the
                     DUID but creates NO lease)
     handleRequest   server-id must be ours -> buildReply (lease entry created first, then IA_NA /
                     IA_PD served from the pools; the lease records what was served)
     handleRenew / handleRebind   no lease -> Reply NoBinding; else buildReply
     handleRelease   ONLY what the lease records is released (Address -> AddressPool.Release,
                     Prefix -> PrefixPool.Release), then the lease is deleted
     handleDecline   = handleRelease
   The server never compares a lifetime with the clock.  [MTick] lets time pass; nothing happens.

   Configuration: each legacy pool present or not ([k_hasA], [k_hasP]); the integrated PoolAllocator
   branch is NOT modelled.  Every message carries a Client ID and at most one IA_NA and one IA_PD.

   GHOST fields (no transition reads them): [v_ga] / [v_gp] = until when the lifetimes last sent to a
   client for its address / prefix run (Advertise and Reply both carry the valid lifetime); [v_now].
   They place the markers
     506  Release / Decline leaves a unit allocated in a pool for the departing client (the lease does
          not record it: it was reserved by an Advertise), nothing will ever free it
     507  time passes beyond the lifetime last granted for a unit and the pool still holds it (no expiry). *)
From Coq Require Import NArith List Bool.
From Verif Require Import Model.PoolMap Model.PoolSpec Model.FreeList.
Import ListNotations.
Local Open Scope N_scope.

Record k6 := { k_hasA : bool; k_hasP : bool; k_ua : list N; k_up : list N; k_valid : N }.
Record lease6p := { q_na : option N; q_pd : option N }.
Record sv6 := { v_a : fstate; v_p : fstate; v_l : amap lease6p; v_now : N; v_ga : amap N; v_gp : amap N }.

Definition sv_init (k : k6) : sv6 :=
  {| v_a := finit true (k_ua k); v_p := finit true (k_up k); v_l := []; v_now := 0; v_ga := []; v_gp := [] |}.

Inductive msg6 :=
| MSolicit (d : N) (rapid na pd : bool)
| MRequest (d : N) (sid_ok na pd : bool)
| MRenew (d : N) (rebind na pd : bool)
| MRelease (d : N)
| MDecline (d : N)
| MTick (t : N).

Inductive xia := XaNone | XaVal (u : N) | XaErr (code : N).     (* 2 NoAddrsAvail, 6 NoPrefixAvail *)
Inductive rep6 :=
| P6None
| P6Adv (na pd : xia)
| P6Reply (na pd : xia) (rapid : bool)      (* Reply with top-level status Success *)
| P6Status (code : N).                       (* Reply carrying only a status code: 0 Success, 3 NoBinding *)

(* AddressPool.Allocate / PrefixPool.Allocate: nil when nothing is available *)
Definition pl_alloc (f : fstate) (d : N) : fstate * option N :=
  match FreeList.step f (Alloc d) with
  | (f', OUnit u, _) => (f', Some u)
  | (f', _, _) => (f', None)
  end.
Definition pl_release (f : fstate) (d : N) : fstate := fst (fst (FreeList.step f (Release d))).

Definition get_lease (s : sv6) (d : N) : lease6p :=
  match aget d (v_l s) with Some l => l | None => {| q_na := None; q_pd := None |} end.

(* one IA served from one pool for client [d]: the pool, what happened (None: not asked or no such pool;
   Some None: nothing available; Some (Some u): served), the ghost grants *)
Definition serve (on : bool) (f : fstate) (g : amap N) (d until : N) : fstate * option (option N) * amap N :=
  if on then
    match pl_alloc f d with
    | (f', Some u) => (f', Some (Some u), aset d until g)
    | (f', None) => (f', Some None, g)
    end
  else (f, None, g).

Definition adv_ia (r : option (option N)) : xia := match r with Some (Some u) => XaVal u | _ => XaNone end.
Definition rep_ia (code : N) (r : option (option N)) : xia :=
  match r with Some (Some u) => XaVal u | Some None => XaErr code | None => XaNone end.
Definition served (r : option (option N)) (old : option N) : option N :=
  match r with Some (Some u) => Some u | _ => old end.

(* buildAdvertise: a failed allocation simply leaves the IA out; no lease is created *)
Definition advertise (k : k6) (s : sv6) (d : N) (na pd : bool) : sv6 * rep6 :=
  let '(fa, ra, ga) := serve (na && k_hasA k) (v_a s) (v_ga s) d (v_now s + k_valid k) in
  let '(fp, rp, gp) := serve (pd && k_hasP k) (v_p s) (v_gp s) d (v_now s + k_valid k) in
  ({| v_a := fa; v_p := fp; v_l := v_l s; v_now := v_now s; v_ga := ga; v_gp := gp |},
   P6Adv (adv_ia ra) (adv_ia rp)).

(* buildReply: the lease entry exists from here on, whatever is served; it records what was served *)
Definition build_reply (k : k6) (s : sv6) (d : N) (na pd rapid : bool) : sv6 * rep6 :=
  let l0 := get_lease s d in
  let '(fa, ra, ga) := serve (na && k_hasA k) (v_a s) (v_ga s) d (v_now s + k_valid k) in
  let '(fp, rp, gp) := serve (pd && k_hasP k) (v_p s) (v_gp s) d (v_now s + k_valid k) in
  ({| v_a := fa; v_p := fp;
      v_l := aset d {| q_na := served ra (q_na l0); q_pd := served rp (q_pd l0) |} (v_l s);
      v_now := v_now s; v_ga := ga; v_gp := gp |},
   P6Reply (rep_ia 2 ra) (rep_ia 6 rp) rapid).

(* handleRelease (and handleDecline) *)
Definition release (s : sv6) (d : N) : sv6 * list N :=
  match aget d (v_l s) with
  | Some l =>
      let fa := match q_na l with Some _ => pl_release (v_a s) d | None => v_a s end in
      let fp := match q_pd l with Some _ => pl_release (v_p s) d | None => v_p s end in
      ({| v_a := fa; v_p := fp; v_l := adel d (v_l s); v_now := v_now s;
          v_ga := adel d (v_ga s); v_gp := adel d (v_gp s) |},
       if ahas d (f_alloc fa) || ahas d (f_alloc fp) then [506] else [])
  | None =>
      ({| v_a := v_a s; v_p := v_p s; v_l := v_l s; v_now := v_now s;
          v_ga := adel d (v_ga s); v_gp := adel d (v_gp s) |},
       if ahas d (f_alloc (v_a s)) || ahas d (f_alloc (v_p s)) then [506] else [])
  end.

(* every unit a pool holds was granted to its holder for a time that has not run out *)
Definition grants_live (now : N) (al : amap N) (g : amap N) : bool :=
  forallb (fun p => match aget (fst p) g with Some t => now <=? t | None => false end) al.

Definition step6 (k : k6) (s : sv6) (m : msg6) : sv6 * rep6 * list N :=
  match m with
  | MSolicit d rapid na pd =>
      if rapid then (build_reply k s d na pd true, []) else (advertise k s d na pd, [])
  | MRequest d sid_ok na pd =>
      if sid_ok then (build_reply k s d na pd false, []) else (s, P6None, [])
  | MRenew d _ na pd =>
      match aget d (v_l s) with
      | None => (s, P6Status 3, [])
      | Some _ => (build_reply k s d na pd false, [])
      end
  | MRelease d => let '(s', mk) := release s d in (s', P6Status 0, mk)
  | MDecline d => let '(s', mk) := release s d in (s', P6Status 0, mk)
  | MTick t =>
      let now := v_now s + t in
      ({| v_a := v_a s; v_p := v_p s; v_l := v_l s; v_now := now; v_ga := v_ga s; v_gp := v_gp s |}, P6None,
       if grants_live now (f_alloc (v_a s)) (v_ga s) && grants_live now (f_alloc (v_p s)) (v_gp s) then [] else [507])
  end.

Definition next6 (k : k6) (s : sv6) (m : msg6) : sv6 := fst (fst (step6 k s m)).
Definition reply6 (k : k6) (s : sv6) (m : msg6) : rep6 := snd (fst (step6 k s m)).
Definition marks6 (k : k6) (s : sv6) (m : msg6) : list N := snd (step6 k s m).
Definition run6 (k : k6) (ms : list msg6) : sv6 := fold_left (next6 k) ms (sv_init k).

(* ---- observables: the reply and a snapshot of lease table + both pools ---- *)
Record snap6 := { n_leases : list (N * (N * N));     (* duid -> (address + 1 or 0, prefix + 1 or 0) *)
                  n_aal : list (N * N); n_aav : list N;
                  n_pal : list (N * N); n_pav : list N }.
Definition out6 := (rep6 * snap6)%type.

Definition optn (o : option N) : N := match o with Some v => v + 1 | None => 0 end.

Fixpoint ins_key {V} (x : N * V) (l : list (N * V)) : list (N * V) :=
  match l with
  | [] => [x]
  | y :: tl => if fst x <=? fst y then x :: l else y :: ins_key x tl
  end.
Definition sort_key {V} (l : list (N * V)) : list (N * V) := fold_right ins_key [] l.

Definition snap_of (s : sv6) : snap6 :=
  {| n_leases := sort_key (map (fun p => (fst p, (optn (q_na (snd p)), optn (q_pd (snd p))))) (v_l s));
     n_aal := sort_key (f_alloc (v_a s)); n_aav := f_avail (v_a s);
     n_pal := sort_key (f_alloc (v_p s)); n_pav := f_avail (v_p s) |}.

Definition step6o (k : k6) (s : sv6) (m : msg6) : sv6 * out6 * list N :=
  let '(s', r, mk) := step6 k s m in (s', (r, snap_of s'), mk).

Definition xia_eqb (a b : xia) : bool :=
  match a, b with
  | XaNone, XaNone => true
  | XaVal x, XaVal y | XaErr x, XaErr y => x =? y
  | _, _ => false
  end.
Definition rep6_eqb (a b : rep6) : bool :=
  match a, b with
  | P6None, P6None => true
  | P6Adv a1 a2, P6Adv b1 b2 => xia_eqb a1 b1 && xia_eqb a2 b2
  | P6Reply a1 a2 ar, P6Reply b1 b2 br => xia_eqb a1 b1 && xia_eqb a2 b2 && Bool.eqb ar br
  | P6Status x, P6Status y => x =? y
  | _, _ => false
  end.
Fixpoint listN_eqb (a b : list N) : bool :=
  match a, b with
  | [], [] => true
  | x :: a', y :: b' => (x =? y) && listN_eqb a' b'
  | _, _ => false
  end.
Fixpoint leases_eqb (a b : list (N * (N * N))) : bool :=
  match a, b with
  | [], [] => true
  | (d, (x, y)) :: a', (d', (x', y')) :: b' => (d =? d') && (x =? x') && (y =? y') && leases_eqb a' b'
  | _, _ => false
  end.
Definition snap6_eqb (a b : snap6) : bool :=
  leases_eqb (n_leases a) (n_leases b) &&
  pairs_eqb (n_aal a) (n_aal b) && listN_eqb (n_aav a) (n_aav b) &&
  pairs_eqb (n_pal a) (n_pal b) && listN_eqb (n_pav a) (n_pav b).
Definition out6_eqb (a b : out6) : bool := rep6_eqb (fst a) (fst b) && snap6_eqb (snd a) (snd b).
