(* C09 — Model of the handler GLUE between the decoders and the state changes:
   - nil pointers: a Go pointer that may be nil is an [option]; every dereference goes through
     [deref], which is [Panic] on [None] (never a default value).  Map lookups that miss return the
     nil pointer, nil-with-error results of decoders are [None].
   - pkg/dhcpv6/server.go handleMessage and the eight handlers on a server WITH lease state
     (lease table lookup hit / miss, lease with or without address / prefix), including the nil
     guards on the optional Client Identifier / Server Identifier options and on ParseDUID's result.
   - pkg/pppoe/session.go: the session table as a Go map (key list without duplicates,
     len = number of keys), so that the id scan is analysed for EVERY table state.
   - pkg/pppoe/server.go receiveLoop body: Ethernet header slicing, runt-frame check, destination
     filter, dispatch on the EtherType to handleDiscovery / handleSession (with the source MAC
     being or not being the owner of the live session). *)
From Coq Require Import ZArith NArith List Lia ZifyN ZifyNat ZifyBool Bool.
From Verif Require Import Model.CodecBase Model.CodecPPPoE Model.CodecDhcp6.
Import ListNotations.
Local Open Scope N_scope.

(* ---- pointers *)
Definition deref {A} (p : option A) : res A := match p with Some a => Ok a | None => Panic end.

(* a decoder returning a pointer and an error: the pointer is nil exactly when there is an error *)
Definition as_ptr (r : res rows) : res (option rows) :=
  match r with Ok v => Ok (Some v) | Err => Ok None | Panic => Panic | Hang => Hang end.

(* ---- DHCPv6 handlers with lease state.
   [hit]  : s.leases[clientDUID] finds a lease (the pointer is non-nil exactly then)
   [la lp]: that lease has an address / a prefix
   [nl]   : len(s.leases) before the datagram
   Result: one row (advertises_sent delta, replies_sent delta, len(s.leases) afterwards). *)
Definition lease_t := (bool * bool)%type.

(* handleConfirm's walk; the Model dereferences the lease for every well-formed IAAddr when
   hasLease holds (the code does so only for addresses inside the pool: the Model is stricter) *)
Fixpoint walk_addrs2 (has : bool) (lease : option lease_t) (os : rows) : res unit :=
  match os with
  | [] => Ok tt
  | (code :: _ :: v) :: tl =>
      _ <- (if code =? 5 then
              match d6_iaaddr v with
              | Ok _ => if has then (l <- deref lease ;; Ok (if fst l then [[1]] else [])) else Ok []
              | Err => Ok []
              | Panic => Panic
              | Hang => Hang
              end
            else Ok []) ;; walk_addrs2 has lease tl
  | _ :: tl => walk_addrs2 has lease tl
  end.
Fixpoint walk_confirm2 (has : bool) (lease : option lease_t) (os : rows) : res unit :=
  match os with
  | [] => Ok tt
  | (code :: _ :: v) :: tl =>
      _ <- (if code =? 3 then
              match d6_ia v with
              | Ok (_ :: inner) => walk_addrs2 has lease inner
              | Ok [] => Ok tt
              | Err => Ok tt
              | Panic => Panic
              | Hang => Hang
              end
            else Ok tt) ;; walk_confirm2 has lease tl
  | _ :: tl => walk_confirm2 has lease tl
  end.

(* buildAdvertise / buildReply return a pointer to a Message: nil when the Client Identifier is absent *)
Definition build_msg (os : rows) : res (option unit) :=
  match find_opt os 1 with
  | None => Ok None
  | Some _ => _ <- walk_ias os ;; Ok (Some tt)
  end.

Definition d6_handle_st (hit la lp : bool) (nl : N) (server_duid prepared d : bytes) : res rows :=
  m <- d6_message d ;;
  match m with
  | (ty :: _) :: os =>
      match find_opt os 1 with
      | None => Ok [[0; 0; nl]]                       (* every handler: clientIDOpt == nil => return *)
      | Some cid =>
          let has := hit && bytes_eqb cid prepared in
          let lease : option lease_t := if has then Some (la, lp) else None in
          let nl_made := if has then nl else nl + 1 in   (* buildReply: get or create the lease *)
          if ty =? 1 then
            match find_opt os 14 with
            | Some _ =>   (* rapid commit: response = buildReply(...); response.Options = append(...) *)
                r <- build_msg os ;; _ <- deref r ;; Ok [[1; 0; nl_made]]
            | None =>
                r <- build_msg os ;;
                match r with None => Ok [[0; 0; nl]] | Some _ => Ok [[1; 0; nl]] end
            end
          else if ty =? 3 then
            match find_opt os 2 with
            | None => Ok [[0; 0; nl]]
            | Some sd =>
                p <- as_ptr (d6_duid sd) ;;            (* serverDUID, _ := ParseDUID(...) *)
                match p with
                | None => Ok [[0; 0; nl]]              (* serverDUID == nil || ... *)
                | Some _ =>
                    _ <- deref p ;;                    (* serverDUID.Serialize() *)
                    if bytes_eqb sd server_duid then
                      (r <- build_msg os ;;
                       match r with None => Ok [[0; 0; nl]] | Some _ => Ok [[0; 1; nl_made]] end)
                    else Ok [[0; 0; nl]]
                end
            end
          else if ty =? 4 then (_ <- walk_confirm2 has lease os ;; Ok [[0; 1; nl]])
          else if (ty =? 5) || (ty =? 6) then
            if has then
              (_ <- deref lease ;;                     (* lease.LastRenew = ... *)
               r <- build_msg os ;;
               match r with None => Ok [[0; 0; nl]] | Some _ => Ok [[0; 1; nl]] end)
            else Ok [[0; 0; nl]]                       (* NoBinding reply, not counted *)
          else if (ty =? 8) || (ty =? 9) then
            if has then (l <- deref lease ;; Ok [[0; 1; nl - 1]])   (* lease.Address / lease.Prefix read, delete *)
            else Ok [[0; 1; nl]]
          else if ty =? 11 then Ok [[0; 1; nl]]
          else Ok [[0; 0; nl]]
      end
  | _ => Ok [[0; 0; nl]]
  end.

(* parameter vector of entry 28: [hit; la; lp; nl; exhausted (implementation-side only);
   len server_duid; server_duid...; prepared...] *)
Definition nzb (x : N) : bool := negb (x =? 0).
Definition d6_handle_p (p : list N) (d : bytes) : res rows :=
  let k := N.to_nat (nth 5 p 0) in
  d6_handle_st (nzb (nth 0 p 0)) (nzb (nth 1 p 0)) (nzb (nth 2 p 0)) (nth 3 p 0)
               (firstn k (skipn 6 p)) (skipn k (skipn 6 p)) d.

(* ---- the session table as a Go map: the keys present, without duplicates *)
Definition mem (keys : list N) (id : N) : bool := existsb (N.eqb id) keys.

Definition create_tbl (keys : list N) (next : N) : res (N * N) :=
  create_session (mem keys) (lenN keys) next.

(* handlePADR on a table: PADS (code 101) with the issued id, or nothing when CreateSession fails;
   second component: the table and cursor afterwards *)
Definition padr_tbl (keys : list N) (next : N) : res (rows * (list N * N)) :=
  match create_tbl keys next with
  | Ok (id, nx) => Ok ([[101; id]], (id :: keys, nx))
  | Err => Ok ([], (keys, next))
  | Panic => Panic
  | Hang => Hang
  end.

(* a PADR flood: n PADRs one after the other on the same table *)
Fixpoint padr_flood (n : nat) (keys : list N) (next : N) : res rows :=
  match n with
  | O => Ok []
  | S n' =>
      x <- padr_tbl keys next ;;
      let '(r, (k', nx)) := x in
      rest <- padr_flood n' k' nx ;; Ok (r ++ rest)
  end.

(* ---- server.go receiveLoop body for one received frame: [frame] = buf[:n], [tail] = the rest of
   the 1522-byte receive buffer.  [mac_ok] = the destination is broadcast or the server's MAC. *)
Definition server_mac : bytes := [2; 0; 0; 0; 0; 1].
Definition bcast_mac : bytes := [255; 255; 255; 255; 255; 255].

Definition client_mac : bytes := [2; 170; 187; 204; 221; 1].   (* the station that owns the live session *)

(* what a frame from a station that does NOT own the session achieves: session-stage frames are
   ignored (handleSession's owner check), a PADT does not terminate the session (handlePADT's owner
   check); PADI / PADR are answered whoever sends them *)
Definition not_owner_view (count : N) (discovery is_padt : bool) (r : res rows) : res rows :=
  match r with
  | Ok v => if discovery && negb is_padt then Ok v else Ok [[count]]
  | x => x
  end.

Definition recv_frame (sid_live authed : N) (frame tail : bytes) : res rows :=
  let count := if sid_live =? 0 then 0 else 1 in
  if lenN frame <? 14 then Ok [[count]] else
  dst <- sub frame tail 0 6 ;;
  src <- sub frame tail 6 12 ;;
  et <- be16 frame 12 ;;
  if negb (bytes_eqb dst bcast_mac) && negb (bytes_eqb dst server_mac) then Ok [[count]] else
  pl <- sub frame tail 14 (lenN frame) ;;
  let owner := bytes_eqb src client_mac in
  let is_padt := match nth_error pl 1 with Some c => c =? 167 | None => false end in
  if et =? 34915 then          (* 0x8863 *)
    (if owner then handle_discovery sid_live pl tail
     else not_owner_view count true is_padt (handle_discovery sid_live pl tail))
  else if et =? 34916 then     (* 0x8864 *)
    (if owner then handle_session sid_live authed pl tail
     else not_owner_view count false false (handle_session sid_live authed pl tail))
  else Ok [[count]].
