(* Checked-access monad over one frame (C07).

   A frame is the byte string between ctx->data and ctx->data_end.  Every load/store of the C
   programs goes through rd8/rd16/rd32, wr8/wr16/wr32; an access whose last byte is not inside the
   frame yields [OOB] -- a constructor of the result type, never a default value.  [Exit v] is a C
   `return v;` from the middle of the program.  The models keep every `ptr + n > data_end` test of
   the C source as an explicit `if off + n >? dl` (dl = data_end - data), so "never OOB" is a
   statement about the code's own tests.

   Multi-byte loads are what the (little-endian) CPU does: rd16 off = b[off] + 256*b[off+1];
   constants are written as in the C (`htons 0x0800`). *)
From Coq Require Import NArith List Bool.
From Verif Require Import Base.Word.
Import ListNotations.
Local Open Scope N_scope.

Definition frame := list N.
Definition flen (f : frame) : N := N.of_nat (length f).

Inductive res (A : Type) : Type :=
| Val (a : A) (f : frame)
| Exit (v : N) (f : frame)
| OOB.
Arguments Val {A} a f.
Arguments Exit {A} v f.
Arguments OOB {A}.

Definition M (A : Type) : Type := frame -> res A.
Definition ret {A} (a : A) : M A := fun f => Val a f.
Definition exit {A} (v : N) : M A := fun f => Exit v f.
Definition bind {A B} (m : M A) (k : A -> M B) : M B :=
  fun f => match m f with Val a f' => k a f' | Exit v f' => Exit v f' | OOB => OOB end.

Declare Scope pkt_scope.
Delimit Scope pkt_scope with pkt.
Notation "x <- m ;; k" := (bind m (fun x => k)) (at level 61, m at next level, right associativity) : pkt_scope.
Notation "m ;;; k" := (bind m (fun _ => k)) (at level 61, right associativity) : pkt_scope.
(* the C writes its bounds tests as `ptr + n > data_end` *)
Notation "a >? b" := (N.ltb b a) (at level 70, no associativity) : pkt_scope.

(* ---- raw byte access (total; only used below the bounds test of the rd/wr accessors) *)
Definition getb (off : N) (f : frame) : N := nth (N.to_nat off) f 0.
Definition get16 (off : N) (f : frame) : N := getb off f + 256 * getb (off + 1) f.
Definition get32 (off : N) (f : frame) : N :=
  getb off f + 256 * (getb (off + 1) f + 256 * (getb (off + 2) f + 256 * getb (off + 3) f)).

Fixpoint set_nth (n : nat) (v : N) (l : list N) : list N :=
  match l, n with
  | [], _ => []
  | _ :: tl, O => v :: tl
  | x :: tl, S k => x :: set_nth k v tl
  end.
Definition setb (off v : N) (f : frame) : frame := set_nth (N.to_nat off) (N.land v 255) f.
Definition set16 (off v : N) (f : frame) : frame := setb (off + 1) (N.shiftr v 8) (setb off v f).
Definition set32 (off v : N) (f : frame) : frame :=
  setb (off + 3) (N.shiftr v 24) (setb (off + 2) (N.shiftr v 16) (setb (off + 1) (N.shiftr v 8) (setb off v f))).

(* ---- checked access: width w at offset off is inside the frame iff off + w <= len.
   [has_bytes n f] decides n <= len f by walking to byte n-1 instead of measuring the whole frame
   (PktMonadProofs.has_bytes_spec: has_bytes n f = (n <=? flen f)); this only matters for the speed
   of evaluating the Model on 1600-byte frames. *)
Definition has_bytes (n : N) (f : frame) : bool :=
  match n with
  | 0 => true
  | _ => match skipn (N.to_nat (n - 1)) f with [] => false | _ :: _ => true end
  end.
Definition rd8 (off : N) : M N := fun f => if has_bytes (off + 1) f then Val (getb off f) f else OOB.
Definition rd16 (off : N) : M N := fun f => if has_bytes (off + 2) f then Val (get16 off f) f else OOB.
Definition rd32 (off : N) : M N := fun f => if has_bytes (off + 4) f then Val (get32 off f) f else OOB.
Definition wr8 (off v : N) : M unit := fun f => if has_bytes (off + 1) f then Val tt (setb off v f) else OOB.
Definition wr16 (off v : N) : M unit := fun f => if has_bytes (off + 2) f then Val tt (set16 off v f) else OOB.
Definition wr32 (off v : N) : M unit := fun f => if has_bytes (off + 4) f then Val tt (set32 off v f) else OOB.

(* k consecutive byte loads / stores (the unrolled `for (i = 0; i < K; i++)` loops of the C) *)
Fixpoint rd_bytes (k : nat) (off : N) : M (list N) :=
  match k with
  | O => ret []
  | S k' => (b <- rd8 off ;; tl <- rd_bytes k' (off + 1) ;; ret (b :: tl))%pkt
  end.
Fixpoint wr_bytes (l : list N) (off : N) : M unit :=
  match l with
  | [] => ret tt
  | b :: tl => (wr8 off b ;;; wr_bytes tl (off + 1))%pkt
  end.
Fixpoint wr_zero (k : nat) (off : N) : M unit :=       (* __builtin_memset(p, 0, k) *)
  match k with
  | O => ret tt
  | S k' => (wr8 off 0 ;;; wr_zero k' (off + 1))%pkt
  end.

(* ---- byte order helpers (values are what a little-endian CPU holds) *)
Definition htons (v : N) : N := N.lor (N.shiftl (N.land v 255) 8) (N.land (N.shiftr v 8) 255).
Definition ntohs := htons.
Definition htonl (v : N) : N :=
  N.lor (N.lor (N.shiftl (N.land v 255) 24) (N.shiftl (N.land (N.shiftr v 8) 255) 16))
        (N.lor (N.shiftl (N.land (N.shiftr v 16) 255) 8) (N.land (N.shiftr v 24) 255)).
Definition ntohl := htonl.

(* little-endian encoding of integers into map keys / decoding of map value fields *)
Fixpoint le_n (n : nat) (v : N) : list N :=
  match n with O => [] | S k => N.land v 255 :: le_n k (N.shiftr v 8) end.
Fixpoint le_v (l : list N) : N := match l with [] => 0 | b :: tl => b + 256 * le_v tl end.
Definition fld (off w : nat) (v : list N) : N := le_v (firstn w (skipn off v)).   (* field of a map value *)

(* ---- verdicts *)
Definition XDP_ABORTED : N := 0.
Definition XDP_DROP : N := 1.
Definition XDP_PASS : N := 2.
Definition XDP_TX : N := 3.
Definition TC_ACT_OK : N := 0.
Definition TC_ACT_SHOT : N := 2.

(* ---- maps: an arbitrary function from (map id, raw key bytes) to raw value bytes.
   The theorems quantify over every such function; the harness instantiates it with the dumped
   contents of the kernel / native maps (PktCheck.v). *)
Definition maps := N -> list N -> option (list N).

(* ---- environment of one run *)
Record env := { e_now : N;        (* bpf_ktime_get_ns() *)
                e_skblen : N;     (* skb->len (TC) *)
                e_maxlen : N }.   (* longest frame bpf_xdp_adjust_tail can produce (tailroom) *)

(* ---- running a program: the value of the body is the C return value *)
Inductive outcome : Type := Done (v : N) (f : frame) | Fault.
Definition run (m : M N) (f : frame) : outcome :=
  match m f with Val v f' => Done v f' | Exit v f' => Done v f' | OOB => Fault end.

(* bpf_xdp_adjust_tail followed by the C's `if (ret != 0) return XDP_PASS; return XDP_TX;`.
   The helper (kernel and native runner alike) refuses a new length below ETH_HLEN or beyond the
   frame's tailroom; on success the frame is cut or extended with zero bytes. *)
Definition resize (n : N) (f : frame) : frame :=
  firstn (N.to_nat n) f ++ repeat 0 (N.to_nat n - length f).
