(* Packet-access skeleton of bpf/nat44.c : nat44_egress, nat44_ingress (TC), nat44_hairpin_xdp (XDP).
   Every data_end comparison of the C is an explicit test (including the ones repeated after the
   IP header has been rewritten); l4_hdr = ip + ihl*4 with ihl the low nibble of the first IP byte,
   ANY value 0..15, exactly as the C computes it (for ihl < 5 the L4 header overlaps the IP header:
   the accesses are still inside the frame and the model performs them on the same flat bytes).
   What decides the bytes written (session / EIM / port-block lookups, the 64-iteration port search,
   the incremental checksums) is modelled; statistics, log records and the map updates of one run
   (session creation, counters) are map state, not packet memory, and are left out.

   struct nat_key       { u32 src_ip; u32 dst_ip; u16 src_port; u16 dst_port; u8 protocol; u8 pad[3] }   16
   struct nat_session   { u32 nat_ip @0; u16 nat_port @4; u16 orig_port @6; u32 orig_ip @8; ... }        80
   struct subscriber_nat{ port_block { u32 public_ip @0; u16 port_start @4; u16 port_end @6;
                                       u32 next_port @8; ... } ... }                                     64
   struct eim_key       { u32 internal_ip; u16 internal_port; u8 protocol; u8 pad }                      8
   struct eim_mapping   { u32 external_ip @0; u16 external_port @4; ... }                                32
   struct nat_config    { u32 flags @0; ... }                                                            16 *)
From Coq Require Import NArith List Bool.
From Verif Require Import Base.Word Model.PktMonad.
Import ListNotations.
Local Open Scope N_scope.
Local Open Scope pkt_scope.

Definition MAP_NAT_SESSIONS : N := 20.
Definition MAP_NAT_REVERSE : N := 21.
Definition MAP_EIM : N := 22.
Definition MAP_SUBSCRIBER_NAT : N := 23.
Definition MAP_NAT_CONFIG : N := 24.
Definition MAP_HAIRPIN_IPS : N := 25.
Definition MAP_ALG_PORTS : N := 26.

Definition NAT_FLAG_EIM_ENABLED : N := 1.
Definition NAT_FLAG_HAIRPIN_ENABLED : N := 4.
Definition NAT_FLAG_ALG_FTP : N := 8.
Definition NAT_FLAG_ALG_SIP : N := 16.
Definition NAT_FLAG_PORT_PARITY : N := 32.

Definition IPPROTO_ICMP : N := 1.
Definition IPPROTO_TCP : N := 6.
Definition IPPROTO_UDP : N := 17.

Definition M16 : N := 65535.

Definition csum_fold (c : N) : N :=
  let c1 := N.land c M16 + N.shiftr c 16 in
  let c2 := N.land c1 M16 + N.shiftr c1 16 in
  M16 - N.land c2 M16.
Definition update_csum_v (csum old_val new_val : N) : N :=
  csum_fold ((M16 - N.land csum M16) + (M16 - N.land old_val M16) + (M16 - N.land (N.shiftr old_val 16) M16)
             + N.land new_val M16 + N.shiftr new_val 16).
Definition update_csum16_v (csum old_val new_val : N) : N :=
  csum_fold ((M16 - N.land csum M16) + (M16 - N.land old_val M16) + N.land new_val M16).
(* the C helpers load *csum, then store the new value *)
Definition update_csum (off old_val new_val : N) : M unit :=
  c <- rd16 off ;; wr16 off (update_csum_v c old_val new_val).
Definition update_csum16 (off old_val new_val : N) : M unit :=
  c <- rd16 off ;; wr16 off (update_csum16_v c old_val new_val).

Definition is_private_ip (ip : N) : bool :=
  let h := ntohl ip in
  let o1 := N.land (N.shiftr h 24) 255 in
  let o2 := N.land (N.shiftr h 16) 255 in
  (o1 =? 10) || ((o1 =? 172) && (16 <=? o2) && (o2 <=? 31)) || ((o1 =? 192) && (o2 =? 168))
  || ((o1 =? 100) && (64 <=? o2) && (o2 <=? 127)).

Definition nat_key (src dst sport dport proto : N) : list N :=
  le_n 4 src ++ le_n 4 dst ++ le_n 2 sport ++ le_n 2 dport ++ [N.land proto 255; 0; 0; 0].
Definition eim_key (ip port proto : N) : list N := le_n 4 ip ++ le_n 2 port ++ [N.land proto 255; 0].

Definition cfg_flags (mp : maps) : N :=
  match mp MAP_NAT_CONFIG (le_n 4 0) with Some c => fld 0 4 c | None => 0 end.
Definition has_flag (flags bit : N) : bool := negb (N.land flags bit =? 0).

(* allocate_port_from_block: 64 iterations over the block's cursor; returns (port, cursor after) *)
Fixpoint alloc_loop (k : nat) (mp : maps) (pstart pend next : N) (parity : bool) (orig_parity ip proto : N) : N * N :=
  match k with
  | O => (0, next)
  | S k' =>
      let port0 := N.land next M16 in
      let next1 := N.land (next + 1) 4294967295 in
      let port := if port0 >? pend then pstart else port0 in
      let next2 := if next1 >? pend then pstart else next1 in
      if parity && negb (N.land port 1 =? orig_parity)
      then alloc_loop k' mp pstart pend next2 parity orig_parity ip proto
      else match mp MAP_EIM (eim_key ip port proto) with
           | Some _ => alloc_loop k' mp pstart pend next2 parity orig_parity ip proto
           | None => (port, next2)
           end
  end.
Definition allocate_port (mp : maps) (sn : list N) (next : N) (parity : bool) (orig_port ip proto : N) : N * N :=
  alloc_loop 64 mp (fld 4 2 sn) (fld 6 2 sn) next parity (N.land orig_port 1) ip proto.

(* the translation chosen for a flow without a session: Some (nat_ip, nat_port) or None (exhausted -> SHOT) *)
Definition choose_mapping (mp : maps) (sn : list N) (saddr sport proto : N) : option (N * N) :=
  let flags := cfg_flags mp in
  let parity := has_flag flags NAT_FLAG_PORT_PARITY in
  let next0 := fld 8 4 sn in
  let public_ip := fld 0 4 sn in
  let fallback (next : N) :=
    let '(p, _) := allocate_port mp sn next parity (ntohs sport) saddr proto in
    if p =? 0 then None else Some (public_ip, htons p) in
  if has_flag flags NAT_FLAG_EIM_ENABLED then
    match mp MAP_EIM (eim_key saddr sport proto) with
    | Some m => Some (fld 0 4 m, htons (fld 4 2 m))
    | None =>
        let '(p, next1) := allocate_port mp sn next0 parity sport saddr proto in
        if p =? 0 then fallback next1 else Some (public_ip, htons p)
    end
  else fallback next0.

(* "Perform SNAT" *)
Definition snat_rewrite (l4 dl nat_ip nat_port : N) : M N :=
  old_ip <- rd32 26 ;;
  wr32 26 nat_ip ;;;
  update_csum 24 old_ip nat_ip ;;;
  proto <- rd8 23 ;;
  if proto =? IPPROTO_TCP then
    if l4 + 20 >? dl then exit TC_ACT_OK else
    old_port <- rd16 l4 ;;
    wr16 l4 nat_port ;;;
    update_csum (l4 + 16) old_ip nat_ip ;;;
    update_csum16 (l4 + 16) old_port nat_port ;;;
    ret TC_ACT_OK
  else if proto =? IPPROTO_UDP then
    if l4 + 8 >? dl then exit TC_ACT_OK else
    old_port <- rd16 l4 ;;
    wr16 l4 nat_port ;;;
    chk <- rd16 (l4 + 6) ;;
    (if negb (chk =? 0) then
       update_csum (l4 + 6) old_ip nat_ip ;;;
       update_csum16 (l4 + 6) old_port nat_port ;;;
       chk2 <- rd16 (l4 + 6) ;;
       if chk2 =? 0 then wr16 (l4 + 6) M16 else ret tt
     else ret tt) ;;;
    ret TC_ACT_OK
  else if proto =? IPPROTO_ICMP then
    if l4 + 8 >? dl then exit TC_ACT_OK else
    old_id <- rd16 (l4 + 4) ;;
    wr16 (l4 + 4) nat_port ;;;
    update_csum16 (l4 + 2) old_id nat_port ;;;
    ret TC_ACT_OK
  else ret TC_ACT_OK.

Definition nat_egress_body (mp : maps) (dl : N) : M N :=
  let flags := cfg_flags mp in
  if 14 >? dl then exit TC_ACT_OK else
  ethp <- rd16 12 ;;
  if negb (ethp =? htons 0x0800) then exit TC_ACT_OK else
  if 14 + 20 >? dl then exit TC_ACT_OK else
  saddr <- rd32 26 ;;
  if negb (is_private_ip saddr) then exit TC_ACT_OK else
  match mp MAP_SUBSCRIBER_NAT (le_n 4 saddr) with
  | None => exit TC_ACT_OK
  | Some sn =>
      daddr <- rd32 30 ;;
      proto <- rd8 23 ;;
      vihl <- rd8 14 ;;
      let l4 := 14 + N.land vihl 15 * 4 in
      ports <- (if proto =? IPPROTO_TCP then
                  if l4 + 20 >? dl then exit TC_ACT_OK else
                  sport <- rd16 l4 ;; dport <- rd16 (l4 + 2) ;;
                  if has_flag flags (N.lor NAT_FLAG_ALG_FTP NAT_FLAG_ALG_SIP) then
                    match mp MAP_ALG_PORTS (le_n 4 (N.lor (N.shiftl (ntohs dport) 16) IPPROTO_TCP)) with
                    | Some _ => exit TC_ACT_OK
                    | None => ret (sport, dport)
                    end
                  else ret (sport, dport)
                else if proto =? IPPROTO_UDP then
                  if l4 + 8 >? dl then exit TC_ACT_OK else
                  sport <- rd16 l4 ;; dport <- rd16 (l4 + 2) ;;
                  if has_flag flags NAT_FLAG_ALG_SIP then
                    match mp MAP_ALG_PORTS (le_n 4 (N.lor (N.shiftl (ntohs dport) 16) IPPROTO_UDP)) with
                    | Some _ => exit TC_ACT_OK
                    | None => ret (sport, dport)
                    end
                  else ret (sport, dport)
                else if proto =? IPPROTO_ICMP then
                  if l4 + 8 >? dl then exit TC_ACT_OK else
                  id <- rd16 (l4 + 4) ;; ret (id, 0)
                else exit TC_ACT_OK) ;;
      let '(sport, dport) := ports in
      match mp MAP_NAT_SESSIONS (nat_key saddr daddr sport dport proto) with
      | Some s => snat_rewrite l4 dl (fld 0 4 s) (fld 4 2 s)
      | None =>
          match choose_mapping mp sn saddr sport proto with
          | None => exit TC_ACT_SHOT
          | Some (nat_ip, nat_port) => snat_rewrite l4 dl nat_ip nat_port
          end
      end
  end.

Definition nat44_egress (mp : maps) : M N := fun f => nat_egress_body mp (flen f) f.

(* "Perform DNAT" *)
Definition dnat_rewrite (l4 dl new_ip orig_port : N) : M N :=
  old_ip <- rd32 30 ;;
  wr32 30 new_ip ;;;
  update_csum 24 old_ip new_ip ;;;
  proto <- rd8 23 ;;
  if proto =? IPPROTO_TCP then
    if l4 + 20 >? dl then exit TC_ACT_OK else
    old_port <- rd16 (l4 + 2) ;;
    wr16 (l4 + 2) orig_port ;;;
    update_csum (l4 + 16) old_ip new_ip ;;;
    update_csum16 (l4 + 16) old_port orig_port ;;;
    ret TC_ACT_OK
  else if proto =? IPPROTO_UDP then
    if l4 + 8 >? dl then exit TC_ACT_OK else
    old_port <- rd16 (l4 + 2) ;;
    wr16 (l4 + 2) orig_port ;;;
    chk <- rd16 (l4 + 6) ;;
    (if negb (chk =? 0) then
       update_csum (l4 + 6) old_ip new_ip ;;;
       update_csum16 (l4 + 6) old_port orig_port ;;;
       chk2 <- rd16 (l4 + 6) ;;
       if chk2 =? 0 then wr16 (l4 + 6) M16 else ret tt
     else ret tt) ;;;
    ret TC_ACT_OK
  else if proto =? IPPROTO_ICMP then
    if l4 + 8 >? dl then exit TC_ACT_OK else
    old_id <- rd16 (l4 + 4) ;;
    wr16 (l4 + 4) orig_port ;;;
    update_csum16 (l4 + 2) old_id orig_port ;;;
    ret TC_ACT_OK
  else ret TC_ACT_OK.

(* the reverse-table key the ingress program builds, as a (partial) reading of the frame *)
Definition nat_ingress_body (mp : maps) (dl : N) : M N :=
  if 14 >? dl then exit TC_ACT_OK else
  ethp <- rd16 12 ;;
  if negb (ethp =? htons 0x0800) then exit TC_ACT_OK else
  if 14 + 20 >? dl then exit TC_ACT_OK else
  saddr <- rd32 26 ;;
  daddr <- rd32 30 ;;
  proto <- rd8 23 ;;
  vihl <- rd8 14 ;;
  let l4 := 14 + N.land vihl 15 * 4 in
  ports <- (if proto =? IPPROTO_TCP then
              if l4 + 20 >? dl then exit TC_ACT_OK else
              sport <- rd16 l4 ;; dport <- rd16 (l4 + 2) ;; ret (sport, dport)
            else if proto =? IPPROTO_UDP then
              if l4 + 8 >? dl then exit TC_ACT_OK else
              sport <- rd16 l4 ;; dport <- rd16 (l4 + 2) ;; ret (sport, dport)
            else if proto =? IPPROTO_ICMP then
              if l4 + 8 >? dl then exit TC_ACT_OK else
              id <- rd16 (l4 + 4) ;; ret (0, id)
            else exit TC_ACT_OK) ;;
  let '(sport, dport) := ports in
  match mp MAP_NAT_REVERSE (nat_key saddr daddr sport dport proto) with
  | None => exit TC_ACT_OK
  | Some orig_key =>
      match mp MAP_NAT_SESSIONS orig_key with
      | None => exit TC_ACT_OK
      | Some s =>
          proto2 <- rd8 23 ;;
          (if proto2 =? IPPROTO_TCP then
             if l4 + 20 >? dl then exit TC_ACT_OK else
             _flags <- rd8 (l4 + 13) ;; ret tt
           else ret tt) ;;;
          dnat_rewrite l4 dl (fld 8 4 s) (fld 6 2 s)
      end
  end.

Definition nat44_ingress (mp : maps) : M N := fun f => nat_ingress_body mp (flen f) f.

Definition nat_hairpin_body (mp : maps) (dl : N) : M N :=
  match mp MAP_NAT_CONFIG (le_n 4 0) with
  | None => exit XDP_PASS
  | Some c =>
      if negb (has_flag (fld 0 4 c) NAT_FLAG_HAIRPIN_ENABLED) then exit XDP_PASS else
      if 14 >? dl then exit XDP_PASS else
      ethp <- rd16 12 ;;
      if negb (ethp =? htons 0x0800) then exit XDP_PASS else
      if 14 + 20 >? dl then exit XDP_PASS else
      saddr <- rd32 26 ;;
      if negb (is_private_ip saddr) then exit XDP_PASS else
      daddr <- rd32 30 ;;
      match mp MAP_HAIRPIN_IPS (le_n 4 daddr) with
      | None => exit XDP_PASS
      | Some _ => ret XDP_PASS
      end
  end.

Definition nat44_hairpin_xdp (mp : maps) : M N := fun f => nat_hairpin_body mp (flen f) f.

(* ---- act predicates (readings of the ORIGINAL frame; total accessors are only applied below a
   length test) *)
Definition supported_l4 (p : N) : bool := (p =? IPPROTO_TCP) || (p =? IPPROTO_UDP) || (p =? IPPROTO_ICMP).

(* egress: "subscriber_nat entry and supported L4" *)
Definition act_nat_egress (mp : maps) (f : frame) : bool :=
  (34 <=? flen f) && (get16 12 f =? htons 0x0800) && supported_l4 (getb 23 f) &&
  match mp MAP_SUBSCRIBER_NAT (le_n 4 (get32 26 f)) with Some _ => true | None => false end.

(* ingress: "reverse entry found" for the key the frame carries *)
Definition ingress_key (f : frame) : option (list N) :=
  let l4 := 14 + N.land (getb 14 f) 15 * 4 in
  let p := getb 23 f in
  if negb ((34 <=? flen f) && (get16 12 f =? htons 0x0800)) then None else
  if p =? IPPROTO_TCP then
    if l4 + 20 <=? flen f then Some (nat_key (get32 26 f) (get32 30 f) (get16 l4 f) (get16 (l4 + 2) f) p) else None
  else if p =? IPPROTO_UDP then
    if l4 + 8 <=? flen f then Some (nat_key (get32 26 f) (get32 30 f) (get16 l4 f) (get16 (l4 + 2) f) p) else None
  else if p =? IPPROTO_ICMP then
    if l4 + 8 <=? flen f then Some (nat_key (get32 26 f) (get32 30 f) 0 (get16 (l4 + 4) f) p) else None
  else None.
Definition act_nat_ingress (mp : maps) (f : frame) : bool :=
  match ingress_key f with
  | Some k => match mp MAP_NAT_REVERSE k with Some _ => true | None => false end
  | None => false
  end.
