(* C09 — Model of pkg/dhcpv6/protocol.go decoders and of the server's datagram glue
   (receiveLoop body: ParseMessage + handleMessage and the option walks of the handlers). *)
From Coq Require Import ZArith NArith List Lia ZifyN ZifyNat ZifyBool Bool.
From Verif Require Import Model.CodecBase Model.CodecPPPoE.
Import ListNotations.
Local Open Scope N_scope.

Definition d6_options (d : bytes) : res rows := fst (tlv16 false d).
Definition d6_options_steps (d : bytes) : N := snd (tlv16 false d).

(* options after a fixed part of [k] bytes: "if len(data) > k { ParseOptions(data[k:]) }" *)
Definition opts_after (d : bytes) (k : N) : res rows :=
  if k <? lenN d then (t <- from d k ;; d6_options t) else Ok [].

Definition d6_message (d : bytes) : res rows :=
  if lenN d <? 4 then Err else
  ty <- idx d 0 ;; x <- sub0 d 1 4 ;; t <- from d 4 ;; os <- d6_options t ;; Ok ((ty :: x) :: os).

Definition d6_ia (d : bytes) : res rows :=   (* ParseIANA and ParseIAPD *)
  if lenN d <? 12 then Err else
  a <- be32 d 0 ;; b <- be32 d 4 ;; c <- be32 d 8 ;; os <- opts_after d 12 ;; Ok ([a; b; c] :: os).

Definition d6_iaaddr (d : bytes) : res rows :=
  if lenN d <? 24 then Err else
  ip <- sub0 d 0 16 ;; p <- be32 d 16 ;; v <- be32 d 20 ;; os <- opts_after d 24 ;; Ok ((ip ++ [p; v]) :: os).

Definition d6_iaprefix (d : bytes) : res rows :=
  if lenN d <? 25 then Err else
  p <- be32 d 0 ;; v <- be32 d 4 ;; l <- idx d 8 ;; ip <- sub0 d 9 25 ;; os <- opts_after d 25 ;;
  Ok (([p; v; l] ++ ip) :: os).

Definition d6_duid (d : bytes) : res rows :=
  if lenN d <? 2 then Err else t <- be16 d 0 ;; r <- from d 2 ;; Ok [[t]; r].

(* serializers (SerializeOptions is ser_tlv16) *)
Definition ser_d6_message (ty : N) (xid : bytes) (os : list (N * bytes)) : bytes := ty :: xid ++ ser_tlv16 os.
Definition ser_d6_ia (a b c : N) (os : list (N * bytes)) : bytes := put32 a ++ put32 b ++ put32 c ++ ser_tlv16 os.

(* ---- handleMessage glue on a server without leases.  Result: (advertises_sent, replies_sent) deltas. *)
Definition find_opt (os : rows) (code : N) : option bytes := find_tag os code.

(* a decoder error inside a walk means "continue"; a panic or hang propagates *)
Definition soft (r : res rows) : res rows :=
  match r with Err => Ok [] | x => x end.

(* buildAdvertise / buildReply: ParseIANA on every IA_NA, ParseIAPD on every IA_PD *)
Fixpoint walk_ias (os : rows) : res unit :=
  match os with
  | [] => Ok tt
  | (code :: _ :: v) :: tl =>
      _ <- (if (code =? 3) || (code =? 25) then soft (d6_ia v) else Ok []) ;; walk_ias tl
  | _ :: tl => walk_ias tl
  end.

(* handleConfirm: ParseIANA on every IA_NA, ParseIAAddress on every IAAddr inside *)
Fixpoint walk_addrs (os : rows) : res unit :=
  match os with
  | [] => Ok tt
  | (code :: _ :: v) :: tl =>
      _ <- (if code =? 5 then soft (d6_iaaddr v) else Ok []) ;; walk_addrs tl
  | _ :: tl => walk_addrs tl
  end.
Fixpoint walk_confirm (os : rows) : res unit :=
  match os with
  | [] => Ok tt
  | (code :: _ :: v) :: tl =>
      _ <- (if code =? 3 then
              match d6_ia v with
              | Ok (_ :: inner) => walk_addrs inner
              | Ok [] => Ok tt
              | Err => Ok tt
              | Panic => Panic
              | Hang => Hang
              end
            else Ok tt) ;; walk_confirm tl
  | _ :: tl => walk_confirm tl
  end.

Definition d6_handle (server_duid d : bytes) : res rows :=
  m <- d6_message d ;;
  match m with
  | (ty :: _) :: os =>
      let cid := find_opt os 1 in
      match cid with
      | None => Ok [[0; 0]]
      | Some _ =>
          if ty =? 1 then (_ <- walk_ias os ;; Ok [[1; 0]])
          else if ty =? 3 then
            match find_opt os 2 with
            | None => Ok [[0; 0]]
            | Some sd =>
                if lenN sd <? 2 then Ok [[0; 0]]
                else (_ <- be16 sd 0 ;; _ <- from sd 2 ;;
                      if bytes_eqb sd server_duid then (_ <- walk_ias os ;; Ok [[0; 1]]) else Ok [[0; 0]])
            end
          else if ty =? 4 then (_ <- walk_confirm os ;; Ok [[0; 1]])
          else if (ty =? 5) || (ty =? 6) then Ok [[0; 0]]
          else if (ty =? 8) || (ty =? 9) || (ty =? 11) then Ok [[0; 1]]
          else Ok [[0; 0]]
      end
  | _ => Ok [[0; 0]]
  end.
