(* Entry points evaluated by the harness-written cases files for C04. The generic checker takes one
   step/accept pair for all cases, so the per-case configuration rides along in the state. *)
From Coq Require Import NArith List.
From Verif Require Import Base.Word Base.Check Model.PPPoESrv Model.PPPoESrvSpec.
Import ListNotations.

(* The driver writes each step's observation as a delta against the previous one (None = same as
   after the previous frame); [expand] restores the full observations before anything is compared. *)
Record dout := { d_frames : list eframe; d_radius : N; d_sessions : option (list sess);
                 d_macidx : option (list (N * N)); d_avail : option (list N); d_alloc : option (list (N * N)) }.
Definition D := Build_dout.
Definition S := Build_sess.
Definition orelse {A} (o : option A) (d : A) : A := match o with Some x => x | None => d end.
Definition expand1 (prev : out) (d : dout) : out :=
  {| o_frames := d_frames d; o_radius := d_radius d; o_spin := false;
     o_sessions := orelse (d_sessions d) (o_sessions prev); o_macidx := orelse (d_macidx d) (o_macidx prev);
     o_avail := orelse (d_avail d) (o_avail prev); o_alloc := orelse (d_alloc d) (o_alloc prev) |}.
Fixpoint expand (prev : out) (l : list (op * dout)) : list (op * out) :=
  match l with
  | [] => []
  | (o, d) :: tl => let r := expand1 prev d in (o, r) :: expand r tl
  end.

Definition case := (config * list (op * dout))%type.

Definition cstep (g : gates) (cs : config * state) (o : op) : (config * state) * out * list N :=
  let '(st', r, mk) := step_g g (fst cs) (snd cs) o in ((fst cs, st'), r, mk).
Definition caccept (cs : config * sstate) (o : op) (r : out) : (config * sstate) + N :=
  match accept (fst cs) (snd cs) o r with inl s' => inl (fst cs, s') | inr n => inr n end.
Definition mk (c : case) : (config * state) * (config * sstate) * list (op * out) :=
  ((fst c, init (fst c)), (fst c, sinit), expand (mk_out (init (fst c)) [] 0 false) (snd c)).

(* the code as it is now (both gates) *)
Definition run_cases (cs : list case) : list (list N) :=
  check_all (cstep gates_on) caccept out_eqb 1%N (map mk cs).
(* the tree before the C04 fixes (no gates); used to reproduce the defects, not by the check *)
Definition run_cases_prefix (cs : list case) : list (list N) :=
  check_all (cstep gates_off) caccept out_eqb 1%N (map mk cs).
