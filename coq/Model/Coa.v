(* Model of pkg/radius/coa.go: the body of CoAServer.receiveLoop for ONE datagram, with
   verifyRequestAuthenticator, parseAttributes, parseCoARequest / parseDisconnectRequest, the
   handler dispatch and sendResponse.

   - Go slices are modelled with their capacity ([gslice]); every slice expression / index of the
     source that depends on packet contents is a checked operation whose failure is the outcome
     [Panic] (never a default value).
   - The digest (crypto/md5 in the code) is NOT modelled: a program is a tree whose [Hash] nodes ask
     for the digest of a byte string ([prog]); [run H] answers them with an arbitrary function H
     (normalised to 16 bytes, the size md5.Sum returns). Every theorem is for all H.
   - The handler's answer (Success, ErrorCause, Message) is an arbitrary function [handler] of the
     request kind and the parsed request: the session logic of coa_handler.go is outside C15, only
     the dispatch is modelled.
   - [fixed] selects the code before (false) / after (true) the bounds-check fix of finding K15a;
     the tree that exists is [fixed = true]. *)
From Coq Require Import NArith List Bool.
From Verif Require Import Base.Word.
Import ListNotations.
Local Open Scope N_scope.

(* ---------- Go slices: backing array from the slice's start to its capacity, and a length ---------- *)
Record gslice := { arr : bytes; len : nat }.          (* cap = length arr *)
Definition sl_bytes (s : gslice) : bytes := firstn (len s) (arr s).
(* s[:b]   panics unless b <= cap *)
Definition sl_to (s : gslice) (b : nat) : option gslice :=
  if Nat.leb b (length (arr s)) then Some {| arr := arr s; len := b |} else None.
(* s[a:]   (= s[a:len s]) panics unless a <= len *)
Definition sl_from (s : gslice) (a : nat) : option gslice :=
  if Nat.leb a (len s) then Some {| arr := skipn a (arr s); len := (len s - a)%nat |} else None.
(* s[a:b]  panics unless a <= b <= cap *)
Definition sl_range (s : gslice) (a b : nat) : option gslice :=
  if Nat.leb a b && Nat.leb b (length (arr s)) then Some {| arr := skipn a (arr s); len := (b - a)%nat |} else None.
(* s[i]    panics unless i < len *)
Definition sl_idx (s : gslice) (i : nat) : option N :=
  if Nat.ltb i (len s) then nth_error (arr s) i else None.

(* ---------- requests, handler answers, outcomes ---------- *)
Definition attr := (N * bytes)%type.
Record request := {
  r_session : bytes; r_user : bytes; r_nasip : option bytes; r_framed : option bytes;
  r_calling : bytes; r_acct : bytes; r_stimeout : N; r_itimeout : N; r_filter : bytes;
  r_attrs : list attr }.
Record hresp := { h_ok : bool; h_cause : N; h_msg : bytes }.

Inductive outcome :=
| Drop                                      (* `continue`: no handler call, nothing sent *)
| Panic                                     (* run-time panic in the listener goroutine *)
| Handle (code : N) (called : bool) (req : request) (resp : bytes).
   (* request of kind [code] dispatched; [called]: an installed handler was invoked with [req];
      [resp] was written to the socket *)

Inductive prog :=
| Ret (o : outcome)
| Hash (key : bytes) (k : bytes -> prog).

Definition digest16 (d : bytes) : bytes := firstn 16%nat (d ++ repeat 0 16%nat).
Fixpoint run (H : bytes -> bytes) (p : prog) : outcome :=
  match p with
  | Ret o => o
  | Hash key k => run H (k (digest16 (H key)))
  end.

Definition orp {A} (o : option A) (k : A -> prog) : prog :=
  match o with Some a => k a | None => Ret Panic end.

(* binary.BigEndian.Uint16(b): `_ = b[1]` then b[1] | b[0]<<8 *)
Definition be16_of (s : gslice) : option N :=
  match sl_idx s 1%nat with
  | Some lo => match sl_idx s 0%nat with Some hi => Some (be16 hi lo) | None => None end
  | None => None
  end.

Definition BUFSZ : nat := 4096%nat.

(* buf after ReadFromUDP: the first n = min(len dg, 4096) bytes are the datagram's, the rest is
   whatever earlier datagrams left there ([stale], zero-filled at start) *)
Definition recv_n (dg : bytes) : nat := Nat.min (length dg) BUFSZ.
Definition recv_arr (stale dg : bytes) : bytes :=
  let n := recv_n dg in firstn BUFSZ (firstn n dg ++ skipn n stale ++ repeat 0 BUFSZ).

(* for i := range authenticator { if authenticator[i] != expected[i] { return false } } *)
Fixpoint cmp_loop (a expected : bytes) (i : nat) : option bool :=
  match a with
  | [] => Some true
  | x :: tl => match nth_error expected i with
               | None => None
               | Some y => if x =? y then cmp_loop tl expected (S i) else Some false
               end
  end.

(* verifyRequestAuthenticator(packet, authenticator) *)
Definition verify_req (secret : bytes) (packet auth : gslice) (k : bool -> prog) : prog :=
  orp (sl_to packet 4%nat) (fun p4 =>                       (* packet[:4]  *)
  orp (sl_from packet 20%nat) (fun p20 =>                   (* packet[20:] *)
  Hash (sl_bytes p4 ++ repeat 0 16%nat ++ sl_bytes p20 ++ secret) (fun expected =>
  match cmp_loop (sl_bytes auth) expected 0%nat with
  | None => Ret Panic
  | Some b => k b
  end))).

(* parseAttributes(data) *)
Inductive pres := PErr | PPanic | POk (l : list attr).
Fixpoint parse_loop (fuel : nat) (data : gslice) (offset : nat) : pres :=
  match fuel with
  | O => PPanic                        (* not reached: [S (len data)] iterations suffice (theorem) *)
  | S f =>
      if Nat.leb (offset + 2)%nat (len data) then
        match sl_idx data offset with                               (* data[offset]   *)
        | None => PPanic
        | Some t =>
            match sl_idx data (offset + 1)%nat with                     (* data[offset+1] *)
            | None => PPanic
            | Some al =>
                let alen := N.to_nat al in
                if Nat.ltb alen 2%nat || Nat.ltb (len data) (offset + alen)%nat then PErr
                else match sl_range data (offset + 2)%nat (offset + alen)%nat with   (* data[offset+2:offset+attrLen] *)
                     | None => PPanic
                     | Some v =>
                         match parse_loop f data (offset + alen)%nat with
                         | POk l => POk ((t, sl_bytes v) :: l)
                         | e => e
                         end
                     end
            end
        end
      else POk []
  end.

(* parseCoARequest / parseDisconnectRequest: later attributes overwrite earlier ones *)
Definition req0 (attrs : list attr) : request :=
  {| r_session := []; r_user := []; r_nasip := None; r_framed := None; r_calling := []; r_acct := [];
     r_stimeout := 0; r_itimeout := 0; r_filter := []; r_attrs := attrs |}.
Definition len4 (v : bytes) : bool := Nat.eqb (length v) 4%nat.
Definition coa_attr (r : request) (a : attr) : request :=
  let '(t, v) := a in
  let mk s u n f c st it fl :=
    {| r_session := s; r_user := u; r_nasip := n; r_framed := f; r_calling := c; r_acct := r_acct r;
       r_stimeout := st; r_itimeout := it; r_filter := fl; r_attrs := r_attrs r |} in
  let s := r_session r in let u := r_user r in let n := r_nasip r in let f := r_framed r in
  let c := r_calling r in let st := r_stimeout r in let it := r_itimeout r in let fl := r_filter r in
  if t =? 1 then mk s v n f c st it fl
  else if t =? 4 then (if len4 v then mk s u (Some v) f c st it fl else r)
  else if t =? 8 then (if len4 v then mk s u n (Some v) c st it fl else r)
  else if t =? 31 then mk s u n f v st it fl
  else if t =? 44 then mk v u n f c st it fl
  else if t =? 27 then (if len4 v then mk s u n f c (be_val v) it fl else r)
  else if t =? 28 then (if len4 v then mk s u n f c st (be_val v) fl else r)
  else if t =? 11 then mk s u n f c st it v
  else r.
Definition dm_attr (r : request) (a : attr) : request :=
  let '(t, v) := a in
  let mk s ac u n f c :=
    {| r_session := s; r_user := u; r_nasip := n; r_framed := f; r_calling := c; r_acct := ac;
       r_stimeout := 0; r_itimeout := 0; r_filter := []; r_attrs := [] |} in
  let s := r_session r in let ac := r_acct r in let u := r_user r in let n := r_nasip r in
  let f := r_framed r in let c := r_calling r in
  if t =? 1 then mk s ac v n f c
  else if t =? 4 then (if len4 v then mk s ac u (Some v) f c else r)
  else if t =? 8 then (if len4 v then mk s ac u n (Some v) c else r)
  else if t =? 31 then mk s ac u n f v
  else if t =? 44 then mk v v u n f c
  else r.
Definition parse_coa (attrs : list attr) : request := fold_left coa_attr attrs (req0 attrs).
Definition parse_dm (attrs : list attr) : request := fold_left dm_attr attrs (req0 []).

(* sendResponse: attribute bytes. Error-Cause only when non-zero, Reply-Message only when non-empty;
   its length octet is uint8(2+len(message)) (wraps for messages longer than 253 bytes). *)
Definition resp_attrs (r : hresp) : bytes :=
  (if h_cause r =? 0 then [] else [101; 6] ++ be_bytes 4 (h_cause r)) ++
  (match h_msg r with [] => [] | m => [18; (2 + N.of_nat (length m)) mod 256] ++ m end).
(* code, identifier, uint16(20+len(attrs)) *)
Definition resp_hdr (code ident : N) (attrs : bytes) : bytes :=
  [code; ident] ++ be_bytes 2 (N.of_nat (20 + length attrs)%nat).
(* the buffers here are freshly made with constant-bounded slice expressions (packet[:4], [2:4],
   [4:20], [20:] on a packet of length >= 20): they cannot fail and are written as list operations *)
Definition send_response (secret : bytes) (code ident : N) (reqauth : bytes) (r : hresp)
           (k : bytes -> prog) : prog :=
  let attrs := resp_attrs r in
  let hdr := resp_hdr code ident attrs in
  Hash (hdr ++ reqauth ++ attrs ++ secret) (fun d => k (hdr ++ d ++ attrs)).

(* default answers when no handler is installed *)
Definition coa_default : hresp := {| h_ok := true; h_cause := 0; h_msg := [] |}.
Definition msg_not_found : bytes := [83;101;115;115;105;111;110;32;110;111;116;32;102;111;117;110;100].
Definition dm_default : hresp := {| h_ok := false; h_cause := 503; h_msg := msg_not_found |}.

Section Server.
  Variable fixed : bool.                       (* true: the tree with the `length < 20` check *)
  Variable secret : bytes.
  Variable coa_set dm_set : bool.              (* a handler is installed *)
  Variable handler : N -> request -> hresp.    (* what the installed handler of that kind answers *)

  Definition dispatch (code ident : N) (auth : gslice) (attrs : list attr) : prog :=
    if code =? 43 then
      let req := parse_coa attrs in
      let r := if coa_set then handler 43 req else coa_default in
      send_response secret (if h_ok r then 44 else 45) ident (sl_bytes auth) r
                    (fun resp => Ret (Handle 43 coa_set req resp))
    else if code =? 40 then
      let req := parse_dm attrs in
      let r := if dm_set then handler 40 req else dm_default in
      send_response secret (if h_ok r then 41 else 42) ident (sl_bytes auth) r
                    (fun resp => Ret (Handle 40 dm_set req resp))
    else Ret Drop.                              (* "Unknown RADIUS code": logged only *)

  (* one iteration of receiveLoop after ReadFromUDP returned n bytes into buf *)
  Definition loop_body (buf : gslice) (n : nat) : prog :=
    if Nat.ltb n 20%nat then Ret Drop else
    orp (sl_idx buf 0%nat) (fun code =>                             (* buf[0] *)
    orp (sl_idx buf 1%nat) (fun ident =>                            (* buf[1] *)
    orp (sl_range buf 2%nat 4%nat) (fun b24 =>                          (* buf[2:4] *)
    orp (be16_of b24) (fun length16 =>
    orp (sl_range buf 4%nat 20%nat) (fun auth =>                        (* buf[4:20] (aliases buf) *)
    let L := N.to_nat length16 in
    if fixed && Nat.ltb L 20%nat then Ret Drop else                 (* fix K15a: int(length) < 20 || ... *)
    if Nat.ltb n L then Ret Drop else                           (* int(length) > n *)
    orp (sl_to buf L) (fun pkt =>                               (* buf[:length] *)
    verify_req secret pkt auth (fun ok =>
    if negb ok then Ret Drop else
    orp (sl_range buf 20%nat L) (fun data =>                        (* buf[20:length] *)
    match parse_loop (S (len data)) data 0%nat with
    | PErr => Ret Drop
    | PPanic => Ret Panic
    | POk attrs => dispatch code ident auth attrs
    end)))))))).

  Definition coa_prog (stale dg : bytes) : prog :=
    loop_body {| arr := recv_arr stale dg; len := BUFSZ |} (recv_n dg).

  Definition coa_process (H : bytes -> bytes) (stale dg : bytes) : outcome :=
    run H (coa_prog stale dg).

  (* ghost marker 1501 (K15a): the datagram reaches verifyRequestAuthenticator with a length field
     below 20 (only possible before the fix) *)
  Definition marker_1501 (dg : bytes) : bool :=
    negb fixed && Nat.leb 20%nat (recv_n dg) && (be16 (nth 2%nat dg 0) (nth 3%nat dg 0) <? 20).
End Server.
