(* C06 - entry point evaluated on the cases the Go driver writes (harness/c06).

   op / out alphabet (one case = a short list of independent observations):
     OCLayout p tgt     the C compiler's own offsetof/sizeof table for p's C struct (tgt 0 = BPF target,
                        1 = x86-64)                              out = [[size]; [off; bytes] per member]
     OPut p vs          the real Go value with member values vs was Put by cilium/ebpf (through the real
                        manager where it has a write path) into a kernel map of the C-declared size and
                        read back raw                            out = [[ok]; bytes]
     OGet p bs          raw bytes bs sit in the kernel map; the real Go code reads them
                                                                 out = [ok] :: member values
     OVal fam v         the real manager API was called with the VALUE IT MEANS (an IPv6 address, a MAC); the bytes
                        of the member in the kernel map and whether the real program honoured a packet carrying that
                        value                                     out = [member bytes; [hit]]
     OPort site p       the kernel program created a session for a flow with port p; the real Go lookup by the port
                        NUMBER                                    out = [port bytes in the kernel's key; [found]]
     OMac / OIp / OCid / OVlan / OAlg / OLpm / OHash   key derivations: bytes the real Go code put into the
                        kernel map and whether the real eBPF program (kernel test-run) found / honoured
                        them                                     out = observation vectors, last = [hit]
   The Model answers from Gen/Layouts.v (regenerated declarations) and Model/KeyDeriv.v.
   The acceptor is the property: clause numbers below. *)
From Coq Require Import NArith List Bool String Arith.
From Verif Require Import Base.Word Base.Check Model.Layout Model.KeyDeriv Model.LayoutEnc.
Import ListNotations.
Local Open Scope N_scope.

Inductive op :=
| OCLayout (p : pair) (tgt : N)
| OPut (record : bool) (p : pair) (vs : values)
| OGet (record : bool) (p : pair) (bs : bytes)
| OMac (mac : bytes)
| OIp (site : N) (ip : bytes)
| OCid (cid : bytes)
| OCidAt (pos : nat) (opts : bytes) (avail : nat) (cid : bytes)
| OVlan (s c p1 p2 : N)
| OAlg (port proto : N)
| OLpm (plen : N) (net src : bytes)
| OHash (cid : bytes)
| OVal (fam : N) (v : bytes)          (* meaning-level value member: 1 = IPv6 binding (AddBindingV6), 2 = server MAC (SetServerConfig) *)
| OPort (site : N) (p : N).           (* 16-bit port in a key: 1 = nat_key.src_port, 2 = nat_key.dst_port (nat.LookupSession) *)

Definition out := list (list N).

Definition b2n (b : bool) : N := if b then 1 else 0.
Definition nn (n : nat) : N := N.of_nat n.

Fixpoint l_eqb (a b : list N) : bool :=
  match a, b with [], [] => true | x :: a', y :: b' => (x =? y) && l_eqb a' b' | _, _ => false end.
Fixpoint ll_eqb (a b : list (list N)) : bool :=
  match a, b with [], [] => true | x :: a', y :: b' => l_eqb x y && ll_eqb a' b' | _, _ => false end.
Definition out_eqb : out -> out -> bool := ll_eqb.

(* clauses *)
Definition CL_WRITE : N := 0.   (* bytes written for a key/value have the size, offsets, widths the C declaration reads *)
Definition CL_READ : N := 1.    (* values read back *)
Definition CL_MAC : N := 2.
Definition CL_IPV4 : N := 3.
Definition CL_CID : N := 4.
Definition CL_VLAN : N := 5.
Definition CL_ALG : N := 6.
Definition CL_LPM : N := 7.
Definition CL_VAL : N := 8.     (* address / MAC value member: the stored bytes are the wire bytes the program compares *)
Definition CL_PORT : N := 9.    (* 16-bit port member of a key: byte order *)

(* ---- known layout defects: (pair name, reason, member index, marker). Empty: every layout defect found so far
   was repaired (known_findings/C06.json, status fixed). A pair that is not ok and not listed is a VIOLATION. *)
Definition known_layout : list (string * N * nat * N) := [].

Definition pair_ok (record : bool) (p : pair) : bool := if record then record_ok p else layout_ok p.

Definition layout_markers (record : bool) (p : pair) : list N :=
  let '(r, k) := layout_diag record p in
  if r =? 0 then []
  else map (fun e => snd e)
           (filter (fun e => let '(n, r', k', _) := e in String.eqb n (pname p) && (r' =? r) && Nat.eqb k' k) known_layout).

(* what cilium does with a value of the Go type on this map: size must equal the declared size, per-CPU maps
   want a slice *)
Definition xfer_ok (record : bool) (p : pair) : bool :=
  if record then Nat.leb (go_size (pgo p)) (pdecl p)
  else Nat.eqb (go_size (pgo p)) (pdecl p) && Bool.eqb (ppercpu p) (pslice p).

(* IPv4 helper sites (one known finding each) *)
Definition site_marker (site : N) : N := 610 + site.
(* 1 ebpf.IPToUint32 (PoolAssignment.AllocatedIP -> yiaddr)   2 nat.ipToKey (subscriber_nat key)
   3 qos.ipToKey (qos_egress key)                              4 antispoof.AddBinding (ipv4_addr value)
   5 ebpf.IPToUint32 (ServerConfig.ServerIP -> reply source address)
   6 nat.ipToKey (PortBlock.PublicIP -> translated source address)
   7 ebpf.IPToUint32 (IPPool.Gateway, as pkg/dhcp/pool.go fills it -> router option of the reply)
   8 ebpf.IPToUint32 (IPPool.DNSPrimary/DNSSecondary -> DNS option of the reply) *)
Definition ip_go_bytes (site : N) (ip : bytes) : bytes :=
  if site =? 3 then go_ip_bytes_qos ip else go_ip_bytes ip.

Definition step (_ : unit) (o : op) : unit * out * list N :=
  match o with
  | OCLayout p _ =>
      (tt, [nn (pcsize p)] :: map (fun f => [nn (foff f); nn (fwidth f * fcount f)]) (pc p), [])
  | OPut record p vs =>
      let ok := xfer_ok record p in
      (tt, [[b2n ok]; if ok then encode_go (pgo p) vs else []], layout_markers record p)
  | OGet record p bs =>
      let ok := xfer_ok record p in
      (tt, [b2n ok] :: (if ok then decode_go (pgo p) bs else []), layout_markers record p)
  | OMac mac =>   (* hardware address of any length 0..16 *)
      let g := go_mac_key_ebpf mac in
      let c := c_mac_key_dhcp_chaddr mac in
      let hit := l_eqb g c in
      let asp := match go_mac_antispoof_add mac with
                 | Some k => [[1]; k; [b2n (l_eqb k (c_mac_key_antispoof mac))]]
                 | None => [[0]; []; [1]]
                 end in
      (tt, [g; c; [b2n hit; 1]] ++ asp ++ [[b2n (go_mac_antispoof_remove_panics mac)]], if hit then [] else [641])
  | OIp site ip =>
      let g := ip_go_bytes site ip in
      let hit := l_eqb g (c_ip_bytes ip) in
      (tt, [g; [b2n hit]], if hit then [] else [site_marker site])
  | OCid cid =>
      let g := go_cid_key cid in
      let hit := match c_cid_key cid with Some k => l_eqb k g | None => false end in
      (tt, [g; [b2n hit]], if Nat.ltb CID_LEN (List.length cid) then [621] else [])
  | OCidAt pos opts avail cid =>
      let g := go_cid_key cid in
      let hit := match c_extract_cid opts avail with Some k => l_eqb k g | None => false end in
      (tt, [g; [b2n hit]],
       if hit then [] else if Nat.ltb CID_LEN (List.length cid) then [621]
       else if ob opts (pos + 1) <? 4 then [622] else [])
  | OVlan s c p1 p2 =>
      let g := go_vlan_key s c in
      let hit := l_eqb g (c_vlan_key (p1 * 4096 + s) (p2 * 4096 + c)) in
      (tt, [g; [b2n hit]], [])
  | OAlg port proto =>
      let g := go_alg_key port proto in
      (tt, [g; [b2n (l_eqb g (c_alg_key port proto))]], [])
  | OLpm plen net src =>
      let g := go_lpm_key plen net in
      let hit := lpm_entry_matches g (c_lpm_lookup src) in
      (tt, [g; [b2n hit; b2n (in_prefix plen net src)]], if Bool.eqb hit (in_prefix plen net src) then [] else [631])
  | OHash cid => (tt, [le_enc 8 (go_hash_cid cid)], [])
  | OVal fam v =>
      let g := if fam =? 1 then go_ip6_member v else go_mac_member v in
      let c := if fam =? 1 then c_ip6_member v else c_mac_member v in
      (tt, [g; [b2n (l_eqb g c)]], [])
  | OPort site p =>   (* nat.LookupSession: natKey{SrcPort: srcPort, DstPort: dstPort} marshalled natively; the kernel's key holds the raw be16 *)
      let hit := l_eqb (go_port_member p) (c_port_net p) in
      (tt, [c_port_net p; [b2n hit]], if hit then [] else [650 + site])
  end.

Definition last_flags (o : out) : list N := last o [].
Definition all_ones (l : list N) : bool := forallb (N.eqb 1) l.

(* the acceptor judges the OBSERVED outputs *)
Definition accept (_ : unit) (o : op) (r : out) : unit + N :=
  match o with
  | OCLayout _ _ => inl tt
  | OPut record p vs =>
      match r with
      | [[ok]; bs] =>
          if pair_ok record p && (ok =? 1) && ll_eqb (decode_c (pc p) bs) vs
             && (record || Nat.eqb (List.length bs) (pdecl p))
          then inl tt else inr CL_WRITE
      | _ => inr CL_WRITE
      end
  | OGet record p bs =>
      match r with
      | [ok] :: vals => if pair_ok record p && (ok =? 1) && ll_eqb vals (decode_c (pc p) bs) then inl tt else inr CL_READ
      | _ => inr CL_READ
      end
  | OMac _ => if Nat.eqb (List.length r) 7 && all_ones (nth 2 r [] ++ nth 5 r []) then inl tt else inr CL_MAC
  | OIp _ _ => if all_ones (last_flags r) then inl tt else inr CL_IPV4
  | OCid cid => (* an empty circuit-id is "no circuit-id": nothing to agree on *)
      match cid with [] => inl tt | _ => if all_ones (last_flags r) then inl tt else inr CL_CID end
  | OCidAt _ _ _ cid =>
      match cid with [] => inl tt | _ => if all_ones (last_flags r) then inl tt else inr CL_CID end
  | OVlan _ _ _ _ => if all_ones (last_flags r) then inl tt else inr CL_VLAN
  | OAlg _ _ => if all_ones (last_flags r) then inl tt else inr CL_ALG
  | OLpm _ _ _ => match last_flags r with [h; w] => if h =? w then inl tt else inr CL_LPM | _ => inr CL_LPM end
  | OHash _ => inl tt
  | OVal fam v =>   (* the member holds exactly the wire bytes of the value AND the program honoured the packet *)
      match r with
      | [bs; [h]] => if l_eqb bs (if fam =? 1 then c_ip6_member v else c_mac_member v) && (h =? 1) then inl tt else inr CL_VAL
      | _ => inr CL_VAL
      end
  | OPort _ _ => if all_ones (last_flags r) then inl tt else inr CL_PORT
  end.

Definition case := list (op * out).
Definition run_cases (cs : list case) : list (list N) :=
  check_all step accept out_eqb 1%N (map (fun c => (tt, tt, c)) cs).

(* ---- static verdict over the regenerated declarations (no driver involved): for every pair the reason code
   and offending member; [0;0] = ok.  A record pair is one whose name has role "record". *)
Definition is_record (p : pair) : bool :=
  let fix has (s : string) : bool :=
    match s with
    | EmptyString => false
    | String _ t => String.prefix "/record/" s || has t
    end in has (pname p).
Definition static_verdict (ps : list pair) : list (list N) :=
  map (fun p => let '(r, k) := layout_diag (is_record p) p in
                [r; nn k; b2n (negb (r =? 0) && match layout_markers (is_record p) p with [] => false | _ => true end)]) ps.
Definition all_pairs_ok (ps : list pair) : bool := forallb (fun p => pair_ok (is_record p) p) ps.
