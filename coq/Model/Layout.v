(* C06 - generic model of how the Go control plane and the eBPF programs see one map key / value.

   Go side  (cilium/ebpf sysenc = encoding/binary rules): the fields of the Go struct are written one
            after the other, no padding, every element little-endian (native order of the only
            supported targets, see cbpf/include/bpf/bpf_endian.h), blank fields as zero bytes;
            reading consumes the buffer the same way (blank fields skipped).
   C side   : every member is read at its byte offset (from BTF) with its width; members named _pad*
            are never read by the programs.
   A [field] is a leaf member: name, byte offset, element width, element count (arrays), padding flag.
   Offsets / widths / counts are lengths, hence [nat]; values are [N]. *)
From Coq Require Import NArith List Bool String Ascii Arith Lia.
Import ListNotations.
Local Open Scope N_scope.

Definition bytes := list N.

Record field := F { fname : string; foff : nat; fwidth : nat; fcount : nat; fpad : bool }.

(* one (Go struct, C struct, map) triple as emitted by tools/gen_layouts *)
Record pair := MkPair {
  pname : string;          (* object/map/role/GoType *)
  pgo : list field;        (* Go layout (offsets = running sum, checked by [seq_ok]) *)
  pc : list field;         (* C layout *)
  pcsize : nat;            (* sizeof of the C type *)
  pdecl : nat;             (* key_size / value_size the map declares *)
  ppercpu : bool;          (* per-CPU map value: the kernel hands out one value per CPU *)
  pslice : bool;           (* the Go call site passes a slice (one element per CPU) *)
  psupported : bool        (* both types consist of constructs the translator understands *)
}.

Definition values := list (list N).   (* one entry per non-padding field: its [fcount] elements *)

(* ---- little-endian scalars *)
Fixpoint le_enc (w : nat) (v : N) : bytes :=
  match w with O => [] | S k => (v mod 256) :: le_enc k (v / 256) end.
Fixpoint le_dec (l : bytes) : N :=
  match l with [] => 0 | b :: t => b + 256 * le_dec t end.

Fixpoint zeros (n : nat) : bytes := match n with O => [] | S k => 0 :: zeros k end.

Definition enc_elems (w : nat) (v : list N) : bytes := flat_map (le_enc w) v.

(* ---- Go: binary.Write (sequential) *)
Fixpoint encode_go (g : list field) (vs : values) : bytes :=
  match g with
  | [] => []
  | f :: g' =>
      if fpad f then zeros (fwidth f * fcount f) ++ encode_go g' vs
      else match vs with
           | v :: vs' => enc_elems (fwidth f) v ++ encode_go g' vs'
           | [] => zeros (fwidth f * fcount f) ++ encode_go g' []
           end
  end.

(* ---- Go: binary.Read (sequential consumer) *)
Fixpoint take_elems (w cnt : nat) (bs : bytes) : list N :=
  match cnt with
  | O => []
  | S k => le_dec (firstn w bs) :: take_elems w k (skipn w bs)
  end.

Fixpoint decode_go (g : list field) (bs : bytes) : values :=
  match g with
  | [] => []
  | f :: g' =>
      let rest := skipn (fwidth f * fcount f) bs in
      if fpad f then decode_go g' rest
      else take_elems (fwidth f) (fcount f) bs :: decode_go g' rest
  end.

(* ---- C: member reads at offsets *)
Definition read_at (off w : nat) (bs : bytes) : N := le_dec (firstn w (skipn off bs)).
Definition read_field (off w cnt : nat) (bs : bytes) : list N :=
  map (fun i => read_at (off + i * w) w bs) (seq 0 cnt).

Fixpoint decode_c (c : list field) (bs : bytes) : values :=
  match c with
  | [] => []
  | f :: c' =>
      if fpad f then decode_c c' bs
      else read_field (foff f) (fwidth f) (fcount f) bs :: decode_c c' bs
  end.

(* ---- the decidable agreement check *)
Definition go_size (g : list field) : nat := fold_right (fun f a => fwidth f * fcount f + a)%nat 0%nat g.

(* significant (non padding) members with their offsets; Go offsets are the running sum *)
Fixpoint sig_go (start : nat) (g : list field) : list (nat * nat * nat) :=
  match g with
  | [] => []
  | f :: g' =>
      let nxt := (start + fwidth f * fcount f)%nat in
      if fpad f then sig_go nxt g' else (start, fwidth f, fcount f) :: sig_go nxt g'
  end.
Fixpoint sig_c (c : list field) : list (nat * nat * nat) :=
  match c with
  | [] => []
  | f :: c' => if fpad f then sig_c c' else (foff f, fwidth f, fcount f) :: sig_c c'
  end.

Definition trip_eqb (a b : nat * nat * nat) : bool :=
  let '(a1, a2, a3) := a in let '(b1, b2, b3) := b in
  Nat.eqb a1 b1 && Nat.eqb a2 b2 && Nat.eqb a3 b3.
Fixpoint sig_eqb (a b : list (nat * nat * nat)) : bool :=
  match a, b with
  | [], [] => true
  | x :: a', y :: b' => trip_eqb x y && sig_eqb a' b'
  | _, _ => false
  end.

(* the offsets the translator printed for the Go side are the running sum *)
Fixpoint seq_ok (start : nat) (g : list field) : bool :=
  match g with
  | [] => true
  | f :: g' => Nat.eqb (foff f) start && seq_ok (start + fwidth f * fcount f) g'
  end.

(* names: "NextPort" / "next_port" / "Block.NextPort" are one name; a side without member names
   (a bare scalar or array) matches anything *)
Definition lower (a : ascii) : ascii :=
  let n := nat_of_ascii a in if (Nat.leb 65 n && Nat.leb n 90)%bool then ascii_of_nat (n + 32) else a.
Fixpoint norm_name (s : string) : string :=
  match s with
  | EmptyString => EmptyString
  | String a t => if Ascii.eqb a "_"%char then norm_name t else String (lower a) (norm_name t)
  end.
Definition name_match (a b : string) : bool :=
  String.eqb a EmptyString || String.eqb b EmptyString || String.eqb (norm_name a) (norm_name b).
Definition sig_names (l : list field) : list string :=
  map fname (filter (fun f => negb (fpad f)) l).
Fixpoint names_eqb (a b : list string) : bool :=
  match a, b with
  | [], [] => true
  | x :: a', y :: b' => name_match x y && names_eqb a' b'
  | _, _ => false
  end.

(* C members lie inside the C type *)
Definition c_in_bounds (c : list field) (size : nat) : bool :=
  forallb (fun f => Nat.leb (foff f + fwidth f * fcount f) size) c.

Definition fields_ok (g c : list field) : bool := sig_eqb (sig_go 0 g) (sig_c c).

(* map key / value: sizes must be equal (cilium refuses any other size in both directions) *)
Definition layout_ok (p : pair) : bool :=
  psupported p && seq_ok 0 (pgo p) && fields_ok (pgo p) (pc p) && names_eqb (sig_names (pgo p)) (sig_names (pc p))
  && Nat.eqb (go_size (pgo p)) (pcsize p) && Nat.eqb (pcsize p) (pdecl p)
  && c_in_bounds (pc p) (pcsize p) && Bool.eqb (ppercpu p) (pslice p).

(* ring-buffer / perf records are not map values: the reader decodes a prefix of the record, so the
   tail padding of the C struct need not exist on the Go side *)
Definition record_ok (p : pair) : bool :=
  psupported p && seq_ok 0 (pgo p) && fields_ok (pgo p) (pc p) && names_eqb (sig_names (pgo p)) (sig_names (pc p))
  && Nat.leb (go_size (pgo p)) (pcsize p) && c_in_bounds (pc p) (pcsize p).

(* value lists a layout can carry: one list of [fcount] elements, each below 256^width, per
   non-padding field *)
Fixpoint fits (g : list field) (vs : values) : Prop :=
  match g with
  | [] => vs = []
  | f :: g' =>
      if fpad f then fits g' vs
      else match vs with
           | v :: vs' => List.length v = fcount f /\ Forall (fun x => x < 256 ^ N.of_nat (fwidth f)) v /\ fits g' vs'
           | [] => False
           end
  end.

Fixpoint fitsb (g : list field) (vs : values) : bool :=
  match g with
  | [] => match vs with [] => true | _ => false end
  | f :: g' =>
      if fpad f then fitsb g' vs
      else match vs with
           | v :: vs' => Nat.eqb (List.length v) (fcount f) && forallb (fun x => x <? 256 ^ N.of_nat (fwidth f)) v && fitsb g' vs'
           | [] => false
           end
  end.

(* ---- diagnosis (which member is the offending one); used for the violation report only *)
(* reason codes: 0 ok, 1 unsupported construct, 2 Go offsets not sequential (translator), 3 member k differs in
   offset/width/count, 4 member k differs in name, 5 number of members differs, 6 Go size <> C size,
   7 C size <> declared map size, 8 C member out of bounds, 9 per-CPU map read into a single value *)
Fixpoint first_diff {A} (eqb : A -> A -> bool) (k : nat) (a b : list A) : option nat :=
  match a, b with
  | [], [] => None
  | x :: a', y :: b' => if eqb x y then first_diff eqb (S k) a' b' else Some k
  | _, _ => Some k
  end.

Definition layout_diag (record : bool) (p : pair) : N * nat :=
  if negb (psupported p) then (1, 0%nat)
  else if negb (seq_ok 0 (pgo p)) then (2, 0%nat)
  else if negb (Nat.eqb (List.length (sig_go 0 (pgo p))) (List.length (sig_c (pc p)))) then
    (5, match first_diff trip_eqb 0 (sig_go 0 (pgo p)) (sig_c (pc p)) with Some k => k | None => 0%nat end)
  else match first_diff trip_eqb 0 (sig_go 0 (pgo p)) (sig_c (pc p)) with
  | Some k => (3, k)
  | None =>
    match first_diff name_match 0 (sig_names (pgo p)) (sig_names (pc p)) with
    | Some k => (4, k)
    | None =>
      if negb (c_in_bounds (pc p) (pcsize p)) then (8, 0%nat)
      else if record then (if Nat.leb (go_size (pgo p)) (pcsize p) then (0, 0%nat) else (6, 0%nat))
      else if negb (Nat.eqb (go_size (pgo p)) (pcsize p)) then (6, 0%nat)
      else if negb (Nat.eqb (pcsize p) (pdecl p)) then (7, 0%nat)
      else if negb (Bool.eqb (ppercpu p) (pslice p)) then (9, 0%nat)
      else (0, 0%nat)
    end
  end.
