(* C20 — Models of the stores that keep a primary map plus secondary indexes:
     kind 0  state.Store subscribers   (index 0 = MAC, 1 = NTE)   UpdateSubscriber maintains the indexes
     kind 1  state.Store leases        (index 0 = IP,  1 = MAC)   UpdateLease replaces the record only
     kind 2  state.Store sessions      (index 0 = MAC, 1 = IPv4)  UpdateSession replaces the record only
     kind 3  state.Store NAT bindings  (index 0 = private, 1 = public endpoint); no update
     kind 4  subscriber.Manager        (index 0 = MAC, 1 = IP)    CreateSession refuses a MAC already indexed;
                                                                  update = AssignAddress (adds byIP[ip])
     kind 5  allocator.MemoryAllocationStore (index 0 = IP)       SaveAllocation refuses an IP held by another
                                                                  (pool, subscriber); RemoveAllocation
   An entity is its id and the list of (index number, key) pairs its indexed fields currently hold.
   Ids, MACs, IPs, NTE ids are interned to numbers by the harness. *)
From Coq Require Import NArith List Bool.
From Verif Require Import Base.Word Model.Keys.
Import ListNotations.
Local Open Scope N_scope.

Definition ikeys := list (N * N).

Record ist := { i_kind : N;
                i_prim : amap ikeys;            (* primary map: id -> indexed fields *)
                i_idx : amap (amap N);          (* index number -> key -> id *)
                i_ids : list N;                 (* observation universe: ids, probe keys per index *)
                i_probe : list (list N) }.

Definition i_init (kind : N) (ids : list N) (probe : list (list N)) : ist :=
  {| i_kind := kind; i_prim := []; i_idx := []; i_ids := ids; i_probe := probe |}.

Definition del2 (m : amap (amap N)) (i k : N) : amap (amap N) :=
  match aget m i with Some r => aset m i (adel r k) | None => m end.

Definition put_keys (m : amap (amap N)) (id : N) (ks : ikeys) : amap (amap N) :=
  fold_left (fun m x => set2 m (fst x) (snd x) id) ks m.
Definition del_keys (m : amap (amap N)) (ks : ikeys) : amap (amap N) :=
  fold_left (fun m x => del2 m (fst x) (snd x)) ks m.

Definition key_at (ks : ikeys) (i : N) : option N :=
  match find (fun x => fst x =? i) ks with Some x => Some (snd x) | None => None end.

Definition ikeys_eqb (a b : ikeys) : bool :=
  Nat.eqb (length a) (length b) &&
  forallb (fun p => (fst (fst p) =? fst (snd p)) && (snd (fst p) =? snd (snd p))) (combine a b).

(* operations that run inside another one: subscriber.Manager.TerminateSession calls the allocator's
   ReleaseIPv4 between its two critical sections; whatever the callback does to the manager lands there *)
Inductive mop :=
| MCreate (id mac : N)
| MAssign (id ip : N)
| MTerminate (id : N)
| MProbe (i k : N).        (* GetSessionByMAC (i = 0) / GetSessionByIP (i = 1) *)

Inductive iop :=
| ICreate (id : N) (ks : ikeys)
| IUpdate (id : N) (ks : ikeys)
| IDelete (id : N)
| IDeleteMid (id : N) (mid : list mop).   (* kind 4 only: TerminateSession with a scripted release callback *)

Definition i_with (st : ist) (p : amap ikeys) (x : amap (amap N)) : ist :=
  {| i_kind := i_kind st; i_prim := p; i_idx := x; i_ids := i_ids st; i_probe := i_probe st |}.

Definition dangling : N := 999999.

(* one snapshot per index *)
Definition i_snap1 (st : ist) (i : N) (probe : list N) : snap :=
  let fw := flat_map (fun id => match aget (i_prim st) id with
                                | Some ks => map (fun x => (id, snd x)) (filter (fun x => fst x =? i) ks)
                                | None => [] end) (i_ids st) in
  {| sfwd := fw;
     srev := mk_rev probe fw
               (fun k => match get2 (i_idx st) i k with
                         | Some id => if i_kind st =? 5 then Some id      (* byIP holds its own copy of the record *)
                                      else if amem (i_prim st) id then Some id else Some dangling
                         | None => None end);
     stot := None |}.

Fixpoint i_snaps (st : ist) (i : N) (pr : list (list N)) : list snap :=
  match pr with
  | [] => []
  | p :: tl => i_snap1 st i p :: i_snaps st (i + 1) tl
  end.

Definition i_out (st : ist) (r : ret) (mk : list N) : ist * obs * list N :=
  (st, {| o_ret := r; o_snaps := i_snaps st 0 (i_probe st); o_mid := [] |}, mk).

(* an index entry of [ks] that currently belongs to another entity *)
Definition clobbers (st : ist) (id : N) (ks : ikeys) : bool :=
  existsb (fun x => match get2 (i_idx st) (fst x) (snd x) with
                    | Some e => negb (e =? id) | None => false end) ks.

(* UpdateSubscriber: per index, drop the old entry when the field changed, then (re)write the new one *)
Definition upd_maintain (x : amap (amap N)) (id : N) (old new : ikeys) (i : N) : amap (amap N) :=
  let x1 := match key_at old i with
            | Some ko => match key_at new i with
                         | Some kn => if ko =? kn then x else del2 x i ko
                         | None => del2 x i ko end
            | None => x end in
  match key_at new i with Some kn => set2 x1 i kn id | None => x1 end.

Definition i_step (st : ist) (o : iop) : ist * obs * list N :=
  let kind := i_kind st in
  match o with
  | ICreate id ks =>
      if kind =? 4 then
        (* session ids are generated by the code (uuid); the harness never re-uses the number of a live one *)
        if amem (i_prim st) id then i_out st (RErr EOther) [] else
        match ks with
        | [(0, mac)] =>
            if amem (match aget (i_idx st) 0 with Some r => r | None => [] end) mac
            then i_out st (RErr EConflict) []
            else i_out (i_with st (aset (i_prim st) id ks) (put_keys (i_idx st) id ks)) RNone []
        | _ => i_out st (RErr EOther) []
        end
      else if kind =? 5 then
        if clobbers st id ks then i_out st (RErr EConflict) []
        else
          let x := match aget (i_prim st) id with
                   | Some old => del_keys (i_idx st) (filter (fun o => negb (existsb (fun n => (fst n =? fst o) && (snd n =? snd o)) ks)) old)
                   | None => i_idx st end in
          i_out (i_with st (aset (i_prim st) id ks) (put_keys x id ks)) RNone []
      else
        (* ghost marker 2020: the index already maps one of these keys to another entity, or the id is
           already stored: Create* overwrites without looking *)
        i_out (i_with st (aset (i_prim st) id ks) (put_keys (i_idx st) id ks)) RNone
              (if clobbers st id ks || amem (i_prim st) id then [2020] else [])
  | IUpdate id ks =>
      match aget (i_prim st) id with
      | None => i_out st (RErr EOther) []
      | Some old =>
          if kind =? 0 then
            i_out (i_with st (aset (i_prim st) id ks)
                          (upd_maintain (upd_maintain (i_idx st) id old ks 0) id old ks 1)) RNone
                  (if clobbers st id ks then [2020] else [])
          else if kind =? 4 then
            (* AssignAddress: the session's IP field is replaced, byIP[ip] written, the old entry stays.
               ghost marker 2022: an earlier byIP entry of this session becomes stale, or another
               session's entry is overwritten *)
            match ks with
            | [(1, ip)] =>
                let old' := filter (fun x => negb (fst x =? 1)) old in
                i_out (i_with st (aset (i_prim st) id (old' ++ [(1, ip)])) (set2 (i_idx st) 1 ip id)) RNone
                      (if clobbers st id ks ||
                          match key_at old 1 with Some k0 => negb (k0 =? ip) | None => false end
                       then [2022] else [])
            | _ => i_out st (RErr EOther) []
            end
          else if kind =? 5 then i_out st (RErr EOther) []
          else
            (* UpdateLease / UpdateSession: ghost marker 2021 when an indexed field changes *)
            i_out (i_with st (aset (i_prim st) id ks) (i_idx st)) RNone
                  (if ikeys_eqb old ks then [] else [2021])
      end
  | IDelete id =>
      match aget (i_prim st) id with
      | None => i_out st (if kind =? 5 then RNone else RErr EOther) []
      | Some old => i_out (i_with st (adel (i_prim st) id) (del_keys (i_idx st) old)) RNone []
      end
  | IDeleteMid _ _ => i_out st (RErr EOther) []      (* handled by i_stepm *)
  end.

(* ---- TerminateSession as its two critical sections with the release callback in between ----
   section 1: look the session up, refuse if it is already terminating, mark it terminating;
   callback : only when the session has an IPv4 address; the scripted operations run on the manager;
   section 2: delete byMAC[session.MAC], byIP[session.IPv4] (fields read from the session object NOW,
              whoever the entries belong to), delete the session.
   The accumulator carries the fields of the session object ([shadow]: they follow the stored record
   while it is stored) and whether it is still marked terminating (AssignAddress overwrites the state). *)
Definition i_lookup (st : ist) (i k : N) : ret :=
  match get2 (i_idx st) i k with
  | Some id => if amem (i_prim st) id then RKey id else RKey dangling
  | None => RNone
  end.

Record macc := { m_st : ist; m_rets : list ret; m_mk : list N; m_shadow : ikeys; m_term : bool }.

Definition i_mid1 (tid : N) (a : macc) (m : mop) : macc :=
  let via (o : iop) (term' : bool) :=
    let '(st', ob, mk') := i_step (m_st a) o in
    {| m_st := st'; m_rets := m_rets a ++ [o_ret ob]; m_mk := m_mk a ++ mk';
       m_shadow := match aget (i_prim st') tid with Some ks => ks | None => m_shadow a end;
       m_term := term' |} in
  match m with
  | MCreate id mac => via (ICreate id [(0, mac)]) (m_term a)
  | MAssign id ip =>
      via (IUpdate id [(1, ip)]) (if (id =? tid) && amem (i_prim (m_st a)) id then false else m_term a)
  | MTerminate id =>
      if (id =? tid) && m_term a && amem (i_prim (m_st a)) id
      then {| m_st := m_st a; m_rets := m_rets a ++ [RErr EOther]; m_mk := m_mk a;
              m_shadow := m_shadow a; m_term := m_term a |}
      else via (IDelete id) (m_term a)
  | MProbe i k => {| m_st := m_st a; m_rets := m_rets a ++ [i_lookup (m_st a) i k]; m_mk := m_mk a;
                     m_shadow := m_shadow a; m_term := m_term a |}
  end.

Definition i_stepm (st : ist) (o : iop) : ist * obs * list N :=
  match o with
  | IDeleteMid id mid =>
      if negb (i_kind st =? 4) then i_out st (RErr EOther) [] else
      match aget (i_prim st) id with
      | None => i_out st (RErr EOther) []
      | Some old =>
          let a0 := {| m_st := st; m_rets := []; m_mk := []; m_shadow := old; m_term := true |} in
          let a := match key_at old 1 with
                   | Some _ => fold_left (i_mid1 id) mid a0
                   | None => a0 end in
          let st1 := m_st a in
          (* ghost marker 2024: section 2 deletes an index entry that names another session *)
          let mk := if clobbers st1 id (m_shadow a) then [2024] else [] in
          let st2 := i_with st1 (adel (i_prim st1) id) (del_keys (i_idx st1) (m_shadow a)) in
          (st2, {| o_ret := RNone; o_snaps := i_snaps st2 0 (i_probe st2); o_mid := m_rets a |}, m_mk a ++ mk)
      end
  | _ => i_step st o
  end.
