(* Model of pkg/radius/accounting.go (AccountingManager) + the accounting half of client.go, as a
   crash-aware persistence protocol.

   memory : active sessions, pending-record map, pending channel (the Go channel holds pointers to
            the same records as the map: a channel entry is (stamp, request))
   disk   : sessions/<id>.json files, optional pending.json
   server : the stream of Accounting-Requests the scripted RADIUS server receives, each with the
            server's decision (acknowledged / dropped)

   Every API call is a sequence of MICRO-STEPS; after every persistence / transmit step the code
   calls verifCrashPoint(..) and the Model calls [ctick]: an op carries a countdown c, the c-th
   crash point reached inside the op kills the process (memory is lost, disk and the server stream
   stay as they are at that instant).  c = 0: no crash.

   Oracles carried by ops: dn = the (session, status-type) pairs the server drops during the op;
   cin/cout (Stop) and cs (InterimTick, GracefulStop: per session) = what the counter callback returns,
   fe = the sessions for which the callback fails during the op;
   order lists = Go map iteration order / goroutine scheduling, as observed.
   Ghost markers (08NN) label the steps at which a known defect acts; they do not influence
   behaviour. *)
From Coq Require Import NArith List Bool.
From Verif Require Import Model.Gigaword.
Import ListNotations.
Local Open Scope N_scope.

Definition ident := (N * N * N)%type.   (* User-Name, Calling-Station-Id (MAC), Framed-IP-Address *)

Record sess := mkS { s_id : N; s_ident : ident; s_pend : bool; s_cause : N; s_lin : N; s_lout : N }.
Record req := mkQ { q_st : N; q_sid : N; q_ident : ident; q_in : N; q_out : N; q_cause : N }.
Record prec := mkP { p_stamp : N; p_req : req; p_retry : N }.
(* what the server decodes *)
Record wrec := mkW { w_st : N; w_sid : N; w_ident : ident; w_in : N * option N; w_out : N * option N; w_cause : N }.

Definition ST_START : N := 1.
Definition ST_STOP : N := 2.
Definition ST_INTERIM : N := 3.
Definition CAUSE_NAS_REBOOT : N := 11.

(* client.go SendAccounting: counters only for Stop / Interim-Update, terminate cause only for Stop *)
Definition wire (q : req) : wrec :=
  let ctr := negb (q_st q =? ST_START) in
  mkW (q_st q) (q_sid q) (q_ident q)
      (if ctr then split (q_in q) else (0, None))
      (if ctr then split (q_out q) else (0, None))
      (if q_st q =? ST_STOP then q_cause q else 0).

(* ---- micro-state ---- *)
Record ms := mkX {
  x_sess : list sess;                 (* am.sessions, kept sorted by id *)
  x_pend : list prec;                 (* am.pendingRecords, in creation order *)
  x_chan : list (N * req);            (* am.pendingQueue *)
  x_files : list sess;                (* sessions/*.json, sorted by id (os.ReadDir order) *)
  x_pjson : option (list prec);       (* pending.json *)
  x_stamp : N;                        (* creation clock of pending records (time.Now) *)
  x_ev : list (wrec * bool);          (* requests received by the server during this op *)
  x_c : N;                            (* crash countdown *)
  x_mk : list N;                      (* ghost markers *)
  x_ret : N }.                        (* 0 ok, 1 error *)

Definition set_sess f x := mkX (f (x_sess x)) (x_pend x) (x_chan x) (x_files x) (x_pjson x) (x_stamp x) (x_ev x) (x_c x) (x_mk x) (x_ret x).
Definition set_pend f x := mkX (x_sess x) (f (x_pend x)) (x_chan x) (x_files x) (x_pjson x) (x_stamp x) (x_ev x) (x_c x) (x_mk x) (x_ret x).
Definition set_chan f x := mkX (x_sess x) (x_pend x) (f (x_chan x)) (x_files x) (x_pjson x) (x_stamp x) (x_ev x) (x_c x) (x_mk x) (x_ret x).
Definition set_files f x := mkX (x_sess x) (x_pend x) (x_chan x) (f (x_files x)) (x_pjson x) (x_stamp x) (x_ev x) (x_c x) (x_mk x) (x_ret x).
Definition set_pjson v x := mkX (x_sess x) (x_pend x) (x_chan x) (x_files x) v (x_stamp x) (x_ev x) (x_c x) (x_mk x) (x_ret x).
Definition set_c v x := mkX (x_sess x) (x_pend x) (x_chan x) (x_files x) (x_pjson x) (x_stamp x) (x_ev x) v (x_mk x) (x_ret x).
Definition set_ret v x := mkX (x_sess x) (x_pend x) (x_chan x) (x_files x) (x_pjson x) (x_stamp x) (x_ev x) (x_c x) (x_mk x) v.
Definition mark (b : bool) (m : N) x :=
  if b then mkX (x_sess x) (x_pend x) (x_chan x) (x_files x) (x_pjson x) (x_stamp x) (x_ev x) (x_c x) (x_mk x ++ [m]) (x_ret x) else x.

(* a crash point: inr = the process dies here *)
Definition ctick (x : ms) : ms + ms :=
  if x_c x =? 1 then inr x else inl (set_c (N.pred (x_c x)) x).

Definition bind (r : ms + ms) (f : ms -> ms + ms) : ms + ms :=
  match r with inl x => f x | inr x => inr x end.

Fixpoint fold_m {A} (f : A -> ms -> ms + ms) (l : list A) (x : ms) : ms + ms :=
  match l with
  | [] => inl x
  | a :: tl => match f a x with inl y => fold_m f tl y | inr y => inr y end
  end.

(* ---- tables ---- *)
Fixpoint put_sess (s : sess) (l : list sess) : list sess :=
  match l with
  | [] => [s]
  | h :: t => if s_id s <? s_id h then s :: l
              else if s_id s =? s_id h then s :: t else h :: put_sess s t
  end.
Definition del_sess (id : N) (l : list sess) : list sess := filter (fun h => negb (s_id h =? id)) l.
Definition find_sess (id : N) (l : list sess) : option sess := find (fun h => s_id h =? id) l.

Definition del_pend (st : N) (l : list prec) : list prec := filter (fun p => negb (p_stamp p =? st)) l.
Definition find_pend (st : N) (l : list prec) : option prec := find (fun p => p_stamp p =? st) l.
Definition set_retry (st r : N) (l : list prec) : list prec :=
  map (fun p => if p_stamp p =? st then mkP (p_stamp p) (p_req p) r else p) l.

(* the server's decision for a request *)
Definition acked (dn : list (N * N)) (q : req) : bool :=
  negb (existsb (fun p => (fst p =? q_sid q) && (snd p =? q_st q)) dn).

(* SendAccounting: the request reaches the server, which answers or not *)
Definition raw_send (q : req) (a : bool) (x : ms) : ms :=
  mkX (x_sess x) (x_pend x) (x_chan x) (x_files x) (x_pjson x) (x_stamp x) (x_ev x ++ [(wire q, a)]) (x_c x) (x_mk x) (x_ret x).

(* queuePendingRecord: map insert + channel push *)
Definition enqueue (q : req) (x : ms) : ms :=
  mkX (x_sess x) (x_pend x ++ [mkP (x_stamp x) q 0]) (x_chan x ++ [(x_stamp x, q)]) (x_files x) (x_pjson x)
      (x_stamp x + 1) (x_ev x) (x_c x) (x_mk x) (x_ret x).

(* "send, and queue for retry on failure" *)
Definition send (q : req) (a : bool) (x : ms) : ms :=
  let x1 := raw_send q a x in if a then x1 else enqueue q x1.

(* elements of l listed by key in [order] first (in that order), then the remaining ones *)
Fixpoint pick {A} (key : A -> N) (order : list N) (l : list A) : list A :=
  match order with
  | [] => l
  | k :: tl => match find (fun a => key a =? k) l with
               | Some a => a :: pick key tl (filter (fun b => negb (key b =? k)) l)
               | None => pick key tl l
               end
  end.

Fixpoint number {A} (i : N) (l : list A) : list (N * A) :=
  match l with [] => [] | a :: tl => (i, a) :: number (i + 1) tl end.
(* by position *)
Definition pick_pos {A} (order : list N) (l : list A) : list A := map snd (pick fst order (number 0 l)).

(* ---- StartSession ---- *)
Definition do_start (s : N) (id : ident) (dn : list (N * N)) (x : ms) : ms + ms :=
  match find_sess s (x_sess x) with
  | Some _ => inl (set_ret 1 x)                                   (* "session already exists" *)
  | None =>
      let se := mkS s id false 0 0 0 in
      let x1 := set_sess (put_sess se) x in
      let q := mkQ ST_START s id 0 0 0 in
      let a := acked dn q in
      let x2 := send q a x1 in
      (* 0801: the Start is only queued; the session goes on (its Stop can overtake it, or the
         Start can be lost with the volatile queue) *)
      let x3 := mark (negb a) 801 x2 in
      (* 0803: crash window between the acknowledged Start and the session file *)
      let x4 := mark (a && (x_c x3 =? 1)) 803 x3 in
      bind (ctick x4) (fun x5 =>                                   (* start_sent *)
      let x6 := set_files (put_sess se) x5 in                      (* persistActiveSession *)
      ctick x6)                                                    (* start_persisted *)
  end.

(* fetchCounters: the counter callback's value, or - when the callback fails for this session
   (fe lists the sessions whose fetch fails during the op) - the last known values of the session
   record found in am.sessions, or zeros when the session is not there *)
Definition fetch_ctr (fe : list N) (s cin cout : N) (l : list sess) : N * N :=
  if existsb (N.eqb s) fe then
    match find_sess s l with Some se => (s_lin se, s_lout se) | None => (0, 0) end
  else (cin, cout).

(* the counter source during an op: what the callback returns for each session (absent: zeros) *)
Definition src (cs : list (N * (N * N))) (s : N) : N * N :=
  match find (fun p => fst p =? s) cs with Some p => snd p | None => (0, 0) end.

(* ---- StopSession ---- *)
Definition do_stop (s cause cin cout : N) (fe : list N) (dn : list (N * N)) (x : ms) : ms + ms :=
  match find_sess s (x_sess x) with
  | None => inl (set_ret 1 x)                                      (* "session not found" *)
  | Some se0 =>
      let se := mkS s (s_ident se0) true cause (s_lin se0) (s_lout se0) in
      let x1 := set_sess (put_sess se) x in
      let x2 := set_files (put_sess se) x1 in                      (* persist StopPending *)
      bind (ctick x2) (fun x3 =>                                   (* stop_persisted *)
      let fc := fetch_ctr fe s cin cout (x_sess x3) in            (* the session is still in am.sessions *)
      let q := mkQ ST_STOP s (s_ident se) (fst fc) (snd fc) cause in
      let a := acked dn q in
      let x4 := send q a x3 in
      bind (ctick x4) (fun x5 =>                                   (* stop_sent *)
      let x6 := set_sess (del_sess s) x5 in
      let x7 := set_files (del_sess s) x6 in                       (* removePersistedSession *)
      (* 0802: the Stop now lives only in the volatile queue *)
      let x8 := mark (negb a) 802 x7 in
      ctick x8))                                                   (* stop_removed *)
  end.

(* ---- sendInterimUpdates (one ticker iteration; every session is due) ---- *)
Definition interim_one (cs : list (N * (N * N))) (fe : list N) (dn : list (N * N)) (se : sess) (x : ms) : ms + ms :=
  let fc := fetch_ctr fe (s_id se) (fst (src cs (s_id se))) (snd (src cs (s_id se))) (x_sess x) in
  let q := mkQ ST_INTERIM (s_id se) (s_ident se) (fst fc) (snd fc) 0 in
  let a := acked dn q in
  let x1 := send q a x in
  let x2 := if a then set_sess (map (fun h => if s_id h =? s_id se
                                              then mkS (s_id h) (s_ident h) (s_pend h) (s_cause h) (fst fc) (snd fc) else h)) x1
            else x1 in
  ctick x2.                                                        (* interim_sent *)

Definition do_interim (cs : list (N * (N * N))) (fe : list N) (dn : list (N * N)) (order : list N) (x : ms) : ms + ms :=
  fold_m (interim_one cs fe dn) (pick s_id order (filter (fun h => negb (s_pend h)) (x_sess x))) x.

(* ---- processPendingRecord ---- *)
Definition process_rec (maxr st : N) (q : req) (dn : list (N * N)) (x : ms) : ms + ms :=
  let a := acked dn q in
  let x1 := raw_send q a x in
  bind (ctick x1) (fun x2 =>                                       (* pending_sent *)
  inl (if a then set_pend (del_pend st) x2
       else match find_pend st (x_pend x2) with
            | None => x2                                           (* record no longer in the map *)
            | Some p => let r := p_retry p + 1 in
                        if maxr <=? r then set_pend (del_pend st) x2      (* abandoned *)
                        else set_pend (set_retry st r) x2
            end)).

Definition do_queue (maxr : N) (dn : list (N * N)) (x : ms) : ms + ms :=
  match x_chan x with
  | [] => inl x
  | (st, q) :: tl => process_rec maxr st q dn (set_chan (fun _ => tl) x)
  end.

Definition retry_one (maxr : N) (dn : list (N * N)) (p : prec) (x : ms) : ms + ms :=
  (* 0806: the record is also still waiting in the channel: it will be transmitted again from there *)
  let x1 := mark (existsb (fun e => fst e =? p_stamp p) (x_chan x)) 806 x in
  process_rec maxr (p_stamp p) (p_req p) dn x1.

Definition do_retry (maxr : N) (dn : list (N * N)) (order : list N) (x : ms) : ms + ms :=
  fold_m (retry_one maxr dn) (pick_pos order (x_pend x)) x.

(* ---- Stop(): drain, persist pending ---- *)
Definition drain_req (cs : list (N * (N * N))) (fe : list N) (l : list sess) (se : sess) : req :=
  let fc := fetch_ctr fe (s_id se) (fst (src cs (s_id se))) (snd (src cs (s_id se))) l in
  mkQ ST_STOP (s_id se) (s_ident se) (fst fc) (snd fc) CAUSE_NAS_REBOOT.

Definition do_graceful (cs : list (N * (N * N))) (fe : list N) (dn : list (N * N)) (qorder : list N) (g : N) (x : ms) : ms + ms :=
  let qs := map (drain_req cs fe (x_sess x)) (x_sess x) in
  if (g =? 1) && negb (match qs with [] => true | _ => false end) then
    (* crash inside the concurrent drain: every request is on the wire, the process dies at the
       first completed exchange (the first acknowledged one if there is any) *)
    let d := find (acked dn) qs in
    let ev := map (fun q => (wire q, match d with Some q' => q_sid q =? q_sid q' | None => false end)) qs in
    inr (mkX (x_sess x) (x_pend x) (x_chan x) (x_files x) (x_pjson x) (x_stamp x) (x_ev x ++ ev) (x_c x) (x_mk x) (x_ret x))
  else
    let x1 := fold_left (fun y q => raw_send q (acked dn q) y) qs x in
    let failed := pick q_sid qorder (filter (fun q => negb (acked dn q)) qs) in
    let x2 := fold_left (fun y q => enqueue q y) failed x1 in
    (* 0805: the drained sessions' files stay on disk: the next start sends their Stop again *)
    let x3 := mark (negb (match qs with [] => true | _ => false end)) 805 x2 in
    if g =? 2 then inr x3                                          (* drain_done *)
    else
      let x4 := match x_pend x3 with [] => x3 | l => set_pjson (Some l) x3 end in   (* persistPendingRecords *)
      if g =? 3 then inr x4 else inl x4.                           (* pending_persisted *)

(* ---- Start(): recoverOrphanedSessions ---- *)
Definition recover_one (dn : list (N * N)) (f : sess) (x : ms) : ms + ms :=
  let cause := if s_cause f =? 0 then CAUSE_NAS_REBOOT else s_cause f in
  let q := mkQ ST_STOP (s_id f) (s_ident f) (s_lin f) (s_lout f) cause in
  let a := acked dn q in
  let x1 := send q a x in
  bind (ctick x1) (fun x2 =>                                       (* recover_sent *)
  let x3 := set_files (del_sess (s_id f)) x2 in
  (* 0802: the recovered Stop now lives only in the volatile queue *)
  let x4 := mark (negb a) 802 x3 in
  ctick x4).                                                       (* recover_removed *)

Definition do_restart (dn : list (N * N)) (qperm : list N) (x : ms) : ms + ms :=
  bind (fold_m (recover_one dn) (x_files x) x) (fun x1 =>
  match x_pjson x1 with
  | None => inl x1
  | Some l =>
      (* loaded records are older than anything created by this process *)
      let x2 := set_pend (fun p => l ++ p) x1 in
      let x3 := set_chan (fun c => c ++ map (fun p => (p_stamp p, p_req p)) (pick_pos qperm l)) x2 in
      let x4 := set_pjson None x3 in                               (* os.Remove(pending.json) *)
      (* 0804: the loaded records are in memory only from here on *)
      let x5 := mark true 804 x4 in
      ctick x5                                                     (* recover_pending_removed *)
  end).

(* ---- whole-op step ---- *)
Inductive op :=
| Start (s : N) (id : ident) (dn : list (N * N)) (c : N)
| Stop (s cause cin cout : N) (fe : list N) (dn : list (N * N)) (c : N)
| InterimTick (cs : list (N * (N * N))) (fe : list N) (dn : list (N * N)) (order : list N) (c : N)
| ProcessQueued (dn : list (N * N)) (c : N)
| RetryTick (dn : list (N * N)) (order : list N) (c : N)
| GracefulStop (cs : list (N * (N * N))) (fe : list N) (dn : list (N * N)) (qorder : list N) (g : N)
| Crash
| Restart (dn : list (N * N)) (qperm : list N) (c : N)
| Final.

Record state := mkSt {
  st_maxr : N; st_alive : bool;
  st_sess : list sess; st_pend : list prec; st_chan : list (N * req);
  st_files : list sess; st_pjson : option (list prec); st_stamp : N }.

Definition init (maxr : N) : state := mkSt maxr true [] [] [] [] None 0.

Definition R_OK : N := 0.
Definition R_ERR : N := 1.
Definition R_CRASHED : N := 2.
Definition R_DEAD : N := 3.

Record out := mkO {
  o_ret : N; o_ev : list (wrec * bool); o_alive : bool;
  o_sess : list sess; o_pend : list (req * N); o_chan : list req;
  o_files : list sess; o_pjson : option (list (req * N)) }.

Definition pview (l : list prec) : list (req * N) := map (fun p => (p_req p, p_retry p)) l.

Definition view (ret : N) (ev : list (wrec * bool)) (s : state) : out :=
  mkO ret ev (st_alive s) (st_sess s) (pview (st_pend s)) (map snd (st_chan s))
      (st_files s) (option_map pview (st_pjson s)).

Definition enter (s : state) (c : N) : ms :=
  mkX (st_sess s) (st_pend s) (st_chan s) (st_files s) (st_pjson s) (st_stamp s) [] c [] 0.

(* the op ran to completion, or the process died inside it *)
Definition leave (s : state) (stops : bool) (r : ms + ms) : state * out * list N :=
  match r with
  | inl x =>
      let s' := if stops then mkSt (st_maxr s) false [] [] [] (x_files x) (x_pjson x) (x_stamp x)
                else mkSt (st_maxr s) true (x_sess x) (x_pend x) (x_chan x) (x_files x) (x_pjson x) (x_stamp x) in
      (s', view (x_ret x) (x_ev x) s', x_mk x)
  | inr x =>
      let s' := mkSt (st_maxr s) false [] [] [] (x_files x) (x_pjson x) (x_stamp x) in
      (s', view R_CRASHED (x_ev x) s', x_mk x)
  end.

Definition dead (s : state) : state * out * list N := (s, view R_DEAD [] s, []).

Definition step (s : state) (o : op) : state * out * list N :=
  match o with
  | Start id idn dn c => if st_alive s then leave s false (do_start id idn dn (enter s c)) else dead s
  | Stop id cause cin cout fe dn c => if st_alive s then leave s false (do_stop id cause cin cout fe dn (enter s c)) else dead s
  | InterimTick cs fe dn order c => if st_alive s then leave s false (do_interim cs fe dn order (enter s c)) else dead s
  | ProcessQueued dn c => if st_alive s then leave s false (do_queue (st_maxr s) dn (enter s c)) else dead s
  | RetryTick dn order c => if st_alive s then leave s false (do_retry (st_maxr s) dn order (enter s c)) else dead s
  | GracefulStop cs fe dn qorder g => if st_alive s then leave s true (do_graceful cs fe dn qorder g (enter s 0)) else dead s
  | Crash => if st_alive s then leave s false (inr (enter s 0)) else dead s
  | Restart dn qperm c =>
      if st_alive s then (s, view R_ERR [] s, [])
      else leave s false (do_restart dn qperm (enter s c))
  | Final => (s, view R_OK [] s, [])
  end.

(* ---- equality on observables ---- *)
Definition ident_eqb (a b : ident) : bool :=
  let '(a1, a2, a3) := a in let '(b1, b2, b3) := b in (a1 =? b1) && (a2 =? b2) && (a3 =? b3).
Definition optN_eqb (a b : option N) : bool :=
  match a, b with Some x, Some y => x =? y | None, None => true | _, _ => false end.
Definition ctr_eqb (a b : N * option N) : bool := (fst a =? fst b) && optN_eqb (snd a) (snd b).
Definition sess_eqb (a b : sess) : bool :=
  (s_id a =? s_id b) && ident_eqb (s_ident a) (s_ident b) && Bool.eqb (s_pend a) (s_pend b) &&
  (s_cause a =? s_cause b) && (s_lin a =? s_lin b) && (s_lout a =? s_lout b).
Definition req_eqb (a b : req) : bool :=
  (q_st a =? q_st b) && (q_sid a =? q_sid b) && ident_eqb (q_ident a) (q_ident b) &&
  (q_in a =? q_in b) && (q_out a =? q_out b) && (q_cause a =? q_cause b).
Definition wrec_eqb (a b : wrec) : bool :=
  (w_st a =? w_st b) && (w_sid a =? w_sid b) && ident_eqb (w_ident a) (w_ident b) &&
  ctr_eqb (w_in a) (w_in b) && ctr_eqb (w_out a) (w_out b) && (w_cause a =? w_cause b).
Fixpoint list_eqb {A} (e : A -> A -> bool) (a b : list A) : bool :=
  match a, b with
  | [], [] => true
  | x :: a', y :: b' => e x y && list_eqb e a' b'
  | _, _ => false
  end.
Definition opt_eqb {A} (e : A -> A -> bool) (a b : option A) : bool :=
  match a, b with Some x, Some y => e x y | None, None => true | _, _ => false end.
Definition rn_eqb (a b : req * N) : bool := req_eqb (fst a) (fst b) && (snd a =? snd b).
Definition ev_eqb (a b : wrec * bool) : bool := wrec_eqb (fst a) (fst b) && Bool.eqb (snd a) (snd b).

Definition out_eqb (a b : out) : bool :=
  (o_ret a =? o_ret b) && list_eqb ev_eqb (o_ev a) (o_ev b) && Bool.eqb (o_alive a) (o_alive b) &&
  list_eqb sess_eqb (o_sess a) (o_sess b) && list_eqb rn_eqb (o_pend a) (o_pend b) &&
  list_eqb req_eqb (o_chan a) (o_chan b) && list_eqb sess_eqb (o_files a) (o_files b) &&
  opt_eqb (list_eqb rn_eqb) (o_pjson a) (o_pjson b).
