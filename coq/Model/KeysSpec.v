(* C20 — BijSpec: the executable monitor of the property over observed traces.
   It knows nothing about how a component chooses keys; it only relates the recorded lookups to each
   other and to the previous observation, as the property text does.  One observation carries, per
   index, the forward lookups (holder -> key) of every live holder and the reverse lookups
   (key -> holder) of every probed key (the probe set contains every key a live holder reports).

   clause 0  agree      forward and reverse lookups are mutually inverse
                        (identifying index: exactly; shared index such as MAC -> session: a reverse
                         entry names a live holder that reports this key, and every reported key has
                         a reverse entry; the reverse map has no further entries)
   clause 1  unique     identifying index: no key is reported by two holders
   clause 2  range      every key in use lies in the configured range
   clause 3  frame      an operation on some holders leaves every other holder's keys as they were
   clause 4  release    after a release (that was not refused) the holder has no key and its old keys are free
   clause 5  reusable   an allocation is refused only if every candidate key is held by someone else
   clause 6  return     a returned key is the key the holder now reports
   clause 7  atomic     a refused operation changes no mapping
   clause 8  hang       the operation did not return
   clause 9  shape      malformed observation *)
From Coq Require Import NArith List Bool.
From Verif Require Import Base.Word Model.Keys.
Import ListNotations.
Local Open Scope N_scope.

(* per index: shared (several holders may report one key) and the range predicate *)
Record imode := { im_shared : bool; im_range : N -> bool }.

Inductive akind :=
| KAlloc (h : N) (cands : option (list N))   (* holder h asks for a key; cands: the keys the request may be served from *)
| KRelease (h : N)
| KReleaseKey (k : N)                        (* release by key of index 0 *)
| KOther.
Record aop := { a_touch : list N; a_kind : akind; a_atomic : bool }.

Record sstate := { ss_modes : list imode; ss_prev : list snap }.

Definition empty_snap : snap := {| sfwd := []; srev := []; stot := None |}.
Definition sinit (modes : list imode) : sstate :=
  {| ss_modes := modes; ss_prev := map (fun _ => empty_snap) modes |}.

Definition lookup (l : list (N * N)) (a : N) : option N :=
  match find (fun x => fst x =? a) l with Some x => Some (snd x) | None => None end.
Definition memp (l : list (N * N)) (a b : N) : bool := existsb (fun x => (fst x =? a) && (snd x =? b)) l.
Definition memn (l : list N) (a : N) : bool := existsb (N.eqb a) l.

Fixpoint nodup_keys (l : list (N * N)) : bool :=
  match l with
  | [] => true
  | x :: tl => negb (existsb (fun y => snd y =? snd x) tl) && nodup_keys tl
  end.

Definition distinct_keys (l : list (N * N)) : N := N.of_nat (length (sort_n (map snd l))).

Definition pair_eqb (a b : N * N) : bool := (fst a =? fst b) && (snd a =? snd b).
Fixpoint plist_eqb (a b : list (N * N)) : bool :=
  match a, b with
  | [], [] => true
  | x :: a', y :: b' => pair_eqb x y && plist_eqb a' b'
  | _, _ => false
  end.

Definition agree (m : imode) (s : snap) : bool :=
  (if im_shared m
   then forallb (fun x => memp (sfwd s) (snd x) (fst x)) (srev s) &&
        forallb (fun x => match lookup (srev s) (snd x) with Some _ => true | None => false end) (sfwd s)
   else forallb (fun x => match lookup (sfwd s) (snd x) with Some k => k =? fst x | None => false end) (srev s) &&
        forallb (fun x => match lookup (srev s) (snd x) with Some h => h =? fst x | None => false end) (sfwd s)) &&
  match stot s with
  | Some n => n =? (if im_shared m then distinct_keys (sfwd s) else N.of_nat (length (sfwd s)))
  | None => true
  end.

Definition frame (touch : list N) (p s : snap) : bool :=
  forallb (fun x => memn touch (fst x) || memp (sfwd s) (fst x) (snd x)) (sfwd p) &&
  forallb (fun x => memn touch (fst x) || memp (sfwd p) (fst x) (snd x)) (sfwd s).

Definition released (h : N) (p s : snap) : bool :=
  negb (existsb (fun x => fst x =? h) (sfwd s)) &&
  forallb (fun x => negb (fst x =? h) || negb (memp (srev s) (snd x) h)) (sfwd p).

Definition snap_same (p s : snap) : bool := plist_eqb (sfwd p) (sfwd s) && plist_eqb (srev p) (srev s).

Fixpoint all2 {A B} (f : A -> B -> bool) (a : list A) (b : list B) : bool :=
  match a, b with
  | [], [] => true
  | x :: a', y :: b' => f x y && all2 f a' b'
  | _, _ => false
  end.
Fixpoint all3 {A B C} (f : A -> B -> C -> bool) (a : list A) (b : list B) (c : list C) : bool :=
  match a, b, c with
  | [], [], [] => true
  | x :: a', y :: b', z :: c' => f x y z && all3 f a' b' c'
  | _, _, _ => false
  end.

Definition snap0 (l : list snap) : snap := match l with s :: _ => s | [] => empty_snap end.

Definition accept (ss : sstate) (o : aop) (r : obs) : sstate + N :=
  let ms := ss_modes ss in
  let prev := ss_prev ss in
  let now := o_snaps r in
  if negb (Nat.eqb (length now) (length ms)) then inr 9
  else match o_ret r with RHang => inr 8 | _ =>
  if negb (all2 agree ms now) then inr 0
  else if negb (all2 (fun m s => im_shared m || nodup_keys (sfwd s)) ms now) then inr 1
  else if negb (all2 (fun m s => forallb (fun x => im_range m (snd x)) (sfwd s)) ms now) then inr 2
  else
  let touch := match a_kind o with
               | KReleaseKey k => match lookup (srev (snap0 prev)) k with Some h => h :: a_touch o | None => a_touch o end
               | _ => a_touch o end in
  if negb (all2 (frame touch) prev now) then inr 3
  else if negb (match a_kind o with
                | KRelease h => match o_ret r with
                                | RErr _ => true              (* a refused release releases nothing *)
                                | _ => all2 (released h) prev now end
                | KReleaseKey k => match lookup (srev (snap0 prev)) k with
                                   | Some h => all2 (released h) prev now
                                   | None => true end
                | _ => true end) then inr 4
  else if negb (match a_kind o, o_ret r with
                | KAlloc h (Some cands), RErr _ =>
                    forallb (fun k => match lookup (srev (snap0 prev)) k with
                                      | Some h' => negb (h' =? h) | None => false end) cands
                | KAlloc h (Some cands), RKey k =>
                    (* a key handed out to a holder that had none comes from the candidates *)
                    match lookup (sfwd (snap0 prev)) h with
                    | Some k0 => (k0 =? k) || memn cands k
                    | None => memn cands k end
                | _, _ => true end) then inr 5
  else if negb (match a_kind o, o_ret r with
                | KAlloc h _, RKey k => memp (sfwd (snap0 now)) h k
                | _, _ => true end) then inr 6
  else if negb (match o_ret r with
                | RErr _ => negb (a_atomic o) || all2 snap_same prev now
                | _ => true end) then inr 7
  else inl {| ss_modes := ms; ss_prev := now |}
  end.

(* ---- equality on observations (tie-1) ---- *)
Definition ret_eqb (a b : ret) : bool :=
  match a, b with
  | RNone, RNone => true
  | RKey x, RKey y => x =? y
  | RErr x, RErr y => x =? y
  | RHang, RHang => true
  | _, _ => false
  end.
Definition optN_eqb (a b : option N) : bool :=
  match a, b with Some x, Some y => x =? y | None, None => true | _, _ => false end.
Definition snap_eqb (a b : snap) : bool :=
  plist_eqb (sfwd a) (sfwd b) && plist_eqb (srev a) (srev b) && optN_eqb (stot a) (stot b).
Definition obs_eqb (a b : obs) : bool := ret_eqb (o_ret a) (o_ret b) && all2 snap_eqb (o_snaps a) (o_snaps b).

(* ---- circuit-id keys: the monitor remembers every (circuit-id, key) pair it has seen ----
   clause 10  key shape       the key has exactly 32 bytes
   clause 11  key injective   two different circuit-ids never produce the same key
   clause 12  deterministic   the same circuit-id always produces the same key / hash
   clause 13  hash injective  two different circuit-ids observed in one history have different hashes *)
Record cstate := { c_keys : list (bytes * bytes); c_hashes : list (bytes * N) }.
Definition cinit : cstate := {| c_keys := []; c_hashes := [] |}.

Definition c_accept (s : cstate) (o : cop) (r : cout) : cstate + N :=
  match o, r with
  | CKey c, CBytes k =>
      if negb (Nat.eqb (length k) 32) then inr 10
      else if negb (forallb (fun x => negb (bytes_eqb (fst x) c) || bytes_eqb (snd x) k) (c_keys s)) then inr 12
      else if negb (forallb (fun x => bytes_eqb (fst x) c || negb (bytes_eqb (snd x) k)) (c_keys s)) then inr 11
      else inl {| c_keys := (c, k) :: c_keys s; c_hashes := c_hashes s |}
  | CHash c, CNum h =>
      if negb (forallb (fun x => negb (bytes_eqb (fst x) c) || (snd x =? h)) (c_hashes s)) then inr 12
      else if negb (forallb (fun x => bytes_eqb (fst x) c || negb (snd x =? h)) (c_hashes s)) then inr 13
      else inl {| c_keys := c_keys s; c_hashes := (c, h) :: c_hashes s |}
  | _, _ => inr 9
  end.

Definition cout_eqb (a b : cout) : bool :=
  match a, b with
  | CBytes x, CBytes y => bytes_eqb x y
  | CNum x, CNum y => x =? y
  | _, _ => false
  end.
