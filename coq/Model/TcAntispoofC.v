(* C18 - the key and field derivations of bpf/antispoof.c with the TYPE the C gives every intermediate value, and
   the Go derivations of pkg/antispoof/manager.go that must arrive at the same bytes.

   C integer semantics used by antispoof.c (ILP32/LP64 alike; clang for bpf and x86-64):
     - an `unsigned char` / `__u8` operand is promoted to `int` (signed, 32 bit) before any arithmetic;
     - `E1 << k` has the (promoted) type of E1: `mac[2] << 24` is an `int` shift whose result is negative when
       mac[2] >= 0x80;
     - `a | b`: usual arithmetic conversions - an `int` meeting a `__u64` is converted to `__u64`, i.e. SIGN-EXTENDED;
     - `(__u64)x` of an int: value modulo 2^64.
   mac_to_u64 as written casts every octet to __u64 BEFORE shifting; [c_mac_to_u64] follows it cast by cast.
   [c_mac_to_u64_int_shifts] is the same expression with the casts left out (an `int` low word): the two differ
   exactly when octet 2 has its top bit set - the typed semantics is what makes the casts matter.

   Nothing here is assumed about the list elements: a byte object holds a value < 256, so a load is `land 255`. *)
From Coq Require Import ZArith NArith List Bool.
From Verif Require Import Base.Word.
Import ListNotations.
Local Open Scope N_scope.

Inductive cval :=
| CInt (z : Z)     (* int: signed, 32 bit *)
| CU32 (n : N)     (* unsigned int, __u32, __be32 *)
| CU64 (n : N).    (* unsigned long long, __u64 *)

Definition mask32 : N := 4294967295.
Definition wrap32 (a : N) : N := N.land a mask32.
Definition TWO32 : Z := 4294967296.
Definition TWO64 : Z := 18446744073709551616.
(* conversions of an int to the unsigned types: value modulo 2^width (negative values wrap = sign extension) *)
Definition z_to_u32 (z : Z) : N := Z.to_N (z mod TWO32).
Definition z_to_u64 (z : Z) : N := Z.to_N (z mod TWO64).
(* the int whose bit pattern is the low 32 bits of n *)
Definition sext32 (n : N) : Z := let w := wrap32 n in if w <? 2147483648 then Z.of_N w else (Z.of_N w - TWO32)%Z.

Definition as_u64 (v : cval) : N := match v with CInt z => z_to_u64 z | CU32 n => n | CU64 n => n end.
Definition as_u32 (v : cval) : N := match v with CInt z => z_to_u32 z | CU32 n => n | CU64 n => wrap32 n end.

(* reading an unsigned char object and promoting it *)
Definition c_uchar (b : N) : cval := CInt (Z.of_N (N.land b 255)).
Definition c_cast_u64 (v : cval) : cval := CU64 (as_u64 v).
Definition c_cast_u32 (v : cval) : cval := CU32 (as_u32 v).
(* E1 << k, k a constant below the width of E1's type (true of every shift in antispoof.c; the 32-bit shl clang
   emits for an int operand wraps into the sign bit) *)
Definition c_shl (v : cval) (k : N) : cval :=
  match v with
  | CInt z => CInt (sext32 (N.shiftl (z_to_u32 z) k))
  | CU32 n => CU32 (wrap32 (N.shiftl n k))
  | CU64 n => CU64 (wrap64 (N.shiftl n k))
  end.
(* a | b under the usual arithmetic conversions *)
Definition c_or (a b : cval) : cval :=
  match a, b with
  | CInt x, CInt y => CInt (Z.lor x y)
  | CU64 _, _ | _, CU64 _ => CU64 (N.lor (as_u64 a) (as_u64 b))
  | _, _ => CU32 (N.lor (as_u32 a) (as_u32 b))
  end.
(* a == b under the usual arithmetic conversions *)
Definition c_eq (a b : cval) : bool :=
  match a, b with
  | CInt x, CInt y => Z.eqb x y
  | CU64 _, _ | _, CU64 _ => as_u64 a =? as_u64 b
  | _, _ => as_u32 a =? as_u32 b
  end.

(* n bytes of v in memory on the little-endian targets (x86-64, bpfel): what `&key` points at *)
Fixpoint le_mem (n : nat) (v : N) : bytes :=
  match n with O => [] | S k => v mod 256 :: le_mem k (v / 256) end.

(* ------------------------------------------------------------------ source MAC -> map key *)
(* static __always_inline __u64 mac_to_u64(unsigned char *mac) {
     return ((__u64)mac[0] << 40) | ((__u64)mac[1] << 32) | ((__u64)mac[2] << 24) |
            ((__u64)mac[3] << 16) | ((__u64)mac[4] << 8)  | ((__u64)mac[5]); }                  *)
Definition c_mac_to_u64 (mac : bytes) : N :=
  let b i := c_uchar (nth i mac 0) in
  as_u64 (c_or (c_or (c_or (c_or (c_or
    (c_shl (c_cast_u64 (b 0%nat)) 40)
    (c_shl (c_cast_u64 (b 1%nat)) 32))
    (c_shl (c_cast_u64 (b 2%nat)) 24))
    (c_shl (c_cast_u64 (b 3%nat)) 16))
    (c_shl (c_cast_u64 (b 4%nat)) 8))
    (c_cast_u64 (b 5%nat))).
(* bpf_map_lookup_elem(&subscriber_bindings, &mac_key): the 8 bytes of the __u64 in memory *)
Definition c_mac_key (mac : bytes) : bytes := le_mem 8 (c_mac_to_u64 mac).

(* the same expression without the per-octet casts:
     __u64 hi = (mac[0] << 8) | mac[1];  return (hi << 32) | (mac[2] << 24) | (mac[3] << 16) | (mac[4] << 8) | mac[5];
   (every shift here is an int shift; `hi << 32 | <int>` converts the int to __u64) - NOT what the program does;
   kept to show that the semantics above tells the two apart *)
Definition c_mac_to_u64_int_shifts (mac : bytes) : N :=
  let b i := c_uchar (nth i mac 0) in
  let hi := c_cast_u64 (c_or (c_shl (b 0%nat) 8) (b 1%nat)) in
  as_u64 (c_or (c_or (c_or (c_or (c_shl hi 32) (c_shl (b 2%nat) 24)) (c_shl (b 3%nat) 16)) (c_shl (b 4%nat) 8)) (b 5%nat)).

(* Go, manager.go:  func macToUint64(mac net.HardwareAddr) uint64 {
     return uint64(mac[0])<<40 | uint64(mac[1])<<32 | uint64(mac[2])<<24 | uint64(mac[3])<<16 | uint64(mac[4])<<8 | uint64(mac[5]) }
   (uint64 operands throughout; shifts wrap at 64 bits); m.bindings.Put(&macKey, ..) marshals the uint64 in native
   (little-endian) order *)
Definition go_mac_to_u64 (mac : bytes) : N :=
  let b i := N.land (nth i mac 0) 255 in
  N.lor (N.lor (N.lor (N.lor (N.lor (shl64 (b 0%nat) 40) (shl64 (b 1%nat) 32)) (shl64 (b 2%nat) 24))
                      (shl64 (b 3%nat) 16)) (shl64 (b 4%nat) 8)) (b 5%nat).
Definition go_mac_key (mac : bytes) : bytes := le_mem 8 (go_mac_to_u64 mac).

(* the intended key: the MAC as a 48-bit big-endian number in a little-endian 64-bit word *)
Definition spec_mac_key (mac : bytes) : bytes := rev (map (fun b => N.land b 255) mac) ++ [0; 0].

(* ------------------------------------------------------------------ fields compared by the program *)
(* a __u32 / __be32 / __be16 object read from memory on a little-endian target *)
Definition c_load_u32 (l : bytes) : cval := CU32 (le_val (map (fun b => N.land b 255) (firstn 4 l))).
Definition c_load_u16 (l : bytes) : cval := CInt (Z.of_N (le_val (map (fun b => N.land b 255) (firstn 2 l)))).  (* promoted *)
(* bpf_htons(c) for a constant, little-endian target: __builtin_bswap16 *)
Definition c_htons (c : N) : cval := CInt (Z.of_N ((c mod 256) * 256 + (c / 256) mod 256)).
(* eth->h_proto == bpf_htons(ETH_P_xx) *)
Definition c_proto_is (proto : bytes) (ethertype : N) : bool := c_eq (c_load_u16 proto) (c_htons ethertype).
(* src_ip == binding->ipv4_addr : two __u32 objects *)
Definition c_saddr_eq (src bound : bytes) : bool := c_eq (c_load_u32 src) (c_load_u32 bound).
(* allowed = 1; for (i = 0; i < 16; i++) if (ip6->saddr.s6_addr[i] != binding->ipv6_addr[i]) { allowed = 0; break; } *)
Fixpoint c_ip6_loop (n i : nat) (a b : bytes) (allowed : bool) : bool :=
  match n with
  | O => allowed
  | S n' => if negb (c_eq (c_uchar (nth i a 0)) (c_uchar (nth i b 0))) then false (* allowed = 0; break *)
            else c_ip6_loop n' (S i) a b allowed
  end.
Definition c_ip6_eq (a b : bytes) : bool := c_ip6_loop 16 0 a b true.
(* struct lpm_key_v4 key = { .prefixlen = 32, .ip = ip }: the 8 bytes handed to the LPM lookup *)
Definition c_lpm_lookup_key (src : bytes) : bytes := le_mem 4 32 ++ le_mem 4 (as_u32 (c_load_u32 src)).
