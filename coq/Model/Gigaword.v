(* pkg/radius/client.go SendAccounting: a 64-bit octet counter v is put on the wire as
     Acct-Input-Octets     = uint32 (v & 0xFFFFFFFF)
     Acct-Input-Gigawords  = uint32 (v >> 32)         only when v > 0xFFFFFFFF
   (same for Output).  A RADIUS server reads  low + gigawords * 2^32, gigawords absent = 0. *)
From Coq Require Import NArith Lia ZifyN ZifyBool.
Local Open Scope N_scope.

Definition G32 : N := 4294967296.            (* 2^32 *)
Definition GMASK : N := 4294967295.          (* 0xFFFFFFFF *)
Definition G64 : N := 18446744073709551616.  (* 2^64 *)

Definition split (v : N) : N * option N :=
  (N.land v GMASK, if GMASK <? v then Some (N.shiftr v 32) else None).

Definition join (p : N * option N) : N :=
  fst p + match snd p with Some g => g * G32 | None => 0 end.
