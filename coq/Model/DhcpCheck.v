(* Entry points evaluated by the harness-written case files for C02 (streams dhcp4, dhcp6). *)
From Coq Require Import NArith List.
From Verif Require Import Base.Check Model.Dhcp4 Model.Dhcp4Alloc Model.Dhcp6 Model.DhcpSpec.
Import ListNotations.

Definition case4 := (cfg4 * list (op4 * out4))%type.
Definition run_cases4 (cs : list case4) : list (list N) :=
  check_all (fun (s : cfg4 * state4) o => let '(s', r, mk) := step4o (fst s) (snd s) o in ((fst s, s'), r, mk))
            accept4 out4_eqb 1%N
            (map (fun c : case4 => ((fst c, init4 (fst c)), sinit4 (fst c), snd c)) cs).

Definition case6 := (cfg6 * list (op6 * out6))%type.
Definition run_cases6 (cs : list case6) : list (list N) :=
  check_all (fun (s : cfg6 * state6) o => let '(s', r, mk) := step6o (fst s) (snd s) o in ((fst s, s'), r, mk))
            accept6 out6_eqb 1%N
            (map (fun c : case6 => ((fst c, init6 (fst c)), sinit6 (fst c), snd c)) cs).

(* allocator configuration (stream dhcp4h): ops carry the allocator's answer; the monitor's serving
   pool grows by every address the allocator names *)
Definition case4h := (cfg4 * list (op4h * out4))%type.
Definition acc4h (s : sstate4 * list N) (oh : op4h) (r : out4) : (sstate4 * list N) + N :=
  let nx := match snd oh with LkHit a => a :: snd s | _ => snd s end in
  match accept4x nx (fst s) (fst oh) r with
  | inl s' => inl (s', nx)
  | inr k => inr k
  end.
Definition run_cases4h (cs : list case4h) : list (list N) :=
  check_all (fun (s : cfg4 * state4) o => let '(s', r, mk) := step4ho (fst s) (snd s) o in ((fst s, s'), r, mk))
            acc4h out4_eqb 1%N
            (map (fun c : case4h => ((fst c, init4 (fst c)), (sinit4 (fst c), []), snd c)) cs).
