(* Packet-access skeleton of bpf/qos_ratelimit.c : qos_egress_prog / qos_ingress_prog (TC).
   Neither program stores into the packet (egress sets skb->priority, which is not packet memory).
   token_bucket_check is modelled with the C's 64-bit wrap so that the verdict can be tied; the
   bucket write-back and the statistics are map state and left out (C19 covers them).

   struct token_bucket { u64 tokens @0; u64 last_update @8; u64 rate_bps @16; u32 burst_bytes @24;
                         u8 priority @28; pad }                                    (32 bytes) *)
From Coq Require Import NArith List Bool.
From Verif Require Import Base.Word Model.PktMonad.
Import ListNotations.
Local Open Scope N_scope.
Local Open Scope pkt_scope.

Definition MAP_QOS_EGRESS : N := 10.
Definition MAP_QOS_INGRESS : N := 11.

Definition tb_allows (tb : list N) (now pkt_len : N) : bool :=
  let tokens := fld 0 8 tb in
  let last := fld 8 8 tb in
  let rate := fld 16 8 tb in
  let burst := fld 24 4 tb in
  if rate =? 0 then true else
  let elapsed := sub64 now last in
  let new_tokens := mul64 elapsed (rate / 8) / 1000000000 in
  let t1 := add64 tokens new_tokens in
  let t2 := if t1 >? burst then burst else t1 in
  pkt_len <=? t2.

(* dir = false: egress, key = ip->daddr @30;  dir = true: ingress, key = ip->saddr @26 *)
Definition qos_body (dir : bool) (mp : maps) (e : env) (dl : N) : M N :=
  if 14 >? dl then exit TC_ACT_OK else
  proto <- rd16 12 ;;
  if negb (proto =? htons 0x0800) then exit TC_ACT_OK else
  if 14 + 20 >? dl then exit TC_ACT_OK else
  ip <- rd32 (if dir then 26 else 30) ;;
  match mp (if dir then MAP_QOS_INGRESS else MAP_QOS_EGRESS) (le_n 4 ip) with
  | None => exit TC_ACT_OK
  | Some tb =>
      if tb_allows tb (e_now e) (e_skblen e) then ret TC_ACT_OK else ret TC_ACT_SHOT
  end.

Definition qos_egress_prog (mp : maps) (e : env) : M N := fun f => qos_body false mp e (flen f) f.
Definition qos_ingress_prog (mp : maps) (e : env) : M N := fun f => qos_body true mp e (flen f) f.

(* "a packet of a bound subscriber": IPv4 frame whose destination (egress) / source (ingress)
   address has a token bucket. *)
Definition act_qos (dir : bool) (mp : maps) (f : frame) : bool :=
  (34 <=? flen f) && (get16 12 f =? htons 0x0800) &&
  match mp (if dir then MAP_QOS_INGRESS else MAP_QOS_EGRESS) (le_n 4 (get32 (if dir then 26 else 30) f)) with
  | Some _ => true | None => false end.
