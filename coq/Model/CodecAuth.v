(* C09 — Model of Authenticator.ReceivePacket (pkg/pppoe/auth.go): receivePAP / handlePAPAuthRequest
   and receiveCHAP / handleCHAPResponse, no RADIUS client (every credential accepted), not rate
   limited.  Result on success: the reply's (code, identifier) and the user name taken from the packet. *)
From Coq Require Import ZArith NArith List Lia ZifyN ZifyNat ZifyBool Bool.
From Verif Require Import Model.CodecBase.
Import ListNotations.
Local Open Scope N_scope.

Definition pap_receive (d : bytes) : res rows :=
  if lenN d <? 4 then Err else
  c <- idx d 0 ;; i <- idx d 1 ;; ln <- be16 d 2 ;;
  if ln <? 4 then Err else
  if lenN d <? ln then Err else
  if negb (c =? 1) then Ok [] else
  a <- sub0 d 4 ln ;;
  if lenN a <? 1 then Err else
  ul <- idx a 0 ;;
  if lenN a <? 1 + ul + 1 then Err else
  user <- sub0 a 1 (1 + ul) ;;
  pl <- idx a (1 + ul) ;;
  if lenN a <? 2 + ul + pl then Err else
  _ <- sub0 a (2 + ul) (2 + ul + pl) ;;
  Ok [[2; i]; user].

Definition chap_receive (chap_id : N) (d : bytes) : res rows :=
  if lenN d <? 4 then Err else
  c <- idx d 0 ;; i <- idx d 1 ;; ln <- be16 d 2 ;;
  if ln <? 4 then Err else
  if lenN d <? ln then Err else
  if negb (c =? 2) then Ok [] else
  a <- sub0 d 4 ln ;;
  if negb (i =? chap_id) then Ok [] else
  if lenN a <? 1 then Err else
  vs <- idx a 0 ;;
  if lenN a <? 1 + vs then Err else
  _ <- sub0 a 1 (1 + vs) ;;
  name <- from a (1 + vs) ;;
  Ok [[3; i]; name].

Definition auth_receive (proto chap_id : N) (d : bytes) : res rows :=
  if proto =? 49187 then pap_receive d
  else if proto =? 49699 then chap_receive chap_id d
  else Err.
