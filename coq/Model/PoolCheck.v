(* Entry points evaluated by the harness-written case files for C01 / C05 (one per pool kind). *)
From Coq Require Import NArith List Bool.
From Verif Require Import Base.Check Model.PoolMap Model.Geometry Model.PoolSpec Model.Bitmap.
Import ListNotations.
Local Open Scope N_scope.

(* The harness writes every address relative to the case's base, biased by 65536 (small literals are
   much cheaper to type-check than 128-bit ones): value v stands for base + v - 65536. *)
Definition BIAS : N := 65536.
Definition unb (base v : N) : N := base + v - BIAS.
Definition unb_op (base : N) (o : op) : op :=
  match o with
  | AllocSpec h a pl => AllocSpec h (unb base a) pl
  | SetAlloc h a pl => SetAlloc h (unb base a) pl
  | ReleaseUnit a pl => ReleaseUnit (unb base a) pl
  | LookupUnit a pl => LookupUnit (unb base a) pl
  | MarkUnavail a pl => MarkUnavail (unb base a) pl
  | _ => o
  end.
Definition unb_out (base : N) (r : out) : out :=
  match r with
  | OUnit u => OUnit (unb base u)
  | OSnap l => OSnap (map (fun p => (fst p, unb base (snd p))) l)
  | _ => r
  end.
Definition unb_trace (base : N) (tr : list (op * out)) : list (op * out) :=
  map (fun p => (unb_op base (fst p), unb_out base (snd p))) tr.

(* bitmap: case = (bits, base, pool prefix length, prefix length) , trace *)
Definition bcase := ((N * N * N * N) * list (op * out))%type.
Definition bgeo (c : N * N * N * N) : geo :=
  let '(bits, base, ppl, pl) := c in {| g_bits := bits; g_base := base; g_ppl := ppl; g_pl := pl |}.
Definition run_bitmap (prop : N) (cs : list bcase) : list (list N) :=
  concat (map (fun ic : N * bcase =>
     let g := bgeo (fst (snd ic)) in
     map (fun row => match row with _ :: v => fst ic :: v | [] => [] end)
         (check_all step (accept (bitmap_scfg prop g)) out_eqb 1 [(binit g, sinit, unb_trace (g_base g) (snd (snd ic)))]))
     (combine (map N.of_nat (seq 1 (length cs))) cs)).
Definition run_bitmap_case := bcase.

(* epoch: case = (base, pool prefix length, prefix length, grace), trace *)
From Verif Require Import Model.Epoch.
Definition run_epoch_case := ((N * N * N * N) * list (op * out))%type.
Definition run_epoch (prop : N) (cs : list run_epoch_case) : list (list N) :=
  concat (map (fun ic : N * run_epoch_case =>
     let '(base, ppl, pl, grace) := fst (snd ic) in
     map (fun row => match row with _ :: v => fst ic :: v | [] => [] end)
         (check_all Epoch.step (accept (epoch_scfg prop base ppl pl grace)) out_eqb 1
                    [(einit base ppl pl grace, sinit, unb_trace base (snd (snd ic)))]))
     (combine (map N.of_nat (seq 1 (length cs))) cs)).

(* free-list pools: case = (kind, [numbers]), trace.
   kind 1 dhcp4pool  [base; ppl; reslo; reshi; gw]     kind 2 v6addr [base; ppl]
   kind 3 v6prefix   [base; ppl; dlen]                  kind 4 pppoe  [base; ppl; gw; idem]
   kind 5 localpool  [base; ppl; gw] *)
From Verif Require Import Model.FreeList.
Definition run_freelist_case := ((N * list N) * list (op * out))%type.
Definition fl_univ (k : N) (a : list N) : bool * list N :=
  match k, a with
  | 1, [base; ppl; reslo; reshi; gw] => (true, dhcp4_univ base ppl reslo reshi gw)
  | 2, [base; ppl] => (true, v6addr_univ base ppl)
  | 3, [base; ppl; dlen] => (true, v6prefix_univ base ppl dlen)
  | 4, [base; ppl; gw; idem] => (negb (idem =? 0), pppoe_univ base ppl gw)
  | 5, [base; ppl; gw] => (true, local_univ base ppl gw)
  | _, _ => (true, [])
  end.
Definition run_freelist (prop : N) (cs : list run_freelist_case) : list (list N) :=
  concat (map (fun ic : N * run_freelist_case =>
     let '(idem, univ) := fl_univ (fst (fst (snd ic))) (snd (fst (snd ic))) in
     map (fun row => match row with _ :: v => fst ic :: v | [] => [] end)
         (check_all FreeList.step (accept (freelist_scfg prop univ)) out_eqb 1
                    [(finit idem univ, sinit, unb_trace (hd 0 (snd (fst (snd ic)))) (snd (snd ic)))]))
     (combine (map N.of_nat (seq 1 (length cs))) cs)).

(* hash allocation: case = (base as written, prefix length), trace *)
From Verif Require Import Model.HashAlloc.
Definition run_hash_case := ((N * N) * list (op * out))%type.
Definition run_hash (prop : N) (cs : list run_hash_case) : list (list N) :=
  concat (map (fun ic : N * run_hash_case =>
     let c := {| h_base := fst (fst (snd ic)); h_ppl := snd (fst (snd ic)) |} in
     map (fun row => match row with _ :: v => fst ic :: v | [] => [] end)
         (check_all HashAlloc.step (accept (hash_scfg prop c)) out_eqb 1 [(hinit c, sinit, unb_trace (h_base c) (snd (snd ic)))]))
     (combine (map N.of_nat (seq 1 (length cs))) cs)).

(* per-case sanity of a free-list universe: no duplicates, every unit strictly inside the CIDR (the
   network address is never a unit); a failing universe is reported as a tie-1 mismatch at step 999999 *)
Definition fl_univ_ok (k : N) (a : list N) (univ : list N) : bool :=
  nodupb univ &&
  match k, a with
  | 3, [base; ppl; dlen] =>
      forallb (fun u => (base <=? u) && (u + 2 ^ (128 - dlen) <=? base + 2 ^ (128 - ppl)) && ((u - base) mod 2 ^ (128 - dlen) =? 0)) univ
  | 2, base :: ppl :: _ => forallb (fun u => (base <? u) && (u <? base + 2 ^ (128 - ppl))) univ
  | _, base :: ppl :: _ => forallb (fun u => (base <? u) && (u <? base + 2 ^ (32 - ppl))) univ
  | _, _ => true
  end.
Definition run_freelist_checked (prop : N) (cs : list run_freelist_case) : list (list N) :=
  run_freelist prop cs ++
  concat (map (fun ic : N * run_freelist_case =>
     let k := fst (fst (snd ic)) in let a := snd (fst (snd ic)) in
     if fl_univ_ok k a (snd (fl_univ k a)) then [] else [[fst ic; 999999; 0; 0; 0; 0]])
     (combine (map N.of_nat (seq 1 (length cs))) cs)).
Definition run_freelist_checked_case := run_freelist_case.

(* concurrent stress: the Spec invariant evaluated on the final snapshot of a real object that was
   driven by several goroutines.  case = ((tag, numbers), [(holder, value during, value after)], (allocated, has_stats)).
   tags 1..5 as fl_univ; 6 bitmap [base; bits; ppl; pl]; 7 epoch [base; ppl; pl; grace] *)
Definition run_conc_case := ((N * list N) * list (N * N * N) * (N * N))%type.
Definition conc_scfg (prop tag : N) (a : list N) : scfg :=
  match tag, a with
  | 6, [base; bits; ppl; pl] => bitmap_scfg prop {| g_bits := bits; g_base := base; g_ppl := ppl; g_pl := pl |}
  | 7, [base; ppl; pl; grace] => epoch_scfg prop base ppl pl grace
  | _, _ => freelist_scfg prop (snd (fl_univ tag a))
  end.
Definition conc_verdict (prop : N) (c : run_conc_case) : N :=      (* 0 = fine, else clause + 1 *)
  let '((tag, a), snap, (al, has)) := c in
  let base := hd 0 a in
  let cfg := conc_scfg prop tag a in
  let finals := map (fun x => unb base (snd x)) snap in
  if prop =? 1 then
    if negb (nodupb finals) then 1
    else if negb (forallb (sc_usable cfg) finals) then 2
    else if negb (forallb (fun x => snd (fst x) =? snd x) snap) then 3
    else 0
  else if negb (has =? 0) && negb (al =? N.of_nat (length snap)) then 7
  else if sc_cap cfg <? N.of_nat (length snap) then 4
  else 0.
Definition run_conc (prop : N) (cs : list run_conc_case) : list (list N) :=
  concat (map (fun ic : N * run_conc_case =>
     match conc_verdict prop (snd ic) with
     | 0 => []
     | cl => [[fst ic; 0; 1; cl; 0; 0]]
     end) (combine (map N.of_nat (seq 1 (length cs))) cs)).

(* same-subscriber race rounds (C01 "under concurrent callers"): in every round 2..16 goroutines
   leave a spinning barrier together and call Allocate for ONE fresh subscriber of one real pool
   object while a background goroutine allocates and releases other subscribers.  Recorded: every
   distinct value returned in the round, what the pool holds for the subscriber afterwards, the
   statistics and the number of further allocations until exhaustion.  The Spec requires
     C01: all returns of a round equal, the table holds exactly that unit (clause 2), the units of
          different subscribers pairwise distinct (0) and usable (1);
     C05: allocated figure = number of holders (6), holders + still obtainable units = capacity (3:
          a unit marked taken that nobody holds is a leak).
   case = ((tag, numbers), [(holder, distinct returns, table)], (allocated, has_stats), obtainable) *)
Definition run_race_case := ((N * list N) * list (N * list N * list N) * (N * N) * N)%type.
Fixpoint lists_eqb (a b : list N) : bool :=
  match a, b with
  | [], [] => true
  | x :: a', y :: b' => (x =? y) && lists_eqb a' b'
  | _, _ => false
  end.
Definition race_verdict (prop : N) (c : run_race_case) : N :=      (* 0 = fine, else clause + 1 *)
  let '((tag, a), rounds, (al, has), free) := c in
  let base := hd 0 a in
  let cfg := conc_scfg prop tag a in
  let table := map (unb base) (concat (map snd rounds)) in
  let holders := N.of_nat (length (filter (fun r => negb (match snd r with [] => true | _ => false end)) rounds)) in
  if prop =? 1 then
    if negb (forallb (fun r => (N.of_nat (length (snd (fst r))) <=? 1) && lists_eqb (snd (fst r)) (snd r)) rounds) then 3
    else if negb (nodupb table) then 1
    else if negb (forallb (sc_usable cfg) table) then 2
    else 0
  else
    if negb (has =? 0) && negb (al =? holders) then 7
    else if negb (holders + free =? sc_cap cfg) then 4
    else 0.
Definition run_race (prop : N) (cs : list run_race_case) : list (list N) :=
  concat (map (fun ic : N * run_race_case =>
     match race_verdict prop (snd ic) with
     | 0 => []
     | cl => [[fst ic; 0; 1; cl; 0; 0]]
     end) (combine (map N.of_nat (seq 1 (length cs))) cs)).
