(* Entry points evaluated by the harness-written case files for C01 / C05 (one per pool kind). *)
From Coq Require Import NArith List.
From Verif Require Import Base.Check Model.PoolMap Model.Geometry Model.PoolSpec Model.Bitmap.
Import ListNotations.
Local Open Scope N_scope.

(* bitmap: case = (bits, base, pool prefix length, prefix length) , trace *)
Definition bcase := ((N * N * N * N) * list (op * out))%type.
Definition bgeo (c : N * N * N * N) : geo :=
  let '(bits, base, ppl, pl) := c in {| g_bits := bits; g_base := base; g_ppl := ppl; g_pl := pl |}.
Definition run_bitmap (prop : N) (cs : list bcase) : list (list N) :=
  concat (map (fun ic : N * bcase =>
     let g := bgeo (fst (snd ic)) in
     map (fun row => match row with _ :: v => fst ic :: v | [] => [] end)
         (check_all step (accept (bitmap_scfg prop g)) out_eqb 1 [(binit g, sinit, snd (snd ic))]))
     (combine (map N.of_nat (seq 1 (length cs))) cs)).
Definition run_bitmap_case := bcase.

(* epoch: case = (base, pool prefix length, prefix length, grace), trace *)
From Verif Require Import Model.Epoch.
Definition run_epoch_case := ((N * N * N * N) * list (op * out))%type.
Definition run_epoch (prop : N) (cs : list run_epoch_case) : list (list N) :=
  concat (map (fun ic : N * run_epoch_case =>
     let '(base, ppl, pl, grace) := fst (snd ic) in
     map (fun row => match row with _ :: v => fst ic :: v | [] => [] end)
         (check_all Epoch.step (accept (epoch_scfg prop base ppl pl grace)) out_eqb 1
                    [(einit base ppl pl grace, sinit, snd (snd ic))]))
     (combine (map N.of_nat (seq 1 (length cs))) cs)).
