(* Model of pkg/pppoe/server.go (+ SessionManager of session.go, IPPool) at the level of decoded
   Ethernet/PPPoE frames: receiveLoop's destination filter, handleDiscovery (PADI/PADR/PADT),
   handleSession's lookup and dispatch by PPP protocol, the LCP sub-handlers exactly as server.go
   uses them (NOT the RFC 1661 automaton of lcp.go, which server.go never instantiates),
   handlePAP with a RADIUS oracle, startIPCPNegotiation, handleIPCP*, handleIPPacket.
   The PPP payload is bytes (ParseLCPPacket / ParseLCPOptions / the PAP length checks are modelled
   as written); the PPPoE header and the discovery tags arrive decoded (their byte-level parsing and
   the slice bounds of handleDiscovery/handleSession belong to C09).
   server.go has no CHAP handler (ProtocolCHAP is not dispatched): CHAP frames fall in "other".
   Random values (AC-Cookie, magic numbers) are projected to empty / zero bytes.
   MACs and IPv4 addresses are numbers; the RADIUS-side session key (Session.SessionID, random hex)
   is the creation index [s_inst].

   The three repairs made by the C04 fix commits (see docs/C04.md) are switchable so that the tree
   before the fixes stays expressible (used only for the refutation witnesses):
     [G1] g_auth : handleIPCP returns unless session.Authenticated
     [G2] g_owner: handleSession / handlePADT return unless the frame's source MAC is session.ClientMAC
     [G3] g_copy : NewSession copies the client MAC. Before, Session.ClientMAC was a slice of
                   receiveLoop's reused receive buffer, so every session's owner MAC read as the source
                   MAC of whatever frame arrived last.
   [step] = all on = the code as it is now; [step_prefix] = all off = commit c16d767.
   Ghost markers (raised only with a repair off): 401 IPCP handled for an unauthenticated session,
   402 a frame from a non-owner MAC reached a session's handlers, 403 a frame rewrote the owner MAC of
   another station's session. *)
From Coq Require Import NArith List Bool.
From Verif Require Import Base.Word.
Import ListNotations.
Local Open Scope N_scope.

(* ---- constants (protocol.go, session.go) ---- *)
Definition CodePADI : N := 9.    Definition CodePADO : N := 7.
Definition CodePADR : N := 25.   Definition CodePADS : N := 101.
Definition CodePADT : N := 167.
Definition TagServiceName : N := 257.  Definition TagACName : N := 258.
Definition TagHostUniq : N := 259.     Definition TagACCookie : N := 260.
Definition ProtoLCP : N := 49185.  (* 0xC021 *)
Definition ProtoPAP : N := 49187.  (* 0xC023 *)
Definition ProtoIPCP : N := 32801. (* 0x8021 *)
Definition ProtoIP : N := 33.      (* 0x0021 *)
Definition StDiscovery : N := 0.  Definition StLCP : N := 1.  Definition StAuth : N := 2.
Definition StIPCP : N := 3.       Definition StEstablished : N := 4.
Definition StTerminating : N := 5. Definition StClosed : N := 6.

Record gates := { g_auth : bool; g_owner : bool; g_copy : bool }.
Definition gates_on : gates := {| g_auth := true; g_owner := true; g_copy := true |}.
Definition gates_off : gates := {| g_auth := false; g_owner := false; g_copy := false |}.

(* ---- configuration, state ---- *)
Record config := {
  c_mac : N;                 (* server MAC *)
  c_service : bytes;  c_acname : bytes;
  c_chap : bool;             (* AuthType = "chap": only changes the LCP Auth-Protocol option offered *)
  c_mru : N;
  c_radius : bool;           (* SetRADIUSClient was called *)
  c_has_pool : bool;  c_pool : list N;   (* clientIPPool != nil; its initial free list *)
  c_server_ip : N;
  c_dns1 : option N;  c_dns2 : option N }.

Record sess := {
  s_id : N;  s_mac : N;  s_state : N;  s_auth : bool;  s_ip : option N;
  s_lcpid : N;  s_pin : N;  s_pout : N;  s_inst : N;
  s_hu : option bytes;      (* Session.HostUniq: nil when the PADR had no Host-Uniq tag *)
  s_svc : bytes;            (* Session.ServiceName: the PADR's Service-Name value ("" without the tag) *)
  s_user : bytes }.         (* Session.Username: set by every well-formed PAP request, accepted or not *)

Record state := {
  st_sessions : list sess;          (* SessionManager.sessions, kept sorted by id *)
  st_macidx : list (N * N);         (* macToSession, sorted by MAC *)
  st_next : N;                      (* nextID (uint16) *)
  st_ninst : N;                     (* number of sessions created so far *)
  st_avail : list N;                (* IPPool.available *)
  st_alloc : list (N * N) }.        (* IPPool.allocated: creation index -> address, sorted *)

Definition init (c : config) : state :=
  {| st_sessions := []; st_macidx := []; st_next := 1; st_ninst := 0;
     st_avail := if c_has_pool c then c_pool c else []; st_alloc := [] |}.

(* ---- inputs and outputs ---- *)
Inductive frame :=
| FDisc (code sid : N) (tags : list (N * bytes))      (* EtherType 0x8863 *)
| FSess (code sid proto : N) (payload : bytes)        (* EtherType 0x8864; code is not looked at *)
| FOther.                                             (* any other EtherType *)

Record op := {
  op_src : N;        (* source MAC *)
  op_dst : N;        (* 0 broadcast, 1 the server's MAC, anything else: another station *)
  op_frame : frame;
  op_rad : N }.      (* RADIUS oracle if asked: 0 Access-Accept, 1 Access-Reject, 2 error, 3 timeout *)

Inductive eframe :=
| EDisc (dst code sid : N) (tags : list (N * bytes))
| ESess (dst sid proto : N) (payload : bytes).

Record out := {
  o_frames : list eframe;           (* frames sent while handling this frame, in order *)
  o_radius : N;                     (* 0 RADIUS not asked; 1 + outcome when asked *)
  o_spin : bool;                    (* CreateSession's id search never terminates (65535 sessions) *)
  o_sessions : list sess;           (* table after the frame *)
  o_macidx : list (N * N);
  o_avail : list N;
  o_alloc : list (N * N) }.

(* ---- small library ---- *)
Definition find_sess (l : list sess) (id : N) : option sess := find (fun s => s_id s =? id) l.
Definition remove_sess (l : list sess) (id : N) : list sess := filter (fun s => negb (s_id s =? id)) l.
Definition replace_sess (l : list sess) (s' : sess) : list sess :=
  map (fun s => if s_id s =? s_id s' then s' else s) l.
Fixpoint insert_sess (s' : sess) (l : list sess) : list sess :=
  match l with
  | [] => [s']
  | s :: tl => if s_id s' <? s_id s then s' :: l else s :: insert_sess s' tl
  end.

Fixpoint assoc_get (l : list (N * N)) (k : N) : option N :=
  match l with [] => None | (k', v) :: tl => if k' =? k then Some v else assoc_get tl k end.
Definition assoc_del (l : list (N * N)) (k : N) : list (N * N) := filter (fun p => negb (fst p =? k)) l.
Fixpoint assoc_ins (k v : N) (l : list (N * N)) : list (N * N) :=
  match l with
  | [] => [(k, v)]
  | (k', v') :: tl => if k <? k' then (k, v) :: l else (k', v') :: assoc_ins k v tl
  end.
Definition assoc_set (l : list (N * N)) (k v : N) : list (N * N) := assoc_ins k v (assoc_del l k).

Fixpoint find_tag (tags : list (N * bytes)) (t : N) : option bytes :=
  match tags with [] => None | (t', v) :: tl => if t' =? t then Some v else find_tag tl t end.

Definition blen (b : bytes) : N := N.of_nat (length b).

(* LCPPacket.Serialize / SerializeLCPOptions *)
Definition ctl (code id : N) (data : bytes) : bytes :=
  code :: id :: be_bytes 2 (u16 (4 + blen data)) ++ data.
Definition ser_opts (opts : list (N * bytes)) : bytes :=
  flat_map (fun o => fst o :: u8 (2 + blen (snd o)) :: snd o) opts.

(* ParseLCPPacket: Some (code, identifier, data) or None (error) *)
Definition parse_ctl (d : bytes) : option (N * N * bytes) :=
  match d with
  | c :: i :: l1 :: l2 :: rest =>
      let len := be16 l1 l2 in
      if blen d <? len then None
      else Some (c, i, if 4 <? len then firstn (N.to_nat (len - 4)) rest else [])
  | _ => None
  end.

(* ParseLCPOptions: every iteration consumes >= 2 bytes, so [length d] iterations suffice *)
Fixpoint parse_opts_f (fuel : nat) (d : bytes) : option (list (N * bytes)) :=
  match d with
  | t :: l :: rest =>
      match fuel with
      | O => None
      | S k =>
          if l <? 2 then None
          else if blen d <? l then None
          else match parse_opts_f k (skipn (N.to_nat (l - 2)) rest) with
               | Some os => Some ((t, firstn (N.to_nat (l - 2)) rest) :: os)
               | None => None
               end
      end
  | _ => Some []
  end.
Definition parse_opts (d : bytes) : option (list (N * bytes)) := parse_opts_f (length d) d.

(* the length checks of handlePAP: Some (identifier, user name) for a well-formed Authenticate-Request *)
Definition parse_pap (d : bytes) : option (N * bytes) :=
  match d with
  | code :: id :: _ :: _ :: rest =>
      if negb (code =? 1) then None
      else match rest with
           | ulen :: r1 =>
               if blen d <? 6 then None
               else if blen d <? 5 + ulen + 1 then None
               else let plen := nth (N.to_nat ulen) r1 0 in
                    if blen d <? 6 + ulen + plen then None else Some (id, firstn (N.to_nat ulen) r1)
           | [] => None
           end
  | _ => None
  end.

Definition msg_ok : bytes := [76;111;103;105;110;32;79;75].                                (* "Login OK" *)
Definition msg_bad : bytes := [76;111;103;105;110;32;105;110;99;111;114;114;101;99;116].   (* "Login incorrect" *)
Definition pap_resp (code id : N) (msg : bytes) : bytes :=
  code :: id :: be_bytes 2 (u16 (5 + blen msg)) ++ blen msg :: msg.

(* ---- per-session handlers (they only touch the one *Session they were given, the pool, the socket) ---- *)
Record sres := {
  r_sess : option sess;       (* None: RemoveSession(session.ID) was called *)
  r_avail : list N;  r_alloc : list (N * N);
  r_frames : list eframe;  r_rad : N }.

Definition set_state (s : sess) (v : N) : sess :=
  {| s_id := s_id s; s_mac := s_mac s; s_state := v; s_auth := s_auth s; s_ip := s_ip s;
     s_lcpid := s_lcpid s; s_pin := s_pin s; s_pout := s_pout s; s_inst := s_inst s;
     s_hu := s_hu s; s_svc := s_svc s; s_user := s_user s |}.
Definition set_auth (s : sess) (a : bool) : sess :=
  {| s_id := s_id s; s_mac := s_mac s; s_state := s_state s; s_auth := a; s_ip := s_ip s;
     s_lcpid := s_lcpid s; s_pin := s_pin s; s_pout := s_pout s; s_inst := s_inst s;
     s_hu := s_hu s; s_svc := s_svc s; s_user := s_user s |}.
Definition set_ip (s : sess) (ip : option N) : sess :=
  {| s_id := s_id s; s_mac := s_mac s; s_state := s_state s; s_auth := s_auth s; s_ip := ip;
     s_lcpid := s_lcpid s; s_pin := s_pin s; s_pout := s_pout s; s_inst := s_inst s;
     s_hu := s_hu s; s_svc := s_svc s; s_user := s_user s |}.
Definition bump_in (s : sess) : sess :=      (* UpdateActivity + AddBytesIn *)
  {| s_id := s_id s; s_mac := s_mac s; s_state := s_state s; s_auth := s_auth s; s_ip := s_ip s;
     s_lcpid := s_lcpid s; s_pin := s_pin s + 1; s_pout := s_pout s; s_inst := s_inst s;
     s_hu := s_hu s; s_svc := s_svc s; s_user := s_user s |}.
Definition next_ident (s : sess) : sess :=   (* NextLCPIdentifier: uint8 ++ *)
  {| s_id := s_id s; s_mac := s_mac s; s_state := s_state s; s_auth := s_auth s; s_ip := s_ip s;
     s_lcpid := u8 (s_lcpid s + 1); s_pin := s_pin s; s_pout := s_pout s; s_inst := s_inst s;
     s_hu := s_hu s; s_svc := s_svc s; s_user := s_user s |}.
Definition set_user (s : sess) (u : bytes) : sess :=
  {| s_id := s_id s; s_mac := s_mac s; s_state := s_state s; s_auth := s_auth s; s_ip := s_ip s;
     s_lcpid := s_lcpid s; s_pin := s_pin s; s_pout := s_pout s; s_inst := s_inst s;
     s_hu := s_hu s; s_svc := s_svc s; s_user := u |}.
(* sendPPPPacket *)
Definition sent (s : sess) : sess :=
  {| s_id := s_id s; s_mac := s_mac s; s_state := s_state s; s_auth := s_auth s; s_ip := s_ip s;
     s_lcpid := s_lcpid s; s_pin := s_pin s; s_pout := s_pout s + 1; s_inst := s_inst s;
     s_hu := s_hu s; s_svc := s_svc s; s_user := s_user s |}.
Definition ppp_frame (s : sess) (proto : N) (data : bytes) : eframe := ESess (s_mac s) (s_id s) proto data.

(* IPPool.Release(session.SessionID) *)
Definition pool_release (st : state) (s : sess) : list N * list (N * N) :=
  match assoc_get (st_alloc st) (s_inst s) with
  | Some ip => (st_avail st ++ [ip], assoc_del (st_alloc st) (s_inst s))
  | None => (st_avail st, st_alloc st)
  end.

Definition keep (st : state) (s : sess) (fr : list eframe) : sres :=
  {| r_sess := Some s; r_avail := st_avail st; r_alloc := st_alloc st; r_frames := fr; r_rad := 0 |}.

(* startLCPNegotiation *)
Definition lcp_request (c : config) (s : sess) : sess * eframe :=
  let s1 := next_ident s in
  let opts := [(1, be_bytes 2 (c_mru c)); (5, [0;0;0;0]);
               (3, if c_chap c then [194;35;5] else [192;35])] in
  (sent s1, ppp_frame s1 ProtoLCP (ctl 1 (s_lcpid s1) (ser_opts opts))).

Definition handle_lcp (c : config) (st : state) (s : sess) (payload : bytes) : sres :=
  match parse_ctl payload with
  | None => keep st s []
  | Some (code, id, data) =>
      if code =? 1 then                                   (* Configure-Request: acked whatever it asks *)
        match parse_opts data with
        | None => keep st s []
        | Some _ => keep st (sent s) [ppp_frame s ProtoLCP (ctl 2 id data)]
        end
      else if code =? 2 then keep st (set_state s StAuth) []          (* Configure-Ack: any state, any id *)
      else if code =? 3 then let r := lcp_request c s in keep st (fst r) [snd r]   (* Configure-Nak *)
      else if code =? 9 then keep st (sent s) [ppp_frame s ProtoLCP (ctl 10 id [0;0;0;0])]  (* Echo *)
      else if code =? 5 then                  (* Terminate-Request: ack, Closed, address released, removed *)
        {| r_sess := None; r_avail := fst (pool_release st s); r_alloc := snd (pool_release st s);
           r_frames := [ppp_frame s ProtoLCP (ctl 6 id [])]; r_rad := 0 |}
      else keep st s []
  end.

(* startIPCPNegotiation *)
Definition start_ipcp (c : config) (st : state) (s : sess) (fr : list eframe) (rad : N) : sres :=
  let '(s1, av, al) :=
    if c_has_pool c then
      match assoc_get (st_alloc st) (s_inst s) with
      | Some ip => (set_ip s (Some ip), st_avail st, st_alloc st)     (* Allocate: the session keeps its address *)
      | None =>
          match st_avail st with
          | [] => (set_ip s None, st_avail st, st_alloc st)                     (* Allocate returns nil *)
          | ip :: rest => (set_ip s (Some ip), rest, assoc_set (st_alloc st) (s_inst s) ip)
          end
      end
    else (s, st_avail st, st_alloc st) in
  match s_ip s1 with
  | None => {| r_sess := Some s1; r_avail := av; r_alloc := al; r_frames := fr; r_rad := rad |}
  | Some _ =>
      let s2 := next_ident s1 in
      {| r_sess := Some (sent s2); r_avail := av; r_alloc := al;
         r_frames := fr ++ [ppp_frame s2 ProtoIPCP (ctl 1 (s_lcpid s2) (ser_opts [(3, be_bytes 4 (c_server_ip c))]))];
         r_rad := rad |}
  end.

(* handlePAP: no state test; RADIUS decides when configured, otherwise everything is accepted *)
Definition handle_pap (c : config) (st : state) (s : sess) (payload : bytes) (oracle : N) : sres :=
  match parse_pap payload with
  | None => keep st s []
  | Some (id, user) =>
      let ok := if c_radius c then oracle =? 0 else true in
      let rad := if c_radius c then 1 + oracle else 0 in
      let s1 := set_auth (set_user s user) ok in
      if ok then
        start_ipcp c st (set_state (sent s1) StIPCP) [ppp_frame s1 ProtoPAP (pap_resp 2 id msg_ok)] rad
      else
        (* Closed; an address from an earlier accept goes back to the pool (ClientIP itself stays set) *)
        {| r_sess := Some (set_state (sent s1) StClosed);
           r_avail := fst (pool_release st s); r_alloc := snd (pool_release st s);
           r_frames := [ppp_frame s1 ProtoPAP (pap_resp 3 id msg_bad)]; r_rad := rad |}
  end.

(* handleIPCPConfigRequest's option loop *)
Fixpoint ipcp_resp (c : config) (s : sess) (opts : list (N * bytes)) : list (N * bytes) :=
  match opts with
  | [] => []
  | (t, _) :: tl =>
      let here :=
        if t =? 3 then match s_ip s with Some ip => [(3, be_bytes 4 ip)] | None => [] end
        else if t =? 129 then match c_dns1 c with Some d => [(129, be_bytes 4 d)] | None => [] end
        else if t =? 131 then match c_dns2 c with Some d => [(131, be_bytes 4 d)] | None => [] end
        else [] in
      here ++ ipcp_resp c s tl
  end.

Definition handle_ipcp (g : gates) (c : config) (st : state) (s : sess) (payload : bytes) : sres :=
  if g_auth g && negb (s_auth s) then keep st s []                      (* [G1] *)
  else
  match parse_ctl payload with
  | None => keep st s []
  | Some (code, id, data) =>
      if code =? 1 then
        match parse_opts data with
        | None => keep st s []
        | Some opts =>
            match ipcp_resp c s opts with
            | [] => keep st (sent s) [ppp_frame s ProtoIPCP (ctl 2 id data)]           (* Configure-Ack *)
            | ro => keep st (sent s) [ppp_frame s ProtoIPCP (ctl 3 id (ser_opts ro))]  (* Configure-Nak *)
            end
        end
      else if code =? 2 then keep st (set_state s StEstablished) []     (* Configure-Ack: any id *)
      else keep st s []
  end.

Definition handle_ppp (g : gates) (c : config) (st : state) (s : sess) (proto : N) (payload : bytes) (oracle : N) : sres :=
  if proto =? ProtoLCP then handle_lcp c st s payload
  else if proto =? ProtoPAP then handle_pap c st s payload oracle
  else if proto =? ProtoIPCP then handle_ipcp g c st s payload
  else keep st s [].      (* ProtocolIP: handleIPPacket only logs; CHAP, IPv6CP, ...: not dispatched *)

(* ---- table level ---- *)
Definition mk_out (st : state) (fr : list eframe) (rad : N) (spin : bool) : out :=
  {| o_frames := fr; o_radius := rad; o_spin := spin; o_sessions := st_sessions st;
     o_macidx := st_macidx st; o_avail := st_avail st; o_alloc := st_alloc st |}.
Definition noop (st : state) : state * out * list N := (st, mk_out st [] 0 false, []).

(* CreateSession's search: nextID, nextID+1, ... skipping 0 after the uint16 wrap. CreateSession
   first refuses when 65535 sessions are live; below that, among [length sessions + 1] consecutive
   candidates one is free, so the fuel is never exhausted on a table with distinct ids ([o_spin]
   reports exhaustion instead of inventing an id). *)
Fixpoint find_id (fuel : nat) (l : list sess) (cand : N) : option N :=
  if negb (existsb (fun s => s_id s =? cand) l) then Some cand
  else match fuel with
       | O => None
       | S k => let n := u16 (cand + 1) in find_id k l (if n =? 0 then 1 else n)
       end.

Definition blen_s (l : list sess) : N := N.of_nat (length l).

Definition handle_padi (c : config) (st : state) (src : N) (tags : list (N * bytes)) : state * out * list N :=
  let mismatch := match find_tag tags TagServiceName with
                  | Some v => negb (blen v =? 0) && negb (bytes_eqb v (c_service c))
                  | None => false end in
  if mismatch then noop st
  else
    let hu := match find_tag tags TagHostUniq with Some v => [(TagHostUniq, v)] | None => [] end in
    (st, mk_out st [EDisc src CodePADO 0 ([(TagServiceName, c_service c); (TagACName, c_acname c);
                                           (TagACCookie, [])] ++ hu)] 0 false, []).

Definition handle_padr (c : config) (st : state) (src : N) (tags : list (N * bytes)) : state * out * list N :=
  match find_tag tags TagACCookie with
  | None => noop st
  | Some _ =>                                  (* the cookie's value is not compared with anything *)
      if 65535 <=? blen_s (st_sessions st) then noop st        (* "session table full" error: logged only *)
      else
      match find_id (length (st_sessions st)) (st_sessions st) (st_next st) with
      | None => (st, mk_out st [] 0 true, [])
      | Some id =>
          let s0 := {| s_id := id; s_mac := src; s_state := StLCP; s_auth := false; s_ip := None;
                       s_lcpid := 0; s_pin := 0; s_pout := 0; s_inst := st_ninst st;
                       s_hu := find_tag tags TagHostUniq;              (* session.HostUniq = hu.Value *)
                       s_svc := match find_tag tags TagServiceName with Some v => v | None => [] end;
                       s_user := [] |} in
          let hu := match find_tag tags TagHostUniq with Some v => [(TagHostUniq, v)] | None => [] end in
          let r := lcp_request c s0 in          (* go startLCPNegotiation(session) *)
          let st' := {| st_sessions := insert_sess (fst r) (st_sessions st);
                        st_macidx := assoc_set (st_macidx st) src id;
                        st_next := (let n := u16 (id + 1) in if n =? 0 then 1 else n);
                        st_ninst := st_ninst st + 1;
                        st_avail := st_avail st; st_alloc := st_alloc st |} in
          (st', mk_out st' [EDisc src CodePADS id ([(TagServiceName, c_service c)] ++ hu); snd r] 0 false, [])
      end
  end.

Definition drop_session (st : state) (s : sess) (av : list N) (al : list (N * N)) : state :=
  {| st_sessions := remove_sess (st_sessions st) (s_id s);
     st_macidx := assoc_del (st_macidx st) (s_mac s);     (* even when the index points elsewhere *)
     st_next := st_next st; st_ninst := st_ninst st; st_avail := av; st_alloc := al |}.

Definition handle_padt (g : gates) (c : config) (st : state) (src sid : N) : state * out * list N :=
  match find_sess (st_sessions st) sid with
  | None => noop st
  | Some s =>
      if g_owner g && negb (s_mac s =? src) then noop st                (* [G2] *)
      else
      let st' := drop_session st s (fst (pool_release st s)) (snd (pool_release st s)) in
      (st', mk_out st' [] 0 false, if (s_mac s =? src) || g_owner g then [] else [402])
  end.

Definition handle_session (g : gates) (c : config) (st : state) (src sid proto : N) (payload : bytes) (oracle : N)
  : state * out * list N :=
  match find_sess (st_sessions st) sid with
  | None => noop st
  | Some s =>
      if g_owner g && negb (s_mac s =? src) then noop st                (* [G2] *)
      else
      let r := handle_ppp g c st (bump_in s) proto payload oracle in
      let st' := match r_sess r with
                 | Some s' => {| st_sessions := replace_sess (st_sessions st) s'; st_macidx := st_macidx st;
                                 st_next := st_next st; st_ninst := st_ninst st;
                                 st_avail := r_avail r; st_alloc := r_alloc r |}
                 | None => drop_session st s (r_avail r) (r_alloc r)      (* LCP Terminate-Request *)
                 end in
      (st', mk_out st' (r_frames r) (r_rad r) false,
       (if (s_mac s =? src) || g_owner g then [] else [402]) ++
       (if (proto =? ProtoIPCP) && negb (s_auth s) && negb (g_auth g) then [401] else []))
  end.

Definition set_mac (m : N) (s : sess) : sess :=
  {| s_id := s_id s; s_mac := m; s_state := s_state s; s_auth := s_auth s; s_ip := s_ip s;
     s_lcpid := s_lcpid s; s_pin := s_pin s; s_pout := s_pout s; s_inst := s_inst s;
     s_hu := s_hu s; s_svc := s_svc s; s_user := s_user s |}.
(* without [G3]: recv overwrote the buffer every Session.ClientMAC points into *)
Definition alias_macs (st : state) (src : N) : state :=
  {| st_sessions := map (set_mac src) (st_sessions st); st_macidx := st_macidx st; st_next := st_next st;
     st_ninst := st_ninst st; st_avail := st_avail st; st_alloc := st_alloc st |}.

Definition step_h (g : gates) (c : config) (st : state) (o : op) : state * out * list N :=
  if negb ((op_dst o =? 0) || (op_dst o =? 1)) then noop st       (* receiveLoop: not for us *)
  else match op_frame o with
       | FOther => noop st
       | FDisc code sid tags =>
           if code =? CodePADI then handle_padi c st (op_src o) tags
           else if code =? CodePADR then handle_padr c st (op_src o) tags
           else if code =? CodePADT then handle_padt g c st (op_src o) sid
           else noop st
       | FSess _ sid proto payload => handle_session g c st (op_src o) sid proto payload (op_rad o)
       end.

Definition step_g (g : gates) (c : config) (st : state) (o : op) : state * out * list N :=
  if g_copy g then step_h g c st o
  else let '(st', r, mk) := step_h g c (alias_macs st (op_src o)) o in
       (st', r, (if existsb (fun s => negb (s_mac s =? op_src o)) (st_sessions st) then [403] else []) ++ mk).

Definition step : config -> state -> op -> state * out * list N := step_g gates_on.
Definition step_prefix : config -> state -> op -> state * out * list N := step_g gates_off.

(* ---- equality on observables ---- *)
Definition opt_eqb (a b : option N) : bool :=
  match a, b with Some x, Some y => x =? y | None, None => true | _, _ => false end.
Definition optb_eqb (a b : option bytes) : bool :=
  match a, b with Some x, Some y => bytes_eqb x y | None, None => true | _, _ => false end.
Definition sess_eqb (a b : sess) : bool :=
  (s_id a =? s_id b) && (s_mac a =? s_mac b) && (s_state a =? s_state b) && Bool.eqb (s_auth a) (s_auth b)
  && opt_eqb (s_ip a) (s_ip b) && (s_lcpid a =? s_lcpid b) && (s_pin a =? s_pin b) && (s_pout a =? s_pout b)
  && (s_inst a =? s_inst b) && optb_eqb (s_hu a) (s_hu b) && bytes_eqb (s_svc a) (s_svc b)
  && bytes_eqb (s_user a) (s_user b).
Fixpoint list_eqb {A} (e : A -> A -> bool) (a b : list A) : bool :=
  match a, b with
  | [], [] => true
  | x :: a', y :: b' => e x y && list_eqb e a' b'
  | _, _ => false
  end.
Definition pair_eqb (a b : N * N) : bool := (fst a =? fst b) && (snd a =? snd b).
Definition tag_eqb (a b : N * bytes) : bool := (fst a =? fst b) && bytes_eqb (snd a) (snd b).
Definition eframe_eqb (a b : eframe) : bool :=
  match a, b with
  | EDisc d c s t, EDisc d' c' s' t' => (d =? d') && (c =? c') && (s =? s') && list_eqb tag_eqb t t'
  | ESess d s p b, ESess d' s' p' b' => (d =? d') && (s =? s') && (p =? p') && bytes_eqb b b'
  | _, _ => false
  end.
Definition out_eqb (a b : out) : bool :=
  list_eqb eframe_eqb (o_frames a) (o_frames b) && (o_radius a =? o_radius b) && Bool.eqb (o_spin a) (o_spin b)
  && list_eqb sess_eqb (o_sessions a) (o_sessions b) && list_eqb pair_eqb (o_macidx a) (o_macidx b)
  && list_eqb N.eqb (o_avail a) (o_avail b) && list_eqb pair_eqb (o_alloc a) (o_alloc b).
