(* C09 — Models of the small decoders: dhcp.parseOption82 (relay agent sub-options),
   ztp.parseVendorOptions (option 43), the HA standby's SSE line slicing (ha/sync.go
   connectToStream; JSON decoding is an oracle), NAT ALG line splitting (regexp matching and the
   rewriting it triggers are oracles: the Model is the pass-through path). *)
From Coq Require Import ZArith NArith List Lia ZifyN ZifyNat ZifyBool Bool.
From Verif Require Import Model.CodecBase.
Import ListNotations.
Local Open Scope N_scope.

(* ---- parseOption82 *)
Fixpoint opt82_loop (fuel : nat) (d : bytes) (off : N) (cid rid : bytes) (steps : N) : res rows * N :=
  if off <? lenN d then
    match fuel with
    | O => (Hang, steps)
    | S f =>
        if lenN d <? off + 2 then (Ok [[1]; cid; rid], steps)
        else
          match idx d off, idx d (off + 1) with
          | Ok ty, Ok ln =>
              if lenN d <? off + 2 + ln then (Ok [[1]; cid; rid], steps)
              else match sub0 d (off + 2) (off + 2 + ln) with
                   | Ok v => opt82_loop f d (off + 2 + ln)
                               (if ty =? 1 then v else cid) (if ty =? 2 then v else rid) (steps + 1)
                   | _ => (Panic, steps)
                   end
          | _, _ => (Panic, steps)
          end
    end
  else (Ok [[1]; cid; rid], steps).

Definition opt82 (d : bytes) : res rows * N :=
  if lenN d =? 0 then (Ok [[0]], 0) else opt82_loop (S (length d)) d 0 [] [] 0.
Definition parse_option82 (d : bytes) : res rows := fst (opt82 d).

(* ---- parseVendorOptions *)
Fixpoint vendor_loop (fuel : nat) (d : bytes) (i : N) (steps : N) : res rows * N :=
  if i + 2 <=? lenN d then
    match fuel with
    | O => (Hang, steps)
    | S f =>
        match idx d i, idx d (i + 1) with
        | Ok ty, Ok ln =>
            if lenN d <? i + 2 + ln then (Ok [[]], steps)
            else if ty =? 1 then
              match sub0 d (i + 2) (i + 2 + ln) with Ok v => (Ok [v], steps) | _ => (Panic, steps) end
            else vendor_loop f d (i + 2 + ln) (steps + 1)
        | _, _ => (Panic, steps)
        end
    end
  else (Ok [[]], steps).
Definition vendor (d : bytes) : res rows * N := vendor_loop (S (length d)) d 0 0.
Definition parse_vendor (d : bytes) : res rows := fst (vendor d).

(* ---- SSE reader: bufio ReadString('\n') lines; "data: " prefix; line[6:len(line)-1] *)
Definition data_prefix : bytes := [100; 97; 116; 97; 58; 32].

Fixpoint has_prefix (s p : bytes) : bool :=
  match p, s with
  | [], _ => true
  | x :: p', y :: s' => (x =? y) && has_prefix s' p'
  | _ :: _, [] => false
  end.

(* [cur] = bytes of the current line so far, reversed; an unterminated last line is dropped
   (ReadString returns it together with io.EOF and the reader returns) *)
Fixpoint sse_loop (s : bytes) (cur : bytes) (acc : rows) : res rows :=
  match s with
  | [] => Ok (rev acc)
  | b :: tl =>
      if b =? 10 then
        let line := rev (b :: cur) in
        if has_prefix line data_prefix
        then match sub0 line 6 (lenN line - 1) with
             | Ok p => sse_loop tl [] (p :: acc)
             | _ => Panic
             end
        else sse_loop tl [] acc
      else sse_loop tl (b :: cur) acc
  end.
Definition sse_payloads (s : bytes) : res rows := sse_loop s [] [].
Definition sse_count (s : bytes) : res rows := p <- sse_payloads s ;; Ok [[N.of_nat (length p)]].

(* ---- NAT ALG: pass-through when the oracle (regexp / header match) modified nothing *)
Definition alg_pass (modified : N) (d : bytes) : res rows := if modified =? 0 then Ok [d] else Ok [].
