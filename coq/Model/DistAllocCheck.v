(* Entry points evaluated by the harness-written case files for C12.
   Four streams: the DistributedAllocator (dist) and the three serialise/restore round trips
   (bitmap, epoch, allocation store).  Round-trip monitor clauses:
     clause 4  IPAllocator             answers after restore = answers before
     clause 5  EpochBitmapAllocator    (a restore that fails counts as a different answer)
     clause 6  MemoryAllocationStore *)
From Coq Require Import NArith ZArith List Bool.
From Verif Require Import Base.Word Base.Check Model.PoolMap Model.Geometry Model.PoolSpec Model.Bitmap
  Model.DistAlloc Model.DistAllocSpec Model.Persist.
Import ListNotations.
Local Open Scope N_scope.

Definition mkgeo (c : N * N * N * N) : geo :=
  let '(bits, base, ppl, pl) := c in {| g_bits := bits; g_base := base; g_ppl := ppl; g_pl := pl |}.

(* renumber rows of single-case evaluations with the case's own index *)
Definition renum (i : N) (rows : list (list N)) : list (list N) :=
  map (fun row => match row with _ :: v => i :: v | [] => [] end) rows.
Definition indexed {A} (cs : list A) : list (N * A) := combine (map N.of_nat (seq 1 (length cs))) cs.

(* ---- dist ---- *)
(* case = (configuration, (pool id, subscriber-id table), trace over the wire alphabet) *)
Definition dcase := ((bool * (N * N * N * N) * N * list N) * (bytes * list (N * bytes)) * list (wop * dout))%type.
Definition mkcfg (c : bool * (N * N * N * N) * N * list N) : cfg :=
  let '(lease, g, grace, univ) := c in {| c_lease := lease; c_geo := mkgeo g; c_grace := grace; c_univ := univ |}.
Definition mkwire (w : bytes * list (N * bytes)) : wire := {| w_pool := fst w; w_names := snd w |}.
Definition run_dist (cs : list dcase) : list (list N) :=
  concat (map (fun ic : N * dcase =>
     let '(c, w, tr) := snd ic in
     renum (fst ic) (check_all (wstep (mkwire w)) (waccept (mkwire w)) dout_eqb 1
                               [(dinit (mkcfg c), dsinit (mkcfg c), tr)]))
     (indexed cs)).

(* ---- generic round-trip acceptor: remember the last battery; a restore must reproduce it ---- *)
Section RT.
  Context {A : Type}.
  Variable eqb : A -> A -> bool.
  Fixpoint list_eqb (a b : list A) : bool :=
    match a, b with
    | [], [] => true
    | x :: a', y :: b' => eqb x y && list_eqb a' b'
    | _, _ => false
    end.
End RT.

(* ---- bitmap ---- *)
Inductive pbop := PB (o : op) | PBQ (qs : list bq) | PBRT (qs : list bq).
Inductive pbout := PBO (o : out) | PBL (l : list bans).
Definition idtab := (list (N * bytes) * list N)%type.   (* id table, order of the ids as JSON object keys *)
Definition pb_step (t : idtab) (s : bstate) (o : pbop) : bstate * pbout * list N :=
  match o with
  | PB o => let '(s', r, _) := Bitmap.step s o in (s', PBO r, [])
  | PBQ qs => (s, PBL (map (b_query s) qs), [])
  | PBRT qs => let s' := b_roundtrip (fst t) (snd t) s in
               (s', PBL (map (b_query s') qs), mk1204 (fst t) (map fst (b_alloc s)))
  end.
Definition pb_accept (last : option (list bans)) (o : pbop) (r : pbout) : option (list bans) + N :=
  match o, r with
  | PB _, PBO _ => inl None
  | PBQ _, PBL l => inl (Some l)
  | PBRT _, PBL l => match last with
                     | Some l0 => if list_eqb bans_eqb l0 l then inl (Some l) else inr 4
                     | None => inl (Some l)
                     end
  | _, _ => inr 9
  end.
Definition pbout_eqb (a b : pbout) : bool :=
  match a, b with
  | PBO x, PBO y => out_eqb x y
  | PBL x, PBL y => list_eqb bans_eqb x y
  | _, _ => false
  end.
Definition pbcase := ((N * N * N * N) * idtab * list (pbop * pbout))%type.
Definition run_rt_bitmap (cs : list pbcase) : list (list N) :=
  concat (map (fun ic : N * pbcase =>
     let '(g, t, tr) := snd ic in
     renum (fst ic) (check_all (pb_step t) pb_accept pbout_eqb 1 [(binit (mkgeo g), @None (list bans), tr)]))
     (indexed cs)).

(* ---- epoch ---- *)
Inductive peop := PEAlloc (h : N) | PERenew (h : N) | PERelease (h : N) | PEAdvance | PEQ (qs : list eq_) | PERT (qs : list eq_).
Inductive peout := PEO (r : ret) | PEL (l : list ret) | PEFail.
Definition pe_step (t : idtab) (s : estate) (o : peop) : estate * peout * list N :=
  match o with
  | PEAlloc h => match e_alloc s h with
                 | (s', Some ip) => (s', PEO (RUnit ip), [])
                 | (s', None) => (s', PEO (RErr 1), [])
                 end
  | PERenew h => match e_renew s h with (s', true) => (s', PEO ROk, []) | (s', false) => (s', PEO (RErr 7), []) end
  | PERelease h => (e_release s h, PEO ROk, [])
  | PEAdvance => let s' := e_advance s in (s', PEO (REpoch (e_epoch s')), [])
  | PEQ qs => (s, PEL (map (e_query s) qs), [])
  | PERT qs => match e_roundtrip (fst t) (snd t) s with
               | Some s' => (s', PEL (map (e_query s') qs), mk1204 (fst t) (map fst (e_sub s)))
               | None => (s, PEFail, [])
               end
  end.
Definition pe_accept (last : option (list ret)) (o : peop) (r : peout) : option (list ret) + N :=
  match o, r with
  | PEQ _, PEL l => inl (Some l)
  | PERT _, PEL l => match last with
                     | Some l0 => if list_eqb ret_eqb l0 l then inl (Some l) else inr 5
                     | None => inl (Some l)
                     end
  | PERT _, PEFail => inr 5
  | PEQ _, _ => inr 9
  | PERT _, _ => inr 9
  | _, PEO _ => inl None
  | _, _ => inr 9
  end.
Definition peout_eqb (a b : peout) : bool :=
  match a, b with
  | PEO x, PEO y => ret_eqb x y
  | PEL x, PEL y => list_eqb ret_eqb x y
  | PEFail, PEFail => true
  | _, _ => false
  end.
Definition pecase := ((N * N * N * N) * idtab * list (peop * peout))%type.   (* (base, ones, pl, grace) *)
Definition run_rt_epoch (cs : list pecase) : list (list N) :=
  concat (map (fun ic : N * pecase =>
     let '((base, ones, pl, grace), t, tr) := snd ic in
     renum (fst ic) (check_all (pe_step t) pe_accept peout_eqb 1 [(e_init base ones pl grace, @None (list ret), tr)]))
     (indexed cs)).

(* ---- allocation store ---- *)
Inductive pmop := PM (o : mop) | PMQ (qs : list mq) | PMRT (qs : list mq).
Inductive pmout := PMO (r : ret) | PML (l : list mans).
Definition pm_step (t : idtab) (s : mstate) (o : pmop) : mstate * pmout * list N :=
  match o with
  | PM o => let '(s', r) := m_step s o in (s', PMO r, [])
  | PMQ qs => (s, PML (map (m_query s) qs), [])
  | PMRT qs => let s' := m_roundtrip_ids (fst t) s in
               (s', PML (map (m_query s') qs), mk1204 (fst t) (map sr_sub (ms_recs s)))
  end.
Definition pm_accept (last : option (list mans)) (o : pmop) (r : pmout) : option (list mans) + N :=
  match o, r with
  | PM _, PMO _ => inl None
  | PMQ _, PML l => inl (Some l)
  | PMRT _, PML l => match last with
                     | Some l0 => if list_eqb mans_eqb l0 l then inl (Some l) else inr 6
                     | None => inl (Some l)
                     end
  | _, _ => inr 9
  end.
Definition pmout_eqb (a b : pmout) : bool :=
  match a, b with
  | PMO x, PMO y => ret_eqb x y
  | PML x, PML y => list_eqb mans_eqb x y
  | _, _ => false
  end.
Definition pmcase := (idtab * list (pmop * pmout))%type.
Definition run_rt_store (cs : list pmcase) : list (list N) :=
  concat (map (fun ic : N * pmcase =>
     renum (fst ic) (check_all (pm_step (fst (snd ic))) pm_accept pmout_eqb 1 [(minit, @None (list mans), snd (snd ic))]))
     (indexed cs)).

(* ---- json_coerce against the real encoding/json: a case is a list of (string, what Marshal+Unmarshal made of it) ---- *)
Definition jc_step (s : unit) (o : bytes) : unit * bytes * list N := (tt, json_coerce o, []).
Definition jc_accept (s : unit) (o r : bytes) : unit + N := inl tt.
Definition jccase := list (bytes * bytes).
Definition run_jsoncoerce (cs : list jccase) : list (list N) :=
  check_all jc_step jc_accept bytes_eqb 1 (map (fun c : jccase => (tt, tt, c)) cs).
