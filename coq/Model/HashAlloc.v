(* Model of nexus.Client.AllocateIPForSubscriber / allocateFromPool / ReleaseSubscriberIP /
   LookupSubscriberIP (pkg/nexus/client.go): the address is FNV-1a(subscriber id) mod hosts + 1, added
   to the CIDR's address byte by byte WITHOUT carry; the address part of the CIDR is used as written
   (not masked); nothing checks whether another subscriber already has the address.
   State: subscriber -> IPv4Addr (the subscriber record's field).
   Subscriber ids are the strings "sub-<n>" (the harness's naming), n being the holder number.
   Markers: 102 the computed address is already another subscriber's (hash collision)
            103 the computed address is not a host address of the CIDR (unmasked base / byte overflow) *)
From Coq Require Import NArith List Bool.
From Verif Require Import Base.Word Model.PoolMap Model.Geometry Model.PoolSpec.
Import ListNotations.
Local Open Scope N_scope.

Definition fnv_offset : N := 14695981039346656037.
Definition fnv_prime : N := 1099511628211.
Definition hash_string (s : bytes) : N := fold_left (fun h b => mul64 (xor64 h b) fnv_prime) s fnv_offset.

Fixpoint dec_fuel (f : nat) (n : N) (acc : bytes) : bytes :=
  match f with
  | O => acc
  | S k => let acc' := (48 + n mod 10) :: acc in if n / 10 =? 0 then acc' else dec_fuel k (n / 10) acc'
  end.
Definition sub_id (h : N) : bytes := [115; 117; 98; 45] ++ dec_fuel 40 h [].       (* "sub-" ++ decimal *)

Record hcfg := { h_base : N; h_ppl : N }.                                            (* CIDR as written *)
Definition h_hosts (c : hcfg) : N := 2 ^ (32 - h_ppl c) - 2.                          (* (1 << hostBits) - 2 *)
Definition hash_addr (c : hcfg) (h : N) : N :=
  add_nocarry32 (h_base c) (hash_string (sub_id h) mod h_hosts c + 1).

Definition h_size (c : hcfg) : N := 2 ^ (32 - h_ppl c).
Definition h_net (c : hcfg) : N := h_base c - h_base c mod h_size c.                  (* the masked network address *)
Definition hash_usable (c : hcfg) (u : N) : bool := (h_net c + 1 <=? u) && (u + 2 <=? h_net c + h_size c).

Record hstate := { hs_cfg : hcfg; hs_addr : amap N }.
Definition hinit (c : hcfg) : hstate := {| hs_cfg := c; hs_addr := [] |}.

Definition step (s : hstate) (o : op) : hstate * out * list N :=
  match o with
  | Alloc h =>
      match aget h (hs_addr s) with
      | Some a => (s, OUnit a, [])
      | None =>
          if h_hosts (hs_cfg s) =? 0 then (s, OErr 5, []) else
          let a := hash_addr (hs_cfg s) h in
          ({| hs_cfg := hs_cfg s; hs_addr := aset h a (hs_addr s) |}, OUnit a,
           (if existsb (fun p => snd p =? a) (hs_addr s) then [102] else []) ++
           (if hash_usable (hs_cfg s) a then [] else [103]))
      end
  | Release h => ({| hs_cfg := hs_cfg s; hs_addr := adel h (hs_addr s) |}, OOk, [])
  | Lookup h => match aget h (hs_addr s) with Some a => (s, OUnit a, []) | None => (s, ONone, []) end
  | _ => (s, OErr 9, [])
  end.

Definition hash_scfg (prop : N) (c : hcfg) : scfg :=
  {| sc_prop := prop; sc_usable := hash_usable c;
     sc_canon := fun a _ => if hash_usable c a then Some a else None;
     sc_cap := h_hosts c; sc_grace := None; sc_scale := 1 |}.
