(* Entry point evaluated by the harness-written case files for C13. *)
From Coq Require Import NArith List Bool.
From Verif Require Import Base.Check Model.HaSyncFields Model.HaSync Model.HaSyncSpec.
Import ListNotations.

(* records travel in the case files as one number: two bits per field, struct order, least
   significant first (0 = zero value, 1 / 2 = the driver's two non-zero values, 3 = anything else) *)
Fixpoint unpack_n (n : nat) (x : N) : rec :=
  match n with O => [] | S k => N.land x 3 :: unpack_n k (N.shiftr x 2) end.
Definition U (x : N) : rec := unpack_n nf x.

Definition case := (config * list (op * out))%type.
Definition run_case (c : case) : list N :=
  check_case (step (fst c)) accept out_eqb init sinit (snd c).
Fixpoint run_from (i : N) (cs : list case) : list (list N) :=
  match cs with
  | [] => []
  | c :: tl =>
      match run_case c with
      | [0; 0; 0; 0; 0]%N => run_from (i + 1) tl
      | v => (i :: v) :: run_from (i + 1) tl
      end
  end.
Definition run_cases (cs : list case) : list (list N) := run_from 1%N cs.

(* ---- end-to-end stream: the REAL standbyLoop / connectToStream / broadcastLoop over loopback HTTP.
   The driver cannot observe every internal step of the asynchronous run, so a case is a list of
   groups: the Model operations one end-to-end action stands for (a change while connected = Put;
   Broadcast; Deliver — a reconnect = FullSync; Attach, as the real loop does) and the observation
   made once the real pair went quiet (both stores, queue lengths, link).  Same row format as
   check_case: tie-1 compares the stores with the Model's, tie-2 is clause 2 of the monitor
   (link up, queues empty => standby = active) on the observation. *)
Local Open Scope N_scope.
Definition e2e_obs := (table * table * N * N * link)%type.
Definition e2e_case := (config * list (list op * e2e_obs))%type.

Fixpoint run_ops (c : config) (s : state) (mk : list N) (ops : list op) : state * list N :=
  match ops with
  | [] => (s, mk)
  | o :: tl => let '(s', _, m) := step c s o in run_ops c s' (mk ++ m) tl
  end.

Fixpoint e2e_go (c : config) (i : N) (s : state) (acc : N * N * N * N * N * list N)
                (gs : list (list op * e2e_obs)) : list N :=
  let '(mm, ir, ic, mr, mc, mk) := acc in
  match gs with
  | [] => mm :: ir :: ic :: mr :: mc :: dedup mk
  | (ops, (oa, os, pl, ql, lk)) :: tl =>
      let '(s', mk') := run_ops c s (if ir =? 0 then mk else []) ops in
      let mk2 := if ir =? 0 then mk' else mk in
      let ob := mkOut oa os [] pl ql lk RNone 0 in
      let mm' := if (mm =? 0) && negb (teqb oa (act s') && teqb os (sby s') && link_eqb lk (lnk s'))
                 then i else mm in
      let '(ir', ic') := if (ir =? 0) && v2 (ql =? 0) ob then (i, 3) else (ir, ic) in
      let '(mr', mc') := if (mr =? 0) && v2 (nilb (cq s')) (observe s' RNone) then (i, 3) else (mr, mc) in
      e2e_go c (i + 1) s' (mm', ir', ic', mr', mc', mk2) tl
  end.

Definition run_e2e (c : e2e_case) : list N := e2e_go (fst c) 1 init (0, 0, 0, 0, 0, []) (snd c).
Fixpoint run_e2e_from (i : N) (cs : list e2e_case) : list (list N) :=
  match cs with
  | [] => []
  | c :: tl =>
      match run_e2e c with
      | [0; 0; 0; 0; 0]%N => run_e2e_from (i + 1) tl
      | v => (i :: v) :: run_e2e_from (i + 1) tl
      end
  end.
Definition run_e2e_cases (cs : list e2e_case) : list (list N) := run_e2e_from 1%N cs.

(* ---- layout stream: the field list the driver derives by reflection from the compiled
   ha.SessionState must be the list the Model was generated from (Model/HaSyncFields.v) ---- *)
From Coq Require Import String.
Definition kind_eqb (a b : fkind) : bool :=
  match a, b with
  | KString, KString | KInt, KInt | KUint, KUint | KBool, KBool | KTime, KTime | KOther, KOther => true
  | _, _ => false
  end.
Definition fspec_eqb (a b : fspec) : bool :=
  String.eqb (f_name a) (f_name b) && String.eqb (f_json a) (f_json b) && Bool.eqb (f_omit a) (f_omit b)
  && Bool.eqb (f_ser a) (f_ser b) && kind_eqb (f_kind a) (f_kind b).
Fixpoint fl_eqb (a b : list fspec) : bool :=
  match a, b with
  | [], [] => true
  | x :: a', y :: b' => fspec_eqb x y && fl_eqb a' b'
  | _, _ => false
  end.
(* a case = (key field, other fields); a difference is reported as a tie-1 mismatch at step 1 *)
Fixpoint run_layout_from (i : N) (cs : list (fspec * list fspec)) : list (list N) :=
  match cs with
  | [] => []
  | (k, l) :: tl =>
      if fspec_eqb k key_field && fl_eqb l fields then run_layout_from (i + 1) tl
      else [i; 1; 0; 0; 0; 0] :: run_layout_from (i + 1) tl
  end.
Definition run_layout (cs : list (fspec * list fspec)) : list (list N) := run_layout_from 1%N cs.
