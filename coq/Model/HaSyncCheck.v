(* Entry point evaluated by the harness-written case files for C13. *)
From Coq Require Import NArith List.
From Verif Require Import Base.Check Model.HaSync Model.HaSyncSpec.
Import ListNotations.

Definition case := (config * list (op * out))%type.
Definition run_case (c : case) : list N :=
  check_case (step (fst c)) accept out_eqb init sinit (snd c).
Fixpoint run_from (i : N) (cs : list case) : list (list N) :=
  match cs with
  | [] => []
  | c :: tl =>
      match run_case c with
      | [0; 0; 0; 0; 0]%N => run_from (i + 1) tl
      | v => (i :: v) :: run_from (i + 1) tl
      end
  end.
Definition run_cases (cs : list case) : list (list N) := run_from 1%N cs.
