(* Entry point evaluated by the harness-written case files for C13. *)
From Coq Require Import NArith List Bool.
From Verif Require Import Base.Check Model.HaSync Model.HaSyncSpec.
Import ListNotations.

Definition case := (config * list (op * out))%type.
Definition run_case (c : case) : list N :=
  check_case (step (fst c)) accept out_eqb init sinit (snd c).
Fixpoint run_from (i : N) (cs : list case) : list (list N) :=
  match cs with
  | [] => []
  | c :: tl =>
      match run_case c with
      | [0; 0; 0; 0; 0]%N => run_from (i + 1) tl
      | v => (i :: v) :: run_from (i + 1) tl
      end
  end.
Definition run_cases (cs : list case) : list (list N) := run_from 1%N cs.

(* ---- end-to-end stream: the REAL standbyLoop / connectToStream / broadcastLoop over loopback HTTP.
   The driver cannot observe every internal step of the asynchronous run, so a case is a list of
   groups: the Model operations one end-to-end action stands for (a change while connected = Put;
   Broadcast; Deliver — a reconnect = FullSync; Attach, as the real loop does) and the observation
   made once the real pair went quiet (both stores, queue lengths, link).  Same row format as
   check_case: tie-1 compares the stores with the Model's, tie-2 is clause 2 of the monitor
   (link up, queues empty => standby = active) on the observation. *)
Local Open Scope N_scope.
Definition e2e_obs := (table * table * N * N * link)%type.
Definition e2e_case := (config * list (list op * e2e_obs))%type.

Fixpoint run_ops (c : config) (s : state) (mk : list N) (ops : list op) : state * list N :=
  match ops with
  | [] => (s, mk)
  | o :: tl => let '(s', _, m) := step c s o in run_ops c s' (mk ++ m) tl
  end.

Fixpoint e2e_go (c : config) (i : N) (s : state) (acc : N * N * N * N * N * list N)
                (gs : list (list op * e2e_obs)) : list N :=
  let '(mm, ir, ic, mr, mc, mk) := acc in
  match gs with
  | [] => mm :: ir :: ic :: mr :: mc :: dedup mk
  | (ops, (oa, os, pl, ql, lk)) :: tl =>
      let '(s', mk') := run_ops c s (if ir =? 0 then mk else []) ops in
      let mk2 := if ir =? 0 then mk' else mk in
      let ob := mkOut oa os [] pl ql lk RNone in
      let mm' := if (mm =? 0) && negb (teqb oa (act s') && teqb os (sby s') && link_eqb lk (lnk s'))
                 then i else mm in
      let '(ir', ic') := if (ir =? 0) && v2 ob then (i, 3) else (ir, ic) in
      let '(mr', mc') := if (mr =? 0) && v2 (observe s' RNone) then (i, 3) else (mr, mc) in
      e2e_go c (i + 1) s' (mm', ir', ic', mr', mc', mk2) tl
  end.

Definition run_e2e (c : e2e_case) : list N := e2e_go (fst c) 1 init (0, 0, 0, 0, 0, []) (snd c).
Fixpoint run_e2e_from (i : N) (cs : list e2e_case) : list (list N) :=
  match cs with
  | [] => []
  | c :: tl =>
      match run_e2e c with
      | [0; 0; 0; 0; 0]%N => run_e2e_from (i + 1) tl
      | v => (i :: v) :: run_e2e_from (i + 1) tl
      end
  end.
Definition run_e2e_cases (cs : list e2e_case) : list (list N) := run_e2e_from 1%N cs.
