(* C18 executable monitor over observed traces.  It keeps what the control plane asked for, per source MAC:
   the bound IPv4 / IPv6 address (network order, as the operator wrote it), the mode in force (the manager's
   mode when the binding was last written; the default mode for unbound MACs), and the allowed ranges; and
   judges every complete IPv4 / IPv6 frame:
     clause 0  strict:   forwarded iff the source equals the address bound to the sender's MAC
     clause 1  log-only and disabled: always forwarded
     clause 2  loose:    forwarded iff the source lies in an allowed range (there are only IPv4 ranges)
   Frames without a complete IPv4/IPv6 header, other ethertypes and illegal mode values are not judged. *)
From Coq Require Import NArith List Bool.
From Verif Require Import Base.Word Model.TcQos Model.TcAntispoof Model.AntispoofMgr.
Import ListNotations.
Local Open Scope N_scope.

Record want := { w_mac : bytes; w_v4 : option bytes; w_v6 : option bytes; w_mode : N }.
Record sstate := { s_want : list want; s_default : N; s_mgr : N; s_ranges : list (bytes * N) }.
Definition sinit : sstate := {| s_want := []; s_default := 0; s_mgr := 1; s_ranges := [] |}.

Definition w_find (s : sstate) (mac : bytes) : option want := find (fun w => bytes_eqb mac (w_mac w)) (s_want s).
Definition w_set (s : sstate) (w : want) : sstate :=
  {| s_want := w :: filter (fun x => negb (bytes_eqb (w_mac w) (w_mac x))) (s_want s);
     s_default := s_default s; s_mgr := s_mgr s; s_ranges := s_ranges s |}.
Definition w_del (s : sstate) (mac : bytes) : sstate :=
  {| s_want := filter (fun x => negb (bytes_eqb mac (w_mac x))) (s_want s);
     s_default := s_default s; s_mgr := s_mgr s; s_ranges := s_ranges s |}.

Definition in_want_ranges (rs : list (bytes * N)) (ip : bytes) : bool :=
  existsb (fun r => bits_match (N.to_nat (snd r)) (fst r) ip) rs.

Definition judge_frame (s : sstate) (f : bytes) (v : N) : option N :=
  if Nat.ltb (length f) 14 then None else
  match rd f 6 6, rd f 12 2 with
  | Some mac, Some proto =>
      let w := w_find s mac in
      let mode := match w with Some x => w_mode x | None => s_default s end in
      let fwd := v =? TC_ACT_OK in
      let expect (clause : N) (should : bool) := if Bool.eqb fwd should then None else Some clause in
      if bytes_eqb proto [8; 0] && negb (Nat.ltb (length f) 34) then
        match rd f 26 4 with
        | Some src =>
            if mode =? MODE_STRICT then
              expect 0 (match w with Some x => match w_v4 x with Some a => bytes_eqb src a | None => false end | None => false end)
            else if (mode =? MODE_LOG_ONLY) || (mode =? MODE_DISABLED) then expect 1 true
            else if mode =? MODE_LOOSE then expect 2 (in_want_ranges (s_ranges s) src)
            else None
        | None => None
        end
      else if bytes_eqb proto [134; 221] && negb (Nat.ltb (length f) 54) then
        match rd f 22 16 with
        | Some src6 =>
            if mode =? MODE_STRICT then
              expect 0 (match w with Some x => match w_v6 x with Some a => bytes_eqb src6 a | None => false end | None => false end)
            else if (mode =? MODE_LOG_ONLY) || (mode =? MODE_DISABLED) then expect 1 true
            else if mode =? MODE_LOOSE then expect 2 false      (* no IPv6 range can be configured *)
            else None
        | None => None
        end
      else None
  | _, _ => None
  end.

Definition accept (s : sstate) (o : op) (r : out) : sstate + N :=
  match o, r with
  | NewMgr m, _ => inl {| s_want := s_want s; s_default := s_default s; s_mgr := (if m =? 0 then 1 else m); s_ranges := s_ranges s |}
  | AddBinding mac ip, OUnit =>
      let old := w_find s mac in
      inl (w_set s {| w_mac := mac; w_v4 := to4 ip;
                      w_v6 := match old with Some x => w_v6 x | None => None end; w_mode := s_mgr s |})
  | AddBindingV6 mac ip, OUnit =>
      let old := w_find s mac in
      inl (w_set s {| w_mac := mac; w_v4 := match old with Some x => w_v4 x | None => None end;
                      w_v6 := match to16 ip with Some a => Some a | None => match old with Some x => w_v6 x | None => None end end;
                      w_mode := s_mgr s |})
  | RemoveBinding mac, OUnit => inl (w_del s mac)
  | SetMode m, OUnit => inl {| s_want := s_want s; s_default := N.land m 255; s_mgr := N.land m 255; s_ranges := s_ranges s |}
  | AddRange ip ones, OUnit =>
      match to4 ip with
      | Some a => inl {| s_want := s_want s; s_default := s_default s; s_mgr := s_mgr s; s_ranges := (a, ones) :: s_ranges s |}
      | None => inl s
      end
  | PutBinding mac v, OUnit =>
      inl (w_set s {| w_mac := mac; w_v4 := if nthb v 20 =? 0 then None else Some (firstn 4 v);
                      w_v6 := if nthb v 21 =? 0 then None else Some (firstn 16 (skipn 4 v)); w_mode := nthb v 22 |})
  | PutConfig v, OUnit => inl {| s_want := s_want s; s_default := nthb v 0; s_mgr := s_mgr s; s_ranges := s_ranges s |}
  | PutRange plen d, OUnit => inl {| s_want := s_want s; s_default := s_default s; s_mgr := s_mgr s; s_ranges := (d, plen) :: s_ranges s |}
  | Frame f, OVerdict v => match judge_frame s f v with Some c => inr c | None => inl s end
  | Frame _, _ => inr 0
  | _, _ => inl s
  end.
