(* Model of pkg/nat/manager.go (Manager: NewManager defaulting, AddPublicIP, AllocateNAT,
   DeallocateNAT, GetAllocation, GetPoolStats/GetAllocationCount) and of the allocation /
   deallocation records of pkg/nat/logging.go (LogAllocation, LogDeallocation; bulk = RFC 6908
   port-block records, traditional = NATLogEntry records).

   Go `int` configuration values are Z (they may be negative or exceed 65535: NewManager does not
   validate them); every uint16 conversion / uint16 arithmetic of the code is an explicit
   [wrap16].  IPv4 addresses are their uint32 keys (ipToKey), as Z.

   Time is logical: every operation advances the clock by one; a log record carries the clock
   value of the operation that produced it (the code stamps time.Now(); the driver checks that
   the real stamp lies inside the wall-clock window of the call and that stamps are monotone). *)
From Coq Require Import ZArith NArith List Bool.
Import ListNotations.
Local Open Scope Z_scope.

Definition wrap16 (x : Z) : Z := x mod 65536.

(* ---- configuration (NewManager) ---- *)
Record cfg := { c_pps : Z; c_start : Z; c_end : Z }.

Definition new_cfg (pps start end_ : Z) : cfg :=
  {| c_pps := if pps =? 0 then 1024 else pps;
     c_start := if start =? 0 then 1024 else start;
     c_end := if end_ =? 0 then 65535 else end_ |}.

(* decidable guard of the theorems: the (effective) configuration is a port range *)
Definition cfg_okb (c : cfg) : bool :=
  (1 <=? c_pps c) && (0 <=? c_start c) && (c_start c <=? c_end c) && (c_end c <=? 65535).

Definition total_ports (c : cfg) : Z := c_end c - c_start c + 1.
Definition max_subs (c : cfg) : Z := Z.quot (total_ports c) (c_pps c).   (* Go int division *)

(* ---- logging ---- *)
Inductive logmode := LogOff | LogBulk | LogTrad.   (* nil / disabled logger; bulk; traditional *)

Inductive logrec :=
| LBulk (assign : bool) (sid priv pub start end_ size : Z)   (* PortBlockLogEntry *)
| LTrad (assign : bool) (sid priv pub port : Z).             (* NATLogEntry allocate/deallocate *)

(* ---- state ---- *)
Record pentry := { p_ip : Z; p_subs : Z; p_max : Z; p_used : list Z }.
Record alloc := { a_priv : Z; a_pub : Z; a_start : Z; a_end : Z; a_pool : nat; a_sid : Z; a_blk : Z }.

Record state := {
  s_cfg : cfg; s_mode : logmode;
  s_pool : list pentry;
  s_allocs : list alloc;            (* the allocations map: at most one entry per private IP *)
  s_next_sid : Z; s_sids : list (Z * Z);
  s_clock : Z;
  s_log : list (Z * logrec)         (* newest first; (logical time, record) *)
}.

Definition init (c : cfg) (m : logmode) : state :=
  {| s_cfg := c; s_mode := m; s_pool := []; s_allocs := []; s_next_sid := 1; s_sids := [];
     s_clock := 0; s_log := [] |}.

Fixpoint find_alloc (priv : Z) (l : list alloc) : option alloc :=
  match l with
  | [] => None
  | a :: tl => if a_priv a =? priv then Some a else find_alloc priv tl
  end.

Fixpoint remove_alloc (priv : Z) (l : list alloc) : list alloc :=
  match l with
  | [] => []
  | a :: tl => if a_priv a =? priv then tl else a :: remove_alloc priv tl
  end.

Fixpoint find_sid (priv : Z) (l : list (Z * Z)) : option Z :=
  match l with
  | [] => None
  | (k, v) :: tl => if k =? priv then Some v else find_sid priv tl
  end.

(* lowest index from [b] upwards that is not in [used]; fuel = S (length used) always suffices *)
Fixpoint mex (fuel : nat) (used : list Z) (b : Z) : Z :=
  match fuel with
  | O => b
  | S f => if existsb (Z.eqb b) used then mex f used (b + 1) else b
  end.
Definition lowest_free (used : list Z) : Z := mex (S (length used)) used 0.

(* AllocateNAT: first pool entry with Subscribers < MaxSubscribers that has a free block index
   below MaxSubscribers (lowestFreeBlock); the new subscriber gets that lowest free index *)
Fixpoint select_pool (i : nat) (l : list pentry) : option (nat * pentry * Z) :=
  match l with
  | [] => None
  | p :: tl =>
      let b := lowest_free (p_used p) in
      if (p_subs p <? p_max p) && (b <? p_max p) then Some (i, p, b) else select_pool (S i) tl
  end.

Fixpoint upd_pool (i : nat) (f : pentry -> pentry) (l : list pentry) : list pentry :=
  match l, i with
  | [], _ => []
  | p :: tl, O => f p :: tl
  | p :: tl, S j => p :: upd_pool j f tl
  end.

(* ---- operations and observables ---- *)
Record aview := { v_priv : Z; v_pub : Z; v_start : Z; v_end : Z; v_pool : Z; v_sid : Z }.
Definition view (a : alloc) : aview :=
  {| v_priv := a_priv a; v_pub := a_pub a; v_start := a_start a; v_end := a_end a;
     v_pool := Z.of_nat (a_pool a); v_sid := a_sid a |}.

(* what a concurrent run of the real Manager left behind (ConcObs): every AllocateNAT return,
   whether any DeallocateNAT was part of the scripts, the final GetAllocation table of the
   private IPs involved, and the log records in file order *)
(* [co_strict]: one caller goroutine issued the calls in program order (only log flushing ran
   beside it), so the log must be the exact event sequence: see NatSpec.strict_log *)
Record concobs := { co_rets : list aview; co_dealloc : bool; co_strict : bool; co_table : list aview; co_log : list logrec }.

Inductive op :=
| AddIP (ip : Z)
| Alloc (priv : Z)
| Dealloc (priv : Z)
| Get (priv : Z)
| Stats
| ConcObs (o : concobs)
(* the same two calls with fault oracles (harness-controlled failures at the call sites):
   fm = the subscriber_nat map call of this operation fails (AllocateNAT: Put; DeallocateNAT: Delete)
   fl = the log writer fails while the record of this operation is written (the record is lost) *)
| AllocF (priv : Z) (fm fl : bool)
| DeallocF (priv : Z) (fm fl : bool).

Inductive res :=
| RNone
| RErr (e : Z)                      (* 0 = pool exhausted, 2 = public IP already in the pool,
                                       3 = subscriber_nat update failed, 4 = subscriber_nat delete failed *)
| RAlloc (a : aview)
| RGet (a : option aview)
| RStats (count : Z) (pool : list (Z * Z * Z)).   (* (ip, Subscribers, MaxSubscribers) *)

(* result, log records produced by the call, all real timestamps inside the call window *)
Record out := { o_res : res; o_logs : list logrec; o_ts : bool }.

Definition aview_eqb (a b : aview) : bool :=
  (v_priv a =? v_priv b) && (v_pub a =? v_pub b) && (v_start a =? v_start b) &&
  (v_end a =? v_end b) && (v_pool a =? v_pool b) && (v_sid a =? v_sid b).

Definition logrec_eqb (a b : logrec) : bool :=
  match a, b with
  | LBulk k1 s1 p1 q1 a1 b1 z1, LBulk k2 s2 p2 q2 a2 b2 z2 =>
      Bool.eqb k1 k2 && (s1 =? s2) && (p1 =? p2) && (q1 =? q2) && (a1 =? a2) && (b1 =? b2) && (z1 =? z2)
  | LTrad k1 s1 p1 q1 a1, LTrad k2 s2 p2 q2 a2 =>
      Bool.eqb k1 k2 && (s1 =? s2) && (p1 =? p2) && (q1 =? q2) && (a1 =? a2)
  | _, _ => false
  end.

Fixpoint list_eqb {A} (e : A -> A -> bool) (a b : list A) : bool :=
  match a, b with
  | [], [] => true
  | x :: a', y :: b' => e x y && list_eqb e a' b'
  | _, _ => false
  end.

Definition res_eqb (a b : res) : bool :=
  match a, b with
  | RNone, RNone => true
  | RErr x, RErr y => x =? y
  | RAlloc x, RAlloc y => aview_eqb x y
  | RGet None, RGet None => true
  | RGet (Some x), RGet (Some y) => aview_eqb x y
  | RStats c1 l1, RStats c2 l2 =>
      (c1 =? c2) && list_eqb (fun x y => (fst (fst x) =? fst (fst y)) && (snd (fst x) =? snd (fst y)) && (snd x =? snd y)) l1 l2
  | _, _ => false
  end.

Definition out_eqb (a b : out) : bool :=
  res_eqb (o_res a) (o_res b) && list_eqb logrec_eqb (o_logs a) (o_logs b) && Bool.eqb (o_ts a) (o_ts b).

(* LogAllocation / LogDeallocation *)
Definition log_alloc (m : logmode) (a : alloc) : list logrec :=
  match m with
  | LogOff => []
  | LogBulk => [LBulk true (a_sid a) (a_priv a) (a_pub a) (a_start a) (a_end a)
                      (wrap16 (a_end a - a_start a + 1))]
  | LogTrad => [LTrad true (a_sid a) (a_priv a) (a_pub a) (a_start a)]
  end.
Definition log_dealloc (m : logmode) (a : alloc) : list logrec :=
  match m with
  | LogOff => []
  | LogBulk => [LBulk false 0 (a_priv a) (a_pub a) (a_start a) 0 0]
  | LogTrad => [LTrad false 0 (a_priv a) (a_pub a) (a_start a)]
  end.

Definition tick (s : state) : state :=
  {| s_cfg := s_cfg s; s_mode := s_mode s; s_pool := s_pool s; s_allocs := s_allocs s;
     s_next_sid := s_next_sid s; s_sids := s_sids s; s_clock := s_clock s + 1; s_log := s_log s |}.

Definition mk_out (r : res) (l : list logrec) : out := {| o_res := r; o_logs := l; o_ts := true |}.

(* ghost markers:
   (1001 was: block index derived from the subscriber count differs from the lowest free index;
         repaired in /repo, see known_findings/C10.json K10a)
   1002  a uint16 conversion changed a value (configuration outside 1 <= pps, 0 <= start <= end <= 65535)
   1003  the log writer failed: the record of an assignment / release is lost (K10e) *)
Definition lost_marker (m : logmode) (fl : bool) : list N :=
  match m with LogOff => [] | _ => if fl then [1003%N] else [] end.

(* AllocateNAT.  Order of the code: existing allocation (fast path, no map access, no record);
   pool entry + block; ports; getOrCreateSubscriberID; subscriber_nat update -- on failure the call
   returns an error with only the subscriber id registered; then table, count, used block, record. *)
Definition do_alloc (s : state) (priv : Z) (fm fl : bool) : state * out * list N :=
  let c := s_cfg s in
  match find_alloc priv (s_allocs s) with
  | Some a => (s, mk_out (RAlloc (view a)) [], [])
  | None =>
      match select_pool O (s_pool s) with
      | None => (s, mk_out (RErr 0) [], [])
      | Some (i, p, b) =>
          let raw := c_start c + b * c_pps c in
          let pstart := wrap16 raw in
          let pend := wrap16 (pstart + wrap16 (c_pps c) - 1) in
          let '(sid, next, sids) :=
            match find_sid priv (s_sids s) with
            | Some v => (v, s_next_sid s, s_sids s)
            | None => (s_next_sid s, s_next_sid s + 1, (priv, s_next_sid s) :: s_sids s)
            end in
          let a := {| a_priv := priv; a_pub := p_ip p; a_start := pstart; a_end := pend;
                      a_pool := i; a_sid := sid; a_blk := b |} in
          let mk2 := if (pstart =? raw) && (wrap16 (c_pps c) =? c_pps c) && (pend =? raw + c_pps c - 1)
                     then [] else [1002%N] in
          if fm then
            ({| s_cfg := c; s_mode := s_mode s; s_pool := s_pool s; s_allocs := s_allocs s;
                s_next_sid := next; s_sids := sids; s_clock := s_clock s; s_log := s_log s |},
             mk_out (RErr 3) [], [])
          else
          let recs := if fl then [] else log_alloc (s_mode s) a in
          ({| s_cfg := c; s_mode := s_mode s;
              s_pool := upd_pool i (fun q => {| p_ip := p_ip q; p_subs := p_subs q + 1; p_max := p_max q;
                                                p_used := b :: p_used q |}) (s_pool s);
              s_allocs := a :: s_allocs s; s_next_sid := next; s_sids := sids;
              s_clock := s_clock s; s_log := map (fun r => (s_clock s, r)) recs ++ s_log s |},
           mk_out (RAlloc (view a)) recs, mk2 ++ lost_marker (s_mode s) fl)
      end
  end.

(* DeallocateNAT (after the repair K10f): not allocated -> nil; the subscriber_nat entry is deleted
   first, while the allocation is still tracked -- a failing delete returns an error and changes
   nothing; then table, count, used block, record. *)
Definition do_dealloc (s : state) (priv : Z) (fm fl : bool) : state * out * list N :=
  let c := s_cfg s in
  match find_alloc priv (s_allocs s) with
  | None => (s, mk_out RNone [], [])
  | Some a =>
      if fm then (s, mk_out (RErr 4) [], []) else
      let recs := if fl then [] else log_dealloc (s_mode s) a in
      ({| s_cfg := c; s_mode := s_mode s;
          s_pool := upd_pool (a_pool a)
                      (fun q => {| p_ip := p_ip q; p_subs := p_subs q - 1; p_max := p_max q;
                                   p_used := filter (fun x => negb (x =? a_blk a)) (p_used q) |}) (s_pool s);
          s_allocs := remove_alloc priv (s_allocs s); s_next_sid := s_next_sid s; s_sids := s_sids s;
          s_clock := s_clock s; s_log := map (fun r => (s_clock s, r)) recs ++ s_log s |},
       mk_out RNone recs, lost_marker (s_mode s) fl)
  end.

Definition step_body (s : state) (o : op) : state * out * list N :=
  let c := s_cfg s in
  match o with
  | AddIP ip =>
      if existsb (fun p => p_ip p =? ip) (s_pool s) then (s, mk_out (RErr 2) [], []) else
      let e := {| p_ip := ip; p_subs := 0; p_max := max_subs c; p_used := [] |} in
      ({| s_cfg := c; s_mode := s_mode s; s_pool := s_pool s ++ [e]; s_allocs := s_allocs s;
          s_next_sid := s_next_sid s; s_sids := s_sids s; s_clock := s_clock s; s_log := s_log s |},
       mk_out RNone [], [])
  | Alloc priv => do_alloc s priv false false
  | AllocF priv fm fl => do_alloc s priv fm fl
  | Dealloc priv => do_dealloc s priv false false
  | DeallocF priv fm fl => do_dealloc s priv fm fl
  | Get priv => (s, mk_out (RGet (option_map view (find_alloc priv (s_allocs s)))) [], [])
  | Stats =>
      (s, mk_out (RStats (Z.of_nat (length (s_allocs s)))
                         (map (fun p => (p_ip p, p_subs p, p_max p)) (s_pool s))) [], [])
  | ConcObs _ => (s, mk_out RNone [], [])
  end.

(* every operation is one tick of the logical clock; records carry the new clock value *)
Definition step (s : state) (o : op) : state * out * list N := step_body (tick s) o.

Definition run (s : state) (ops : list op) : state :=
  fold_left (fun st o => fst (fst (step st o))) ops s.

