(* C16 — resource-level composition model of session teardown.

   Three worlds, each a deterministic step function over the resources a session holds:
     D  pkg/dhcp/server.go (+pool.go) with nat.Manager, qos.Manager, ebpf.Loader caches, RADIUS accounting
     P  pkg/pppoe/server.go + session.go (session table, IPPool) and pkg/pppoe/teardown.go cleanup
     S  pkg/subscriber/manager.go (session table, MAC / IP indexes, AddressAllocator, terminate events)
   The model is an abstraction by design: it tracks WHICH resources exist (pool address, NAT block,
   QoS policy, fast-path cache entries by MAC / VLAN pair / circuit-id, accounting Start/Stop), not
   their contents (port numbers, token buckets, lease options: C10, C19, C03, C02 do that).  Each
   ending path removes exactly what the code removes on that path.  Ghost markers 16NN label the
   step at which a listed defect acts.  No proofs here (Proofs/TeardownProofs.v). *)
From Coq Require Import ZArith NArith List Bool.
Import ListNotations.
Local Open Scope N_scope.

(* ------------------------------------------------------------------ association lists, sorted by key *)
Definition amap (V : Type) := list (N * V).

Fixpoint aget {V} (k : N) (m : amap V) : option V :=
  match m with
  | [] => None
  | (k', v) :: tl => if k =? k' then Some v else aget k tl
  end.
Definition adel {V} (k : N) (m : amap V) : amap V := filter (fun p => negb (fst p =? k)) m.
Fixpoint aput {V} (k : N) (v : V) (m : amap V) : amap V :=
  match m with
  | [] => [(k, v)]
  | (k', v') :: tl => if k <? k' then (k, v) :: m
                      else if k =? k' then (k, v) :: tl
                      else (k', v') :: aput k v tl
  end.
Definition ahas {V} (k : N) (m : amap V) : bool := match aget k m with Some _ => true | None => false end.

(* sorted sets of N *)
Definition smem (x : N) (s : list N) : bool := existsb (N.eqb x) s.
Definition sdel (x : N) (s : list N) : list N := filter (fun y => negb (y =? x)) s.
Fixpoint sadd (x : N) (s : list N) : list N :=
  match s with
  | [] => [x]
  | y :: tl => if x <? y then x :: s else if x =? y then s else y :: sadd x tl
  end.
Definition count (x : N) (l : list N) : N := N.of_nat (length (filter (N.eqb x) l)).

Fixpoint remove1 (x : N) (l : list N) : list N :=
  match l with
  | [] => []
  | y :: tl => if y =? x then tl else y :: remove1 x tl
  end.

(* ================================================================== D: DHCP ========================== *)

Record dcfg := {
  c_lo : N; c_hi : N;          (* Pool.Contains: the CIDR block as an integer interval *)
  c_avail0 : list N;           (* generateAvailableIPs *)
  c_lease : Z;                 (* pool.LeaseTime in seconds *)
  c_radius : bool;             (* radiusClient set (accounting; RADIUS authentication is off) *)
  c_qos : bool;                (* qosMgr set *)
  c_nat : bool;                (* natMgr set *)
  c_natcap : N;                (* total NAT port blocks *)
  c_cache : bool;              (* loader has its maps (kernel BPF usable) *)
  c_full : list N              (* fault injection: kernel maps that are full, so that every Put of a new key fails:
                                  1 subscriber_pools 2 circuit_id_map 3 circuit_id_subscribers 4 qos_egress 5 qos_ingress 6 subscriber_nat *)
}.
Definition full (c : dcfg) (k : N) : bool := existsb (N.eqb k) (c_full c).

Record lease := { l_ip : N; l_cid : N; l_sid : N; l_ttl : Z }.   (* l_sid: 0 = none *)

Record dst := {
  avail : list N;              (* Pool.available, in order *)
  alloc : amap N;              (* Pool.allocated: mac -> ip *)
  unavail : list N;            (* Pool.unavailable *)
  leases : amap lease;         (* Server.leases: mac -> lease *)
  bycid : amap (N * lease);    (* Server.leasesByCircuitID: cid -> (mac of the lease object, lease) *)
  nat : list N;                (* nat.Manager.allocations: private ip *)
  natk : list N;               (* subscriber_nat keys (kernel) *)
  qos : list N;                (* qos_egress keys: ip *)
  qosi : list N;               (* qos_ingress keys *)
  qost : list N;               (* qos.Manager.subscribers (tracked only after both Puts succeeded) *)
  cmac : amap N;               (* subscriber_pools: mac -> ip *)
  chash : amap N;              (* circuit_id_map: hash(cid) -> mac   (keyed by cid: hash assumed injective) *)
  csub : amap N;               (* circuit_id_subscribers: key32(cid) -> ip *)
  cvlan : amap N;              (* vlan_subscriber_pools: never written (Lease.STag/CTag are never set) *)
  nsid : N;                    (* ghost: number of RADIUS session ids generated *)
  starts : list N;             (* ghost: Accounting-Start records sent, by session id *)
  stops : list N               (* ghost: Accounting-Stop records sent *)
}.

Definition dinit (c : dcfg) : dst :=
  {| avail := c_avail0 c; alloc := []; unavail := []; leases := []; bycid := []; nat := []; natk := []; qos := []; qosi := []; qost := [];
     cmac := []; chash := []; csub := []; cvlan := []; nsid := 0; starts := []; stops := [] |}.

Inductive dop :=
| Discover (mac cid : N) (relayed : bool)       (* cid: the Circuit-ID sub-option of option 82; 0 = none (no option 82, or
                                                   relay information without sub-option 1, e.g. Remote-ID only) *)
| Request (mac ip cid : N) (relayed : bool)
| Release (mac : N)
| Decline (mac ip : N)            (* ip = requested-address option; 0 = absent *)
| Age (d : Z)
| Tick (order : list N)           (* one cleanupExpiredLeases; order = Go map iteration order (oracle) *)
| Flush (k : N).                  (* kernel map k (numbering of c_full) emptied behind the managers' back: datapath reload / flush *)

(* existingLease of handleDiscover / handleRequest *)
Definition existing (s : dst) (mac cid : N) (relayed : bool) : option lease :=
  match aget mac (leases s) with
  | Some l => Some l
  | None => if relayed && negb (cid =? 0)
            then match aget cid (bycid s) with Some p => Some (snd p) | None => None end
            else None
  end.

(* the lease came from the circuit-ID index and belongs to another MAC *)
Definition via_cid (s : dst) (mac cid : N) (relayed : bool) : bool :=
  match aget mac (leases s) with
  | Some _ => false
  | None => relayed && negb (cid =? 0) &&
            match aget cid (bycid s) with Some p => negb (fst p =? mac) | None => false end
  end.

(* Pool.Allocate *)
Definition pool_allocate (s : dst) (mac : N) : option (N * dst) :=
  match aget mac (alloc s) with
  | Some ip => Some (ip, s)
  | None => match avail s with
            | [] => None
            | ip :: tl =>
                Some (ip, {| avail := tl; alloc := aput mac ip (alloc s); unavail := unavail s; leases := leases s;
                             bycid := bycid s; nat := nat s; natk := natk s; qos := qos s; qosi := qosi s; qost := qost s; cmac := cmac s; chash := chash s;
                             csub := csub s; cvlan := cvlan s; nsid := nsid s; starts := starts s; stops := stops s |})
            end
  end.

Definition set_pool (s : dst) (av : list N) (al : amap N) (un : list N) : dst :=
  {| avail := av; alloc := al; unavail := un; leases := leases s; bycid := bycid s; nat := nat s; natk := natk s; qos := qos s; qosi := qosi s; qost := qost s;
     cmac := cmac s; chash := chash s; csub := csub s; cvlan := cvlan s; nsid := nsid s;
     starts := starts s; stops := stops s |}.

(* Pool.Release(ip): the first holder of ip loses it; ip goes to the end of the free list.
   (Go iterates the map in random order; holders of one address are unique in every reachable pool.) *)
Fixpoint drop_val (ip : N) (a : amap N) : option (amap N) :=
  match a with
  | [] => None
  | (k, v) :: tl => if v =? ip then Some tl
                    else match drop_val ip tl with Some tl' => Some ((k, v) :: tl') | None => None end
  end.
Definition pool_release (s : dst) (ip : N) : dst :=
  match drop_val ip (alloc s) with
  | Some a' => set_pool s (avail s ++ [ip]) a' (unavail s)
  | None => s
  end.

(* Pool.Reserve(mac, ip) *)
Definition pool_reserve (s : dst) (mac ip : N) : option dst :=
  match aget mac (alloc s) with
  | Some cur => if cur =? ip then Some s else None
  | None => if smem ip (avail s) then Some (set_pool s (remove1 ip (avail s)) (aput mac ip (alloc s)) (unavail s))
            else None
  end.

(* Pool.MarkUnavailable(ip) *)
Definition pool_mark (s : dst) (ip : N) : dst :=
  set_pool s (remove1 ip (avail s)) (filter (fun p => negb (snd p =? ip)) (alloc s)) (sadd ip (unavail s)).

(* delete(s.leases, mac) + delete(s.leasesByCircuitID, hex(lease.CircuitID)) *)
Definition drop_lease (s : dst) (mac : N) (l : lease) : dst :=
  {| avail := avail s; alloc := alloc s; unavail := unavail s; leases := adel mac (leases s);
     bycid := if l_cid l =? 0 then bycid s else adel (l_cid l) (bycid s);
     nat := nat s; natk := natk s; qos := qos s; qosi := qosi s; qost := qost s; cmac := cmac s; chash := chash s; csub := csub s; cvlan := cvlan s;
     nsid := nsid s; starts := starts s; stops := stops s |}.

(* what handleRelease does besides the lease table and the pool: Accounting-Stop, QoS, NAT, caches.
   Returns the state and the accounting events. *)
Definition release_rest (c : dcfg) (s : dst) (mac : N) (l : lease) : dst * list (N * N) :=
  let stop := c_radius c && negb (l_sid l =? 0) in
  ({| avail := avail s; alloc := alloc s; unavail := unavail s; leases := leases s; bycid := bycid s;
      (* DeallocateNAT: nothing without an allocation; else the kernel entry is deleted (an entry that is
         already gone is not an error) and the allocation forgotten *)
      nat := if c_nat c then sdel (l_ip l) (nat s) else nat s;
      natk := if c_nat c && smem (l_ip l) (nat s) then sdel (l_ip l) (natk s) else natk s;
      (* RemoveSubscriberQoS deletes both kernel entries and the tracking entry, tracked or not *)
      qos := if c_qos c then sdel (l_ip l) (qos s) else qos s;
      qosi := if c_qos c then sdel (l_ip l) (qosi s) else qosi s;
      qost := if c_qos c then sdel (l_ip l) (qost s) else qost s;
      cmac := adel mac (cmac s);
      chash := if l_cid l =? 0 then chash s else adel (l_cid l) (chash s);
      csub := if l_cid l =? 0 then csub s else adel (l_cid l) (csub s);
      cvlan := cvlan s; nsid := nsid s; starts := starts s;
      stops := if stop then l_sid l :: stops s else stops s |},
   if stop then [(2, l_sid l)] else []).

(* the session as the ending paths see it: fixed before the end, so that "released" cannot be
   satisfied by forgetting which address the session had *)
Record dsess := { se_mac : N; se_ip : N; se_cid : N; se_sid : N }.

Definition dsess_of (s : dst) (mac : N) : option dsess :=
  match aget mac (leases s) with
  | Some l => Some {| se_mac := mac; se_ip := l_ip l; se_cid := l_cid l; se_sid := l_sid l |}
  | None => match aget mac (alloc s) with
            | Some ip => Some {| se_mac := mac; se_ip := ip; se_cid := 0; se_sid := 0 |}   (* offered only *)
            | None => None
            end
  end.

(* resources a session still holds in state s — the summary function of the property *)
Inductive res := RAddr (ip : N) | RNat (ip : N) | RQos (ip : N) | RCacheMac (mac : N)
               | RCacheCid (cid : N) | RCacheCidSub (cid : N) | RCacheVlan (ip : N) | RAcct (sid : N).

Definition dheld (s : dst) (e : dsess) : list res :=
  (if ahas (se_mac e) (alloc s) || negb (smem (se_ip e) (avail s) || smem (se_ip e) (unavail s))
   then [RAddr (se_ip e)] else []) ++
  (if smem (se_ip e) (nat s) || smem (se_ip e) (natk s) then [RNat (se_ip e)] else []) ++
  (if smem (se_ip e) (qos s) || smem (se_ip e) (qosi s) || smem (se_ip e) (qost s) then [RQos (se_ip e)] else []) ++
  (if ahas (se_mac e) (cmac s) then [RCacheMac (se_mac e)] else []) ++
  (if negb (se_cid e =? 0) && ahas (se_cid e) (chash s) then [RCacheCid (se_cid e)] else []) ++
  (if negb (se_cid e =? 0) && ahas (se_cid e) (csub s) then [RCacheCidSub (se_cid e)] else []) ++
  (if existsb (fun p => snd p =? se_ip e) (cvlan s) then [RCacheVlan (se_ip e)] else []) ++
  (if negb (se_sid e =? 0) && (1 <=? count (se_sid e) (starts s)) && negb (count (se_sid e) (stops s) =? 1)
   then [RAcct (se_sid e)] else []).

Definition expire_one (c : dcfg) (acc : dst * list (N * N) * list N) (mac : N) : dst * list (N * N) * list N :=
  let '(s, ev, mk) := acc in
  match aget mac (leases s) with
  | Some l =>
      if (l_ttl l <? 0)%Z then
        (* delete lease, circuit index; pool.Release; releaseSessionServices (Accounting-Stop, QoS, NAT);
           loader.RemoveSubscriber / RemoveCircuitIDMapping / RemoveCircuitIDSubscriber  (commit 81d6b2b) *)
        let '(s1, e1) := release_rest c (pool_release (drop_lease s mac l) (l_ip l)) mac l in
        (s1, ev ++ e1, mk)
      else acc
  | None => acc
  end.

Definition age_lease (d : Z) (l : lease) : lease :=
  {| l_ip := l_ip l; l_cid := l_cid l; l_sid := l_sid l; l_ttl := (l_ttl l - d)%Z |}.

(* reply: 0 none, 1 OFFER ip, 2 ACK ip, 3 NAK *)
Definition dstep (c : dcfg) (s : dst) (o : dop) : dst * (N * N * list (N * N)) * list N :=
  match o with
  | Discover mac cid relayed =>
      let fresh := match pool_allocate s mac with
                   | Some (ip, s') => (s', (1, ip, []), [])
                   | None => (s, (0, 0, []), [])
                   end in
      match existing s mac cid relayed with
      | Some l => if (0 <? l_ttl l)%Z then (s, (1, l_ip l, []), []) else fresh
      | None => fresh
      end
  | Request mac ip cid relayed =>
      let ex := existing s mac cid relayed in
      let go (s1 : dst) (isnew : bool) :=
        let cid' := if cid =? 0 then match ex with Some e => l_cid e | None => 0 end else cid in
        let newsid := c_radius c in     (* the session id exists anyway; only its appearance in RADIUS is observable *)
        let sid := if isnew then (if newsid then nsid s1 + 1 else 0)
                   else match ex with Some e => l_sid e | None => 0 end in
        let l := {| l_ip := ip; l_cid := cid'; l_sid := sid; l_ttl := c_lease c |} in
        (* A Put into a full kernel map fails for a NEW key only (an existing key is updated in place).
           AllocateNAT: an existing allocation is returned as it is (no kernel write); else the kernel Put comes
           before the bookkeeping and a failed Put allocates nothing *)
        let natok := c_nat c && isnew && negb (smem ip (nat s1)) && (N.of_nat (length (nat s1)) <? c_natcap c) &&
                     negb (full c 6 && negb (smem ip (natk s1))) in
        (* SetSubscriberQoS: egress Put, then ingress Put, tracked only when both succeeded; the error is
           logged by handleRequest and the ACK goes out all the same *)
        let eg_ok := c_qos c && isnew && negb (full c 4 && negb (smem ip (qos s1))) in
        let in_ok := eg_ok && negb (full c 5 && negb (smem ip (qosi s1))) in
        (* the client renews from another circuit: the old circuit's index entry and cache entries go,
           provided the index still points at the lease being replaced (dropCircuitIDBindings) *)
        let oldcid := if isnew then 0 else match ex with Some e => l_cid e | None => 0 end in
        let moved := negb (oldcid =? 0) && negb (oldcid =? cid') &&
                     match aget oldcid (bycid s1) with Some p => fst p =? mac | None => false end in
        let bycid0 := if moved then adel oldcid (bycid s1) else bycid s1 in
        let chash0 := if moved then adel oldcid (chash s1) else chash s1 in
        let csub0 := if moved then adel oldcid (csub s1) else csub s1 in
        let s2 := {| avail := avail s1; alloc := alloc s1; unavail := unavail s1;
                     leases := aput mac l (leases s1);
                     bycid := if cid' =? 0 then bycid0 else aput cid' (mac, l) bycid0;
                     nat := if natok then sadd ip (nat s1) else nat s1;
                     natk := if natok then sadd ip (natk s1) else natk s1;
                     qos := if eg_ok then sadd ip (qos s1) else qos s1;
                     qosi := if in_ok then sadd ip (qosi s1) else qosi s1;
                     qost := if in_ok then sadd ip (qost s1) else qost s1;
                     cmac := if c_cache c && negb (full c 1 && negb (ahas mac (cmac s1))) then aput mac ip (cmac s1) else cmac s1;
                     chash := if c_cache c && negb (cid' =? 0) && negb (full c 2 && negb (ahas cid' chash0)) then aput cid' mac chash0 else chash0;
                     csub := if c_cache c && negb (cid' =? 0) && negb (full c 3 && negb (ahas cid' csub0)) then aput cid' ip csub0 else csub0;
                     cvlan := cvlan s1;
                     nsid := if isnew && newsid then nsid s1 + 1 else nsid s1;
                     starts := if isnew && c_radius c then sid :: starts s1 else starts s1;
                     stops := stops s1 |} in
        (s2, (2, ip, if isnew && c_radius c then [(1, sid)] else []), []) in
      match ex with
      | Some e =>
          if l_ip e =? ip
          then (* 1605: the "existing lease" is another MAC's, found through the circuit-ID index (C02 K02a):
                  two leases now share one address and one RADIUS session id *)
               let '(s2, r, mk) := go s false in (s2, r, if via_cid s mac cid relayed then 1605 :: mk else mk)
          else (s, (3, 0, []), [])
      | None =>
          if negb ((c_lo c <=? ip) && (ip <=? c_hi c)) then (s, (3, 0, []), [])
          else match pool_reserve s mac ip with
               | Some s1 => go s1 true
               | None => (s, (3, 0, []), [])
               end
      end
  | Release mac =>
      match aget mac (leases s) with
      | Some l =>
          let '(s1, ev) := release_rest c (drop_lease s mac l) mac l in
          (pool_release s1 (l_ip l), (0, 0, ev), [])
      | None =>
          (* no lease: nothing is released, not even an address that was only offered *)
          (s, (0, 0, []), if ahas mac (alloc s) then [1604] else [])
      end
  | Decline mac ip =>
      match aget mac (leases s) with
      | Some l =>
          (* no option 50: MarkUnavailable(nil) records "<nil>", which is no address *)
          let s0 := if ip =? 0 then drop_lease s mac l else pool_mark (drop_lease s mac l) ip in
          (* releaseSessionServices + the cache removals of commit 94fa48d: everything RELEASE does except
             that the address is quarantined instead of freed *)
          let '(s1, ev) := release_rest c s0 mac l in
          (s1, (0, 0, ev), if ahas mac (alloc s1) then [1603] else [])
      | None => (s, (0, 0, []), if ahas mac (alloc s) then [1604] else [])
      end
  | Age d =>
      ({| avail := avail s; alloc := alloc s; unavail := unavail s;
          leases := map (fun p => (fst p, age_lease d (snd p))) (leases s);
          bycid := map (fun p => (fst p, (fst (snd p), age_lease d (snd (snd p))))) (bycid s);
          nat := nat s; natk := natk s; qos := qos s; qosi := qosi s; qost := qost s; cmac := cmac s; chash := chash s; csub := csub s; cvlan := cvlan s;
          nsid := nsid s; starts := starts s; stops := stops s |}, (0, 0, []), [])
  | Tick order =>
      let '(s', ev, mk) := fold_left (expire_one c) (order ++ map fst (leases s)) (s, [], []) in
      (s', (0, 0, ev), mk)
  | Flush k =>
      ({| avail := avail s; alloc := alloc s; unavail := unavail s; leases := leases s; bycid := bycid s;
          nat := nat s; natk := if k =? 6 then [] else natk s;
          qos := if k =? 4 then [] else qos s; qosi := if k =? 5 then [] else qosi s; qost := qost s;
          cmac := if k =? 1 then [] else cmac s; chash := if k =? 2 then [] else chash s;
          csub := if k =? 3 then [] else csub s; cvlan := cvlan s;
          nsid := nsid s; starts := starts s; stops := stops s |}, (0, 0, []), [])
  end.

(* ---- observables ---- *)
Record dsnap := {
  sn_alloc : list (N * N); sn_avail : list N; sn_unavail : list N;
  sn_leases : list (N * (N * N * bool));     (* mac -> (ip, cid, expired) *)
  sn_bycid : list (N * (N * N));             (* cid -> (mac, ip) *)
  sn_nat : list N; sn_natk : list N; sn_qos : list N; sn_qosi : list N; sn_qost : list N;
  sn_cmac : list (N * N); sn_chash : list (N * N); sn_csub : list (N * N); sn_cvlan : list (N * N) }.

Record dout := { o_reply : N; o_rip : N; o_acct : list (N * N); o_snap : dsnap }.

(* positional constructor for the harness-written case files *)
Definition DO (reply rip : N) (acct : list (N * N)) (al : list (N * N)) (av un : list N)
  (ls : list (N * (N * N * bool))) (bc : list (N * (N * N))) (nt nk qs qi qt : list N)
  (cm ch cs cv : list (N * N)) : dout :=
  {| o_reply := reply; o_rip := rip; o_acct := acct;
     o_snap := {| sn_alloc := al; sn_avail := av; sn_unavail := un; sn_leases := ls; sn_bycid := bc;
                  sn_nat := nt; sn_natk := nk; sn_qos := qs; sn_qosi := qi; sn_qost := qt; sn_cmac := cm; sn_chash := ch; sn_csub := cs; sn_cvlan := cv |} |}.

Definition dsnap_of (s : dst) : dsnap :=
  {| sn_alloc := alloc s; sn_avail := avail s; sn_unavail := unavail s;
     sn_leases := map (fun p => (fst p, (l_ip (snd p), l_cid (snd p), (l_ttl (snd p) <? 0)%Z))) (leases s);
     sn_bycid := map (fun p => (fst p, (fst (snd p), l_ip (snd (snd p))))) (bycid s);
     sn_nat := nat s; sn_natk := natk s; sn_qos := qos s; sn_qosi := qosi s; sn_qost := qost s; sn_cmac := cmac s; sn_chash := chash s; sn_csub := csub s;
     sn_cvlan := cvlan s |}.

Fixpoint isort_ev (l : list (N * N)) : list (N * N) :=
  let fix ins (x : N * N) (l : list (N * N)) :=
    match l with
    | [] => [x]
    | y :: tl => if (snd x <? snd y) || ((snd x =? snd y) && (fst x <=? fst y)) then x :: l else y :: ins x tl
    end in
  match l with [] => [] | x :: tl => ins x (isort_ev tl) end.

Definition dstepo (c : dcfg) (s : dst) (o : dop) : dst * dout * list N :=
  let '(s', (r, ip, ev), mk) := dstep c s o in
  (s', {| o_reply := r; o_rip := ip; o_acct := isort_ev ev; o_snap := dsnap_of s' |}, mk).

(* equality on observables *)
Definition nn_eqb (a b : N * N) : bool := (fst a =? fst b) && (snd a =? snd b).
Fixpoint list_eqb {A} (eq : A -> A -> bool) (a b : list A) : bool :=
  match a, b with
  | [], [] => true
  | x :: a', y :: b' => eq x y && list_eqb eq a' b'
  | _, _ => false
  end.
Definition dsnap_eqb (a b : dsnap) : bool :=
  list_eqb nn_eqb (sn_alloc a) (sn_alloc b) && list_eqb N.eqb (sn_avail a) (sn_avail b) &&
  list_eqb N.eqb (sn_unavail a) (sn_unavail b) &&
  list_eqb (fun x y => (fst x =? fst y) && (fst (fst (snd x)) =? fst (fst (snd y))) &&
                       (snd (fst (snd x)) =? snd (fst (snd y))) && Bool.eqb (snd (snd x)) (snd (snd y)))
           (sn_leases a) (sn_leases b) &&
  list_eqb (fun x y => (fst x =? fst y) && nn_eqb (snd x) (snd y)) (sn_bycid a) (sn_bycid b) &&
  list_eqb N.eqb (sn_nat a) (sn_nat b) && list_eqb N.eqb (sn_natk a) (sn_natk b) && list_eqb N.eqb (sn_qos a) (sn_qos b) &&
  list_eqb N.eqb (sn_qosi a) (sn_qosi b) && list_eqb N.eqb (sn_qost a) (sn_qost b) &&
  list_eqb nn_eqb (sn_cmac a) (sn_cmac b) && list_eqb nn_eqb (sn_chash a) (sn_chash b) &&
  list_eqb nn_eqb (sn_csub a) (sn_csub b) && list_eqb nn_eqb (sn_cvlan a) (sn_cvlan b).
Definition dout_eqb (a b : dout) : bool :=
  (o_reply a =? o_reply b) && (o_rip a =? o_rip b) && list_eqb nn_eqb (o_acct a) (o_acct b) &&
  dsnap_eqb (o_snap a) (o_snap b).

(* ================================================================== P: PPPoE ========================= *)
(* pkg/pppoe/server.go frame handlers over SessionManager + IPPool, and pkg/pppoe/teardown.go
   (SessionTeardown wired to the same table and pool).  Session objects live in a heap keyed by
   their instance number (the order of creation; the RADIUS Acct-Session-Id identifies it), because
   teardown is handed the object, not the id — that is how a session gets cleaned up twice. *)

Record pcfg := { pc_avail0 : list N; pc_pool : bool; pc_radius : bool (* teardown has a RADIUS client *);
                 pc_timeout : Z }.

Record psess := { ps_id : N; ps_mac : N; ps_state : N; ps_auth : bool; ps_ip : N; ps_idle : Z; ps_torn : bool }.
(* ps_state: 0 Discovery 1 LCP 2 Authentication 3 IPCP 4 Established 5 Terminating 6 Closed *)

Record pst := {
  heap : amap psess;           (* instance -> session object *)
  tbl : amap N;                (* SessionManager.sessions: id -> instance *)
  midx : amap N;               (* SessionManager.macToSession: mac -> id *)
  nextid : N; ninst : N;
  pavail : list N;             (* IPPool.available *)
  palloc : amap N;             (* IPPool.allocated: instance (SessionID string) -> ip *)
  pstops : list N              (* ghost: Accounting-Stop records sent, by instance *)
}.

Definition pinit (c : pcfg) : pst :=
  {| heap := []; tbl := []; midx := []; nextid := 1; ninst := 0; pavail := pc_avail0 c; palloc := []; pstops := [] |}.

Inductive pop :=
| Padr (mac : N)
| LcpAck (id mac : N)
| Pap (id mac : N) (ok : bool)      (* ok: the RADIUS answer (oracle) *)
| IpcpAck (id mac : N)
| Padt (id mac : N)
| LcpTerm (id mac : N)
| PAge (d : Z)
| IdleTick                           (* SessionManager.CleanupExpired(timeout): body of Server.cleanupLoop *)
| TdPadt (inst mac : N)              (* SessionTeardown.HandleClientPADT(object, mac, id) *)
| TdTerm (inst : N)                  (* SessionTeardown.TerminateSession(object, AdminReset, "") *)
| TdAll (order : list N)            (* SessionTeardown.TerminateAll (maintenance / shutdown); order = Go map iteration order of the table, as instances (oracle) *)
| POverlap (held : bool) (first second : pop).
    (* two ending paths at once: [second] was started while [first] (a teardown path) was held inside cleanup
       (held = true: at the eBPF-remove callback or waiting for the Accounting-Response, i.e. after the
       torn-down mark and before RemoveSession), or after [first] had already returned (held = false) *)

Definition pset (s : pst) (h : amap psess) (t m : amap N) (av : list N) (al : amap N) (st : list N) : pst :=
  {| heap := h; tbl := t; midx := m; nextid := nextid s; ninst := ninst s; pavail := av; palloc := al; pstops := st |}.

(* session addressed by a frame: id in the table and the frame comes from its owner *)
Definition pfind (s : pst) (id mac : N) : option (N * psess) :=
  match aget id (tbl s) with
  | Some i => match aget i (heap s) with
              | Some x => if ps_mac x =? mac then Some (i, x) else None
              | None => None
              end
  | None => None
  end.

Definition upd (x : psess) (st : N) (au : bool) (ip : N) (idle : Z) : psess :=
  {| ps_id := ps_id x; ps_mac := ps_mac x; ps_state := st; ps_auth := au; ps_ip := ip; ps_idle := idle; ps_torn := ps_torn x |}.

(* IPPool.Release(SessionID) *)
Definition ppool_release (s : pst) (i : N) : pst :=
  match aget i (palloc s) with
  | Some ip => pset s (heap s) (tbl s) (midx s) (pavail s ++ [ip]) (adel i (palloc s)) (pstops s)
  | None => s
  end.

(* SessionManager.RemoveSession(id): whatever object sits at id goes, with its MAC index entry *)
Definition premove (s : pst) (id : N) : pst :=
  match aget id (tbl s) with
  | Some i => let mac := match aget i (heap s) with Some x => ps_mac x | None => 0 end in
              pset s (heap s) (adel id (tbl s)) (adel mac (midx s)) (pavail s) (palloc s) (pstops s)
  | None => s
  end.

(* SessionTeardown.cleanup(object): events (3,id) eBPF remove callback, (2,inst) Accounting-Stop *)
Definition pcleanup (c : pcfg) (s : pst) (i : N) : pst * list (N * N) * list N :=
  match aget i (heap s) with
  | None => (s, [], [])
  | Some x =>
      if ps_torn x then (s, [], [])        (* once per session object (commit f58f3aa) *)
      else
      let stop := pc_radius c && ps_auth x in
      (* 1622: the object is no longer the table's session for its id (a frame handler or the idle
         cleanup ended it): cleanup still runs, sends a Stop and removes whatever holds the id *)
      let live := match aget (ps_id x) (tbl s) with Some j => j =? i | None => false end in
      let s1 := if pc_pool c && negb (ps_ip x =? 0) then ppool_release s i else s in
      let x' := {| ps_id := ps_id x; ps_mac := ps_mac x; ps_state := 6; ps_auth := ps_auth x; ps_ip := ps_ip x;
                   ps_idle := ps_idle x; ps_torn := true |} in
      let s2 := pset s1 (aput i x' (heap s1)) (tbl s1) (midx s1)
                     (pavail s1) (palloc s1) (if stop then i :: pstops s1 else pstops s1) in
      (premove s2 (ps_id x), (3, ps_id x) :: (if stop then [(2, i)] else []), if live then [] else [1622])
  end.

Definition pterm (c : pcfg) (acc : pst * list (N * N) * list N) (i : N) : pst * list (N * N) * list N :=
  let '(s, ev, mk) := acc in
  match aget i (heap s) with
  | None => acc
  | Some x =>
      let s1 := pset s (aput i (upd x 5 (ps_auth x) (ps_ip x) (ps_idle x)) (heap s)) (tbl s) (midx s)
                     (pavail s) (palloc s) (pstops s) in
      let '(s2, ev2, mk2) := pcleanup c s1 i in
      (s2, ev ++ (4, ps_id x) :: ev2, mk ++ mk2)
  end.

(* TerminateAll over the session list [live] it read from the table, met in the (oracle) order *)
Definition ptdall (c : pcfg) (live : list N) (s : pst) (order : list N) : pst * list (N * N) * list N :=
  fold_left (pterm c) (filter (fun i => smem i live) order ++ filter (fun i => negb (smem i order)) live) (s, [], []).

Definition pstep1 (c : pcfg) (s : pst) (o : pop) : pst * list (N * N) * list N :=
  let seth (s : pst) (i : N) (x : psess) := pset s (aput i x (heap s)) (tbl s) (midx s) (pavail s) (palloc s) (pstops s) in
  match o with
  | Padr mac =>
      let id := nextid s in
      let i := ninst s + 1 in
      ({| heap := aput i {| ps_id := id; ps_mac := mac; ps_state := 1; ps_auth := false; ps_ip := 0; ps_idle := 0; ps_torn := false |} (heap s);
          tbl := aput id i (tbl s); midx := aput mac id (midx s); nextid := id + 1; ninst := i;
          pavail := pavail s; palloc := palloc s; pstops := pstops s |}, [], [])
  | LcpAck id mac =>
      match pfind s id mac with
      | Some (i, x) => (seth s i (upd x 2 (ps_auth x) (ps_ip x) 0), [], [])
      | None => (s, [], [])
      end
  | Pap id mac ok =>
      match pfind s id mac with
      | Some (i, x) =>
          if ok then
            if pc_pool c then
              (* IPPool.Allocate: a session that already holds an address keeps it (commit 9686c62) *)
              match aget i (palloc s) with
              | Some ip0 => (seth s i (upd x 3 true ip0 0), [], [])
              | None =>
                  match pavail s with
                  | ip :: tl =>
                      (pset (seth s i (upd x 3 true ip 0)) (heap (seth s i (upd x 3 true ip 0))) (tbl s) (midx s) tl
                            (aput i ip (palloc s)) (pstops s), [], [])
                  | [] => (seth s i (upd x 3 true 0 0), [], [])
                  end
              end
            else (seth s i (upd x 3 true 0 0), [], [])
          else (* reject: Closed, and the address of an earlier accept goes back (commit b42d48d) *)
               (let s1 := seth s i (upd x 6 false (ps_ip x) 0) in if pc_pool c then ppool_release s1 i else s1, [], [])
      | None => (s, [], [])
      end
  | IpcpAck id mac =>
      match pfind s id mac with
      | Some (i, x) => (seth s i (upd x (if ps_auth x then 4 else ps_state x) (ps_auth x) (ps_ip x) 0), [], [])
      | None => (s, [], [])
      end
  | Padt id mac =>
      match pfind s id mac with
      | Some (i, x) => (premove (if pc_pool c then ppool_release s i else s) id, [], [])
      | None => (s, [], [])
      end
  | LcpTerm id mac =>
      match pfind s id mac with
      | Some (i, x) => (* Closed, address released (commit b42d48d), removed *)
          (let s1 := seth s i (upd x 6 (ps_auth x) (ps_ip x) 0) in premove (if pc_pool c then ppool_release s1 i else s1) id, [], [])
      | None => (s, [], [])
      end
  | PAge d =>
      (pset s (map (fun p => if existsb (fun q => snd q =? fst p) (tbl s)
                             then (fst p, upd (snd p) (ps_state (snd p)) (ps_auth (snd p)) (ps_ip (snd p)) (ps_idle (snd p) + d)%Z)
                             else p) (heap s))
            (tbl s) (midx s) (pavail s) (palloc s) (pstops s), [], [])
  | IdleTick =>
      fold_left (fun acc p =>
                   let '(s, ev, mk) := acc in
                   match aget (snd p) (heap s) with
                   | Some x => if (pc_timeout c <? ps_idle x)%Z
                               then (premove s (fst p), ev, if ahas (snd p) (palloc s) then 1612 :: mk else mk)
                               else acc
                   | None => acc
                   end) (tbl s) (s, [], [])
  | TdPadt i mac =>
      match aget i (heap s) with
      | Some x => if ps_mac x =? mac then pcleanup c s i else (s, [], [])
      | None => (s, [], [])
      end
  | TdTerm i => pterm c (s, [], []) i
  | TdAll order => ptdall c (map snd (tbl s)) s order
  | POverlap _ _ _ => (s, [], [])
  end.

(* Overlapping endings. cleanup holds the teardown mutex from its first to its last step, marks the object
   torn down before anything else, and every step is idempotent; so whatever the point at which the first
   path is held, the resources end up as after running the first path and then the second: a second
   teardown path waits for the mutex and then finds the object torn down; a frame handler or the idle
   cleanup releases and removes what cleanup then releases and removes again without effect.  One thing
   differs from the sequential run: a TerminateAll started meanwhile reads the session list while the held
   session is still in the table, so it still sends that session a PADT before cleanup turns it away. *)
Definition pstep (c : pcfg) (s : pst) (o : pop) : pst * list (N * N) * list N :=
  match o with
  | POverlap held a b =>
      let '(s1, e1, m1) := pstep1 c s a in
      let '(s2, e2, m2) := match b with
                           | TdAll order => if held then ptdall c (map snd (tbl s)) s1 order else pstep1 c s1 b
                           | _ => pstep1 c s1 b
                           end in
      (s2, e1 ++ e2, m1 ++ m2)
  | _ => pstep1 c s o
  end.

Record psnap := {
  pn_tbl : list (N * (N * N * bool * N * N * bool));   (* id -> (mac, state, authenticated, ip, instance, stale) *)
  pn_midx : list (N * N); pn_avail : list N; pn_alloc : list (N * N) }.
Record pout := { po_ev : list (N * N); po_snap : psnap }.

Definition PO (ev : list (N * N)) (t : list (N * (N * N * bool * N * N * bool))) (m : list (N * N)) (av : list N)
  (al : list (N * N)) : pout := {| po_ev := ev; po_snap := {| pn_tbl := t; pn_midx := m; pn_avail := av; pn_alloc := al |} |}.

Definition psnap_of (c : pcfg) (s : pst) : psnap :=
  {| pn_tbl := map (fun p => match aget (snd p) (heap s) with
                             | Some x => (fst p, (ps_mac x, ps_state x, ps_auth x, ps_ip x, snd p, (pc_timeout c <? ps_idle x)%Z))
                             | None => (fst p, (0, 99, false, 0, snd p, false))
                             end) (tbl s);
     pn_midx := midx s; pn_avail := pavail s; pn_alloc := palloc s |}.

Definition pstepo (c : pcfg) (s : pst) (o : pop) : pst * pout * list N :=
  let '(s', ev, mk) := pstep c s o in (s', {| po_ev := isort_ev ev; po_snap := psnap_of c s' |}, mk).

Definition prow_eqb (a b : N * (N * N * bool * N * N * bool)) : bool :=
  let '(ia, (ma, sa, aa, pa, na, ta)) := a in
  let '(ib, (mb, sb, ab, pb, nb, tb)) := b in
  (ia =? ib) && (ma =? mb) && (sa =? sb) && Bool.eqb aa ab && (pa =? pb) && (na =? nb) && Bool.eqb ta tb.
Definition psnap_eqb (a b : psnap) : bool :=
  list_eqb prow_eqb (pn_tbl a) (pn_tbl b) && list_eqb nn_eqb (pn_midx a) (pn_midx b) &&
  list_eqb N.eqb (pn_avail a) (pn_avail b) && list_eqb nn_eqb (pn_alloc a) (pn_alloc b).
Definition pout_eqb (a b : pout) : bool :=
  list_eqb nn_eqb (po_ev a) (po_ev b) && psnap_eqb (po_snap a) (po_snap b).

(* what a PPPoE session still holds: its pool address (NAT / QoS / accounting Start do not exist on
   this code path: pppoe.Server programs no NAT, no QoS and sends no Accounting-Start) *)
Definition pheld (s : pst) (i ip : N) : list res :=
  if ahas i (palloc s) || (negb (ip =? 0) && negb (smem ip (pavail s))) then [RAddr ip] else [].

(* ================================================================== S: subscriber.Manager ============ *)
(* Sessions are numbered in order of creation (the UUID is interned).  The AddressAllocator is the
   harness's: a free list; ReleaseIPv4 of an address that is not allocated changes nothing, but every
   call is an observable event (5, ip).  Terminate events (6, n) are what accounting consumers turn
   into Accounting-Stop. *)

Record scfg := { sc_avail0 : list N; sc_stimeout : Z; sc_itimeout : Z }.
Record ssess := { ss_mac : N; ss_state : N; ss_ip : N; ss_age : Z; ss_idle : Z }.
(* ss_state: 0 init 1 authenticating 2 address_assign 3 establishing 4 active 6 terminating *)

Record sst := { ssn : amap ssess; sbymac : amap N; sbyip : amap N; snext : N;
                savail : list N; salloc : list N; sended : N }.

Definition sinit (c : scfg) : sst :=
  {| ssn := []; sbymac := []; sbyip := []; snext := 1; savail := sc_avail0 c; salloc := []; sended := 0 |}.

Inductive sop :=
| SCreate (mac : N)
| SAuth (n : N) (ok : bool) (ctx : N)     (* ctx: 0 live, 1 already cancelled, 2 deadline already expired *)
| SAssign (n : N) (ctx : N)
| SActivate (n : N)
| STerminate (n : N) (ctx : N) (relfail : bool)   (* relfail: the allocator's ReleaseIPv4 returns an error (injected) *)
| SAge (d : Z) | STick (order : list N)
| SRace (n r : N)        (* concurrent TerminateSession calls for n, of which r passed the existence check (oracle) *)
| SStop.                 (* Manager.Stop *)

Definition supd (x : ssess) (st ip : N) : ssess :=
  {| ss_mac := ss_mac x; ss_state := st; ss_ip := ip; ss_age := ss_age x; ss_idle := ss_idle x |}.

(* one TerminateSession(n) that found the session; returns events.
   The caller's context reaches only the allocator, and since commit (WithoutCancel) not even that: the
   release runs on a context that survives the caller's cancellation, so ctx has no effect here.
   fail: ReleaseIPv4 returned an error — the code logs it and goes on: the session is removed, the event
   emitted, the address stays allocated in the allocator (event (7, ip); marker 1634 at the caller). *)
Definition sterm (s : sst) (n : N) (fail : bool) : option (sst * list (N * N)) :=
  match aget n (ssn s) with
  | None => None
  | Some x =>
      let ip := ss_ip x in
      let rel := negb (ip =? 0) in
      let done := rel && negb fail in
      Some ({| ssn := adel n (ssn s); sbymac := adel (ss_mac x) (sbymac s);
               sbyip := if rel then adel ip (sbyip s) else sbyip s; snext := snext s;
               savail := if done && smem ip (salloc s) then savail s ++ [ip] else savail s;
               salloc := if done then sdel ip (salloc s) else salloc s;
               sended := sended s + 1 |},
            (if rel then [(if fail then 7 else 5, ip)] else []) ++ [(6, n)])
  end.

Definition sexpired (c : scfg) (x : ssess) : bool :=
  ((0 <? sc_stimeout c)%Z && (sc_stimeout c <? ss_age x)%Z) || ((0 <? sc_itimeout c)%Z && (sc_itimeout c <? ss_idle x)%Z).

(* out code: 0 ok, 1 error *)
Definition sstep (c : scfg) (s : sst) (o : sop) : sst * (N * list (N * N)) * list N :=
  let setx (n : N) (x : ssess) := {| ssn := aput n x (ssn s); sbymac := sbymac s; sbyip := sbyip s; snext := snext s;
                                     savail := savail s; salloc := salloc s; sended := sended s |} in
  match o with
  | SCreate mac =>
      if ahas mac (sbymac s) then (s, (1, []), [])
      else let n := snext s in
           ({| ssn := aput n {| ss_mac := mac; ss_state := 0; ss_ip := 0; ss_age := 0; ss_idle := 0 |} (ssn s);
               sbymac := aput mac n (sbymac s); sbyip := sbyip s; snext := n + 1; savail := savail s;
               salloc := salloc s; sended := sended s |}, (0, []), [])
  | SAuth n ok ctx =>
      match aget n (ssn s) with
      | Some x => if ctx =? 0 then (setx n (supd x (if ok then 2 else ss_state x) (ss_ip x)), (0, []), [])
                  else (s, (1, []), [])     (* the authenticator honours the context: error, state restored *)
      | None => (s, (1, []), [])
      end
  | SAssign n ctx =>
      match aget n (ssn s) with
      | Some x => if negb (ctx =? 0) then (s, (1, []), [])   (* the allocator honours the context: AllocateIPv4 fails *)
                  else
                  match savail s with
                  | ip :: tl =>
                      ({| ssn := aput n (supd x 3 ip) (ssn s); sbymac := sbymac s; sbyip := aput ip n (sbyip s);
                          snext := snext s; savail := tl; salloc := sadd ip (salloc s); sended := sended s |}, (0, []), [])
                  | [] => (s, (1, []), [])
                  end
      | None => (s, (1, []), [])
      end
  | SActivate n =>
      match aget n (ssn s) with
      | Some x => (setx n {| ss_mac := ss_mac x; ss_state := 4; ss_ip := ss_ip x; ss_age := ss_age x; ss_idle := 0 |}, (0, []), [])
      | None => (s, (1, []), [])
      end
  | STerminate n ctx relfail =>
      match sterm s n relfail with
      | Some (s', ev) => (s', (0, ev), if existsb (fun e => fst e =? 7) ev then [1634] else [])
      | None => (s, (1, []), [])
      end
  | SAge d =>
      ({| ssn := map (fun p => (fst p, {| ss_mac := ss_mac (snd p); ss_state := ss_state (snd p); ss_ip := ss_ip (snd p);
                                          ss_age := (ss_age (snd p) + d)%Z; ss_idle := (ss_idle (snd p) + d)%Z |})) (ssn s);
          sbymac := sbymac s; sbyip := sbyip s; snext := snext s; savail := savail s; salloc := salloc s;
          sended := sended s |}, (0, []), [])
  | STick order =>
      let exp := filter (fun n => match aget n (ssn s) with Some x => sexpired c x | None => false end)
                        (order ++ map fst (ssn s)) in
      let '(s', ev) := fold_left (fun acc n => match sterm (fst acc) n false with
                                               | Some (s', e) => (s', snd acc ++ e)
                                               | None => acc
                                               end) exp (s, []) in
      (s', (0, ev), [])
  | SRace n r =>
      match aget n (ssn s), sterm s n false with
      | Some x, Some (s', ev) =>
          (* the r-1 other callers passed the existence check too: each releases the address, updates
             the statistics and emits the terminate event again *)
          let extra := N.to_nat (r - 1) in
          ({| ssn := ssn s'; sbymac := sbymac s'; sbyip := sbyip s'; snext := snext s'; savail := savail s';
              salloc := salloc s'; sended := sended s' + (r - 1) |},
           (0, ev ++ concat (repeat ((if ss_ip x =? 0 then [] else [(5, ss_ip x)]) ++ [(6, n)]) extra)),
           if 1 <? r then [1631] else [])
      | _, _ => (s, (1, []), [])
      end
  | SStop => (s, (0, []), match ssn s with [] => [] | _ => [1632] end)
  end.

Record ssnap := { zn_sess : list (N * (N * N * N * bool));   (* n -> (mac, state, ip, expired) *)
                  zn_bymac : list (N * N); zn_byip : list (N * N); zn_avail : list N; zn_alloc : list N; zn_ended : N }.
Record sout := { so_err : N; so_ev : list (N * N); so_snap : ssnap }.
Definition SO (err : N) (ev : list (N * N)) (ss : list (N * (N * N * N * bool))) (bm bi : list (N * N)) (av al : list N) (en : N) : sout :=
  {| so_err := err; so_ev := ev; so_snap := {| zn_sess := ss; zn_bymac := bm; zn_byip := bi; zn_avail := av; zn_alloc := al; zn_ended := en |} |}.

Definition ssnap_of (c : scfg) (s : sst) : ssnap :=
  {| zn_sess := map (fun p => (fst p, (ss_mac (snd p), ss_state (snd p), ss_ip (snd p), sexpired c (snd p)))) (ssn s);
     zn_bymac := sbymac s; zn_byip := sbyip s; zn_avail := savail s; zn_alloc := salloc s; zn_ended := sended s |}.

(* events keep their order here (release before terminate event; tick in the oracle order) *)
Definition sstepo (c : scfg) (s : sst) (o : sop) : sst * sout * list N :=
  let '(s', (e, ev), mk) := sstep c s o in (s', {| so_err := e; so_ev := ev; so_snap := ssnap_of c s' |}, mk).

Definition ssnap_eqb (a b : ssnap) : bool :=
  list_eqb (fun x y => let '(n, (m, st, ip, e)) := x in let '(n', (m', st', ip', e')) := y in
                       (n =? n') && (m =? m') && (st =? st') && (ip =? ip') && Bool.eqb e e') (zn_sess a) (zn_sess b) &&
  list_eqb nn_eqb (zn_bymac a) (zn_bymac b) && list_eqb nn_eqb (zn_byip a) (zn_byip b) &&
  list_eqb N.eqb (zn_avail a) (zn_avail b) && list_eqb N.eqb (zn_alloc a) (zn_alloc b) && (zn_ended a =? zn_ended b).
Definition sout_eqb (a b : sout) : bool :=
  (so_err a =? so_err b) && list_eqb nn_eqb (so_ev a) (so_ev b) && ssnap_eqb (so_snap a) (so_snap b).

Definition sheld (s : sst) (mac ip : N) : list res :=
  (if negb (ip =? 0) && (smem ip (salloc s) || negb (smem ip (savail s))) then [RAddr ip] else []) ++
  (if ahas mac (sbymac s) then [RCacheMac mac] else []) ++
  (if negb (ip =? 0) && ahas ip (sbyip s) then [RCacheCid ip] else []).
