(* Executable monitor for C04 over observed traces (the property text, clause by clause).
   It looks only at what the property names: the session table after each frame (state,
   authenticated flag is NOT consulted, client address, owner MAC), the frames sent, whether RADIUS
   answered Access-Accept, and the source MAC of the frame.

   "that same session" = the session record created by one PADR (its creation index [s_inst]; ids
   are reused after the uint16 wrap, creation indexes are not).

   accept event for session k in step output r:
        the server sent a PAP Authenticate-Ack on a session whose record carries creation index k,
        and, when a RADIUS client is configured, RADIUS answered Access-Accept during that step.

   clauses 0 and 2 use the strict reading "the session's LATEST PAP exchange was accepted": a later
   Authenticate-Nak (RADIUS reject, error, timeout) on the same session cancels the earlier accept.
   Clause 1 keeps the literal reading (the record keeps its ClientIP value after a later reject, as coded;
   the address was assigned after an accept).
   clause 0  established-after-auth : a session shown Established has an accept event now or earlier
   clause 1  clientip-after-auth    : a session with a client address has an accept event now or earlier
   clause 2  ipcp-ack-after-auth    : every IPCP Configure-Ack sent is on a session with an accept event
                                      now or earlier
   clause 3  mac-ownership          : every session record present before a frame whose owner MAC differs
                                      from the frame's source MAC is present, identical, afterwards
                                      (whatever the frame is: discovery or session stage; the complete
                                      record: state, flags, address, identifier, counters, Host-Uniq,
                                      Service-Name, user name)
   clause 4  emitted-to-owner       : every frame the server sends that names a session (a PADS, any
                                      discovery frame with a non-zero session id, every session-stage
                                      frame) is addressed to the MAC that owns a session with that id, in
                                      the table after the frame or in the table before it (a session's
                                      exchange is never advanced towards, or handed to, another station)
   clause 5  verdict-on-requester   : a PAP Authenticate-Ack / Authenticate-Nak is only sent on the session id
                                      named by the session-stage frame being handled ("that same session's
                                      PAP exchange": the accept event of a session is the answer to a
                                      request made on that session) *)
From Coq Require Import NArith List Bool.
From Verif Require Import Base.Word Model.PPPoESrv.
Import ListNotations.
Local Open Scope N_scope.

Definition ef_is (proto code : N) (f : eframe) : option N :=      (* session id of a PPP control frame *)
  match f with
  | ESess _ sid p (c :: _) => if (p =? proto) && (c =? code) then Some sid else None
  | _ => None
  end.
Definition sent_on (proto code : N) (fr : list eframe) (sid : N) : bool :=
  existsb (fun f => match ef_is proto code f with Some x => x =? sid | None => false end) fr.

(* creation indexes with an accept event in this step *)
Definition accepts (c : config) (r : out) : list N :=
  if c_radius c && negb (o_radius r =? 1) then []
  else map s_inst (filter (fun s => sent_on ProtoPAP 2 (o_frames r) (s_id s)) (o_sessions r)).

Definition mem (k : N) (l : list N) : bool := existsb (N.eqb k) l.

(* creation indexes of the sessions whose PAP exchange got a verdict in this step: an Authenticate-Ack or
   an Authenticate-Nak was sent on them *)
Definition pap_verdict_sent (fr : list eframe) (sid : N) : bool := sent_on ProtoPAP 2 fr sid || sent_on ProtoPAP 3 fr sid.
Definition verdicts (r : out) : list N :=
  map s_inst (filter (fun s => pap_verdict_sent (o_frames r) (s_id s)) (o_sessions r)).
(* sessions whose LATEST PAP verdict is an accept: an accept event puts the session in, any other verdict
   (Authenticate-Nak after a RADIUS reject / error / timeout, or an Ack that RADIUS did not back) takes it out *)
Definition next_cur (c : config) (cur : list N) (r : out) : list N :=
  accepts c r ++ filter (fun k => negb (mem k (verdicts r))) cur.

Record sstate := { m_prev : list sess; m_acc : list N; m_cur : list N }.
Definition sinit : sstate := {| m_prev := []; m_acc := []; m_cur := [] |}.

Definition established_ok (acc : list N) (r : out) : bool :=
  forallb (fun s => negb (s_state s =? StEstablished) || mem (s_inst s) acc) (o_sessions r).
Definition clientip_ok (acc : list N) (r : out) : bool :=
  forallb (fun s => match s_ip s with None => true | Some _ => mem (s_inst s) acc end) (o_sessions r).
Definition ipcp_ack_ok (acc : list N) (r : out) : bool :=
  forallb (fun f => match ef_is ProtoIPCP 2 f with
                    | None => true
                    | Some sid => existsb (fun s => (s_id s =? sid) && mem (s_inst s) acc) (o_sessions r)
                    end) (o_frames r).
Definition ownership_ok (prev : list sess) (src : N) (r : out) : bool :=
  forallb (fun s => (s_mac s =? src) || existsb (sess_eqb s) (o_sessions r)) prev.

(* (destination MAC, session id) of an emitted frame that names a session *)
Definition ef_sid (f : eframe) : option (N * N) :=
  match f with
  | EDisc d _ sid _ => if sid =? 0 then None else Some (d, sid)
  | ESess d sid _ _ => Some (d, sid)
  end.
Definition emitted_ok (prev : list sess) (r : out) : bool :=
  forallb (fun f => match ef_sid f with
                    | None => true
                    | Some (d, sid) => existsb (fun s => (s_id s =? sid) && (s_mac s =? d)) (o_sessions r ++ prev)
                    end) (o_frames r).

(* clause 5: a PAP verdict (Authenticate-Ack / Authenticate-Nak) is only sent on the session id named by the
   session-stage frame being handled - the verdict of a PAP exchange goes to the session that asked *)
Definition op_sid (o : op) : option N := match op_frame o with FSess _ sid _ _ => Some sid | _ => None end.
Definition ef_pap_verdict (f : eframe) : option N :=
  match f with
  | ESess _ sid p (c :: _) => if (p =? ProtoPAP) && ((c =? 2) || (c =? 3)) then Some sid else None
  | _ => None
  end.
Definition verdict_ok (o : op) (r : out) : bool :=
  forallb (fun f => match ef_pap_verdict f with
                    | None => true
                    | Some sid => match op_sid o with Some x => x =? sid | None => false end
                    end) (o_frames r).

Definition accept (c : config) (ms : sstate) (o : op) (r : out) : sstate + N :=
  let acc := accepts c r ++ m_acc ms in
  let cur := next_cur c (m_cur ms) r in
  if negb (established_ok cur r) then inr 0
  else if negb (clientip_ok acc r) then inr 1
  else if negb (ipcp_ack_ok cur r) then inr 2
  else if negb (ownership_ok (m_prev ms) (op_src o) r) then inr 3
  else if negb (emitted_ok (m_prev ms) r) then inr 4
  else if negb (verdict_ok o r) then inr 5
  else inl {| m_prev := o_sessions r; m_acc := acc; m_cur := cur |}.

(* ---- the property stated directly on runs of the Model (used by Props/C04.v) ---- *)
(* state after a history of frames; output of one more frame; all outputs of a history.
   [g] selects the repairs; the unindexed names are the code as it is now. *)
Definition exec_g (g : gates) (c : config) (ops : list op) : state :=
  fold_left (fun st o => fst (fst (step_g g c st o))) ops (init c).
Definition out_at_g (g : gates) (c : config) (ops : list op) (o : op) : out :=
  snd (fst (step_g g c (exec_g g c ops) o)).
Fixpoint outs_from (g : gates) (c : config) (st : state) (ops : list op) : list out :=
  match ops with
  | [] => []
  | o :: tl => snd (fst (step_g g c st o)) :: outs_from g c (fst (fst (step_g g c st o))) tl
  end.
Definition outs_g (g : gates) (c : config) (ops : list op) : list out := outs_from g c (init c) ops.

Definition exec := exec_g gates_on.
Definition out_at := out_at_g gates_on.
Definition outs := outs_g gates_on.

(* session (creation index) k had an accept event in one of these step outputs *)
Definition accepted_in (c : config) (rs : list out) (k : N) : Prop := exists r, In r rs /\ In k (accepts c r).

(* session k had an accept event in one of these step outputs and no other PAP verdict since: its latest
   PAP exchange was accepted *)
Definition accepted_latest (c : config) (rs : list out) (k : N) : Prop :=
  exists pre r post, rs = pre ++ r :: post /\ In k (accepts c r) /\ forall r', In r' post -> ~ In k (verdicts r').

(* the clauses, for a choice of repairs *)
Definition established_after_auth (g : gates) : Prop := forall c ops o s,
  In s (o_sessions (out_at_g g c ops o)) -> s_state s = StEstablished ->
  accepted_in c (outs_g g c (ops ++ [o])) (s_inst s).
Definition ipcp_ack_after_auth (g : gates) : Prop := forall c ops o f sid,
  In f (o_frames (out_at_g g c ops o)) -> ef_is ProtoIPCP 2 f = Some sid ->
  exists s, In s (o_sessions (out_at_g g c ops o)) /\ s_id s = sid /\
            accepted_in c (outs_g g c (ops ++ [o])) (s_inst s).
(* the strict reading: ... only while the session's LATEST PAP exchange is an accepted one *)
Definition established_after_latest_auth (g : gates) : Prop := forall c ops o s,
  In s (o_sessions (out_at_g g c ops o)) -> s_state s = StEstablished ->
  accepted_latest c (outs_g g c (ops ++ [o])) (s_inst s).
Definition ipcp_ack_after_latest_auth (g : gates) : Prop := forall c ops o f sid,
  In f (o_frames (out_at_g g c ops o)) -> ef_is ProtoIPCP 2 f = Some sid ->
  exists s, In s (o_sessions (out_at_g g c ops o)) /\ s_id s = sid /\
            accepted_latest c (outs_g g c (ops ++ [o])) (s_inst s).
Definition clientip_after_auth (g : gates) : Prop := forall c ops o s,
  In s (o_sessions (out_at_g g c ops o)) -> s_ip s <> None ->
  accepted_in c (outs_g g c (ops ++ [o])) (s_inst s).
Definition mac_ownership (g : gates) : Prop := forall c ops o s,
  In s (st_sessions (exec_g g c ops)) -> s_mac s <> op_src o ->
  In s (st_sessions (exec_g g c (ops ++ [o]))).
(* every frame sent while handling o that names a session goes to the sender of o, and that station owns
   a session with that id (after o: a PADS; or before o: the session-stage replies) *)
Definition emitted_to_owner (g : gates) : Prop := forall c ops o f d sid,
  In f (o_frames (out_at_g g c ops o)) -> ef_sid f = Some (d, sid) ->
  d = op_src o /\
  exists s, In s (st_sessions (exec_g g c (ops ++ [o])) ++ st_sessions (exec_g g c ops)) /\ s_id s = sid /\ s_mac s = d.
Definition verdict_on_requester (g : gates) : Prop := forall c ops o f sid,
  In f (o_frames (out_at_g g c ops o)) -> ef_pap_verdict f = Some sid -> op_sid o = Some sid.
(* what the harness compares is the state: the table shown after a frame is the table *)
Definition snapshot_is_table (g : gates) : Prop := forall c ops o,
  o_sessions (out_at_g g c ops o) = st_sessions (exec_g g c (ops ++ [o])).
