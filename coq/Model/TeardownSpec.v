(* C16 — executable trace monitor (Spec acceptor).  It sees only what an outside observer sees: the
   operation and the snapshot of the resource tables after it (pool, NAT manager, QoS manager, raw
   dumps of the cache maps, accounting records received).  It never looks at the Model's state.

   A session "ends" at an ending operation (RELEASE, DECLINE, expiry tick; PADT, LCP Terminate-Request,
   failed authentication, idle cleanup, teardown/TerminateSession, shutdown).  What it held is read
   from the snapshot BEFORE the operation; the clauses are checked on the snapshot AFTER it:
     clause 0  its address is back in the pool (not allocated to it; on the free list — or, after a
               DECLINE, quarantined: a declined address must not be handed out, C02)
     clause 1  its NAT block is removed
     clause 2  its QoS policy is removed
     clause 3  no fast-path cache entry keyed by its MAC, its VLAN pair or its circuit-id is left
     clause 4  if an Accounting-Start was issued for it, exactly one Accounting-Stop has been issued
     clause 5  an ending operation for a session that holds nothing (already ended) changes nothing
               and issues no accounting record
   clause 9: malformed trace. *)
From Coq Require Import ZArith NArith List Bool.
From Verif Require Import Model.Teardown.
Import ListNotations.
Local Open Scope N_scope.

(* ================================================================== D: DHCP *)

Record dss := { p_snap : dsnap; p_sid : amap N; p_starts : list N; p_stops : list N }.

Definition dss_init (c : dcfg) : dss :=
  {| p_snap := dsnap_of (dinit c); p_sid := []; p_starts := []; p_stops := [] |}.

(* the session of mac as the previous snapshot shows it: (ip, cid, established) *)
Definition snap_sess (sn : dsnap) (mac : N) : option (N * N * bool) :=
  match aget mac (sn_leases sn) with
  | Some (ip, cid, _) => Some (ip, cid, true)
  | None => match aget mac (sn_alloc sn) with
            | Some ip => Some (ip, 0, false)
            | None => None
            end
  end.

(* first clause violated for an ended session, on the snapshot after the operation *)
Definition dcheck (sn : dsnap) (starts stops : list N) (mac ip cid sid : N) : option N :=
  if ahas mac (sn_alloc sn) || negb (smem ip (sn_avail sn) || smem ip (sn_unavail sn)) then Some 0
  else if smem ip (sn_nat sn) || smem ip (sn_natk sn) then Some 1
  else if smem ip (sn_qos sn) || smem ip (sn_qosi sn) || smem ip (sn_qost sn) then Some 2
  (* a cache entry answers for the session when it is keyed by its MAC or circuit-id, or when it names
     the session's MAC (circuit_id_map) or address (circuit_id_subscribers, VLAN map) under ANY key —
     an entry left under a circuit-id the lease no longer records is such a dead binding.  (The slow
     path's circuit-ID index is not a fast-path cache: it is tied by the differential comparison only.) *)
  else if ahas mac (sn_cmac sn)
          || (negb (cid =? 0) && (ahas cid (sn_chash sn) || ahas cid (sn_csub sn)))
          || existsb (fun p => snd p =? mac) (sn_chash sn)
          || existsb (fun p => snd p =? ip) (sn_csub sn)
          || existsb (fun p => snd p =? ip) (sn_cvlan sn) then Some 3
  else if negb (sid =? 0) && (1 <=? count sid starts) && negb (count sid stops =? 1) then Some 4
  else None.

Fixpoint first_some {A} (f : A -> option N) (l : list A) : option N :=
  match l with
  | [] => None
  | x :: tl => match f x with Some c => Some c | None => first_some f tl end
  end.

Definition evs (k : N) (ev : list (N * N)) : list N := map snd (filter (fun e => fst e =? k) ev).

Definition daccept (st : dss) (o : dop) (r : dout) : dss + N :=
  let prev := p_snap st in
  let sn := o_snap r in
  let starts := evs 1 (o_acct r) ++ p_starts st in
  let stops := evs 2 (o_acct r) ++ p_stops st in
  let sidmap := match o with
                | Request mac _ _ _ => match evs 1 (o_acct r) with sid :: _ => aput mac sid (p_sid st) | [] => p_sid st end
                | _ => p_sid st
                end in
  let ended : list N :=
    match o with
    | Release mac | Decline mac _ => [mac]
    | Tick _ => map fst (filter (fun p => snd (snd p)) (sn_leases prev))
    | _ => []
    end in
  let check1 (mac : N) : option N :=
    match snap_sess prev mac with
    | Some (ip, cid, _) =>
        dcheck sn starts stops mac ip cid (match aget mac (p_sid st) with Some s => s | None => 0 end)
    | None =>
        (* the session holds nothing: ending it (again) has no further effect *)
        match o with
        | Release _ | Decline _ _ =>
            if dsnap_eqb sn prev && match o_acct r with [] => true | _ => false end then None else Some 5
        | _ => None
        end
    end in
  (* a session that is replaced ends too: an Accounting-Start for a client whose previous accounting session
     was started and never stopped (a run-out lease re-admitted as a new session before the reaper met it)
     leaves that session without its Stop for good *)
  let replaced : bool :=
    match o with
    | Request mac _ _ _ =>
        match evs 1 (o_acct r), aget mac (p_sid st) with
        | _ :: _, Some old => (1 <=? count old (p_starts st)) && (count old stops =? 0)
        | _, _ => false
        end
    | _ => false
    end in
  if replaced then inr 4 else
  match first_some check1 ended with
  | Some c => inr c
  | None =>
      inl {| p_snap := sn;
             p_sid := fold_left (fun m mac => if ahas mac (sn_leases sn) then m else adel mac m) ended sidmap;
             p_starts := starts; p_stops := stops |}
  end.

(* ================================================================== P: PPPoE *)
(* Clause 1/2 do not arise (no NAT / QoS on this code path).  Clause 3 applies to the teardown
   operations: the eBPF-remove callback (event (3,id)) must run when a live session is cleaned up.
   Clause 4: no Accounting-Start is ever sent for PPPoE sessions, so it constrains nothing; a second
   Stop for one session is a "further effect" of ending twice (clause 5). *)

Record pss := { q_snap : psnap; q_stops : list N }.
Definition pss_init (c : pcfg) : pss := {| q_snap := psnap_of c (pinit c); q_stops := [] |}.

Definition prow_inst (r : N * (N * N * bool * N * N * bool)) : N := let '(_, (_, _, _, _, i, _)) := r in i.
Definition prow_mac (r : N * (N * N * bool * N * N * bool)) : N := let '(_, (m, _, _, _, _, _)) := r in m.
Definition prow_stale (r : N * (N * N * bool * N * N * bool)) : bool := let '(_, (_, _, _, _, _, t)) := r in t.

Definition prow_by_inst (sn : psnap) (i : N) := find (fun r => prow_inst r =? i) (pn_tbl sn).
Definition prow_by_id (sn : psnap) (id mac : N) :=
  find (fun r => (fst r =? id) && (prow_mac r =? mac)) (pn_tbl sn).

Definition paccept (st : pss) (o : pop) (r : pout) : pss + N :=
  let prev := q_snap st in
  let sn := po_snap r in
  let stops := evs 2 (po_ev r) ++ q_stops st in
  let unchanged := psnap_eqb sn prev && match evs 2 (po_ev r) with [] => true | _ => false end in
  (* (instance, id, needs the eBPF callback) of the sessions this operation ends; None = it addresses a session that is gone *)
  let by_frame (id mac : N) := match prow_by_id prev id mac with Some row => Some [(prow_inst row, fst row, false)] | None => None end in
  let by_obj (i : N) := match prow_by_inst prev i with Some row => Some [(i, fst row, true)] | None => None end in
  let ended1 (o : pop) : option (list (N * N * bool)) :=
    match o with
    | Padt id mac | LcpTerm id mac | Pap id mac false => by_frame id mac
    | IdleTick => Some (map (fun row => (prow_inst row, fst row, false)) (filter prow_stale (pn_tbl prev)))
    | TdPadt i mac => match prow_by_inst prev i with
                      | Some row => if prow_mac row =? mac then Some [(i, fst row, true)] else Some []
                      | None => None
                      end
    | TdTerm i => by_obj i
    | TdAll _ => Some (map (fun row => (prow_inst row, fst row, true)) (pn_tbl prev))
    | _ => Some []
    end in
  let ended : option (list (N * N * bool)) :=
    match o with
    | POverlap _ a b =>
        (* both paths are judged against the state before the overlap; a session both end is ended once *)
        match ended1 a, ended1 b with
        | Some l1, Some l2 => Some (l1 ++ filter (fun e => negb (existsb (fun f => fst (fst f) =? fst (fst e)) l1)) l2)
        | Some l1, None => Some l1
        | None, Some l2 => Some l2
        | None, None => None
        end
    | _ => ended1 o
    end in
  let check1 (e : N * N * bool) : option N :=
    let '(i, id, cb) := e in
    let ip := match aget i (pn_alloc prev) with Some ip => ip | None => 0 end in
    if ahas i (pn_alloc sn) || (negb (ip =? 0) && negb (smem ip (pn_avail sn))) then Some 0
    else if cb && negb (existsb (fun ev => (fst ev =? 3) && (snd ev =? id)) (po_ev r)) then Some 3
    else if 1 <? count i stops then Some 5                                   (* one Accounting-Stop *)
    else if 1 <? count id (evs 3 (po_ev r)) then Some 5                      (* the fast-path removal once *)
    else if negb (ip =? 0) && (1 <? count ip (pn_avail sn)) then Some 5      (* the address released once *)
    else None in
  match ended with
  | None => if unchanged then inl {| q_snap := sn; q_stops := stops |} else inr 5
  | Some l => match first_some check1 l with
              | Some c => inr c
              | None => inl {| q_snap := sn; q_stops := stops |}
              end
  end.

(* ================================================================== S: subscriber.Manager *)
(* clause 0: the address is released (not allocated, on the free list); clause 3: the MAC and IP
   indexes no longer answer for the session; clause 4: exactly one terminate event (the trigger of
   Accounting-Stop) was emitted for it; clause 5: an operation that ends a session which is gone has
   no effect, and an address is released once; and a termination attempt that FAILS on a live session
   must leave it endable: a following attempt with a live context and a working allocator that still
   reports failure while the session stays in the table means the session is stuck (nothing can end it). *)

Record sss := { z_snap : ssnap; z_term : list N }.
Definition sss_init (c : scfg) : sss := {| z_snap := ssnap_of c (sinit c); z_term := [] |}.

Definition saccept (st : sss) (o : sop) (r : sout) : sss + N :=
  let prev := z_snap st in
  let sn := so_snap r in
  let terms := evs 6 (so_ev r) ++ z_term st in
  let next := inl {| z_snap := sn; z_term := terms |} in
  let ended : option (list N) :=
    match o with
    | STerminate n _ _ =>
        if ahas n (zn_sess prev)
        then (if (so_err r =? 0) || negb (ahas n (zn_sess sn)) then Some [n] else Some [])   (* a failed attempt that left the session ends nothing *)
        else None
    | SRace n _ => if ahas n (zn_sess prev) then Some [n] else None
    | STick _ => Some (map fst (filter (fun p => snd (snd p)) (zn_sess prev)))
    | SStop => Some (map fst (zn_sess prev))
    | _ => Some []
    end in
  let check1 (n : N) : option N :=
    match aget n (zn_sess prev) with
    | Some (mac, _, ip, _) =>
        if negb (ip =? 0) && (smem ip (zn_alloc sn) || negb (smem ip (zn_avail sn))) then Some 0
        else if ahas mac (zn_bymac sn) || (negb (ip =? 0) && ahas ip (zn_byip sn)) then Some 3
        else if negb (count n terms =? 1) then Some 4
        else if negb (ip =? 0) && (1 <? count ip (evs 5 (so_ev r))) then Some 5
        else None
    | None => None
    end in
  let stuck := match o with
               | STerminate n ctx relfail =>
                   ahas n (zn_sess prev) && negb (so_err r =? 0) && ahas n (zn_sess sn) && (ctx =? 0) && negb relfail
               | _ => false
               end in
  if stuck then inr 5 else
  match ended with
  | None => if ssnap_eqb sn prev && match so_ev r with [] => true | _ => false end then next else inr 5
  | Some l => match first_some check1 l with Some c => inr c | None => next end
  end.
