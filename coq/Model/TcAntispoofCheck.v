(* Entry point evaluated by the harness-written cases files for C18. *)
From Coq Require Import NArith List.
From Verif Require Import Base.Word Base.Check Model.TcQos Model.TcAntispoof Model.AntispoofMgr Model.TcAntispoofSpec.
Import ListNotations.

Definition case := list (op * out).
Definition mk (c : case) : state * sstate * list (op * out) := (init, sinit, c).
Definition run_cases (cs : list case) : list (list N) :=
  check_all step accept out_eqb 1%N (map mk cs).
