(* Judge of barrier-released concurrent rounds on ONE real PeerPool (stream `race` of harness/c17).

   The Model is sequential.  In a round k goroutines leave a barrier together and each performs one
   call: an update (AddPeer / RemovePeer / health mark) or a query (GetOwner / IsLocalOwner / ranked
   list / healthy owner).  Recorded: every call with its return value, and after the round the node's
   peer list and unhealthy set.  The Spec for such a round is linearizability against the Model:
     - the final (peer list, unhealthy set) is the Model's after SOME sequential order of the round's
       updates, starting from the state the previous round ended in;
     - every query answer is the Model's answer in a state reached by SOME sequence of distinct
       updates of the round (a prefix of some order).
   Each update writes one key to a constant (membership of p, health of p), so repeated copies of one
   update (several goroutines announcing the same new peer) reach the same states as one copy: the
   judge enumerates orders of the DISTINCT updates.  The driver keeps <= 4 distinct updates per round
   (at most 65 sequences).
   A rejection names the clause of the property text that the observation contradicts:
     0  a GetOwner / IsLocalOwner answer that no admissible peer set explains (agreement)
     2  a ranked list that no admissible peer set explains; a final peer list with a duplicate (the
        ranked list over it is not a permutation of the peer SET)
     3  a duplicate-free final peer list that no order of the updates produces (a removed peer is
        still a member, or a peer nobody removed is gone: ownership moved for other subscribers)
     4  a healthy-owner answer / a final health view that no order of the updates explains
   Proofs/RendezvousRaceProofs.v: a round executed call after call in the listed order (updates pairwise
   distinct) is accepted and the judge continues with its view, and every Model state has a sorted
   duplicate-free peer list (the yardstick).  That copies of one update can be judged as one is argued
   above, not proved. *)
From Coq Require Import NArith List Bool.
From Verif Require Import Base.Word Model.Rendezvous.
Import ListNotations.
Local Open Scope N_scope.

Definition is_update (o : op) : bool :=
  match o with AddPeer _ _ | RemovePeer _ _ | SetHealth _ _ _ => true | _ => false end.

Definition update_eqb (a b : op) : bool :=
  match a, b with
  | AddPeer n p, AddPeer m q => (n =? m) && bytes_eqb p q
  | RemovePeer n p, RemovePeer m q => (n =? m) && bytes_eqb p q
  | SetHealth n p h, SetHealth m q g => (n =? m) && bytes_eqb p q && Bool.eqb h g
  | _, _ => false
  end.

Fixpoint dedup_updates (l : list op) : list op :=
  match l with
  | [] => []
  | x :: tl => if existsb (update_eqb x) tl then dedup_updates tl else x :: dedup_updates tl
  end.

(* every way to pick one element: (picked, the others) *)
Fixpoint sels {A} (l : list A) : list (A * list A) :=
  match l with
  | [] => []
  | x :: tl => (x, tl) :: map (fun p => (fst p, x :: snd p)) (sels tl)
  end.

Definition step_state (s : state) (o : op) : state := fst (fst (step s o)).
Definition step_out (s : state) (o : op) : out := snd (fst (step s o)).

(* the states after every sequence of distinct updates; the flag says "all updates applied" *)
Fixpoint reach (fuel : nat) (s : state) (ups : list op) : list (state * bool) :=
  (s, match ups with [] => true | _ => false end) ::
  match fuel with
  | O => []
  | S f => flat_map (fun xr => reach f (step_state s (fst xr)) (snd xr)) (sels ups)
  end.

(* [existsb] that stops at the first hit (vm_compute is strict: [f a || existsb f l] would evaluate the
   Model's answer in every state) *)
Fixpoint some_state {A} (f : A -> bool) (l : list A) : bool :=
  match l with [] => false | a :: tl => if f a then true else some_state f tl end.

Definition query_clause (o : op) : N :=
  match o with Ranked _ _ => 2 | HealthyOwner _ _ => 4 | _ => 0 end.

Fixpoint nodup_names (l : list bytes) : bool :=
  match l with [] => true | x :: tl => negb (mem_s x tl) && nodup_names tl end.

(* one round: the calls with their answers, then (peer list, unhealthy set) of node 0 afterwards *)
Definition round := (list (op * out) * (list bytes * list bytes))%type.

Definition view_is (fp fu : list bytes) (st : state * bool) : bool :=
  list_bytes_eqb (peers (getn (fst st) 0)) fp && list_bytes_eqb (unhealthy (getn (fst st) 0)) fu.

Definition judge_round (s : state) (r : round) : state + N :=
  let '(tr, (fp, fu)) := r in
  let ups := dedup_updates (filter is_update (map fst tr)) in
  let R := reach (length ups) s ups in
  match find (fun x => if is_update (fst x) then false
                       else negb (some_state (fun st => out_eqb (step_out (fst st) (fst x)) (snd x)) R)) tr with
  | Some x => inr (query_clause (fst x))
  | None =>
      let fin := filter snd R in
      match find (view_is fp fu) fin with
      | Some st => inl (fst st)
      | None => inr (if some_state (fun st => list_bytes_eqb (peers (getn (fst st) 0)) fp) fin then 4
                     else if nodup_names fp then 3 else 2)
      end
  end.

(* (0, 0) or (round, clause + 1) of the first rejected round *)
Fixpoint judge (i : N) (s : state) (rs : list round) : N * N :=
  match rs with
  | [] => (0, 0)
  | r :: tl => match judge_round s r with
               | inl s' => judge (i + 1) s' tl
               | inr c => (i, c + 1)
               end
  end.

(* case = (node id, configured peers), rounds.  Row format of Base/Check.v: the round takes the place
   of the step; no Model trace of its own, no markers *)
Definition race_case := ((bytes * list bytes) * list round)%type.
Definition run_race (cs : list race_case) : list (list N) :=
  concat (map (fun ic : N * race_case =>
     let c := snd ic in
     match judge 1 [new_node (fst (fst c)) (snd (fst c))] (snd c) with
     | (0, _) => []
     | (i, cl) => [[fst ic; 0; i; cl; 0; 0]]
     end) (combine (map N.of_nat (seq 1 (length cs))) cs)).
