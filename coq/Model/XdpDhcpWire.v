(* C03 case files only: frames packed seven bytes per primitive 63-bit integer literal (Coq parses a
   list of small N literals at ~0.3 ms per byte, a uint63 literal natively).  Nothing in Props/ or
   Proofs/ depends on this file. *)
From Coq Require Import NArith List Uint63.
From Verif Require Import Base.Word.
Import ListNotations.

Definition bitN (w : int) (k : int) (v : N) : N := if is_zero (w land (1 << k)) then 0%N else v.
Definition byteN (w : int) : N :=     (* w < 256 *)
  (bitN w 0 1 + bitN w 1 2 + bitN w 2 4 + bitN w 3 8 + bitN w 4 16 + bitN w 5 32 + bitN w 6 64 + bitN w 7 128)%N.
(* the low [n] bytes of [w], most significant first *)
Fixpoint word_bytes (n : nat) (w : int) (acc : bytes) : bytes :=
  match n with
  | O => acc
  | S k => word_bytes k (w >> 8) (byteN (w land 255) :: acc)
  end.
(* [n] bytes: full words of 7, the last word holds the remaining n mod 7 (or 7) bytes *)
Fixpoint wz (n : nat) (ws : list int) : bytes :=
  match ws with
  | [] => []
  | w :: tl => let k := Nat.min n 7 in word_bytes k w [] ++ wz (n - k) tl
  end.
