(* C11 — LCP option processor (pkg/pppoe/lcp.go: processConfigureOptions, receiveConfigureNak /
   receiveConfigureReject option loops, sendConfigureRequest option list, NewLCPStateMachine).
   crypto/rand is an oracle: [lx_rng] is the byte stream rand.Read will deliver (the harness installs
   exactly this stream as crypto/rand.Reader), zeros once exhausted.
   Not modelled: negotiated.Peer*, negotiated.AuthProtocol/CHAPAlgorithm, failureCount (written,
   never read by the automaton). *)
From Coq Require Import ZArith NArith List Bool.
From Verif Require Import Base.Word Model.Fsm.
Import ListNotations.
Local Open Scope N_scope.

Record lcpx := mklcpx {
  lx_magic : N;        (* config.MagicNumber *)
  lx_mru : N;          (* negotiated.LocalMRU *)
  lx_auth : N; lx_chap : N;
  lx_pfc : bool; lx_acfc : bool;
  lx_maxcfg : Z;       (* config.MaxConfigure *)
  lx_rng : list N }.

Fixpoint take_pad (n : nat) (l : list N) : list N * list N :=
  match n with
  | O => ([], l)
  | S k => match l with
           | [] => let '(a, r) := take_pad k [] in (0 :: a, r)
           | x :: tl => let '(a, r) := take_pad k tl in (x :: a, r)
           end
  end.

(* generateMagicNumber *)
Definition draw32 (rng : list N) : N * list N := let '(b, r) := take_pad 4 rng in (be_val b, r).

Definition lx_set_rng x r := mklcpx (lx_magic x) (lx_mru x) (lx_auth x) (lx_chap x) (lx_pfc x) (lx_acfc x) (lx_maxcfg x) r.
Definition lx_set_magic x v := mklcpx v (lx_mru x) (lx_auth x) (lx_chap x) (lx_pfc x) (lx_acfc x) (lx_maxcfg x) (lx_rng x).
Definition lx_set_mru x v := mklcpx (lx_magic x) v (lx_auth x) (lx_chap x) (lx_pfc x) (lx_acfc x) (lx_maxcfg x) (lx_rng x).
Definition lx_set_pfc x v := mklcpx (lx_magic x) (lx_mru x) (lx_auth x) (lx_chap x) v (lx_acfc x) (lx_maxcfg x) (lx_rng x).
Definition lx_set_acfc x v := mklcpx (lx_magic x) (lx_mru x) (lx_auth x) (lx_chap x) (lx_pfc x) v (lx_maxcfg x) (lx_rng x).

Inductive verdict := VAck | VNak (o : opt) | VRej.

(* one iteration of the loop in processConfigureOptions *)
Definition lcp_opt (x : lcpx) (o : opt) : lcpx * verdict :=
  let t := ot o in let d := od o in
  if t =? 1 then
    if negb (len d =? 2) then (x, VRej)
    else let mru := be_val d in
      if (64 <=? mru) && (mru <=? 1492) then (x, VAck)
      else if mru <? 64 then (x, VNak (mkopt 1 [0; 64]))
      else (x, VNak (mkopt 1 [5; 212]))
  else if t =? 3 then (x, VRej)
  else if t =? 5 then
    if negb (len d =? 4) then (x, VRej)
    else let magic := be_val d in
      if magic =? 0 then
        let '(v, r) := draw32 (lx_rng x) in (lx_set_rng x r, VNak (mkopt 5 (be_bytes 4 v)))
      else if magic =? lx_magic x then
        let '(nm, r1) := draw32 (lx_rng x) in
        let '(v, r2) := draw32 r1 in
        (lx_set_rng (lx_set_magic x nm) r2, VNak (mkopt 5 (be_bytes 4 v)))
      else (x, VAck)
  else if (t =? 7) || (t =? 8) then
    if negb (len d =? 0) then (x, VRej) else (x, VAck)
  else (x, VRej).

Section Classify.
  Context {X : Type}.
  Variable f : X -> opt -> X * verdict.
  Fixpoint classify (x : X) (opts : list opt) : X * (list opt * list opt * list opt) :=
    match opts with
    | [] => (x, ([], [], []))
    | o :: tl =>
        let '(x1, v) := f x o in
        let '(x2, (a, n, r)) := classify x1 tl in
        match v with
        | VAck => (x2, (o :: a, n, r))
        | VNak o' => (x2, (a, o' :: n, r))
        | VRej => (x2, (a, n, o :: r))
        end
    end.
End Classify.

Definition lcp_cr (x : lcpx) (opts : list opt) : lcpx * (list opt * list opt * list opt) * list N :=
  (classify lcp_opt x opts, []).

Definition lcp_nak1 (x : lcpx) (o : opt) : lcpx :=
  let d := od o in
  if ot o =? 1 then
    if 2 <=? len d then
      let mru := be_val (firstn 2 d) in
      if (64 <=? mru) && (mru <=? 1492) then lx_set_mru x mru else x
    else x
  else if ot o =? 5 then
    if 4 <=? len d then let '(nm, r) := draw32 (lx_rng x) in lx_set_rng (lx_set_magic x nm) r else x
  else x.
Definition lcp_nak (x : lcpx) (opts : list opt) : lcpx := fold_left lcp_nak1 opts x.

Definition lcp_rej1 (x : lcpx) (o : opt) : lcpx :=
  if ot o =? 7 then lx_set_pfc x false else if ot o =? 8 then lx_set_acfc x false else x.
Definition lcp_rej (x : lcpx) (opts : list opt) : lcpx := fold_left lcp_rej1 opts x.

Definition lcp_req (x : lcpx) : list opt :=
  [mkopt 1 (be_bytes 2 (lx_mru x)); mkopt 5 (be_bytes 4 (lx_magic x));
   mkopt 3 (be_bytes 2 (lx_auth x) ++ (if lx_auth x =? 49699 then [lx_chap x] else []))]   (* 0xC223 *)
  ++ (if lx_pfc x then [mkopt 7 []] else []) ++ (if lx_acfc x then [mkopt 8 []] else []).

Definition b2n (b : bool) : N := if b then 1 else 0.
Definition lcp_obs (x : lcpx) : list N :=
  be_bytes 4 (lx_magic x) ++ be_bytes 2 (lx_mru x) ++ [b2n (lx_pfc x); b2n (lx_acfc x)].

Definition lcp_procs : procs lcpx :=
  mkprocs lcp_cr lcp_nak lcp_rej true true lcp_req lx_maxcfg true (fun x => be_bytes 4 (lx_magic x)) lcp_obs.

(* NewLCPStateMachine(config): a zero magic number is replaced by a random one *)
Definition lcp_new (magic mru auth chap : N) (pfc acfc : bool) (maxcfg : Z) (rng : list N) : fsm lcpx :=
  let '(m, r) := if magic =? 0 then draw32 rng else (magic, rng) in
  init (mklcpx m mru auth chap pfc acfc maxcfg r).
