(* Executable monitors for C02 over observed traces (op, reply + binding-state snapshot).

   The monitors do not run the Model.  They keep what the protocol exchange itself established
   (who was ACKed/Replied which value until when; which values were declined) plus the previous
   snapshot, and check each reply and each snapshot against the clauses of the property text.

   DHCPv4 clauses (DHCPv6: the same + 10)
     0 (a) an OFFER/ACK value is not, at that moment, leased (unexpired) or offered to another client
     1 (b) the lease table never holds two unexpired bindings on one value
     2 (c) an OFFER/ACK value is inside the pool and is not the network, broadcast or gateway address
     3 (d) a client renewing its own unexpired binding is answered with the same value
     4 (e) a value declined by the client holding it is not offered or acknowledged again
     5 (f) a released value, or an expired one once the cleanup ran, is back on the free list
           (or was declined), and a request is refused only when the free list is empty
     9     reply of a shape the protocol does not allow for that message (harness / model error)

   "Offered to another client" is read off the server's own pool table (allocated[mac]); an offer
   is not a binding: (f) does not demand that an unconfirmed offer ever lapses. *)
From Coq Require Import NArith List Bool.
From Verif Require Import Model.Dhcp4 Model.Dhcp6.
Import ListNotations.
Local Open Scope N_scope.

(* ------------------------------------------------------------------ DHCPv4 *)
Record sstate4 := { sc : cfg4; snow : N;
                    sb : list (N * (N * N));    (* client -> (value, until): ACKed bindings *)
                    sdown : list N;             (* values declined by their holder *)
                    sdany : list N;             (* values named in any DECLINE *)
                    sprev : snap4 }.

Definition sinit4 (c : cfg4) : sstate4 :=
  {| sc := c; snow := 0; sb := []; sdown := []; sdany := [];
     sprev := {| sn_leases := []; sn_cidx := []; sn_alloc := []; sn_avail := init_avail c; sn_unavail := [] |} |}.

(* another client holds v: by an ACKed unexpired binding, by an unexpired lease-table entry, or by
   a pool allocation (outstanding offer) *)
Definition other_holds4 (s : sstate4) (c v : N) : bool :=
  existsb (fun p => negb (fst p =? c) && (fst (snd p) =? v) && (snow s <? snd (snd p))) (sb s) ||
  existsb (fun p => negb (fst p =? c) && (let '(ip, ex, _) := snd p in (ip =? v) && (snow s <? ex)))
          (sn_leases (sprev s)) ||
  existsb (fun p => negb (fst p =? c) && (snd p =? v)) (sn_alloc (sprev s)).

(* (b) on a snapshot *)
Fixpoint dup_binding4 (nw : N) (l : list (N * (N * N * N))) : bool :=
  match l with
  | [] => false
  | (m, (ip, ex, _)) :: tl =>
      ((nw <? ex) && existsb (fun q => let '(ip', ex', _) := snd q in (ip' =? ip) && (nw <? ex') && negb (fst q =? m)) tl)
      || dup_binding4 nw tl
  end.

Definition own_live4 (s : sstate4) (c : N) : option N :=
  match alookup c (sb s) with
  | Some (v, u) => if snow s <? u then Some v else None
  | None => None
  end.

(* checks shared by OFFER and ACK of value v to client c; None = fine.
   [nx]: addresses an external allocator has named so far (allocator configuration, Dhcp4Alloc.v):
   there the serving pool is the local pool plus the allocator's addresses; [] otherwise. *)
Definition value_checks4 (nx : list N) (s : sstate4) (c v : N) : option N :=
  if negb (usable4 (sc s) v || memN v nx) then Some 2
  else if other_holds4 s c v then Some 0
  else if memN v (sdown s) then Some 4
  else None.

Definition with4 (s : sstate4) (nw : N) (b : list (N * (N * N))) (dw da : list N) (sn : snap4) : sstate4 + N :=
  if dup_binding4 nw (sn_leases sn) then inr 1
  else inl {| sc := sc s; snow := nw; sb := b; sdown := dw; sdany := da; sprev := sn |}.

(* an allocator address (nx) is given back to the allocator, not to the local free list *)
Definition freed4 (nx : list N) (s : sstate4) (da : list N) (sn : snap4) (v : N) : bool :=
  memN v (sn_avail sn) || memN v da || memN v nx.

Definition accept4x (nx : list N) (s : sstate4) (o : op4) (r : out4) : sstate4 + N :=
  let '(rep, sn) := r in
  match o with
  | Discover m =>
      let c := m_mac m in
      match rep with
      | ROffer v =>
          match value_checks4 nx s c v with
          | Some k => inr k
          | None => with4 s (snow s) (sb s) (sdown s) (sdany s) sn
          end
      | RNone =>
          (* refusal: only when nothing is free *)
          match sn_avail (sprev s) with
          | [] => with4 s (snow s) (sb s) (sdown s) (sdany s) sn
          | _ => inr 5
          end
      | _ => inr 9
      end
  | Request m =>
      let c := m_mac m in
      let want := requested m in
      match rep with
      | RAck v =>
          if negb (v =? want) then inr 9 else
          match value_checks4 nx s c v with
          | Some k => inr k
          | None => with4 s (snow s) (aset c (v, snow s + c_lt (sc s)) (sb s)) (sdown s) (sdany s) sn
          end
      | RNak | RNone =>
          match own_live4 s c with
          | Some v0 => if v0 =? want then inr 3 else with4 s (snow s) (sb s) (sdown s) (sdany s) sn
          | None => with4 s (snow s) (sb s) (sdown s) (sdany s) sn
          end
      | _ => inr 9
      end
  | Release m =>
      let c := m_mac m in
      match rep with
      | RNone =>
          match own_live4 s c with
          | Some v =>
              if freed4 nx s (sdany s) sn v && negb (existsb (fun p => fst p =? c) (sn_leases sn))
              then with4 s (snow s) (aremove c (sb s)) (sdown s) (sdany s) sn
              else inr 5
          | None => with4 s (snow s) (aremove c (sb s)) (sdown s) (sdany s) sn
          end
      | _ => inr 9
      end
  | Decline m =>
      let c := m_mac m in
      match rep with
      | RNone =>
          let da := match m_req m with Some d => d :: sdany s | None => sdany s end in
          let dw := match m_req m, own_live4 s c with
                    | Some d, Some v => if d =? v then d :: sdown s else sdown s
                    | _, _ => sdown s
                    end in
          with4 s (snow s) (aremove c (sb s)) dw da sn
      | _ => inr 9
      end
  | Inform _ =>
      match rep with
      | RInformAck | RNone => with4 s (snow s) (sb s) (sdown s) (sdany s) sn
      | _ => inr 9
      end
  | Advance d =>
      match rep with
      | RNone => with4 s (snow s + d) (sb s) (sdown s) (sdany s) sn
      | _ => inr 9
      end
  | Cleanup _ =>
      match rep with
      | RNone =>
          (* every binding that had run out before this tick is gone and its value is free again *)
          let dead := filter (fun p => snd (snd p) <=? snow s) (sb s) in
          if forallb (fun p => freed4 nx s (sdany s) sn (fst (snd p)) &&
                               negb (existsb (fun q => fst q =? fst p) (sn_leases sn))) dead
          then with4 s (snow s) (filter (fun p => negb (snd (snd p) <=? snow s)) (sb s)) (sdown s) (sdany s) sn
          else inr 5
      | _ => inr 9
      end
  end.

Definition accept4 : sstate4 -> op4 -> out4 -> sstate4 + N := accept4x [].

(* ------------------------------------------------------------------ DHCPv6 *)
Record sstate6 := { sc6 : cfg6; snow6 : N;
                    sb6 : list (N * (N * N * N));   (* client -> (addr+1|0, prefix+1|0, until) *)
                    sdown6 : list N;                (* declined addresses *)
                    sdownp6 : list N;               (* declined prefixes *)
                    sprev6 : snap6 }.

Definition sinit6 (c : cfg6) : sstate6 :=
  {| sc6 := c; snow6 := 0; sb6 := []; sdown6 := []; sdownp6 := [];
     sprev6 := {| s6_leases := []; s6_aalloc := []; s6_aavail := init_aavail c;
                  s6_palloc := []; s6_pavail := init_pavail c |} |}.

Definition proj6 (pd : bool) (t : N * N * N) : N := let '(a, p, _) := t in if pd then p else a.
Definition until6 (t : N * N * N) : N := let '(_, _, u) := t in u.

Definition other_holds6 (s : sstate6) (pd : bool) (c v : N) : bool :=
  existsb (fun p => negb (fst p =? c) && (proj6 pd (snd p) =? v + 1) && (snow6 s <? until6 (snd p))) (sb6 s) ||
  existsb (fun p => negb (fst p =? c) && (snd p =? v))
          (if pd then s6_palloc (sprev6 s) else s6_aalloc (sprev6 s)).

Fixpoint dup_binding6 (pd : bool) (l : list (N * (N * N * N))) : bool :=
  match l with
  | [] => false
  | (d, t) :: tl =>
      (negb (proj6 pd t =? 0) && existsb (fun q => (proj6 pd (snd q) =? proj6 pd t) && negb (fst q =? d)) tl)
      || dup_binding6 pd tl
  end.

Definition own_live6 (s : sstate6) (pd : bool) (c : N) : option N :=
  match alookup c (sb6 s) with
  | Some t => if (snow6 s <? until6 t) && negb (proj6 pd t =? 0) then Some (proj6 pd t - 1) else None
  | None => None
  end.

(* a binding of the pool selected by [pd] whose lifetime has run out *)
Definition expired6 (s : sstate6) (pd : bool) : bool :=
  existsb (fun p => negb (proj6 pd (snd p) =? 0) && (until6 (snd p) <? snow6 s)) (sb6 s).

(* one IA of an Advertise/Reply; [must_same]: the message is a renewal kind *)
Definition ia_check6 (s : sstate6) (pd : bool) (asked renewing is_reply : bool) (c : N) (r : ia6) : option N :=
  match r with
  | IaVal v =>
      if negb asked then Some 9
      else if negb (if pd then in_ppool (sc6 s) v else contains6 (sc6 s) v && negb (v =? a_base (sc6 s))) then Some 12
      else if other_holds6 s pd c v then Some 10
      else if memN v (if pd then sdownp6 s else sdown6 s) then Some 14
      else match own_live6 s pd c with
           | Some v0 => if renewing && negb (v0 =? v) then Some 13 else None
           | None => None
           end
  | IaErr code =>
      if negb (asked && is_reply) then Some 9
      else if negb (code =? (if pd then 6 else 2)) then Some 9
      else match own_live6 s pd c with
           | Some _ => if renewing then Some 13 else Some 15
           | None =>
               match (if pd then s6_pavail (sprev6 s) else s6_aavail (sprev6 s)) with
               | [] => if expired6 s pd then Some 15 else None
               | _ => Some 15
               end
           end
  | IaNone =>
      if asked && is_reply then Some 9     (* a Reply answers every IA *)
      else if asked && renewing then match own_live6 s pd c with Some _ => Some 13 | None => None end
      else None
  end.

Definition with6 (s : sstate6) (nw : N) (b : list (N * (N * N * N))) (dw dp : list N) (sn : snap6) : sstate6 + N :=
  if dup_binding6 false (s6_leases sn) || dup_binding6 true (s6_leases sn) then inr 11
  else inl {| sc6 := sc6 s; snow6 := nw; sb6 := b; sdown6 := dw; sdownp6 := dp; sprev6 := sn |}.

Definition bind6 (s : sstate6) (c : N) (na pd : ia6) : list (N * (N * N * N)) :=
  let old := match alookup c (sb6 s) with Some t => t | None => (0, 0, 0) end in
  let a := match na with IaVal v => v + 1 | _ => proj6 false old end in
  let p := match pd with IaVal v => v + 1 | _ => proj6 true old end in
  match na, pd with
  | IaVal _, _ | _, IaVal _ => aset c (a, p, snow6 s + c_valid (sc6 s)) (sb6 s)
  | _, _ => sb6 s
  end.

Definition reply_checks6 (s : sstate6) (c : N) (na pd renewing : bool) (rna rpd : ia6) (sn : snap6) : sstate6 + N :=
  match ia_check6 s false na renewing true c rna with
  | Some k => inr k
  | None =>
      match ia_check6 s true pd renewing true c rpd with
      | Some k => inr k
      | None => with6 s (snow6 s) (bind6 s c rna rpd) (sdown6 s) (sdownp6 s) sn
      end
  end.

Definition same6 (s : sstate6) (sn : snap6) : sstate6 + N :=
  with6 s (snow6 s) (sb6 s) (sdown6 s) (sdownp6 s) sn.

Definition renew_accept6 (s : sstate6) (c : N) (na pd : bool) (rep : reply6) (sn : snap6) : sstate6 + N :=
  match rep with
  | R6Reply rna rpd false => reply_checks6 s c na pd true rna rpd sn
  | R6Status 3 =>
      match alookup c (sb6 s) with
      | Some t => if snow6 s <? until6 t then inr 13 else same6 s sn
      | None => same6 s sn
      end
  | _ => inr 9
  end.

Definition release_accept6 (s : sstate6) (c : N) (declined : bool) (rep : reply6) (sn : snap6) : sstate6 + N :=
  match rep with
  | R6Status 0 =>
      let t := match alookup c (sb6 s) with Some t => t | None => (0, 0, 0) end in
      let live := snow6 s <? until6 t in
      let a := proj6 false t in let p := proj6 true t in
      let dw := if declined && live && negb (a =? 0) then (a - 1) :: sdown6 s else sdown6 s in
      let dp := if declined && live && negb (p =? 0) then (p - 1) :: sdownp6 s else sdownp6 s in
      if negb declined && live &&
         negb (((a =? 0) || memN (a - 1) (s6_aavail sn)) && ((p =? 0) || memN (p - 1) (s6_pavail sn)) &&
               negb (existsb (fun q => fst q =? c) (s6_leases sn)))
      then inr 15
      else with6 s (snow6 s) (aremove c (sb6 s)) dw dp sn
  | _ => inr 9
  end.

Definition accept6 (s : sstate6) (o : op6) (r : out6) : sstate6 + N :=
  let '(rep, sn) := r in
  match o with
  | Solicit c rapid na pd =>
      match rep with
      | R6Adv rna rpd =>
          if rapid then inr 9 else
          match ia_check6 s false na false false c rna with
          | Some k => inr k
          | None => match ia_check6 s true pd false false c rpd with
                    | Some k => inr k
                    | None => same6 s sn
                    end
          end
      | R6Reply rna rpd true => if rapid then reply_checks6 s c na pd false rna rpd sn else inr 9
      | _ => inr 9
      end
  | Request6 c sid_ok na pd =>
      match rep with
      | R6None => if sid_ok then inr 9 else same6 s sn
      | R6Reply rna rpd false => if sid_ok then reply_checks6 s c na pd false rna rpd sn else inr 9
      | _ => inr 9
      end
  | Renew c na pd => renew_accept6 s c na pd rep sn
  | Rebind c na pd => renew_accept6 s c na pd rep sn
  | Confirm c _ =>
      match rep with
      | R6Status 0 | R6Status 4 => same6 s sn
      | _ => inr 9
      end
  | Release6 c => release_accept6 s c false rep sn
  | Decline6 c => release_accept6 s c true rep sn
  | InfoReq _ =>
      (* stateless: no value is handed out; the binding state must not move (with6 re-checks (b)) *)
      match rep with
      | R6Info => same6 s sn
      | _ => inr 9
      end
  | Advance6 t =>
      match rep with
      | R6None => with6 s (snow6 s + t) (sb6 s) (sdown6 s) (sdownp6 s) sn
      | _ => inr 9
      end
  end.
