(* Executable monitor of C10 over observed traces of nat.Manager, and the auditor's reading of
   the NAT log ([attribute]).

   clause 0  no-overlap : a newly assigned block is disjoint from every block currently held on
                          the same public address
   clause 1  in-range   : start <= PortStart <= PortEnd <= end (the effective configured range)
   clause 2  size       : PortEnd - PortStart + 1 = ports per subscriber
   clause 3  stable     : AllocateNAT / GetAllocation for a holder return the block it holds;
                          nothing is reported for a private IP that holds none
   clause 4  logged     : (logging on) a new assignment produces exactly the assign record of that
                          block, a release exactly the release record (private, public, start);
                          no other call writes a record; record timestamps lie inside the call
   clause 9  malformed trace (operation / result kinds do not match)
   A failed call (AllocateNAT / DeallocateNAT returning an error) must write no record and leaves
   the table as it was: nothing may be reported afterwards for a subscriber whose allocation
   failed, a later success is a new assignment (needs its record), a refused release keeps the block.
   ConcObs (snapshot after a concurrent run) evaluates clauses 0-4 on the final table; with
   [co_strict] (single caller, concurrent flusher) also exactly-one-record-per-event. *)
From Coq Require Import ZArith NArith List Bool.
From Verif Require Import Model.Nat.
Import ListNotations.
Local Open Scope Z_scope.

(* ---- reading the log ---- *)
Record blk := { b_priv : Z; b_pub : Z; b_start : Z; b_end : Z }.

(* one record as an auditor reads it; [bs] is the block size assumed for records that do not
   carry the block end (traditional format) *)
Definition rec_block (bs : Z) (r : logrec) : bool * blk :=
  match r with
  | LBulk k _ priv pub st en _ => (k, {| b_priv := priv; b_pub := pub; b_start := st; b_end := en |})
  | LTrad k _ priv pub st => (k, {| b_priv := priv; b_pub := pub; b_start := st; b_end := st + bs - 1 |})
  end.

Fixpoint remove_blk (priv pub st : Z) (l : list blk) : list blk :=
  match l with
  | [] => []
  | b :: tl => if (b_priv b =? priv) && (b_pub b =? pub) && (b_start b =? st) then tl
               else b :: remove_blk priv pub st tl
  end.

Definition apply_rec (bs : Z) (act : list blk) (r : logrec) : list blk :=
  let '(k, b) := rec_block bs r in
  if k then b :: act else remove_blk (b_priv b) (b_pub b) (b_start b) act.

(* blocks assigned and not yet released according to the log (newest record first) *)
Definition replay (bs : Z) (log : list (Z * logrec)) : list blk :=
  fold_right (fun tr act => apply_rec bs act (snd tr)) [] log.

Definition covers (ip port : Z) (b : blk) : bool :=
  (b_pub b =? ip) && (b_start b <=? port) && (port <=? b_end b).

(* who held (ip, port) at time t, according to the log alone *)
Definition attribute (bs : Z) (log : list (Z * logrec)) (ip port t : Z) : list Z :=
  map b_priv (filter (covers ip port) (replay bs (filter (fun tr => fst tr <=? t) log))).

(* who holds (ip, port) according to the allocation table *)
Definition blk_of (a : alloc) : blk :=
  {| b_priv := a_priv a; b_pub := a_pub a; b_start := a_start a; b_end := a_end a |}.
Definition holders (s : state) (ip port : Z) : list Z :=
  map b_priv (filter (covers ip port) (map blk_of (s_allocs s))).

(* ---- the monitor ---- *)
Record sstate := { ss_cfg : cfg; ss_mode : logmode; ss_tab : list blk }.
Definition sinit (c : cfg) (m : logmode) : sstate := {| ss_cfg := c; ss_mode := m; ss_tab := [] |}.

Fixpoint find_blk (priv : Z) (l : list blk) : option blk :=
  match l with
  | [] => None
  | b :: tl => if b_priv b =? priv then Some b else find_blk priv tl
  end.

Definition same_blk (b : blk) (v : aview) : bool :=
  (b_priv b =? v_priv v) && (b_pub b =? v_pub v) && (b_start b =? v_start v) && (b_end b =? v_end v).

Definition disjoint (b : blk) (v : aview) : bool :=
  negb (b_pub b =? v_pub v) || (b_end b <? v_start v) || (v_end v <? b_start b).

Definition in_range (c : cfg) (v : aview) : bool :=
  (c_start c <=? v_start v) && (v_start v <=? v_end v) && (v_end v <=? c_end c).
Definition size_ok (c : cfg) (v : aview) : bool := v_end v - v_start v + 1 =? c_pps c.

Definition assign_rec_ok (m : logmode) (v : aview) (l : list logrec) : bool :=
  match m, l with
  | LogOff, [] => true
  | LogBulk, [LBulk true sid priv pub st en sz] =>
      (sid =? v_sid v) && (priv =? v_priv v) && (pub =? v_pub v) && (st =? v_start v) && (en =? v_end v) &&
      (sz =? wrap16 (v_end v - v_start v + 1))
  | LogTrad, [LTrad true sid priv pub st] =>
      (sid =? v_sid v) && (priv =? v_priv v) && (pub =? v_pub v) && (st =? v_start v)
  | _, _ => false
  end.
Definition release_rec_ok (m : logmode) (b : blk) (l : list logrec) : bool :=
  match m, l with
  | LogOff, [] => true
  | LogBulk, [LBulk false _ priv pub st _ _] => (priv =? b_priv b) && (pub =? b_pub b) && (st =? b_start b)
  | LogTrad, [LTrad false _ priv pub st] => (priv =? b_priv b) && (pub =? b_pub b) && (st =? b_start b)
  | _, _ => false
  end.
Definition no_recs (l : list logrec) : bool := match l with [] => true | _ => false end.

Definition blk_of_view (v : aview) : blk :=
  {| b_priv := v_priv v; b_pub := v_pub v; b_start := v_start v; b_end := v_end v |}.

Definition with_tab (s : sstate) (t : list blk) : sstate :=
  {| ss_cfg := ss_cfg s; ss_mode := ss_mode s; ss_tab := t |}.

(* clauses 0-2 for a block [v] that is new relative to the held blocks [tab] *)
Definition new_block_clause (c : cfg) (tab : list blk) (v : aview) : option N :=
  if negb (in_range c v) then Some 1%N
  else if negb (size_ok c v) then Some 2%N
  else if negb (forallb (fun b => disjoint b v) tab) then Some 0%N
  else None.

(* the final table of a concurrent run, entry by entry against the entries after it *)
Fixpoint table_clause (c : cfg) (tab : list aview) : option N :=
  match tab with
  | [] => None
  | v :: tl =>
      match new_block_clause c (map blk_of_view tl) v with
      | Some k => Some k
      | None => if existsb (fun w => v_priv w =? v_priv v) tl then Some 3%N else table_clause c tl
      end
  end.

Definition blk_eqb (a b : blk) : bool :=
  (b_priv a =? b_priv b) && (b_pub a =? b_pub b) && (b_start a =? b_start b) && (b_end a =? b_end b).

(* exactly one record per event, in order (log oldest first): an assign for a private IP that the
   log already shows holding a block, or a release that matches no open assign, is a lost or
   duplicated record *)
Fixpoint strict_log (bs : Z) (act : list blk) (l : list logrec) : bool :=
  match l with
  | [] => true
  | r :: tl =>
      let '(k, b) := rec_block bs r in
      if k then
        if existsb (fun x => b_priv x =? b_priv b) act then false else strict_log bs (b :: act) tl
      else
        let act' := remove_blk (b_priv b) (b_pub b) (b_start b) act in
        if (length act' <? length act)%nat then strict_log bs act' tl else false
  end.

Definition conc_clause (s : sstate) (o : concobs) : option N :=
  let c := ss_cfg s in
  match table_clause c (co_table o) with
  | Some k => Some k
  | None =>
      if negb (co_dealloc o) &&
         negb (forallb (fun r => existsb (fun v => aview_eqb v r) (co_table o)) (co_rets o)) then Some 3%N
      else
        match ss_mode s with
        | LogOff => if no_recs (co_log o) then None else Some 4%N
        | _ =>
            (* the log, read in file order, leaves exactly the final table *)
            let act := replay (c_pps c) (rev (map (fun r => (0, r)) (co_log o))) in
            if co_strict o && negb (strict_log (c_pps c) [] (co_log o)) then Some 4%N else
            if (length act =? length (co_table o))%nat &&
               forallb (fun v => existsb (blk_eqb (blk_of_view v)) act) (co_table o) then None else Some 4%N
        end
  end.

(* the monitor does not see the fault oracles: a call is judged by its kind and its result *)
Definition plain (o : op) : op :=
  match o with AllocF p _ _ => Alloc p | DeallocF p _ _ => Dealloc p | o' => o' end.

Definition accept0 (s : sstate) (o : op) (r : out) : sstate + N :=
  if negb (o_ts r) then inr 4%N else
  match o, o_res r with
  | AddIP _, (RNone | RErr _) => if no_recs (o_logs r) then inl s else inr 4%N
  | Alloc priv, RAlloc v =>
      if negb (v_priv v =? priv) then inr 3%N else
      match find_blk priv (ss_tab s) with
      | Some b => if negb (same_blk b v) then inr 3%N
                  else if no_recs (o_logs r) then inl s else inr 4%N
      | None =>
          match new_block_clause (ss_cfg s) (ss_tab s) v with
          | Some k => inr k
          | None => if assign_rec_ok (ss_mode s) v (o_logs r)
                    then inl (with_tab s (blk_of_view v :: ss_tab s)) else inr 4%N
          end
      end
  | Alloc _, RErr _ => if no_recs (o_logs r) then inl s else inr 4%N
  | Dealloc priv, RNone =>
      match find_blk priv (ss_tab s) with
      | Some b => if release_rec_ok (ss_mode s) b (o_logs r)
                  then inl (with_tab s (remove_blk (b_priv b) (b_pub b) (b_start b) (ss_tab s))) else inr 4%N
      | None => if no_recs (o_logs r) then inl s else inr 4%N
      end
  | Dealloc _, RErr _ => if no_recs (o_logs r) then inl s else inr 4%N   (* refused: the block stays held *)
  | Get priv, RGet g =>
      match find_blk priv (ss_tab s), g with
      | None, None => if no_recs (o_logs r) then inl s else inr 4%N
      | Some b, Some v => if same_blk b v then (if no_recs (o_logs r) then inl s else inr 4%N) else inr 3%N
      | _, _ => inr 3%N
      end
  | Stats, RStats _ _ => if no_recs (o_logs r) then inl s else inr 4%N
  | ConcObs co, RNone => match conc_clause s co with Some k => inr k | None => inl s end
  | _, _ => inr 9%N
  end.

Definition accept (s : sstate) (o : op) (r : out) : sstate + N := accept0 s (plain o) r.
