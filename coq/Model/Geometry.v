(* Address geometry of the pool implementations (C01 "every assigned value lies inside the pool's
   configured range", for every base / prefix-length combination).

   bitmap  (allocator/bitmap.go getPrefixByIndex/getIndexByPrefix):  base + idx * 2^(bits-plen)
   epoch   (allocator/epoch_bitmap.go indexToIP/ipToIndex):          four byte additions WITHOUT carry
   dhcp    (dhcp/pool.go generateAvailableIPs):                      four byte additions WITHOUT carry
   local   (pool/peer.go generateAvailableIPs):                      uint32 addition (wraps at 2^32)
   v6 PD   (dhcpv6/server.go NewPrefixPool):                         index bits OR-ed in one by one
   hash    (nexus/client.go allocateFromPool):                       byte additions without carry on an
                                                                     UNMASKED base
   Addresses are integers (IPv4: < 2^32, IPv6: < 2^128). *)
From Coq Require Import NArith List Bool.
Import ListNotations.
Local Open Scope N_scope.

Record geo := { g_bits : N; g_base : N; g_ppl : N; g_pl : N }.
Definition g_total (g : geo) : N := 2 ^ (g_pl g - g_ppl g).          (* 2^(prefixLength - poolPrefix) *)
Definition g_step (g : geo) : N := 2 ^ (g_bits g - g_pl g).          (* 2^(totalBits - prefixLength) *)
Definition g_size (g : geo) : N := 2 ^ (g_bits g - g_ppl g).         (* addresses in the pool CIDR *)
Definition addr_of_index (g : geo) (i : N) : N := g_base g + i * g_step g.

(* getIndexByPrefix before the Uint64() truncation: None = ErrOutOfRange *)
Definition index_of_addr (g : geo) (a pl : N) : option N :=
  if negb (pl =? g_pl g) then None
  else if a <? g_base g then None
  else let i := (a - g_base g) / g_step g in
       if g_total g <=? i then None else Some i.

(* what net.ParseCIDR guarantees: lengths ordered, base inside the address space and masked *)
Definition geo_wf (g : geo) : Prop :=
  g_ppl g <= g_pl g /\ g_pl g <= g_bits g /\ g_base g < 2 ^ g_bits g /\ g_base g mod g_size g = 0.
Definition geo_wfb (g : geo) : bool :=
  (g_ppl g <=? g_pl g) && (g_pl g <=? g_bits g) && (g_base g <? 2 ^ g_bits g) && (g_base g mod g_size g =? 0).

(* an address range [a, a+n) lies inside the pool CIDR *)
Definition inside (g : geo) (a n : N) : Prop := g_base g <= a /\ a + n <= g_base g + g_size g.

(* ---- byte-wise addition without carry (epoch indexToIP, dhcp generateAvailableIPs, nexus) ---- *)
Definition byte_at (v k : N) : N := (v / 256 ^ k) mod 256.            (* k = 0: least significant *)
Definition badd (a b : N) : N := (a + b) mod 256.
Definition bsub (a b : N) : N := (a + 256 - b) mod 256.
Definition add_nocarry32 (base off : N) : N :=
  let o := off mod 4294967296 in                                      (* uint32(idx) / the four masks *)
  badd (byte_at base 3) (byte_at o 3) * 16777216 + badd (byte_at base 2) (byte_at o 2) * 65536 +
  badd (byte_at base 1) (byte_at o 1) * 256 + badd (byte_at base 0) (byte_at o 0).
(* ipToIndex: offset = fold (offset<<8 | byte difference) *)
Definition sub_bytes32 (ip base : N) : N :=
  bsub (byte_at ip 3) (byte_at base 3) * 16777216 + bsub (byte_at ip 2) (byte_at base 2) * 65536 +
  bsub (byte_at ip 1) (byte_at base 1) * 256 + bsub (byte_at ip 0) (byte_at base 0).

(* ---- dhcpv6 NewPrefixPool: place bit [bit] of idx at position dlen-1-bit (from the MSB of 128) ---- *)
Fixpoint pd_place (nbits : nat) (bit : N) (idx dlen acc : N) : N :=
  match nbits with
  | O => acc
  | S k =>
      let acc' := if N.testbit idx bit then N.lor acc (2 ^ (127 - (dlen - 1 - bit))) else acc in
      pd_place k (bit + 1) idx dlen acc'
  end.
Definition pd_prefix (base ones dlen idx : N) : N := pd_place (N.to_nat (dlen - ones)) 0 idx dlen base.
