(* Packet-access skeleton of bpf/antispoof.c : antispoof_ingress (TC), as of /repo d9f017c.
   Every data_end comparison of the C is an explicit test; every load is a checked rd*.
   The program never stores into the packet.  Statistics (per-CPU counters) and the perf event are
   not observable in the frame or the verdict and are left out; the loads log_violation performs on
   the packet (the source MAC) are kept.

   struct subscriber_binding { u32 ipv4_addr @0; u8 ipv6_addr[16] @4; u8 ipv4_valid @20;
                               u8 ipv6_valid @21; u8 mode @22; u8 _pad @23 }      (24 bytes)
   struct antispoof_config   { u8 default_mode @0; u8 log_violations @1; pad }     (8 bytes)  *)
From Coq Require Import NArith List Bool.
From Verif Require Import Base.Word Model.PktMonad.
Import ListNotations.
Local Open Scope N_scope.
Local Open Scope pkt_scope.

Definition MAP_AS_BINDINGS : N := 1.
Definition MAP_AS_CONFIG : N := 2.
Definition MAP_AS_RANGES : N := 3.       (* LPM trie; key = u32 prefixlen(=32) ++ the 4 address bytes *)

Definition ANTISPOOF_DISABLED : N := 0.
Definition ANTISPOOF_STRICT : N := 1.
Definition ANTISPOOF_LOOSE : N := 2.
Definition ANTISPOOF_LOG_ONLY : N := 3.

Definition mac_to_u64 (m : list N) : N := fold_left (fun acc b => N.lor (N.shiftl acc 8) b) m 0.

(* for (i = 0; i < 16; i++) if (ip6->saddr[i] != binding->ipv6_addr[i]) { allowed = 0; break; } *)
Fixpoint cmp_bytes (bl : list N) (off : N) : M bool :=
  match bl with
  | [] => ret true
  | b :: tl => x <- rd8 off ;; if x =? b then cmp_bytes tl (off + 1) else ret false
  end.

Definition antispoof_body (mp : maps) (dl : N) : M N :=
  if 14 >? dl then exit TC_ACT_OK else
  mac <- rd_bytes 6 6 ;;
  let mac_key := mac_to_u64 mac in
  let config := mp MAP_AS_CONFIG (le_n 4 0) in
  let default_mode := match config with Some c => fld 0 1 c | None => ANTISPOOF_DISABLED end in
  let log_violations := match config with Some c => fld 1 1 c | None => 0 end in
  let binding := mp MAP_AS_BINDINGS (le_n 8 mac_key) in
  let mode := match binding with Some b => fld 22 1 b | None => default_mode end in
  if mode =? ANTISPOOF_DISABLED then exit TC_ACT_OK else
  proto <- rd16 12 ;;
  if proto =? htons 0x0800 then
    if 14 + 20 >? dl then exit TC_ACT_OK else
    src_ip <- rd32 26 ;;
    let allowed :=
      if mode =? ANTISPOOF_LOOSE
      then (match mp MAP_AS_RANGES (le_n 4 32 ++ le_n 4 src_ip) with Some _ => true | None => false end)
      else match binding with
           | Some b =>
               if negb (fld 20 1 b =? 0)
               then (if (mode =? ANTISPOOF_STRICT) || (mode =? ANTISPOOF_LOG_ONLY) then src_ip =? fld 0 4 b else false)
               else false
           | None => false
           end in
    if negb allowed then
      (if negb (log_violations =? 0) then _m <- rd_bytes 6 6 ;; ret tt else ret tt) ;;;
      if mode =? ANTISPOOF_LOG_ONLY then ret TC_ACT_OK else ret TC_ACT_SHOT
    else ret TC_ACT_OK
  else if proto =? htons 0x86DD then
    if 14 + 40 >? dl then exit TC_ACT_OK else
    allowed <- (match binding with
                | Some b =>
                    if negb (fld 21 1 b =? 0) then cmp_bytes (firstn 16 (skipn 4 b)) 22
                    else ret (mode =? ANTISPOOF_LOOSE)
                | None => ret (mode =? ANTISPOOF_LOOSE)
                end) ;;
    if negb allowed && negb (mode =? ANTISPOOF_LOG_ONLY) then
      (if negb (log_violations =? 0) then _m <- rd_bytes 6 6 ;; ret tt else ret tt) ;;;
      ret TC_ACT_SHOT
    else ret TC_ACT_OK
  else ret TC_ACT_OK.

Definition antispoof_ingress (mp : maps) : M N := fun f => antispoof_body mp (flen f) f.

(* "a packet of a bound subscriber": the frame carries an Ethernet header whose source MAC has an
   entry in subscriber_bindings.  (The program modifies no frame at all; the acceptor only needs
   this predicate to say what the property text would tolerate.) *)
Definition act_antispoof (mp : maps) (f : frame) : bool :=
  (14 <=? flen f) &&
  match mp MAP_AS_BINDINGS (le_n 8 (mac_to_u64 (firstn 6 (skipn 6 f)))) with Some _ => true | None => false end.
