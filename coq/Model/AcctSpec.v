(* Executable monitor for C08 over (op, observed output) traces.  It looks only at the ops the
   harness issued, the server-side record stream (with the server's ack/drop decisions), the
   return class of each op (ok / error / process died) and the directory + queue snapshots.

   clause 1  no Stop is accepted by the server before a Start of that session was accepted
   clause 2  no Stop is accepted for a session that was never started
   clause 3  while no crash has happened, once every started incarnation of a session has an
             acknowledged Stop, no further Stop for it is transmitted
   clause 4  at a Final observation every ended incarnation of a started session has an
             acknowledged Stop, or a durable record that yields one (session file / pending.json),
             or is still queued in the running process (not yet quiescent) - unless the server
             dropped more than MaxRetries Stop transmissions of that session (outside the budget)
   clause 5  accepted records carry the id / user / MAC / IP given when the session was started
   clause 6  accepted Stop / Interim records carry, through the low-word/gigaword split, exactly
             a counter pair that was supplied for reporting (or 0,0: nothing reported yet) *)
From Coq Require Import NArith List Bool.
From Verif Require Import Model.Gigaword Model.Acct.
Import ListNotations.
Local Open Scope N_scope.

Record sstate := mkSS {
  ss_maxr : N;
  ss_reg : list (N * ident);     (* (session, identity) of every accepted Start call *)
  ss_ctr : list (N * N);         (* counter pairs supplied so far *)
  ss_starts : list N;            (* one entry per accepted Start call *)
  ss_live : list N;              (* started, not ended *)
  ss_ended : list N;             (* one entry per ended incarnation *)
  ss_ackstart : list N;          (* one entry per acknowledged Start record *)
  ss_ackstop : list N;           (* one entry per acknowledged Stop record *)
  ss_dropstop : list N;          (* one entry per dropped Stop record *)
  ss_crashed : bool }.

Definition sinit (maxr : N) : sstate := mkSS maxr [] [(0, 0)] [] [] [] [] [] [] false.

Definition cnt (s : N) (l : list N) : N := N.of_nat (length (filter (N.eqb s) l)).
Definition memN (s : N) (l : list N) : bool := existsb (N.eqb s) l.

Definition in_reg (s : N) (i : ident) (l : list (N * ident)) : bool :=
  existsb (fun p => (fst p =? s) && ident_eqb (snd p) i) l.
Definition in_ctr (a b : N) (l : list (N * N)) : bool :=
  existsb (fun p => (fst p =? a) && (snd p =? b)) l.

Definition ran (r : out) : bool := negb (o_ret r =? R_ERR) && negb (o_ret r =? R_DEAD).

(* bookkeeping before the op's records are looked at *)
Definition pre (ss : sstate) (o : op) (r : out) : sstate :=
  match o with
  | Start s id _ _ =>
      if ran r then mkSS (ss_maxr ss) ((s, id) :: ss_reg ss) (ss_ctr ss) (s :: ss_starts ss) (ss_live ss) (ss_ended ss)
                         (ss_ackstart ss) (ss_ackstop ss) (ss_dropstop ss) (ss_crashed ss)
      else ss
  | Stop _ _ cin cout _ _ _ =>
      mkSS (ss_maxr ss) (ss_reg ss) ((cin, cout) :: ss_ctr ss) (ss_starts ss) (ss_live ss) (ss_ended ss)
           (ss_ackstart ss) (ss_ackstop ss) (ss_dropstop ss) (ss_crashed ss)
  | InterimTick cs _ _ _ _ | GracefulStop cs _ _ _ _ =>
      mkSS (ss_maxr ss) (ss_reg ss) (map snd cs ++ ss_ctr ss) (ss_starts ss) (ss_live ss) (ss_ended ss)
           (ss_ackstart ss) (ss_ackstop ss) (ss_dropstop ss) (ss_crashed ss)
  | _ => ss
  end.

(* one record at the server *)
Definition ev_ok (k : N) (ss : sstate) (e : wrec * bool) : bool :=
  let '(w, a) := e in
  match k with
  | 1 => negb (a && (w_st w =? ST_STOP)) || (0 <? cnt (w_sid w) (ss_ackstart ss))
  | 2 => negb (a && (w_st w =? ST_STOP)) || (0 <? cnt (w_sid w) (ss_starts ss))
  | 3 => negb (w_st w =? ST_STOP) || ss_crashed ss || (cnt (w_sid w) (ss_starts ss) =? 0)
         || (cnt (w_sid w) (ss_ackstop ss) <? cnt (w_sid w) (ss_starts ss))
  | 5 => negb a || in_reg (w_sid w) (w_ident w) (ss_reg ss)
  | 6 => negb (a && negb (w_st w =? ST_START)) || in_ctr (join (w_in w)) (join (w_out w)) (ss_ctr ss)
  | _ => true
  end.

Definition ev_upd (ss : sstate) (e : wrec * bool) : sstate :=
  let '(w, a) := e in
  if a && (w_st w =? ST_START) then
    mkSS (ss_maxr ss) (ss_reg ss) (ss_ctr ss) (ss_starts ss) (ss_live ss) (ss_ended ss)
         (w_sid w :: ss_ackstart ss) (ss_ackstop ss) (ss_dropstop ss) (ss_crashed ss)
  else if a && (w_st w =? ST_STOP) then
    mkSS (ss_maxr ss) (ss_reg ss) (ss_ctr ss) (ss_starts ss) (ss_live ss) (ss_ended ss)
         (ss_ackstart ss) (w_sid w :: ss_ackstop ss) (ss_dropstop ss) (ss_crashed ss)
  else if negb a && (w_st w =? ST_STOP) then
    mkSS (ss_maxr ss) (ss_reg ss) (ss_ctr ss) (ss_starts ss) (ss_live ss) (ss_ended ss)
         (ss_ackstart ss) (ss_ackstop ss) (w_sid w :: ss_dropstop ss) (ss_crashed ss)
  else ss.

Fixpoint events_ok (k : N) (ss : sstate) (es : list (wrec * bool)) : bool :=
  match es with
  | [] => true
  | e :: tl => ev_ok k ss e && events_ok k (ev_upd ss e) tl
  end.

(* durable or queued Stop records for a session *)
Definition stops_in (s : N) (l : list (req * N)) : N :=
  N.of_nat (length (filter (fun p => (q_st (fst p) =? ST_STOP) && (q_sid (fst p) =? s)) l)).

Definition owed_ok (ss : sstate) (r : out) (s : N) : bool :=
  (ss_maxr ss <? cnt s (ss_dropstop ss)) ||
  (cnt s (ss_ended ss) <=?
     cnt s (ss_ackstop ss)
     + (if existsb (fun f => s_id f =? s) (o_files r) then 1 else 0)
     + match o_pjson r with Some l => stops_in s l | None => 0 end
     + stops_in s (o_pend r)).

Definition final_ok (ss : sstate) (r : out) : bool := forallb (owed_ok ss r) (ss_ended ss).

(* bookkeeping after the op's records *)
Definition died (o : op) (r : out) : bool :=
  (o_ret r =? R_CRASHED) || match o with GracefulStop _ _ _ _ _ => o_ret r =? R_OK | _ => false end.

Definition post (ss : sstate) (o : op) (r : out) : sstate :=
  let ss1 :=
    match o with
    | Start s _ _ _ =>
        if o_ret r =? R_OK then
          mkSS (ss_maxr ss) (ss_reg ss) (ss_ctr ss) (ss_starts ss) (s :: ss_live ss) (ss_ended ss)
               (ss_ackstart ss) (ss_ackstop ss) (ss_dropstop ss) (ss_crashed ss)
        else if (o_ret r =? R_CRASHED) && existsb (fun e => snd e && (w_st (fst e) =? ST_START) && (w_sid (fst e) =? s)) (o_ev r) then
          mkSS (ss_maxr ss) (ss_reg ss) (ss_ctr ss) (ss_starts ss) (ss_live ss) (s :: ss_ended ss)
               (ss_ackstart ss) (ss_ackstop ss) (ss_dropstop ss) (ss_crashed ss)
        else ss
    | Stop s _ _ _ _ _ _ =>
        if o_ret r =? R_OK then
          mkSS (ss_maxr ss) (ss_reg ss) (ss_ctr ss) (ss_starts ss) (filter (fun x => negb (x =? s)) (ss_live ss)) (s :: ss_ended ss)
               (ss_ackstart ss) (ss_ackstop ss) (ss_dropstop ss) (ss_crashed ss)
        else ss
    | _ => ss
    end in
  if died o r then
    mkSS (ss_maxr ss1) (ss_reg ss1) (ss_ctr ss1) (ss_starts ss1) [] (ss_live ss1 ++ ss_ended ss1)
         (ss_ackstart ss1) (ss_ackstop ss1) (ss_dropstop ss1) (ss_crashed ss1 || (o_ret r =? R_CRASHED))
  else ss1.

Definition op_ok (k : N) (ss : sstate) (o : op) (r : out) : bool :=
  events_ok k (pre ss o r) (o_ev r) &&
  (if k =? 4 then match o with Final => final_ok ss r | _ => true end else true).

Definition supd (ss : sstate) (o : op) (r : out) : sstate :=
  post (fold_left ev_upd (o_ev r) (pre ss o r)) o r.

(* clause k holds along a whole trace *)
Fixpoint holds (k : N) (ss : sstate) (tr : list (op * out)) : bool :=
  match tr with
  | [] => true
  | (o, r) :: tl => op_ok k ss o r && holds k (supd ss o r) tl
  end.

(* the acceptor the harness runs: first failing clause in the order 2,5,6,1,3,4 *)
Definition accept (ss : sstate) (o : op) (r : out) : sstate + N :=
  if negb (op_ok 2 ss o r) then inr 2
  else if negb (op_ok 5 ss o r) then inr 5
  else if negb (op_ok 6 ss o r) then inr 6
  else if negb (op_ok 1 ss o r) then inr 1
  else if negb (op_ok 3 ss o r) then inr 3
  else if negb (op_ok 4 ss o r) then inr 4
  else inl (supd ss o r).

(* ---------------------------------------------------------------------------------------------
   clause 7  exact counters: what a Stop / Interim-Update reports is determined by the history.
     - a record built by StopSession / the interim scan / the shutdown drain carries the counter
       source's value for that session, or - when the source fails for that session - the last
       values the NAS knows RADIUS accepted: those of the last Interim-Update acknowledged when it
       was first sent (0,0 if none since the session was started);
     - a record re-sent from the pending queue carries what an earlier transmission of a record of
       that session and status carried;
     - a Stop produced by orphan recovery (counter source gone) carries the last known values or 0,0.
   Kept beside clauses 1-6 in its own small state so that their theorems are untouched; clause 6
   (membership) stays a theorem, clause 7 is checked on every trace (Model's and implementation's). *)
Record aux := mkA { a_last : list (N * (N * N)); a_sent : list (N * N * (N * N)) }.
Definition ainit : aux := mkA [] [].

Definition last_of (s : N) (l : list (N * (N * N))) : N * N :=
  match find (fun p => fst p =? s) l with Some p => snd p | None => (0, 0) end.
Definition pair_eqb (a b : N * N) : bool := (fst a =? fst b) && (snd a =? snd b).
Definition was_sent (s st : N) (c : N * N) (l : list (N * N * (N * N))) : bool :=
  existsb (fun p => (fst (fst p) =? s) && (snd (fst p) =? st) && pair_eqb (snd p) c) l.

Definition ev7 (o : op) (a : aux) (e : wrec * bool) : bool * aux :=
  let '(w, ack) := e in
  if w_st w =? ST_START then (true, a)
  else
    let c := (join (w_in w), join (w_out w)) in
    let s := w_sid w in
    let direct (v : N * N) (fe : list N) := pair_eqb c (if memN s fe then last_of s (a_last a) else v) in
    let ok := match o with
              | Stop _ _ cin cout fe _ _ => direct (cin, cout) fe
              | GracefulStop cs fe _ _ _ | InterimTick cs fe _ _ _ => direct (src cs s) fe
              | ProcessQueued _ _ | RetryTick _ _ _ => was_sent s (w_st w) c (a_sent a)
              | Restart _ _ _ => pair_eqb c (0, 0) || pair_eqb c (last_of s (a_last a))
              | _ => true
              end in
    let last' := match o with
                 | InterimTick _ _ _ _ _ => if ack && (w_st w =? ST_INTERIM) then (s, c) :: a_last a else a_last a
                 | _ => a_last a
                 end in
    (ok, mkA last' ((s, w_st w, c) :: a_sent a)).

Fixpoint run7 (o : op) (a : aux) (es : list (wrec * bool)) : bool * aux :=
  match es with
  | [] => (true, a)
  | e :: tl => let '(ok, a') := ev7 o a e in
               if ok then run7 o a' tl else (false, a')
  end.

Definition pre7 (a : aux) (o : op) (r : out) : aux :=
  match o with
  | Start s _ _ _ => if ran r then mkA ((s, (0, 0)) :: a_last a) (a_sent a) else a
  | _ => a
  end.

Definition accept7 (st : sstate * aux) (o : op) (r : out) : (sstate * aux) + N :=
  match accept (fst st) o r with
  | inr c => inr c
  | inl ss' => let '(ok, a') := run7 o (pre7 (snd st) o r) (o_ev r) in
               if ok then inl (ss', a') else inr 7
  end.

(* clause 7 along a whole trace *)
Fixpoint holds7 (a : aux) (tr : list (op * out)) : bool :=
  match tr with
  | [] => true
  | (o, r) :: tl => let '(ok, a') := run7 o (pre7 a o r) (o_ev r) in ok && holds7 a' tl
  end.
