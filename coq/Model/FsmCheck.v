(* Entry point evaluated on the case files the C11 driver writes. *)
From Coq Require Import ZArith NArith List Bool.
From Verif Require Import Base.Word Base.Check Model.Fsm Model.Lcp Model.Ipcp Model.Ipv6cp Model.FsmSpec.
Import ListNotations.
Local Open Scope N_scope.

Definition pkt_eqb (a b : pkt) : bool :=
  (pc a =? pc b) && (pi a =? pi b) && (pl a =? pl b) && bytes_eqb (pd a) (pd b).
Fixpoint pkts_eqb (a b : list pkt) : bool :=
  match a, b with
  | [], [] => true
  | x :: a', y :: b' => pkt_eqb x y && pkts_eqb a' b'
  | _, _ => false
  end.
Definition out_eqb (a b : out) : bool :=
  pkts_eqb (o_pk a) (o_pk b) && (o_st a =? o_st b) && (o_err a =? o_err b) && Bool.eqb (o_arm a) (o_arm b)
  && (o_rc a =? o_rc b)%Z && (o_id a =? o_id b) && (o_last a =? o_last b) && bytes_eqb (o_obs a) (o_obs b).

Inductive case :=
| CLcp (magic mru auth chap : N) (pfc acfc : bool) (maxcfg : Z) (rng : list N) (live : bool) (tr : list (ev * out))
| CIpcp (loc peer d1 d2 : option (list N)) (maxre : Z) (live : bool) (tr : list (ev * out))
| CV6 (id : N) (maxre : Z) (rng : list N) (live : bool) (tr : list (ev * out)).

Definition isSome {A} (o : option A) : bool := match o with Some _ => true | None => false end.

Definition row (c : case) : list N :=
  match c with
  | CLcp magic mru auth chap pfc acfc maxcfg rng live tr =>
      let s0 := lcp_new magic mru auth chap pfc acfc maxcfg rng in
      check_case (step lcp_procs) accept out_eqb s0
        (mon0 (mkmcfg 0 maxcfg None false false live) (lcp_obs (f_x s0))) tr
  | CIpcp loc peer d1 d2 maxre live tr =>
      let s0 := ipcp_new loc peer d1 d2 maxre in
      check_case (step ipcp_procs) accept out_eqb s0
        (mon0 (mkmcfg 1 (ncp_irc maxre) peer (isSome d1) (isSome d2) live) (ipcp_obs (f_x s0))) tr
  | CV6 id maxre rng live tr =>
      let s0 := v6_new id maxre rng in
      check_case (step v6_procs) accept out_eqb s0
        (mon0 (mkmcfg 2 (ncp_irc maxre) None false false live) (v6_obs (f_x s0))) tr
  end.

Fixpoint go (i : N) (cs : list case) : list (list N) :=
  match cs with
  | [] => []
  | c :: tl =>
      match row c with
      | 0 :: 0 :: 0 :: 0 :: 0 :: [] => go (i + 1) tl
      | v => (i :: v) :: go (i + 1) tl
      end
  end.
Definition run_cases (cs : list case) : list (list N) := go 1 cs.
