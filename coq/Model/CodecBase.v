(* C09 — byte-level modelling base: Go slice semantics with panics as a constructor.

   A Go slice is modelled by its visible bytes [s : list N]; where the code re-slices a receive
   buffer (PPPoE server glue, ParsePADT) the bytes lying in the spare capacity are a second list
   [tail] (cap = len s + len tail), so that a re-slice past len — legal in Go, and a read outside
   the input — is expressible.  Everywhere else the Model is stricter than Go: any access past len
   is [Panic] even if Go would allow it up to cap.

   Result type: [Ok v | Err | Panic | Hang].  [Panic] = index / slice bounds violation,
   [Hang] = a loop ran out of its fuel (fuel is always at least the number of iterations the
   theorems allow, so [Hang] means "no linear bound").  Never a default value. *)
From Coq Require Import ZArith NArith List Lia ZifyN ZifyNat ZifyBool Bool.
Import ListNotations.
Local Open Scope N_scope.

Definition bytes := list N.
Definition rows := list (list N).

Inductive res (A : Type) : Type := Ok (a : A) | Err | Panic | Hang.
Arguments Ok {A} a.
Arguments Err {A}.
Arguments Panic {A}.
Arguments Hang {A}.

Definition bind {A B} (r : res A) (f : A -> res B) : res B :=
  match r with Ok a => f a | Err => Err | Panic => Panic | Hang => Hang end.
Notation "x <- r ;; k" := (bind r (fun x => k)) (at level 61, r at next level, right associativity).

Definition lenN (s : bytes) : N := N.of_nat (length s).

(* s[i] *)
Definition idx (s : bytes) (i : N) : res N :=
  match nth_error s (N.to_nat i) with Some x => Ok x | None => Panic end.

(* s[a:b] on a slice whose backing array continues with [tail] *)
Definition sub (s tail : bytes) (a b : N) : res bytes :=
  if (a <=? b) && (b <=? lenN s + lenN tail)
  then Ok (firstn (N.to_nat (b - a)) (skipn (N.to_nat a) (s ++ tail)))
  else Panic.
Definition sub0 (s : bytes) (a b : N) : res bytes := sub s [] a b.
(* s[a:] *)
Definition from (s : bytes) (a : N) : res bytes := sub0 s a (lenN s).

(* binary.BigEndian.Uint16(s[i:i+2]) / Uint32(s[i:i+4]) *)
Definition be16 (s : bytes) (i : N) : res N :=
  w <- sub0 s i (i + 2) ;; match w with [h; l] => Ok (h * 256 + l) | _ => Panic end.
Definition be32 (s : bytes) (i : N) : res N :=
  w <- sub0 s i (i + 4) ;;
  match w with [a; b; c; d] => Ok (((a * 256 + b) * 256 + c) * 256 + d) | _ => Panic end.

Definition put16 (v : N) : bytes := [(v / 256) mod 256; v mod 256].
Definition put32 (v : N) : bytes := [(v / 16777216) mod 256; (v / 65536) mod 256; (v / 256) mod 256; v mod 256].

Fixpoint bytes_eqb (a b : bytes) : bool :=
  match a, b with
  | [], [] => true
  | x :: a', y :: b' => (x =? y) && bytes_eqb a' b'
  | _, _ => false
  end.

Definition is_byte (b : N) : Prop := b < 256.
Definition all_bytes (s : bytes) : Prop := Forall is_byte s.

(* Observable outcome of one call, as the harness projects it. *)
Inductive out := OOk (r : rows) | OErr | OPanic | OHang.
Definition to_out (r : res rows) : out :=
  match r with Ok v => OOk v | Err => OErr | Panic => OPanic | Hang => OHang end.

Fixpoint rows_eqb (a b : rows) : bool :=
  match a, b with
  | [], [] => true
  | x :: a', y :: b' => bytes_eqb x y && rows_eqb a' b'
  | _, _ => false
  end.
Definition out_eqb (a b : out) : bool :=
  match a, b with
  | OOk x, OOk y => rows_eqb x y
  | OErr, OErr | OPanic, OPanic | OHang, OHang => true
  | _, _ => false
  end.
