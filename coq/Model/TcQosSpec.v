(* C19 executable monitor over observed traces (verdicts only; map snapshots are not judged).
   It keeps, per (direction, subscriber address in network order), the CONTRACT set through the
   control plane (SetQoS: rate, burst as the policy says; PutRaw: the raw bucket parameters) and three
   exact quantities, scaled by S = 8*10^9 so that everything is an integer
   (one byte = S units; a rate of r bit/s adds r units per nanosecond):
     H  upper reference: max over window starts of (admitted in window - rate*window); the property's
        upper bound for every window is  H <= burst                                    (clause 0)
     L  exact credit: what an exact bucket with this contract would hold given what the implementation
        actually admitted (capped at burst)
     U  credit discarded at the cap during gaps at BOTH ends of which the subscriber was refused a
        packet it could ever be entitled to (size <= burst): it had a packet waiting throughout, and
        the shortfall rate*window - admitted of that window is at least U.  The property allows a
        shortfall of one burst and one maximum packet:  U <= burst + 65535           (clause 1)
   clause 2: a packet of a subscriber whose contract has rate 0 is dropped
   clause 3: policy not the one enforced: a subscriber without contract is dropped, an admitted egress
             packet does not carry the policy's priority, a valid control-plane call fails, or the
             verdict is not OK/SHOT *)
From Coq Require Import NArith List Bool.
From Verif Require Import Base.Word Model.TcQos Model.QosMgr.
Import ListNotations.
Local Open Scope N_scope.

Definition S8 : N := 8000000000.
Definition MAXPKT : N := 65535.

Record contract := { c_dir : dir; c_ip : bytes; c_rate : N; c_burst : N; c_prio : option N;
                     c_H : N; c_L : N; c_U : N; c_tprev : option N; c_pdrop : bool }.
Definition ctab := list contract.

Definition c_match (d : dir) (ip : bytes) (c : contract) : bool := dir_eqb d (c_dir c) && bytes_eqb ip (c_ip c).
Definition c_find (s : ctab) (d : dir) (ip : bytes) : option contract := find (c_match d ip) s.
Definition c_drop (s : ctab) (d : dir) (ip : bytes) : ctab := filter (fun c => negb (c_match d ip c)) s.
Definition c_set (s : ctab) (c : contract) : ctab := c :: c_drop s (c_dir c) (c_ip c).

(* the default burst the manager documents: one second of traffic, at least 64 KiB, at most 10 MiB *)
Definition default_burst (r : N) : N :=
  let b := r / 8 in if b <? 65536 then 65536 else if 10485760 <? b then 10485760 else b.
Definition contract_burst (r burst : N) : N := if burst =? 0 then default_burst r else burst.

Definition new_contract (d : dir) (ip : bytes) (r b : N) (p : option N) (tok : N) (tp : option N) : contract :=
  {| c_dir := d; c_ip := ip; c_rate := r; c_burst := b; c_prio := p; c_H := 0;
     c_L := (if b <? tok then b else tok) * S8; c_U := 0; c_tprev := tp; c_pdrop := false |}.

(* subscriber address of a frame as the data path identifies it: complete Ethernet + IPv4 header *)
Definition frame_sub (d : dir) (f : bytes) : option bytes :=
  if Nat.ltb (length f) 34 then None else
  match rd f 12 2 with
  | Some [8; 0] => rd f (match d with Egress => 30 | Ingress => 26 end) 4
  | _ => None
  end.

(* judge one packet of a contracted subscriber; inr clause | inl contract' *)
Definition judge (c : contract) (plen now v : N) (pr : option N) : contract + N :=
  if c_rate c =? 0 then (if v =? TC_ACT_OK then inl c else inr 2) else
  let g := match c_tprev c with Some tp => if tp <=? now then now - tp else 0 | None => 0 end in
  let cred := c_rate c * g in
  let Bs := c_burst c * S8 in
  let Hd := if cred <=? c_H c then c_H c - cred else 0 in
  let raw := c_L c + cred in
  let Lm := if Bs <? raw then Bs else raw in
  if v =? TC_ACT_OK then
    let H' := Hd + plen * S8 in
    if Bs <? H' then inr 0 else
    match c_prio c, pr with
    | Some want, Some got => if want =? got then
        inl {| c_dir := c_dir c; c_ip := c_ip c; c_rate := c_rate c; c_burst := c_burst c; c_prio := c_prio c;
               c_H := H'; c_L := (if plen * S8 <=? Lm then Lm - plen * S8 else 0); c_U := c_U c;
               c_tprev := Some now; c_pdrop := false |} else inr 3
    | _, _ =>
        inl {| c_dir := c_dir c; c_ip := c_ip c; c_rate := c_rate c; c_burst := c_burst c; c_prio := c_prio c;
               c_H := H'; c_L := (if plen * S8 <=? Lm then Lm - plen * S8 else 0); c_U := c_U c;
               c_tprev := Some now; c_pdrop := false |}
    end
  else if v =? TC_ACT_SHOT then
    let entitled := plen <=? c_burst c in
    let U' := if c_pdrop c && entitled then c_U c + (raw - Lm) else c_U c in
    if (c_burst c + MAXPKT) * S8 <? U' then inr 1 else
    inl {| c_dir := c_dir c; c_ip := c_ip c; c_rate := c_rate c; c_burst := c_burst c; c_prio := c_prio c;
           c_H := Hd; c_L := Lm; c_U := U'; c_tprev := Some now; c_pdrop := entitled |}
  else inr 3.

Definition judge_pkt (s : ctab) (d : dir) (f : bytes) (plen now v : N) (pr : option N) : ctab + N :=
  match frame_sub d f with
  | None => inl s                                   (* not subscriber IPv4 traffic: nothing claimed *)
  | Some ip =>
      match c_find s d ip with
      | None => if v =? TC_ACT_OK then inl s else inr 3
      | Some c => match judge c (N.land plen 4294967295) now v pr with inl c' => inl (c_set s c') | inr k => inr k end
      end
  end.

(* n packets with run-length encoded verdicts *)
Fixpoint judge_rep (fuel : nat) (s : ctab) (d : dir) (f : bytes) (plen t gap : N) (l : list (N * N)) : ctab + N :=
  match fuel with
  | O => inl s
  | S k =>
      match l with
      | [] => inl s
      | (v, cnt) :: tl =>
          if cnt =? 0 then judge_rep k s d f plen t gap tl else
          match judge_pkt s d f plen t v None with
          | inr c => inr c
          | inl s' => judge_rep k s' d f plen (add64 t gap) gap ((v, cnt - 1) :: tl)
          end
      end
  end.

Definition egress_prio (d : dir) (p : N) : option N := match d with Egress => Some p | Ingress => None end.

Definition accept_c (s : ctab) (o : op) (r : out) : ctab + N :=
  match o, r with
  | PutRaw d k v, OUnit =>
      match tb_decode v with
      | Some t => inl (c_set s (new_contract d k (rate t) (burst t) None (tokens t) (Some (last t))))
      | None => inl s
      end
  | SetQoS _ ip down up b p, OUnit =>
      inl (c_set (c_set s (new_contract Egress ip down (contract_burst down b) (Some p) (contract_burst down b) None))
                 (new_contract Ingress ip up (contract_burst up b) None (contract_burst up b) None))
  | SetQoS _ ip _ _ _ _, _ => if is_v4 ip then inr 3 else inl s
  | Remove ip, _ => inl (c_drop (c_drop s Egress ip) Ingress ip)
  | Pkt d f plen now, OVerdict v p => judge_pkt s d f plen now v (egress_prio d p)
  | Sub d ip plen now, OVerdict v p => judge_pkt s d (sub_frame d ip) plen now v (egress_prio d p)
  | Rep d ip plen start gap n, ORle l => judge_rep (N.to_nat n + length l) s d (sub_frame d ip) plen start gap l
  | Pkt _ _ _ _, _ | Sub _ _ _ _, _ | Rep _ _ _ _ _ _, _ => inr 3
  | _, _ => inl s
  end.

(* the operator's policy table (what AddPolicy / RemovePolicy / LoadDefaultPolicies were asked to do: a
   re-definition REPLACES the plan) next to the per-subscriber contracts *)
Record sstate := { s_c : ctab; s_p : ptab }.
Definition sinit : sstate := {| s_c := []; s_p := [] |}.

Definition pol_eqb (a b : option pol) : bool :=
  match a, b with
  | None, None => true
  | Some (a1, a2, a3, a4), Some (b1, b2, b3, b4) => (a1 =? b1) && (a2 =? b2) && (a3 =? b3) && (a4 =? b4)
  | _, _ => false
  end.

Definition accept (s : sstate) (o : op) (r : out) : sstate + N :=
  match o, r with
  | PolAdd n down up b pr, OUnit =>
      match n with [] => inr 3 | _ => inl {| s_c := s_c s; s_p := p_put (s_p s) n (down, up, b, pr) |} end
  | PolAdd n _ _ _ _, _ => match n with [] => inl s | _ => inr 3 end
  | PolRemove n, _ => inl {| s_c := s_c s; s_p := p_del (s_p s) n |}
  | PolLoadDefaults, _ =>
      inl {| s_c := s_c s; s_p := fold_left (fun t x => p_put t (fst x) (snd x)) default_policies (s_p s) |}
  | PolGet n, OPol p => if pol_eqb p (p_get (s_p s) n) then inl s else inr 3   (* the plan read back is the plan defined *)
  | PolGet _, _ => inr 3
  | PolList, _ => inl s
  | ApplyPol ip n, r' =>
      match p_get (s_p s) n with
      | None => match r' with OErr => inl s | _ => inr 3 end               (* unknown plan must be refused *)
      | Some (down, up, b, pr) =>
          match accept_c (s_c s) (SetQoS true ip down up b pr) r' with
          | inl c => inl {| s_c := c; s_p := s_p s |}
          | inr k => inr k
          end
      end
  | _, _ => match accept_c (s_c s) o r with inl c => inl {| s_c := c; s_p := s_p s |} | inr k => inr k end
  end.
