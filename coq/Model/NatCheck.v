(* Entry point evaluated by the harness-written case files for C10. *)
From Coq Require Import ZArith NArith List.
From Verif Require Import Base.Check Model.Nat Model.NatSpec Model.NatK Model.NatKSpec.
Import ListNotations.

(* short constructor names for the case files (record notation is slow to elaborate) *)
Definition av := Build_aview.
Definition mo := Build_out.
Definition co := Build_concobs.

(* raw ManagerConfig ints (PortsPerSubscriber, PortRangeStart, PortRangeEnd), log mode, trace *)
Definition case := (Z * Z * Z * logmode * list (op * out))%type.
Definition mk (c : case) : state * sstate * list (op * out) :=
  let '(pps, st, en, m, tr) := c in
  let cf := new_cfg pps st en in (init cf m, sinit cf m, tr).
Definition run_cases (cs : list case) : list (list N) :=
  check_all step accept out_eqb 1%N (map mk cs).

(* Manager with a real subscriber_nat kernel map: (pps, start, end, log mode, max_entries, trace) *)
Definition ke := Build_kentry.
Definition kcase := (Z * Z * Z * logmode * Z * list (kop * kout))%type.
Definition kmk (c : kcase) : kstate * ksstate * list (kop * kout) :=
  let '(pps, st, en, m, mx, tr) := c in
  let cf := new_cfg pps st en in (kinit cf m mx, ksinit cf m, tr).
Definition run_kcases (cs : list kcase) : list (list N) :=
  check_all kstep kaccept kout_eqb 1%N (map kmk cs).
