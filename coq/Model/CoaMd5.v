(* Executable MD5 (RFC 1321) and HMAC-MD5 (RFC 2104) for the EVALUATION of C15 cases.

   The theorems of Props/C15.v are for every digest function H and do not depend on this file.
   [md5] computes on primitive 63-bit integers (Uint63, evaluated natively by vm_compute: about
   0.3 ms per 64-byte block), so the Model and the monitor are run with H := md5 on EVERY step of
   every case; every crypto/md5 digest the driver ships is checked against it (CoaCheck.step), which
   cross-checks this MD5 against Go's on every run. [md5_n] is the earlier implementation on N (20x
   slower), kept as a second opinion: the Examples at the end compare the two and the RFC test
   vectors. *)
From Coq Require Import ZArith NArith List Uint63.
Import ListNotations.

Module Fast.
Local Open Scope uint63_scope.
Definition m32 : int := 4294967295.
Definition add32 (a b : int) : int := (a + b) land m32.
Definition rotl32 (x c : int) : int := ((x << c) land m32) lor (x >> (32 - c)).
Definition not32 (x : int) : int := x lxor m32.

Definition md5_K : list int := [
3614090360; 3905402710; 606105819; 3250441966; 4118548399; 1200080426; 2821735955; 4249261313; 1770035416; 2336552879; 4294925233; 2304563134; 1804603682; 4254626195; 2792965006; 1236535329; 4129170786; 3225465664; 643717713; 3921069994; 3593408605; 38016083; 3634488961; 3889429448; 568446438; 3275163606; 4107603335; 1163531501; 2850285829; 4243563512; 1735328473; 2368359562; 4294588738; 2272392833; 1839030562; 4259657740; 2763975236; 1272893353; 4139469664; 3200236656; 681279174; 3936430074; 3572445317; 76029189; 3654602809; 3873151461; 530742520; 3299628645; 4096336452; 1126891415; 2878612391; 4237533241; 1700485571; 2399980690; 4293915773; 2240044497; 1873313359; 4264355552; 2734768916; 1309151649; 4149444226; 3174756917; 718787259; 3951481745].
Definition md5_S : list int := [
7;12;17;22;7;12;17;22;7;12;17;22;7;12;17;22;
5;9;14;20;5;9;14;20;5;9;14;20;5;9;14;20;
4;11;16;23;4;11;16;23;4;11;16;23;4;11;16;23;
6;10;15;21;6;10;15;21;6;10;15;21;6;10;15;21].
Fixpoint enum {A} (i : int) (l : list A) : list (int * A) :=
  match l with [] => [] | x :: tl => (i, x) :: enum (i + 1) tl end.
Definition md5_tab : list (int * (int * int)) := Eval vm_compute in enum 0 (combine md5_K md5_S).

Fixpoint nthi (n : nat) (l : list int) : int := match l, n with x :: _, O => x | _ :: t, S k => nthi k t | [], _ => 0 end.
Definition md5_step (M : list int) (st : int * int * int * int) (e : int * (int * int)) : int * int * int * int :=
  let '(a, b, c, d) := st in
  let '(i, (k, s)) := e in
  let '(f, g) :=
    if i <? 16 then ((b land c) lor ((not32 b) land d), i)
    else if i <? 32 then ((d land b) lor ((not32 d) land c), (5 * i + 1) land 15)
    else if i <? 48 then ((b lxor c) lxor d, (3 * i + 5) land 15)
    else (c lxor (b lor (not32 d)), (7 * i) land 15) in
  let f' := add32 (add32 (add32 f a) k) (nthi (Z.to_nat (to_Z g)) M) in
  (d, add32 b (rotl32 f' s), b, c).

Fixpoint le_words (n : nat) (l : list int) : list int :=
  match n with
  | O => []
  | S k => match l with
           | b0 :: b1 :: b2 :: b3 :: tl => (b0 + 256 * (b1 + 256 * (b2 + 256 * b3))) :: le_words k tl
           | _ => []
           end
  end.
Definition md5_block (st : int * int * int * int) (blk : list int) :=
  let '(a0, b0, c0, d0) := st in
  let '(a, b, c, d) := fold_left (md5_step (le_words 16 blk)) md5_tab st in
  (add32 a0 a, add32 b0 b, add32 c0 c, add32 d0 d).
Fixpoint md5_blocks (fuel : nat) st (l : list int) :=
  match fuel with
  | O => st
  | S k => match l with
           | [] => st
           | _ => md5_blocks k (md5_block st (firstn 64 l)) (skipn 64 l)
           end
  end.
Fixpoint le_bytes_n (n : nat) (v : int) : list int :=
  match n with O => [] | S k => (v land 255) :: le_bytes_n k (v >> 8) end.
Definition md5_pad (msg : list int) : list int :=
  let n := of_Z (Z.of_nat (length msg)) in
  let z := (55 + 64 - (n land 63)) land 63 in
  msg ++ [128] ++ repeat 0 (Z.to_nat (to_Z z)) ++ le_bytes_n 8 (8 * n).
Definition md5i (msg : list int) : list int :=
  let p := md5_pad msg in
  let '(a, b, c, d) := md5_blocks (S (Nat.div (length p) 64)) (1732584193, 4023233417, 2562383102, 271733878) p in
  le_bytes_n 4 a ++ le_bytes_n 4 b ++ le_bytes_n 4 c ++ le_bytes_n 4 d.
Definition md5 (msg : list N) : list N :=
  map (fun i => Z.to_N (to_Z i)) (md5i (map (fun b => of_Z (Z.of_N b)) msg)).

End Fast.
Definition md5 (msg : list N) : list N := Fast.md5 msg.

Local Open Scope N_scope.
(* ---------- reference copy on N (slow: ~6 ms per 64-byte block); used only by the Examples below ---------- *)
Definition m32_n : N := 4294967295.
Definition add32_n (a b : N) : N := N.land (a + b) m32_n.
Definition rotl32_n (x c : N) : N := N.lor (N.land (N.shiftl x c) m32_n) (N.shiftr x (32 - c)).
Definition not32_n (x : N) : N := N.lxor x m32_n.

Definition md5_K_n : list N := [
3614090360; 3905402710; 606105819; 3250441966; 4118548399; 1200080426; 2821735955; 4249261313; 1770035416; 2336552879; 4294925233; 2304563134; 1804603682; 4254626195; 2792965006; 1236535329; 4129170786; 3225465664; 643717713; 3921069994; 3593408605; 38016083; 3634488961; 3889429448; 568446438; 3275163606; 4107603335; 1163531501; 2850285829; 4243563512; 1735328473; 2368359562; 4294588738; 2272392833; 1839030562; 4259657740; 2763975236; 1272893353; 4139469664; 3200236656; 681279174; 3936430074; 3572445317; 76029189; 3654602809; 3873151461; 530742520; 3299628645; 4096336452; 1126891415; 2878612391; 4237533241; 1700485571; 2399980690; 4293915773; 2240044497; 1873313359; 4264355552; 2734768916; 1309151649; 4149444226; 3174756917; 718787259; 3951481745].
Definition md5_S_n : list N := [
7;12;17;22;7;12;17;22;7;12;17;22;7;12;17;22;
5;9;14;20;5;9;14;20;5;9;14;20;5;9;14;20;
4;11;16;23;4;11;16;23;4;11;16;23;4;11;16;23;
6;10;15;21;6;10;15;21;6;10;15;21;6;10;15;21].

(* (i, K[i], s[i]) *)
Fixpoint enum_n {A} (i : N) (l : list A) : list (N * A) :=
  match l with [] => [] | x :: tl => (i, x) :: enum_n (i + 1) tl end.
Definition md5_tab_n : list (N * (N * N)) := enum_n 0 (combine md5_K_n md5_S_n).

Definition md5_step_n (M : list N) (st : N * N * N * N) (e : N * (N * N)) : N * N * N * N :=
  let '(a, b, c, d) := st in
  let '(i, (k, s)) := e in
  let '(f, g) :=
    if i <? 16 then (N.lor (N.land b c) (N.land (not32_n b) d), i)
    else if i <? 32 then (N.lor (N.land d b) (N.land (not32_n d) c), N.land (5 * i + 1) 15)
    else if i <? 48 then (N.lxor (N.lxor b c) d, N.land (3 * i + 5) 15)
    else (N.lxor c (N.lor b (not32_n d)), N.land (7 * i) 15) in
  let f' := add32_n (add32_n (add32_n f a) k) (nth (N.to_nat g) M 0) in
  (d, add32_n b (rotl32_n f' s), b, c).

Fixpoint le_words_n (n : nat) (l : list N) : list N :=   (* n little-endian 32-bit words *)
  match n with
  | O => []
  | S k => match l with
           | b0 :: b1 :: b2 :: b3 :: tl => (b0 + 256 * (b1 + 256 * (b2 + 256 * b3))) :: le_words_n k tl
           | _ => []
           end
  end.

Definition md5_block_n (st : N * N * N * N) (blk : list N) : N * N * N * N :=
  let '(a0, b0, c0, d0) := st in
  let '(a, b, c, d) := fold_left (md5_step_n (le_words_n 16 blk)) md5_tab_n st in
  (add32_n a0 a, add32_n b0 b, add32_n c0 c, add32_n d0 d).

Fixpoint md5_blocks_n (fuel : nat) (st : N * N * N * N) (l : list N) : N * N * N * N :=
  match fuel with
  | O => st
  | S k => match l with
           | [] => st
           | _ => md5_blocks_n k (md5_block_n st (firstn 64 l)) (skipn 64 l)
           end
  end.

Fixpoint le_bytes_n_n (n : nat) (v : N) : list N :=
  match n with O => [] | S k => N.land v 255 :: le_bytes_n_n k (N.shiftr v 8) end.

Definition md5_pad_n (msg : list N) : list N :=
  let n := N.of_nat (length msg) in
  let z := N.land (55 + 64 - N.land n 63) 63 in   (* zero bytes so that n + 1 + z = 56 mod 64 *)
  msg ++ [128] ++ repeat 0 (N.to_nat z) ++ le_bytes_n_n 8 (N.land (8 * n) 18446744073709551615).

Definition md5_n (msg : list N) : list N :=
  let p := md5_pad_n msg in
  let '(a, b, c, d) := md5_blocks_n (S (Nat.div (length p) 64)) (1732584193, 4023233417, 2562383102, 271733878) p in
  le_bytes_n_n 4 a ++ le_bytes_n_n 4 b ++ le_bytes_n_n 4 c ++ le_bytes_n_n 4 d.



(* ---------- HMAC-MD5 (RFC 2104), block size 64 ---------- *)
Definition hmac_key (k : list N) : list N :=
  let k' := if Nat.ltb 64 (length k) then md5 k else k in
  k' ++ repeat 0 (64 - length k')%nat.
Definition hmac_md5 (k msg : list N) : list N :=
  let k0 := hmac_key k in
  md5 (map (N.lxor 92) k0 ++ md5 (map (N.lxor 54) k0 ++ msg)).

(* ---------- test vectors (RFC 1321 A.5, RFC 2202 case 2) and agreement of the two implementations ---------- *)
Definition abc : list N := [97; 98; 99].
Example md5_empty : md5 [] = [212; 29; 140; 217; 143; 0; 178; 4; 233; 128; 9; 152; 236; 248; 66; 126].
Proof. vm_compute. reflexivity. Qed.
Example md5_abc : md5 abc = [144; 1; 80; 152; 60; 210; 79; 176; 214; 150; 63; 125; 40; 225; 127; 114].
Proof. vm_compute. reflexivity. Qed.
Example md5_n_abc : md5_n abc = md5 abc.
Proof. vm_compute. reflexivity. Qed.
(* lengths around the padding boundaries 55/56/63/64/65 and two blocks *)
Example md5_agree_boundaries :
  forallb (fun n => let m := map N.of_nat (seq 0 n) in
                    if list_eq_dec N.eq_dec (md5 m) (md5_n m) then true else false)
          [0; 1; 54; 55; 56; 57; 63; 64; 65; 119; 120; 128; 200]%nat = true.
Proof. vm_compute. reflexivity. Qed.
(* key "Jefe", data "what do ya want for nothing?" *)
Example hmac_md5_rfc2202_2 :
  hmac_md5 [74; 101; 102; 101]
           [119;104;97;116;32;100;111;32;121;97;32;119;97;110;116;32;102;111;114;32;110;111;116;104;105;110;103;63]
  = [117; 12; 120; 62; 106; 176; 181; 3; 234; 168; 110; 49; 10; 93; 183; 56].
Proof. vm_compute. reflexivity. Qed.
(* key longer than the block: 80 x 0xaa, "Test Using Larger Than Block-Size Key - Hash Key First" (RFC 2202 case 6) *)
Example hmac_md5_rfc2202_6 :
  hmac_md5 (repeat 170 80%nat)
           [84;101;115;116;32;85;115;105;110;103;32;76;97;114;103;101;114;32;84;104;97;110;32;66;108;111;99;107;45;83;105;122;101;32;75;101;121;32;45;32;72;97;115;104;32;75;101;121;32;70;105;114;115;116]
  = [107; 26; 183; 254; 75; 215; 191; 143; 11; 98; 230; 206; 97; 185; 208; 205].
Proof. vm_compute. reflexivity. Qed.
