(* C09 — Spec acceptor (trace monitor) over observed outcomes.
   clause 0  no-panic : no call ends in a recovered panic (index / slice bounds violation)
   clause 1  no-hang  : every call returns within its bound (the harness reports a call that does
                        not return as OHang; the Model reports a loop out of fuel as Hang)
   For an exhaustive block the observed outcome is the vector of class counts: the block is
   rejected when its PANIC (clause 0) or HANG (clause 1) count is not zero. *)
From Coq Require Import NArith List.
From Verif Require Import Model.CodecBase.
Import ListNotations.
Local Open Scope N_scope.

Inductive op :=
| Call (e : N) (p : list N) (d tail : bytes)
| Exhaust (e : N) (p : list N) (len : N) (prefix : bytes).

Definition accept (_ : unit) (o : op) (r : out) : unit + N :=
  match o, r with
  | _, OPanic => inr 0
  | _, OHang => inr 1
  | Exhaust _ _ _ _, OOk [[_; _; np; nh; _]] =>
      if negb (np =? 0) then inr 0 else if negb (nh =? 0) then inr 1 else inl tt
  | _, _ => inl tt
  end.
