(* C09 — entry point evaluated on the harness-written cases: dispatcher from entry-point numbers to
   the Models, exhaustive-block evaluation, ghost markers of the repaired panic sites. *)
From Coq Require Import NArith List Bool.
From Verif Require Import Base.Check Model.CodecBase Model.CodecPPPoE Model.CodecLcp Model.CodecAuth
  Model.CodecDhcp6 Model.CodecMisc Model.CodecGlue Model.CodecSpec.
Import ListNotations.
Local Open Scope N_scope.

Definition pnth (p : list N) (i : nat) : N := nth i p 0.

(* CreateSession table from the case parameters [zero_used; next; free ids...] *)
Definition used_of (p : list N) : N -> bool :=
  fun id => if id =? 0 then negb (pnth p 0 =? 0) else negb (existsb (N.eqb id) (skipn 2 p)).
Definition count_of (p : list N) : N :=
  65535 - lenN (skipn 2 p) + (if pnth p 0 =? 0 then 0 else 1).

Definition call (e : N) (p : list N) (d tail : bytes) : res rows :=
  if e =? 1 then (h <- parse_header d ;; let '(v, c, s, l) := h in Ok [[v; c; s; l]])
  else if e =? 2 then parse_tags d
  else if e =? 3 then (x <- parse_lcp_packet d ;; let '(c, i, l, v) := x in Ok [[c; i; l]; v])
  else if e =? 4 then parse_lcp_options d
  else if e =? 5 then parse_padt d tail
  else if e =? 6 then parse_echo d
  else if e =? 7 then handle_discovery (pnth p 0) d tail
  else if e =? 8 then handle_session (pnth p 0) (pnth p 1) d tail
  else if e =? 9 then (x <- create_session (used_of p) (count_of p) (pnth p 1) ;; Ok [[fst x; snd x]])
  else if e =? 10 then lcp_receive (pnth p 0) (pnth p 1) d
  else if e =? 11 then ipcp_receive (pnth p 0) (pnth p 1) d
  else if e =? 12 then ip6cp_receive (pnth p 0) (pnth p 1) d
  else if e =? 13 then auth_receive (pnth p 0) (pnth p 1) d
  else if e =? 14 then
    (* params [mode; n; zero_used; next; free ids...] *)
    create_seq (N.to_nat (pnth p 1)) (used_of (skipn 2 p)) (count_of (skipn 2 p)) (pnth p 3)
  else if e =? 15 then recv_frame (pnth p 0) (pnth p 1) d tail
  else if e =? 20 then d6_message d
  else if e =? 21 then d6_options d
  else if (e =? 22) || (e =? 23) then d6_ia d
  else if e =? 24 then d6_iaaddr d
  else if e =? 25 then d6_iaprefix d
  else if e =? 26 then d6_duid d
  else if e =? 27 then d6_handle p d
  else if e =? 28 then d6_handle_p p d
  else if e =? 30 then parse_option82 d
  else if e =? 31 then parse_vendor d
  else if e =? 32 then sse_count d
  else if (e =? 33) || (e =? 34) || (e =? 35) then alg_pass (pnth p 0) d
  else Err.

(* ---- exhaustive blocks: all byte strings of length [len] starting with [prefix], lexicographic *)
Definition m32 : N := 4294967295.
Definition fp_row (h : N) (r : list N) : N :=
  fold_left (fun h x => N.land (h * 31 + x) m32) r (N.land (h * 31 + lenN r + 7) m32).
Definition fp (o : out) : N :=
  match o with OOk rs => fold_left fp_row rs 0 | OErr => 1 | OPanic => 2 | OHang => 3 end.

Definition accu := (N * N * N * N * N)%type.
Definition upd (a : accu) (o : out) : accu :=
  let '(c0, c1, c2, c3, s) := a in
  let s' := N.land (s * 1000003 + fp o) m32 in
  match o with
  | OOk _ => (c0 + 1, c1, c2, c3, s')
  | OErr => (c0, c1 + 1, c2, c3, s')
  | OPanic => (c0, c1, c2 + 1, c3, s')
  | OHang => (c0, c1, c2, c3 + 1, s')
  end.
Definition byte_vals : list N := map N.of_nat (seq 0 256).
Fixpoint enum (n : nat) (pre : bytes) (f : bytes -> out) (a : accu) : accu :=
  match n with
  | O => upd a (f pre)
  | S n' => fold_left (fun a b => enum n' (pre ++ [b]) f a) byte_vals a
  end.

Definition run_op (o : op) : out :=
  match o with
  | Call e p d tail => to_out (call e p d tail)
  | Exhaust e p len prefix =>
      let '(c0, c1, c2, c3, s) :=
        enum (N.to_nat len - length prefix) prefix (fun d => to_out (call e p d [])) (0, 0, 0, 0, 0) in
      OOk [[c0; c1; c2; c3; s]]
  end.

(* ---- ghost markers: the input reaches one of the bounds checks added by the C09 fix commits
   (09NN = property 09, site NN; the witnesses of known_findings/C09.json raise them) *)
Definition hdr_len (d : bytes) : N := match be16 d 4 with Ok l => l | _ => 0 end.
Definition markers (o : op) : list N :=
  match o with
  | Call e p d tail =>
      match e with
      | 7 => if (6 <=? lenN d) && (lenN d - 6 <? hdr_len d) then [901] else []
      | 8 => if (8 <=? lenN d) && ((hdr_len d <? 2) || (lenN d - 6 <? hdr_len d)) then [902] else []
      | 13 => if (4 <=? lenN d) && (match be16 d 2 with Ok l => l <? 4 | _ => false end) then [903] else []
      | 10 => match parse_lcp_packet d with
              | Ok (9, _, _, data) => if (pnth p 0 =? 9) && (lenN data <? 4) then [904] else []
              | _ => []
              end
      | 5 => if (6 <? lenN d) && (lenN d - 6 <? hdr_len d) &&
                (match idx d 1 with Ok c => c =? 167 | _ => false end) then [905] else []
      | 9 => if 65535 <=? count_of p then [907] else []
      | 14 => if 65535 <=? count_of (skipn 2 p) + N.of_nat (N.to_nat (pnth p 1)) then [907] else []
      | _ => []
      end
  | _ => []
  end.

Definition step (_ : unit) (o : op) : unit * out * list N := (tt, run_op o, markers o).

Definition case := list (op * out).
Definition mk (c : case) : unit * unit * list (op * out) := (tt, tt, c).
Definition run_cases (cs : list case) : list (list N) :=
  check_all step accept out_eqb 1%N (map mk cs).
