(* C20 — entry points evaluated by the harness-written case files, one per stream/component. *)
From Coq Require Import NArith List Bool.
From Verif Require Import Base.Word Base.Check Model.Keys Model.Indexes Model.KeysMgr Model.KeysSpec.
Import ListNotations.
Local Open Scope N_scope.

(* short constructors used by the driver-written case files (fewer tokens: Coq parses them faster) *)
Definition Sn (f r : list (N * N)) (t : option N) : snap := {| sfwd := f; srev := r; stot := t |}.
Definition Ob (r : ret) (l : list snap) : obs := {| o_ret := r; o_snaps := l |}.

(* the acceptor with a per-case configuration C from which the abstract operation is derived *)
Definition waccept {C O} (ab : C -> O -> aop) (ss : C * sstate) (o : O) (r : obs) : (C * sstate) + N :=
  match accept (snd ss) (ab (fst ss) o) r with
  | inl s' => inl (fst ss, s')
  | inr c => inr c
  end.

(* ---- VLANAllocator ---- *)
Definition vcase := (vcfg * list N * list N * bool * list (vop * obs))%type.   (* cfg, ntes, probe, small, trace *)

Definition v_pairs (c : vcfg) (s : N) : list N := map (pk s) (rangeN (v_cs c) (v_ce c)).
Definition v_absop (cs : vcfg * bool) (o : vop) : aop :=
  let '(c, small) := cs in
  match o with
  | VAlloc n => {| a_touch := [n]; a_atomic := true;
                   a_kind := KAlloc n (if small then Some (flat_map (v_pairs c) (rangeN (v_ss c) (v_se c))) else None) |}
  | VAllocS n s => {| a_touch := [n]; a_atomic := true;
                      a_kind := KAlloc n (if small then Some (if in_s c s then v_pairs c s else []) else None) |}
  | VRelease n => {| a_touch := [n]; a_atomic := true; a_kind := KRelease n |}
  | VLoad l => {| a_touch := map (fun r => fst (fst r)) l; a_atomic := false; a_kind := KOther |}
  end.
Definition v_modes (c : vcfg) : list imode :=
  [ {| im_shared := false; im_range := fun k => in_s c (ps k) && in_c c (pc k) |} ].
Definition mkv (x : vcase) :=
  let '(c, ntes, probe, small, tr) := x in
  (v_init c ntes probe, ((c, small), sinit (v_modes c)), tr).
Definition run_vlan (cs : list vcase) : list (list N) :=
  check_all v_step (waccept v_absop) obs_eqb 1 (map mkv cs).

(* ---- qinq.Mapper ---- *)
Definition qcase := (qcfg * list N * list N * list (qop * obs))%type.
Definition q_absop (c : qcfg) (o : qop) : aop :=
  match o with
  | QReg s x id => {| a_touch := [id]; a_atomic := true;
                      a_kind := KAlloc id (Some (if q_valid c s x then [pk s x] else [])) |}
  | QUnreg s x => {| a_touch := []; a_atomic := true; a_kind := KReleaseKey (pk s x) |}
  | QUnregSub id => {| a_touch := [id]; a_atomic := true; a_kind := KRelease id |}
  end.
Definition q_modes (c : qcfg) : list imode :=
  [ {| im_shared := false; im_range := fun k => q_valid c (ps k) (pc k) |} ].
Definition mkq (x : qcase) :=
  let '(c, subs, probe, tr) := x in (q_init c subs probe, (c, sinit (q_modes c)), tr).
Definition run_qinq (cs : list qcase) : list (list N) :=
  check_all q_step (waccept q_absop) obs_eqb 1 (map mkq cs).

(* ---- pppoe.SessionManager ---- *)
Definition scase := (N * list N * list N * list (sop * obs))%type.    (* initial nextID, probe ids, probe macs *)
Definition s_absop (_ : unit) (o : sop) : aop :=
  match o with
  | SCreate h mac => {| a_touch := [h]; a_atomic := true; a_kind := KAlloc h None |}
  | SRemove id => {| a_touch := []; a_atomic := true; a_kind := KReleaseKey id |}
  | SSetNext _ => {| a_touch := []; a_atomic := true; a_kind := KOther |}
  end.
Definition s_modes : list imode :=
  [ {| im_shared := false; im_range := fun k => negb (k =? 0) && (k <? 65536) |};
    {| im_shared := true; im_range := fun _ => true |} ].
Definition mks (x : scase) :=
  let '(nx, pids, pmacs, tr) := x in (s_init nx pids pmacs, (tt, sinit s_modes), tr).
Definition run_sess (cs : list scase) : list (list N) :=
  check_all s_step (waccept s_absop) obs_eqb 1 (map mks cs).

(* ---- index stores ---- *)
Definition icase := (N * list N * list (list N) * list (iop * obs))%type.  (* kind, ids, probe keys per index *)
Definition i_absop (_ : unit) (o : iop) : aop :=
  match o with
  | ICreate id _ => {| a_touch := [id]; a_atomic := true; a_kind := KOther |}
  | IUpdate id _ => {| a_touch := [id]; a_atomic := true; a_kind := KOther |}
  | IDelete id => {| a_touch := [id]; a_atomic := true; a_kind := KRelease id |}
  end.
Definition mki (x : icase) :=
  let '(kind, ids, probe, tr) := x in
  (i_init kind ids probe,
   (tt, sinit (map (fun _ => {| im_shared := true; im_range := fun _ => true |}) probe)), tr).
Definition run_idx (cs : list icase) : list (list N) :=
  check_all i_step (waccept i_absop) obs_eqb 1 (map mki cs).

(* ---- subscriber.Manager, one critical section per step ---- *)
Definition gcase := (N * list N * list N * list (gop * obs))%type.     (* MaxSessions, probed MACs, probed IPs *)
Definition g_absop (_ : unit) (o : gop) : aop :=
  match o with
  | GCreate id _ | GAssignBegin id | GAssignWrite id _ | GAssignEnd id | GActivate id | GTermBegin id =>
      {| a_touch := [id]; a_atomic := true; a_kind := KOther |}
  | GTermEnd id | GTerm id => {| a_touch := [id]; a_atomic := true; a_kind := KRelease id |}
  end.
Definition g_modes : list imode :=
  [ {| im_shared := true; im_range := fun _ => true |}; {| im_shared := true; im_range := fun _ => true |} ].
Definition mkg (x : gcase) :=
  let '(cap, pmacs, pips, tr) := x in (g_init cap pmacs pips, (tt, sinit g_modes), tr).
Definition run_mgr (cs : list gcase) : list (list N) :=
  check_all g_step (waccept g_absop) obs_eqb 1 (map mkg cs).

(* ---- circuit-id keys ---- *)
(* byte strings are written by the driver as (B length words): big-endian 6-byte words, zero padded
   (one numeral per byte is slow to parse, one huge numeral is slower still) *)
Definition B (len : N) (ws : list N) : bytes := firstn (N.to_nat len) (flat_map (be_bytes 6) ws).
Definition ccase := list (cop * cout).
Definition run_ckey (cs : list ccase) : list (list N) :=
  check_all c_step c_accept cout_eqb 1 (map (fun tr => (tt, cinit, tr)) cs).

(* ---- one case type for all components, so that a stream (corpus, guarded, defect) can mix them ---- *)
Inductive ucase :=
| UV (c : vcase) | UQ (c : qcase) | US (c : scase) | UI (c : icase) | UC (c : ccase) | UG (c : gcase).

Definition run1 (u : ucase) : list N :=
  match u with
  | UV c => let '(s0, ss0, tr) := mkv c in check_case v_step (waccept v_absop) obs_eqb s0 ss0 tr
  | UQ c => let '(s0, ss0, tr) := mkq c in check_case q_step (waccept q_absop) obs_eqb s0 ss0 tr
  | US c => let '(s0, ss0, tr) := mks c in check_case s_step (waccept s_absop) obs_eqb s0 ss0 tr
  | UI c => let '(s0, ss0, tr) := mki c in check_case i_step (waccept i_absop) obs_eqb s0 ss0 tr
  | UC tr => check_case c_step c_accept cout_eqb tt cinit tr
  | UG c => let '(s0, ss0, tr) := mkg c in check_case g_step (waccept g_absop) obs_eqb s0 ss0 tr
  end.

Fixpoint run_from (i : N) (cs : list ucase) : list (list N) :=
  match cs with
  | [] => []
  | c :: tl =>
      match run1 c with
      | 0 :: 0 :: 0 :: 0 :: 0 :: [] => run_from (i + 1) tl
      | v => (i :: v) :: run_from (i + 1) tl
      end
  end.
Definition run_cases (cs : list ucase) : list (list N) := run_from 1 cs.
