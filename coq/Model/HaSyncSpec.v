(* Executable monitor for C13 over an observed trace (operation, observation after it).  It sees
   both stores, the standby's received map, the queue lengths, the link state and, for pushes,
   broadcasts and deliveries, the message concerned.  Clauses, as in the property text:

   0  after_full_sync_equal   : immediately after a completed full synchronisation the standby's
                                store (and received map) equals the active's table (= the snapshot:
                                the full sync is one atomic step of the schedule)
   1  stream_applies_in_order : broadcasts leave the pending queue in push order; deliveries reach
                                the standby in the order they entered the stream and AS PUSHED (the
                                decoded message equals the in-memory message that was broadcast:
                                every field of the record, the sequence number, add/update); a
                                delivery changes the standby's store exactly by that message (an
                                add/update REPLACES the stored record by the pushed one — a field
                                that went back to its zero value is zero on the standby — whatever
                                the old record was); nothing else but a full sync changes the
                                standby's store
   2  quiescent_convergence   : link streaming, nothing pending, nothing in the standby's current
                                stream => standby store = active store
   3  no_change_lost_connected: while the stream is connected (from the instant the standby sees
                                it connected: the first flush) no pushed change is refused (queue
                                full) or fails to enter the standby's stream (channel full, or the
                                stream not / no longer registered on the active)
   9  malformed observation *)
From Coq Require Import NArith List Bool.
From Verif Require Import Model.HaSync.
Import ListNotations.
Local Open Scope N_scope.

Record sstate := mkSS { s_pend : list msg; s_q : list msg; s_sby : table; s_lnk : link }.
Definition sinit : sstate := mkSS [] [] [] LDown.

Definition snext (ss : sstate) (o : op) (ob : out) : sstate :=
  let p := match o, o_res ob with
           | Restart, _ => []
           | _, RPush m true => s_pend ss ++ [m]
           | Broadcast, RBcast m _ => tl (s_pend ss)
           | _, _ => s_pend ss
           end in
  let q := match o, o_res ob with
           | _, RBcast m BQueued => s_q ss ++ [m]
           | _, RDeliver _ => tl (s_q ss)
           | Attach, RNone => [MHb 0]      (* the initial heartbeat, in the handler's hands *)
           | Disconnect, RNone => []
           | Drop, RNone => []
           | Restart, _ => []
           | _, _ => s_q ss
           end in
  mkSS p q (o_sby ob) (o_lnk ob).

Definition head_is (l : list msg) (m : msg) : bool :=
  match l with x :: _ => msg_eqb x m | [] => false end.

Definition v0 (o : op) (ob : out) : bool :=
  match o, o_res ob with
  | FullSync, RSync true => negb (teqb (o_sby ob) (o_act ob) && teqb (o_rcv ob) (o_act ob))
  | _, _ => false
  end.

Definition v1 (ss : sstate) (o : op) (ob : out) : bool :=
  match o, o_res ob with
  | Broadcast, RBcast m _ => negb (head_is (s_pend ss) m && teqb (o_sby ob) (s_sby ss))
  | Deliver, RDeliver m => negb (head_is (s_q ss) m && teqb (o_sby ob) (apply_msg m (s_sby ss)))
  | FullSync, RSync true => false
  | _, _ => negb (teqb (o_sby ob) (s_sby ss))
  end.

(* [qempty]: nothing is on its way in the standby's current stream *)
Definition v2 (qempty : bool) (ob : out) : bool :=
  match o_lnk ob with
  | LStreaming => (o_plen ob =? 0) && qempty && negb (teqb (o_sby ob) (o_act ob))
  | _ => false
  end.
Definition nilb {A} (l : list A) : bool := match l with [] => true | _ => false end.

Definition v3 (ss : sstate) (ob : out) : bool :=
  match s_lnk ss, o_res ob with
  | LStreaming, RPush _ false => true
  | LStreaming, RBcast (MPut _ _ _ _) BDropped | LStreaming, RBcast (MDel _ _) BDropped => true
  | _, _ => false
  end.

Definition v9 (o : op) (ob : out) : bool :=
  match o, o_res ob with
  | Put _ _, RPush _ _ | Del _, RPush _ _ => false
  | Broadcast, RBcast _ _ | Broadcast, RSkip => false
  | Heartbeat, RBcast (MHb _) _ => false
  | FullSync, RSync _ | FullSync, RSkip => false
  | SyncFail, RSync false | SyncFail, RSkip => false
  | Restart, RNone => false
  | Attach, RNone | Attach, RSkip => false
  | Deliver, RDeliver _ | Deliver, RSkip => false
  | Disconnect, RNone | Disconnect, RSkip => false
  | Drop, RNone | Drop, RSkip => false
  | Reap, RNone | Reap, RSkip => false
  | _, _ => true
  end.

Definition flag (b : bool) (k : N) : list N := if b then [k] else [].
Definition viol (ss : sstate) (o : op) (ob : out) : list N :=
  flag (v0 o ob) 0 ++ flag (v1 ss o ob) 1 ++ flag (v2 (nilb (s_q (snext ss o ob))) ob) 2
  ++ flag (v3 ss ob) 3 ++ flag (v9 o ob) 9.

Definition accept_m (m : N -> bool) (ss : sstate) (o : op) (ob : out) : sstate + N :=
  match filter m (viol ss o ob) with
  | [] => inl (snext ss o ob)
  | cl :: _ => inr cl
  end.
Definition accept : sstate -> op -> out -> sstate + N := accept_m (fun _ => true).
Definition only (k : N) : N -> bool := N.eqb k.

(* the monitor run against the Model itself *)
Fixpoint monitor (m : N -> bool) (c : config) (s : state) (ss : sstate) (ops : list op) : option N :=
  match ops with
  | [] => None
  | o :: tl =>
      let '(s', ob, _) := step c s o in
      match accept_m m ss o ob with
      | inl ss' => monitor m c s' ss' tl
      | inr cl => Some cl
      end
  end.

(* guard: no change is lost on the way (the Model raises no marker at any step of the run):
   no broadcast of a queued change between a full sync and the stream attach, no channel overflow *)
Fixpoint lossless (c : config) (s : state) (ops : list op) : bool :=
  match ops with
  | [] => true
  | o :: tl => let '(s', _, mk) := step c s o in
               match mk with [] => lossless c s' tl | _ => false end
  end.

(* weaker guard for the convergence clause: what was lost on the STREAM (a change broadcast to nobody
   between a full sync and the attach, 1302; a change dropped on a full client channel, 1303) is
   repaired by the next completed full sync, and a restart of the active empties its queues; only a
   change refused by the full pending queue (1304: the store was updated, nothing was queued) stays
   harmful while older messages about that session may still be queued — until the active restarts. *)
Inductive taint := Clean | StreamLoss | PushLoss.
Definition has (k : N) (mk : list N) : bool := existsb (N.eqb k) mk.
Definition taint_step (t : taint) (o : op) (ob : out) (mk : list N) : taint :=
  match o with
  | Restart => Clean
  | _ =>
    if has 1304 mk then PushLoss else
    match t with
    | PushLoss => PushLoss
    | _ => match o_res ob with
           | RSync true => Clean
           | _ => if has 1302 mk || has 1303 mk then StreamLoss else t
           end
    end
  end.
Fixpoint taint_run (c : config) (s : state) (t : taint) (ops : list op) : taint :=
  match ops with
  | [] => t
  | o :: tl => let '(s', ob, mk) := step c s o in taint_run c s' (taint_step t o ob mk) tl
  end.
Definition healed (c : config) (s : state) (ops : list op) : bool :=
  match taint_run c s Clean ops with Clean => true | _ => false end.
