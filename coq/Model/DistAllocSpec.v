(* Executable monitor (Spec acceptor) for C12 over observed traces of a DistributedAllocator.
   It never looks at the Model's state: it only relates the observed snapshots (Get of every
   subscriber, store records) of consecutive steps, as the property text does.

   clause 0  unique                  no address is reported for two subscribers (every step)
   clause 1  restart_preserves       at a restart: every subscriber recorded in the store (record
                                     inside the pool, address named by no other record, no dropped
                                     conflicting announcement pending for it) that held an address
                                     before the stop holds the same address afterwards
   clause 2  write_failure_agreement a call whose store write failed leaves memory and store in
                                     agreement about that subscriber (if they agreed before)
   clause 3  remote_applies          after a change announced by another node the subscriber holds
                                     the announced address (not demanded when the address is outside
                                     the pool, is held by another subscriber — then the change cannot
                                     be applied without giving one address to two subscribers — or, in
                                     lease mode, when the announced lease is already expired);
                                     after an announced delete the subscriber holds nothing
   clause 9  malformed trace *)
From Coq Require Import NArith List Bool.
From Verif Require Import Base.Word Model.PoolMap Model.Geometry Model.PoolSpec Model.Bitmap Model.DistAlloc.
Import ListNotations.
Local Open Scope N_scope.

(* [ds_taint]: subscribers for which a remote put could not be applied (the announced unit is held by
   another subscriber).  The monitor accepted that drop (clause 3 cannot be demanded), so memory and
   store knowingly disagree about such a subscriber: it is outside the restart claim until memory and
   store agree about it again. *)
Record dsst := { ds_cfg : cfg; ds_mem : list (N * N); ds_store : list (N * (N * N * N)); ds_epoch : N; ds_taint : list N }.
Definition dsinit (c : cfg) : dsst := {| ds_cfg := c; ds_mem := []; ds_store := []; ds_epoch := 2; ds_taint := [] |}.

Fixpoint assoc {V} (k : N) (l : list (N * V)) : option V :=
  match l with [] => None | (k', v) :: tl => if k' =? k then Some v else assoc k tl end.

(* the pool unit an (address, prefix length) names, None when outside the pool *)
Definition canon (c : cfg) (a pl : N) : option N :=
  if c_lease c then
    let g := c_geo c in
    if negb (pl =? 32) then None
    else if 2 ^ (g_pl g - g_ppl g) <=? sub_bytes32 a (g_base g) then None else Some a
  else bitmap_canon (c_geo c) a pl.

Definition rec_unit (c : cfg) (x : N * (N * N * N)) : option N :=
  let '(_, (a, pl, _)) := x in canon c a pl.

Definition store_unit (c : cfg) (st : list (N * (N * N * N))) (h : N) : option N :=
  match assoc h st with Some (a, pl, _) => canon c a pl | None => None end.

(* records of [st] other than h's that name unit u *)
Definition named_by_other (c : cfg) (st : list (N * (N * N * N))) (h u : N) : bool :=
  existsb (fun x => negb (fst x =? h) && opt_eqb (rec_unit c x) (Some u)) st.

Definition held_by_other (mem : list (N * N)) (h u : N) : bool :=
  existsb (fun p => negb (fst p =? h) && (snd p =? u)) mem.

Definition restart_ok (c : cfg) (taint : list N) (st : list (N * (N * N * N))) (before after : list (N * N)) : bool :=
  forallb (fun x =>
    match rec_unit c x with
    | None => true
    | Some u =>
        if named_by_other c st (fst x) u || memN (fst x) taint then true
        else match assoc (fst x) before with
             | None => true
             | Some b => opt_eqb (assoc (fst x) after) (Some b)
             end
    end) st.

Definition agree_at (c : cfg) (mem : list (N * N)) (st : list (N * (N * N * N))) (h : N) : bool :=
  opt_eqb (assoc h mem) (match assoc h st with Some (a, _, _) => Some a | None => None end).

Definition upd (s : dsst) (o : dout) : dsst :=
  {| ds_cfg := ds_cfg s; ds_mem := o_mem o; ds_store := o_store o; ds_epoch := ds_epoch s;
     ds_taint := filter (fun h => negb (agree_at (ds_cfg s) (o_mem o) (o_store o) h)) (ds_taint s) |}.
Definition upd_epoch (s : dsst) (e : N) : dsst :=
  {| ds_cfg := ds_cfg s; ds_mem := ds_mem s; ds_store := ds_store s; ds_epoch := e; ds_taint := ds_taint s |}.
Definition add_taint (s : dsst) (h : N) : dsst :=
  {| ds_cfg := ds_cfg s; ds_mem := ds_mem s; ds_store := ds_store s; ds_epoch := ds_epoch s; ds_taint := h :: ds_taint s |}.

Definition failure_ok (s : dsst) (h : N) (o : dout) : bool :=
  negb (agree_at (ds_cfg s) (ds_mem s) (ds_store s) h) || agree_at (ds_cfg s) (o_mem o) (o_store o) h.

Definition daccept (s : dsst) (op : dop) (o : dout) : dsst + N :=
  if negb (nodupb (map snd (o_mem o))) then inr 0
  else
    let c := ds_cfg s in
    match op, o_ret o with
    | DAlloc h _ fail, RErr 6 => if failure_ok s h o then inl (upd s o) else inr 2
    | DAlloc h _ _, RUnit _ => inl (upd s o)
    | DAlloc h _ _, RErr _ => inl (upd s o)
    | DRelease h _, RErr 6 => if failure_ok s h o then inl (upd s o) else inr 2
    | DRelease h _, ROk => inl (upd s o)
    | DRelease h _, RErr _ => inl (upd s o)
    | DRenew h _ _, RErr 6 => if failure_ok s h o then inl (upd s o) else inr 2
    | DRenew h _ _, ROk => inl (upd s o)
    | DRenew h _ _, RErr _ => inl (upd s o)
    | DGet _, RUnit _ => inl (upd s o)
    | DGet _, RNone => inl (upd s o)
    | DGetBy _ _, RHolder _ => inl (upd s o)
    | DGetBy _ _, RNone => inl (upd s o)
    | DStats, RStats _ _ _ _ => inl (upd s o)
    | DAdvance, REpoch e => inl (upd_epoch (upd s o) e)
    | DRestart _, ROk =>
        if restart_ok c (ds_taint s) (ds_store s) (ds_mem s) (o_mem o) then inl (upd_epoch (upd s o) 2) else inr 1
    | DRemotePut h a pl ep, ROk =>
        match canon c a pl with
        | None => inl (upd s o)
        | Some u =>
            if held_by_other (ds_mem s) h u then inl (upd (add_taint s h) o)
            else if c_lease c && (2 <=? ds_epoch s) && (ep <? ds_epoch s - 2) then inl (upd s o)
            else if opt_eqb (assoc h (o_mem o)) (Some u) then inl (upd s o) else inr 3
        end
    | DRemoteDel h, ROk => if opt_eqb (assoc h (o_mem o)) None then inl (upd s o) else inr 3
    | DEcho _ _, ROk => inl (upd s o)
    | _, _ => inr 9
    end.

Definition ret_eqb (a b : ret) : bool :=
  match a, b with
  | RUnit u, RUnit v => u =? v
  | RNone, RNone => true
  | ROk, ROk => true
  | RErr e, RErr f => e =? f
  | RHolder h, RHolder k => h =? k
  | RStats a1 t1 n1 d1, RStats a2 t2 n2 d2 => (a1 =? a2) && (t1 =? t2) && ratio_close n1 d1 n2 d2
  | REpoch e, REpoch f => e =? f
  | _, _ => false
  end.

Fixpoint recs_eqb (a b : list (N * (N * N * N))) : bool :=
  match a, b with
  | [], [] => true
  | (h, (x, y, z)) :: a', (h', (x', y', z')) :: b' =>
      (h =? h') && (x =? x') && (y =? y') && (z =? z') && recs_eqb a' b'
  | _, _ => false
  end.

Definition dout_eqb (a b : dout) : bool :=
  ret_eqb (o_ret a) (o_ret b) && pairs_eqb (o_mem a) (o_mem b) && recs_eqb (o_store a) (o_store b).

(* the harness alphabet: remote events carry store keys; the monitor judges the op they denote *)
Definition waccept (w : wire) (s : dsst) (o : wop) (r : dout) : dsst + N :=
  match wtrans w o with
  | Some d => daccept s d r
  | None => if negb (nodupb (map snd (o_mem r))) then inr 0 else inl (upd s r)
  end.
