(* Model of the message layer of pkg/ha/sync.go (+ store.go, protocol.go): an active HASyncer, a
   standby HASyncer, and the link between them.

   A session is (id, record): the id stands for SessionState.SessionID (the key of the store and of
   the received map), the record [rec] carries EVERY other field of ha.SessionState, one value per
   entry of the generated list [HaSyncFields.fields] (struct order; 0 = the field's Go zero value).
   The active serialises a record with encoding/json ([enc]: a field tagged omitempty is left out
   when it holds its zero value — except time.Time, for which omitempty has no effect; a field
   tagged "-" is never written) and the standby decodes it into a FRESH SessionState ([dec_into zero]:
   a field absent from the JSON object keeps the value of the struct decoded into, here zero).
   Tables are lists indexed by id ([None] = absent; beyond the end = absent).

   The active's pendingChanges channel (capacity [c_pcap]) and the standby's SSE client channel on the
   active ([c_ccap] = channel capacity + the one message the stream handler holds while its write is
   blocked) are FIFO lists of in-memory messages with the code's drop-on-full behaviour; the JSON
   round trip happens when a message leaves the client channel (sendSSE / handleSSEData) and when a
   snapshot is served (handleGetSessions / performFullSync).  The standby's standbyLoop sequencing
   (full sync, then stream attach, until disconnect) is the link state.

   Ghost markers:
     1302  a queued change is broadcast to nobody between a completed full sync and the stream
           attach (it is in neither the snapshot nor the stream)
     1303  a change is dropped because the client channel is full
     1304  a change is refused because the pending queue is full

   The active's client registry (sseClients): the standby's current stream is [cq]; streams of the
   standby whose handler is still attached on the active although the standby has lost them (half-open
   connection, link flap: op [Drop]) stay registered as zombies [zs] (their queue lengths: they are
   still broadcast to, nobody reads them) until their handler exits ([Reap]: it unregisters ITS OWN
   entry).  A new stream can be attached while zombies exist.  The stream handler registers its channel
   BEFORE it sends (and blocks in the flush of) the initial heartbeat: [Attach] leaves that heartbeat
   in the handler's hands, the client is registered from that instant. *)
From Coq Require Import NArith List Bool.
From Verif Require Import Model.HaSyncFields.
Import ListNotations.
Local Open Scope N_scope.

(* ---- the session record and its JSON round trip ---- *)
Definition rec := list N.
Definition nf : nat := length fields.

(* a SessionState has exactly the fields of the struct: a shorter list is read as padded with zero
   values, a longer one as cut (only totalises the op type; the drivers always give [nf] values) *)
Fixpoint norm_n (n : nat) (r : rec) : rec :=
  match n with O => [] | S k => hd 0 r :: norm_n k (tl r) end.
Definition norm (r : rec) : rec := norm_n nf r.

Definition is_time (k : fkind) : bool := match k with KTime => true | _ => false end.
(* omitempty drops "false, 0, a nil pointer, a nil interface value, and any empty array, slice, map,
   or string": never a struct such as time.Time *)
Definition omits (f : fspec) : bool := f_omit f && negb (is_time (f_kind f)).

(* json.Marshal of a SessionState: per field, in struct order, the value written or None *)
Fixpoint enc (fs : list fspec) (r : rec) : list (option N) :=
  match fs with
  | [] => []
  | f :: fs' =>
      let v := hd 0 r in
      (if negb (f_ser f) then None else if omits f && (v =? 0) then None else Some v)
      :: enc fs' (tl r)
  end.
(* json.Unmarshal into an existing struct value: a field absent from the object is left alone *)
Fixpoint dec_into (base : rec) (w : list (option N)) : rec :=
  match w with
  | [] => []
  | o :: w' => (match o with Some v => v | None => hd 0 base end) :: dec_into (tl base) w'
  end.
Definition zero_rec : rec := repeat 0 nf.
(* what the standby holds after decoding what the active encoded: DecodeSyncMessage and
   json.NewDecoder(...).Decode(&msg) both decode into a fresh (zero) SyncMessage *)
Definition wire (r : rec) : rec := dec_into zero_rec (enc fields r).

Inductive link := LDown | LSynced | LStreaming.
(* add/update (upd = the message type is "update"), delete, heartbeat; sq = SequenceNum *)
Inductive msg := MPut (id : N) (upd : bool) (r : rec) (sq : N) | MDel (id sq : N) | MHb (sq : N).
Definition table := list (option rec).

Definition wire_msg (m : msg) : msg :=
  match m with MPut id u r sq => MPut id u (wire r) sq | _ => m end.

Record config := { c_pcap : N; c_ccap : N }.

Record state := mkS {
  act : table;          (* active node's session store *)
  sby : table;          (* standby's session store *)
  rcv : table;          (* standby's receivedSessions map *)
  sqn : N;              (* active's sequenceNum *)
  pend : list msg;      (* active's pendingChanges *)
  cq : list msg;        (* the standby's client channel on the active (head = oldest) *)
  lnk : link;
  zs : list N           (* zombie registrations on the active: queue length of each (oldest first) *)
}.

Definition init : state := mkS [] [] [] 0 [] [] LDown [].

Fixpoint tset (t : table) (i : nat) (x : option rec) : table :=
  match t, i with
  | [], O => [x]
  | [], S j => None :: tset [] j x
  | _ :: tl, O => x :: tl
  | y :: tl, S j => y :: tset tl j x
  end.
Definition lookup (t : table) (id : N) : option rec := nth (N.to_nat id) t None.

(* handleSSEData on the standby's store / received map, for a DECODED message: the decoded session
   replaces whatever was stored under its id (add and update alike) *)
Definition apply_msg (m : msg) (t : table) : table :=
  match m with
  | MPut id _ r _ => tset t (N.to_nat id) (Some r)
  | MDel id _ => tset t (N.to_nat id) None
  | MHb _ => t
  end.

(* handleGetSessions: the snapshot of the active's store as the standby decodes it *)
Definition snapshot (a : table) : table := map (option_map wire) a.

(* performFullSync on the standby's store: every snapshot session is Put; every stored session the
   snapshot lacks is Deleted (fix 13a; before it the second case kept the old entry) *)
Fixpoint fsync (snap old : table) : table :=
  match snap with
  | [] => map (fun _ => None) old                    (* not in the snapshot: deleted *)
  | s :: snap' => s :: fsync snap' (tl old)           (* Some v: Put; None: deleted / absent *)
  end.

Inductive op :=
| Put (id : N) (r : rec) (* session manager: store.PutSession + PushChange(add/update) *)
| Del (id : N)          (* store.DeleteSession + PushChange(delete) *)
| Broadcast             (* broadcastLoop: one pending change to broadcastToClients *)
| Heartbeat             (* broadcastLoop: heartbeat tick *)
| FullSync              (* standby: performFullSync (GET snapshot, apply) *)
| SyncFail              (* standby: performFullSync fails (refused, cut while the body is in
                           flight, undecodable): nothing is applied, standbyLoop starts over *)
| Attach                (* standby: connectToStream succeeded (after a full sync) *)
| Deliver               (* the oldest message in the stream reaches handleSSEData *)
| Disconnect            (* orderly: the active's handler notices and unregisters *)
| Drop                  (* the standby loses the stream, the active's handler stays attached (zombie) *)
| Reap                  (* the oldest zombie handler exits: deferred delete of its registration *)
| Restart.              (* the active process restarts: empty store, sequence numbers from 0,
                           queues gone, the stream (if any) is closed *)

Inductive bres := BQueued | BDropped | BNoClient.
Inductive res :=
| RNone | RSkip
| RPush (m : msg) (ok : bool)
| RBcast (m : msg) (b : bres)
| RDeliver (m : msg)
| RSync (ok : bool).

Record out := mkOut {
  o_act : table; o_sby : table; o_rcv : table;
  o_plen : N; o_qlen : N; o_lnk : link; o_res : res;
  o_ncl : N             (* number of registered stream clients on the active *)
}.

Definition len {A} (l : list A) : N := N.of_nat (length l).

Definition push (c : config) (s : state) (a : table) (m : msg) : state * res * list N :=
  if len (pend s) <? c_pcap c
  then (mkS a (sby s) (rcv s) (sqn s + 1) (pend s ++ [m]) (cq s) (lnk s) (zs s), RPush m true, [])
  else (mkS a (sby s) (rcv s) (sqn s + 1) (pend s) (cq s) (lnk s) (zs s), RPush m false, [1304]).

(* a zombie's channel takes the message too (or drops it when full); nobody reads it *)
Definition zbump (c : config) (z : list N) : list N :=
  map (fun n => if n <? c_ccap c then n + 1 else n) z.

(* broadcastToClients for one message *)
Definition bcast (c : config) (s : state) (p : list msg) (m : msg) (change : bool) : state * res * list N :=
  let z := zbump c (zs s) in
  match lnk s with
  | LStreaming =>
      if len (cq s) <? c_ccap c
      then (mkS (act s) (sby s) (rcv s) (sqn s) p (cq s ++ [m]) (lnk s) z, RBcast m BQueued, [])
      else (mkS (act s) (sby s) (rcv s) (sqn s) p (cq s) (lnk s) z, RBcast m BDropped,
            if change then [1303] else [])
  | LSynced =>
      (mkS (act s) (sby s) (rcv s) (sqn s) p (cq s) (lnk s) z, RBcast m BNoClient,
       if change then [1302] else [])
  | LDown => (mkS (act s) (sby s) (rcv s) (sqn s) p (cq s) (lnk s) z, RBcast m BNoClient, [])
  end.

Definition isSome {A} (x : option A) : bool := match x with Some _ => true | None => false end.

Definition step_core (c : config) (s : state) (o : op) : state * res * list N :=
  match o with
  | Put id r =>
      let r' := norm r in
      push c s (tset (act s) (N.to_nat id) (Some r')) (MPut id (isSome (lookup (act s) id)) r' (sqn s + 1))
  | Del id => push c s (tset (act s) (N.to_nat id) None) (MDel id (sqn s + 1))
  | Broadcast =>
      match pend s with
      | [] => (s, RSkip, [])
      | m :: tl => bcast c s tl m true
      end
  | Heartbeat => bcast c s (pend s) (MHb (sqn s)) false
  | FullSync =>
      match lnk s with
      | LStreaming => (s, RSkip, [])
      | _ => let snap := snapshot (act s) in
             (mkS (act s) (fsync snap (sby s)) snap (sqn s) (pend s) (cq s) LSynced (zs s), RSync true, [])
      end
  | SyncFail =>
      match lnk s with
      | LStreaming => (s, RSkip, [])
      | _ => (mkS (act s) (sby s) (rcv s) (sqn s) (pend s) (cq s) LDown (zs s), RSync false, [])
      end
  | Attach =>
      match lnk s with
      | LSynced => (mkS (act s) (sby s) (rcv s) (sqn s) (pend s) [MHb 0] LStreaming (zs s), RNone, [])
      | _ => (s, RSkip, [])
      end
  | Deliver =>
      match lnk s, cq s with
      | LStreaming, m :: tl =>
          let m' := wire_msg m in
          (mkS (act s) (apply_msg m' (sby s)) (apply_msg m' (rcv s)) (sqn s) (pend s) tl (lnk s) (zs s), RDeliver m', [])
      | _, _ => (s, RSkip, [])
      end
  | Disconnect =>
      match lnk s with
      | LDown => (s, RSkip, [])
      | _ => (mkS (act s) (sby s) (rcv s) (sqn s) (pend s) [] LDown (zs s), RNone, [])
      end
  | Drop =>
      match lnk s with
      | LStreaming => (mkS (act s) (sby s) (rcv s) (sqn s) (pend s) [] LDown (zs s ++ [len (cq s)]), RNone, [])
      | _ => (s, RSkip, [])
      end
  | Reap =>
      match zs s with
      | [] => (s, RSkip, [])
      | _ :: z => (mkS (act s) (sby s) (rcv s) (sqn s) (pend s) (cq s) (lnk s) z, RNone, [])
      end
  | Restart => (mkS [] (sby s) (rcv s) 0 [] [] LDown [], RNone, [])
  end.

Definition observe (s : state) (r : res) : out :=
  mkOut (act s) (sby s) (rcv s) (len (pend s)) (len (cq s) + fold_right N.add 0 (zs s)) (lnk s) r
        ((match lnk s with LStreaming => 1 | _ => 0 end) + len (zs s)).

Definition step (c : config) (s : state) (o : op) : state * out * list N :=
  let '(s1, r, mk) := step_core c s o in (s1, observe s1 r, mk).

Definition run (c : config) (s : state) (ops : list op) : state :=
  fold_left (fun s o => fst (fst (step c s o))) ops s.

(* ---- equality on observations; tables are compared as maps (trailing absents ignored), records
   field by field ---- *)
Fixpoint req (a b : rec) : bool :=
  match a, b with
  | [], [] => true
  | x :: a', y :: b' => (x =? y) && req a' b'
  | _, _ => false
  end.
Definition oeqb (a b : option rec) : bool :=
  match a, b with None, None => true | Some x, Some y => req x y | _, _ => false end.
Definition isnone (x : option rec) : bool := match x with None => true | Some _ => false end.
Fixpoint teqb (a b : table) : bool :=
  match a, b with
  | [], _ => forallb isnone b
  | _, [] => forallb isnone a
  | x :: a', y :: b' => oeqb x y && teqb a' b'
  end.
Definition msg_eqb (a b : msg) : bool :=
  match a, b with
  | MPut i u v s, MPut i' u' v' s' => (i =? i') && Bool.eqb u u' && req v v' && (s =? s')
  | MDel i s, MDel i' s' => (i =? i') && (s =? s')
  | MHb s, MHb s' => s =? s'
  | _, _ => false
  end.
Definition link_eqb (a b : link) : bool :=
  match a, b with LDown, LDown | LSynced, LSynced | LStreaming, LStreaming => true | _, _ => false end.
Definition bres_eqb (a b : bres) : bool :=
  match a, b with BQueued, BQueued | BDropped, BDropped | BNoClient, BNoClient => true | _, _ => false end.
Definition res_eqb (a b : res) : bool :=
  match a, b with
  | RNone, RNone | RSkip, RSkip => true
  | RPush m x, RPush m' x' => msg_eqb m m' && Bool.eqb x x'
  | RBcast m x, RBcast m' x' => msg_eqb m m' && bres_eqb x x'
  | RDeliver m, RDeliver m' => msg_eqb m m'
  | RSync x, RSync x' => Bool.eqb x x'
  | _, _ => false
  end.
Definition out_eqb (a b : out) : bool :=
  teqb (o_act a) (o_act b) && teqb (o_sby a) (o_sby b) && teqb (o_rcv a) (o_rcv b)
  && (o_plen a =? o_plen b) && (o_qlen a =? o_qlen b) && link_eqb (o_lnk a) (o_lnk b)
  && res_eqb (o_res a) (o_res b) && (o_ncl a =? o_ncl b).
