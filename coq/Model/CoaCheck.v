(* Entry point evaluated by the harness-written case files for C15.

   The theorems of Props/C15.v hold for every digest function H.  To EVALUATE the Model and the
   monitor on harness cases a concrete H is needed: H := md5, the executable MD5 (RFC 1321) of
   Model/CoaMd5.v, on EVERY step of every case. So the monitor itself decides "the Request
   Authenticator verifies" and "the Response Authenticator of the datagram that was sent verifies";
   it does not take these facts from the driver. The crypto/md5 digests the driver computed (for its
   own verdict [o_authentic] and for every response it observed) are shipped as a table and each entry
   is compared with md5 of its key: a disagreement between Gallina md5 and crypto/md5 is reported as
   [OMiss] (a tie-1 mismatch by construction). No theorem depends on this MD5. *)
From Coq Require Import NArith List Bool.
From Verif Require Import Base.Word Base.Check Model.Coa Model.CoaSpec Model.CoaMd5.
Import ListNotations.
Local Open Scope N_scope.

(* ---------- oracle instances ---------- *)
Fixpoint lookup (k : bytes) (t : list (bytes * bytes)) : option bytes :=
  match t with
  | [] => None
  | (k', v) :: tl => if bytes_eqb k k' then Some v else lookup k tl
  end.

Fixpoint run_o (Ho : bytes -> option bytes) (p : prog) : option outcome :=
  match p with
  | Ret o => Some o
  | Hash key k => match Ho key with Some d => run_o Ho (k (digest16 d)) | None => None end
  end.

Definition Ho_of (o : op) : bytes -> option bytes := fun k => Some (md5 k).

(* ---------- Message-Authenticator of a request (generator self-check only) ----------
   first attribute of type 80 in a TLV area: offset of its value and the value's length *)
Fixpoint find_ma (fuel : nat) (off : nat) (l : bytes) : option (nat * nat) :=
  match fuel with
  | O => None
  | S f =>
      match l with
      | t :: al :: rest =>
          let alen := N.to_nat al in
          if Nat.ltb alen 2%nat || Nat.ltb (length l) alen then None
          else if t =? 80 then Some ((off + 2)%nat, (alen - 2)%nat)
          else find_ma f (off + alen)%nat (skipn (alen - 2)%nat rest)
      | _ => None
      end
  end.
(* 0: no attribute 80; 1: value = HMAC-MD5(secret, packet with zero Request Authenticator and zero
   Message-Authenticator value) (RFC 5176 3.5 / RFC 3579 3.2); 2: anything else *)
Definition ma_status (secret dg : bytes) : N :=
  if negb (s_complete dg) then 0 else
  let ats := s_attrs dg in
  match find_ma (S (length ats)) 0%nat ats with
  | None => 0
  | Some (o, n) =>
      if Nat.eqb n 16%nat &&
         bytes_eqb (firstn 16%nat (skipn o ats))
                   (hmac_md5 secret (firstn 4%nat dg ++ repeat 0 16%nat ++ firstn o ats ++ repeat 0 16%nat ++ skipn (o + 16)%nat ats))
      then 1 else 2
  end.

(* ---------- equality on projected observables ---------- *)
Definition obytes_eqb (a b : option bytes) : bool :=
  match a, b with
  | None, None => true
  | Some x, Some y => bytes_eqb x y
  | _, _ => false
  end.
Fixpoint attrs_eqb (a b : list attr) : bool :=
  match a, b with
  | [], [] => true
  | (t, v) :: a', (t', v') :: b' => (t =? t') && bytes_eqb v v' && attrs_eqb a' b'
  | _, _ => false
  end.
Definition request_eqb (a b : request) : bool :=
  bytes_eqb (r_session a) (r_session b) && bytes_eqb (r_user a) (r_user b) &&
  obytes_eqb (r_nasip a) (r_nasip b) && obytes_eqb (r_framed a) (r_framed b) &&
  bytes_eqb (r_calling a) (r_calling b) && bytes_eqb (r_acct a) (r_acct b) &&
  (r_stimeout a =? r_stimeout b) && (r_itimeout a =? r_itimeout b) &&
  bytes_eqb (r_filter a) (r_filter b) && attrs_eqb (r_attrs a) (r_attrs b).
Fixpoint calls_eqb (a b : list (N * request)) : bool :=
  match a, b with
  | [], [] => true
  | (c, r) :: a', (c', r') :: b' => (c =? c') && request_eqb r r' && calls_eqb a' b'
  | _, _ => false
  end.
Fixpoint resps_eqb (a b : list bytes) : bool :=
  match a, b with
  | [], [] => true
  | x :: a', y :: b' => bytes_eqb x y && resps_eqb a' b'
  | _, _ => false
  end.
Definition out_eqb (a b : out) : bool :=
  match a, b with
  | OPanic, OPanic => true
  | OObs c r, OObs c' r' => calls_eqb c c' && resps_eqb r r'
  | _, _ => false                                  (* OMiss equals nothing *)
  end.

(* ---------- Model step on one delivered datagram ---------- *)
(* the tree that exists contains the bounds check of K15a *)
Definition model_fixed : bool := true.

Record mstate := { m_secret : bytes; m_coa : bool; m_dm : bool; m_stale : bytes }.

Definition step (s : mstate) (o : op) : mstate * out * list N :=
  let p := coa_prog model_fixed (m_secret s) (m_coa s) (m_dm s) (fun _ _ => o_hr o) (m_stale s) (o_dg o) in
  let tbl_ok := forallb (fun kv => bytes_eqb (md5 (fst kv)) (snd kv)) (o_tbl o) &&
                ((o_ma o =? 0) || (o_ma o =? ma_status (m_secret s) (o_dg o))) in
  let r := if tbl_ok then match run_o (Ho_of o) p with None => OMiss | Some x => obs_of x end else OMiss in
  (* a panic ends the goroutine; the harness restarts the loop, which allocates a fresh buffer *)
  let stale' := match r with OPanic => [] | _ => recv_arr (m_stale s) (o_dg o) end in
  ({| m_secret := m_secret s; m_coa := m_coa s; m_dm := m_dm s; m_stale := stale' |}, r,
   if marker_1501 model_fixed (o_dg o) then [1501] else []).

Definition accept_op (ss : sstate) (o : op) (r : out) : sstate + N := accept (Ho_of o) ss o r.

(* One step as the driver writes it (compact: the digest-table keys are rebuilt here from the
   datagram / the observed responses by the driver's own formulas, so the bytes are not repeated):
     rd    = Some (L, d): the driver found the datagram complete with Length L and computed
             d = crypto/md5(dg[0:4] ++ 0^16 ++ dg[20:L] ++ secret)
     resps = observed responses r, each with crypto/md5(r[0:4] ++ dg[4:20] ++ r[20:] ++ secret) *)
Definition st_full (dg : bytes) (ok : bool) (cause : N) (msg : bytes) (authentic : bool)
           (rd : option (N * bytes)) (resps : list (bytes * bytes)) (calls : list (N * request))
           (panicked use_md5 : bool) (ma : N) (sec : bytes) : op * out :=
  let t1 := match rd with
            | Some (L, d) => [(firstn 4%nat dg ++ repeat 0 16%nat ++ firstn (N.to_nat L - 20)%nat (skipn 20%nat dg) ++ sec, d)]
            | None => []
            end in
  let t2 := map (fun rp => (firstn 4%nat (fst rp) ++ firstn 16%nat (skipn 4%nat dg) ++ skipn 20%nat (fst rp) ++ sec, snd rp)) resps in
  ({| o_dg := dg; o_hr := {| h_ok := ok; h_cause := cause; h_msg := msg |}; o_authentic := authentic;
      o_tbl := t1 ++ t2; o_md5 := use_md5; o_ma := ma |},
   if panicked then OPanic else OObs calls (map fst resps)).

(* the datagram of a step: literal, or the case's base datagram with its middle replaced
   (first p bytes of base ++ m ++ last s bytes of base) *)
Definition lit (dg : bytes) (base : bytes) : bytes := dg.
Definition splice (p : N) (m : bytes) (s : N) (base : bytes) : bytes :=
  firstn (N.to_nat p) base ++ m ++ skipn (length base - N.to_nat s)%nat base.
Definition st (dgf : bytes -> bytes) (ok : bool) (cause : N) (msg : bytes) (authentic : bool)
           (rd : option (N * bytes)) (resps : list (bytes * bytes)) (calls : list (N * request))
           (panicked use_md5 : bool) (ma : N) (base sec : bytes) : op * out :=
  st_full (dgf base) ok cause msg authentic rd resps calls panicked use_md5 ma sec.

(* case: secret, CoA handler installed, Disconnect handler installed, base datagram, trace *)
Definition case := (bytes * bool * bool * bytes * list (bytes -> bytes -> op * out))%type.
Definition mk (c : case) : mstate * sstate * list (op * out) :=
  let '(sec, coa, dm, base, tr) := c in
  ({| m_secret := sec; m_coa := coa; m_dm := dm; m_stale := [] |},
   {| s_secret := sec; s_coa_set := coa; s_dm_set := dm |}, map (fun f => f base sec) tr).
Definition run_cases (cs : list case) : list (list N) :=
  check_all step accept_op out_eqb 1%N (map mk cs).

Definition mkreq (session user : bytes) (nasip framed : option bytes) (calling acct : bytes)
           (st it : N) (filter : bytes) (attrs : list attr) : request :=
  {| r_session := session; r_user := user; r_nasip := nasip; r_framed := framed; r_calling := calling;
     r_acct := acct; r_stimeout := st; r_itimeout := it; r_filter := filter; r_attrs := attrs |}.
