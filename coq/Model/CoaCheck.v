(* Entry point evaluated by the harness-written case files for C15.

   The theorems of Props/C15.v hold for every digest function H.  To EVALUATE the Model and the
   monitor on harness cases a concrete H is needed; two instances are used:
   - table: the case carries the finite map (hash input -> digest) holding what Go's crypto/md5
     returned for the inputs this case needs; a digest request outside the table is reported as
     [OMiss] (a tie-1 mismatch by construction), never answered with a default;
   - md5: an executable MD5 (RFC 1321) written in Gallina below, used on the flagged cases
     (all corpus cases and a sample of every stream); on those the table entries are also checked
     against it, which cross-checks Gallina md5 against crypto/md5.
   No theorem depends on this MD5. *)
From Coq Require Import NArith List Bool.
From Verif Require Import Base.Word Base.Check Model.Coa Model.CoaSpec.
Import ListNotations.
Local Open Scope N_scope.

(* ---------- MD5 (executable instance only) ---------- *)
Definition m32 : N := 4294967295.
Definition add32 (a b : N) : N := N.land (a + b) m32.
Definition rotl32 (x c : N) : N := N.lor (N.land (N.shiftl x c) m32) (N.shiftr x (32 - c)).
Definition not32 (x : N) : N := N.lxor x m32.

Definition md5_K : list N := [
3614090360; 3905402710; 606105819; 3250441966; 4118548399; 1200080426; 2821735955; 4249261313; 1770035416; 2336552879; 4294925233; 2304563134; 1804603682; 4254626195; 2792965006; 1236535329; 4129170786; 3225465664; 643717713; 3921069994; 3593408605; 38016083; 3634488961; 3889429448; 568446438; 3275163606; 4107603335; 1163531501; 2850285829; 4243563512; 1735328473; 2368359562; 4294588738; 2272392833; 1839030562; 4259657740; 2763975236; 1272893353; 4139469664; 3200236656; 681279174; 3936430074; 3572445317; 76029189; 3654602809; 3873151461; 530742520; 3299628645; 4096336452; 1126891415; 2878612391; 4237533241; 1700485571; 2399980690; 4293915773; 2240044497; 1873313359; 4264355552; 2734768916; 1309151649; 4149444226; 3174756917; 718787259; 3951481745].
Definition md5_S : list N := [
7;12;17;22;7;12;17;22;7;12;17;22;7;12;17;22;
5;9;14;20;5;9;14;20;5;9;14;20;5;9;14;20;
4;11;16;23;4;11;16;23;4;11;16;23;4;11;16;23;
6;10;15;21;6;10;15;21;6;10;15;21;6;10;15;21].

(* (i, K[i], s[i]) *)
Fixpoint enum {A} (i : N) (l : list A) : list (N * A) :=
  match l with [] => [] | x :: tl => (i, x) :: enum (i + 1) tl end.
Definition md5_tab : list (N * (N * N)) := enum 0 (combine md5_K md5_S).

Definition md5_step (M : list N) (st : N * N * N * N) (e : N * (N * N)) : N * N * N * N :=
  let '(a, b, c, d) := st in
  let '(i, (k, s)) := e in
  let '(f, g) :=
    if i <? 16 then (N.lor (N.land b c) (N.land (not32 b) d), i)
    else if i <? 32 then (N.lor (N.land d b) (N.land (not32 d) c), N.land (5 * i + 1) 15)
    else if i <? 48 then (N.lxor (N.lxor b c) d, N.land (3 * i + 5) 15)
    else (N.lxor c (N.lor b (not32 d)), N.land (7 * i) 15) in
  let f' := add32 (add32 (add32 f a) k) (nth (N.to_nat g) M 0) in
  (d, add32 b (rotl32 f' s), b, c).

Fixpoint le_words (n : nat) (l : list N) : list N :=   (* n little-endian 32-bit words *)
  match n with
  | O => []
  | S k => match l with
           | b0 :: b1 :: b2 :: b3 :: tl => (b0 + 256 * (b1 + 256 * (b2 + 256 * b3))) :: le_words k tl
           | _ => []
           end
  end.

Definition md5_block (st : N * N * N * N) (blk : list N) : N * N * N * N :=
  let '(a0, b0, c0, d0) := st in
  let '(a, b, c, d) := fold_left (md5_step (le_words 16 blk)) md5_tab st in
  (add32 a0 a, add32 b0 b, add32 c0 c, add32 d0 d).

Fixpoint md5_blocks (fuel : nat) (st : N * N * N * N) (l : list N) : N * N * N * N :=
  match fuel with
  | O => st
  | S k => match l with
           | [] => st
           | _ => md5_blocks k (md5_block st (firstn 64 l)) (skipn 64 l)
           end
  end.

Fixpoint le_bytes_n (n : nat) (v : N) : list N :=
  match n with O => [] | S k => N.land v 255 :: le_bytes_n k (N.shiftr v 8) end.

Definition md5_pad (msg : list N) : list N :=
  let n := N.of_nat (length msg) in
  let z := N.land (55 + 64 - N.land n 63) 63 in   (* zero bytes so that n + 1 + z = 56 mod 64 *)
  msg ++ [128] ++ repeat 0 (N.to_nat z) ++ le_bytes_n 8 (N.land (8 * n) 18446744073709551615).

Definition md5 (msg : list N) : list N :=
  let p := md5_pad msg in
  let '(a, b, c, d) := md5_blocks (S (Nat.div (length p) 64)) (1732584193, 4023233417, 2562383102, 271733878) p in
  le_bytes_n 4 a ++ le_bytes_n 4 b ++ le_bytes_n 4 c ++ le_bytes_n 4 d.


(* ---------- oracle instances ---------- *)
Fixpoint lookup (k : bytes) (t : list (bytes * bytes)) : option bytes :=
  match t with
  | [] => None
  | (k', v) :: tl => if bytes_eqb k k' then Some v else lookup k tl
  end.

Fixpoint run_o (Ho : bytes -> option bytes) (p : prog) : option outcome :=
  match p with
  | Ret o => Some o
  | Hash key k => match Ho key with Some d => run_o Ho (k (digest16 d)) | None => None end
  end.

Definition Ho_of (o : op) : bytes -> option bytes :=
  if o_md5 o then (fun k => Some (md5 k)) else (fun k => lookup k (o_tbl o)).

(* ---------- equality on projected observables ---------- *)
Definition obytes_eqb (a b : option bytes) : bool :=
  match a, b with
  | None, None => true
  | Some x, Some y => bytes_eqb x y
  | _, _ => false
  end.
Fixpoint attrs_eqb (a b : list attr) : bool :=
  match a, b with
  | [], [] => true
  | (t, v) :: a', (t', v') :: b' => (t =? t') && bytes_eqb v v' && attrs_eqb a' b'
  | _, _ => false
  end.
Definition request_eqb (a b : request) : bool :=
  bytes_eqb (r_session a) (r_session b) && bytes_eqb (r_user a) (r_user b) &&
  obytes_eqb (r_nasip a) (r_nasip b) && obytes_eqb (r_framed a) (r_framed b) &&
  bytes_eqb (r_calling a) (r_calling b) && bytes_eqb (r_acct a) (r_acct b) &&
  (r_stimeout a =? r_stimeout b) && (r_itimeout a =? r_itimeout b) &&
  bytes_eqb (r_filter a) (r_filter b) && attrs_eqb (r_attrs a) (r_attrs b).
Fixpoint calls_eqb (a b : list (N * request)) : bool :=
  match a, b with
  | [], [] => true
  | (c, r) :: a', (c', r') :: b' => (c =? c') && request_eqb r r' && calls_eqb a' b'
  | _, _ => false
  end.
Fixpoint resps_eqb (a b : list bytes) : bool :=
  match a, b with
  | [], [] => true
  | x :: a', y :: b' => bytes_eqb x y && resps_eqb a' b'
  | _, _ => false
  end.
Definition out_eqb (a b : out) : bool :=
  match a, b with
  | OPanic, OPanic => true
  | OObs c r, OObs c' r' => calls_eqb c c' && resps_eqb r r'
  | _, _ => false                                  (* OMiss equals nothing *)
  end.

(* ---------- Model step on one delivered datagram ---------- *)
(* the tree that exists contains the bounds check of K15a *)
Definition model_fixed : bool := true.

Record mstate := { m_secret : bytes; m_coa : bool; m_dm : bool; m_stale : bytes }.

Definition step (s : mstate) (o : op) : mstate * out * list N :=
  let p := coa_prog model_fixed (m_secret s) (m_coa s) (m_dm s) (fun _ _ => o_hr o) (m_stale s) (o_dg o) in
  let tbl_ok := if o_md5 o then forallb (fun kv => bytes_eqb (md5 (fst kv)) (snd kv)) (o_tbl o) else true in
  let r := if tbl_ok then match run_o (Ho_of o) p with None => OMiss | Some x => obs_of x end else OMiss in
  (* a panic ends the goroutine; the harness restarts the loop, which allocates a fresh buffer *)
  let stale' := match r with OPanic => [] | _ => recv_arr (m_stale s) (o_dg o) end in
  ({| m_secret := m_secret s; m_coa := m_coa s; m_dm := m_dm s; m_stale := stale' |}, r,
   if marker_1501 model_fixed (o_dg o) then [1501] else []).

Definition accept_op (ss : sstate) (o : op) (r : out) : sstate + N := accept (Ho_of o) ss o r.

(* One step as the driver writes it (compact: the digest-table keys are rebuilt here from the
   datagram / the observed responses by the driver's own formulas, so the bytes are not repeated):
     rd    = Some (L, d): the driver found the datagram complete with Length L and computed
             d = crypto/md5(dg[0:4] ++ 0^16 ++ dg[20:L] ++ secret)
     resps = observed responses r, each with crypto/md5(r[0:4] ++ dg[4:20] ++ r[20:] ++ secret) *)
Definition st_full (dg : bytes) (ok : bool) (cause : N) (msg : bytes) (authentic : bool)
           (rd : option (N * bytes)) (resps : list (bytes * bytes)) (calls : list (N * request))
           (panicked use_md5 : bool) (sec : bytes) : op * out :=
  let t1 := match rd with
            | Some (L, d) => [(firstn 4%nat dg ++ repeat 0 16%nat ++ firstn (N.to_nat L - 20)%nat (skipn 20%nat dg) ++ sec, d)]
            | None => []
            end in
  let t2 := map (fun rp => (firstn 4%nat (fst rp) ++ firstn 16%nat (skipn 4%nat dg) ++ skipn 20%nat (fst rp) ++ sec, snd rp)) resps in
  ({| o_dg := dg; o_hr := {| h_ok := ok; h_cause := cause; h_msg := msg |}; o_authentic := authentic;
      o_tbl := t1 ++ t2; o_md5 := use_md5 |},
   if panicked then OPanic else OObs calls (map fst resps)).

(* the datagram of a step: literal, or the case's base datagram with its middle replaced
   (first p bytes of base ++ m ++ last s bytes of base) *)
Definition lit (dg : bytes) (base : bytes) : bytes := dg.
Definition splice (p : N) (m : bytes) (s : N) (base : bytes) : bytes :=
  firstn (N.to_nat p) base ++ m ++ skipn (length base - N.to_nat s)%nat base.
Definition st (dgf : bytes -> bytes) (ok : bool) (cause : N) (msg : bytes) (authentic : bool)
           (rd : option (N * bytes)) (resps : list (bytes * bytes)) (calls : list (N * request))
           (panicked use_md5 : bool) (base sec : bytes) : op * out :=
  st_full (dgf base) ok cause msg authentic rd resps calls panicked use_md5 sec.

(* case: secret, CoA handler installed, Disconnect handler installed, base datagram, trace *)
Definition case := (bytes * bool * bool * bytes * list (bytes -> bytes -> op * out))%type.
Definition mk (c : case) : mstate * sstate * list (op * out) :=
  let '(sec, coa, dm, base, tr) := c in
  ({| m_secret := sec; m_coa := coa; m_dm := dm; m_stale := [] |},
   {| s_secret := sec; s_coa_set := coa; s_dm_set := dm |}, map (fun f => f base sec) tr).
Definition run_cases (cs : list case) : list (list N) :=
  check_all step accept_op out_eqb 1%N (map mk cs).

Definition mkreq (session user : bytes) (nasip framed : option bytes) (calling acct : bytes)
           (st it : N) (filter : bytes) (attrs : list attr) : request :=
  {| r_session := session; r_user := user; r_nasip := nasip; r_framed := framed; r_calling := calling;
     r_acct := acct; r_stimeout := st; r_itimeout := it; r_filter := filter; r_attrs := attrs |}.
