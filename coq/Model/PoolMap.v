(* Small association-list maps keyed by N, used by the pool models (C01/C05/C12) as the image of
   Go maps.  [aset] removes every older binding of the key, so "keys are pairwise distinct"
   ([awf]) is preserved by construction and [asize] is the number of keys (Go's len(m)).
   Lemmas are in Proofs/PoolMapProofs.v. *)
From Coq Require Import NArith List Bool.
Import ListNotations.
Local Open Scope N_scope.

Definition amap (V : Type) := list (N * V).

Fixpoint aget {V} (k : N) (m : amap V) : option V :=
  match m with
  | [] => None
  | (k', v) :: tl => if k' =? k then Some v else aget k tl
  end.
Definition adel {V} (k : N) (m : amap V) : amap V := filter (fun p => negb (fst p =? k)) m.
Definition aset {V} (k : N) (v : V) (m : amap V) : amap V := (k, v) :: adel k m.
Definition asize {V} (m : amap V) : N := N.of_nat (length m).
Definition ahas {V} (k : N) (m : amap V) : bool := match aget k m with Some _ => true | None => false end.
Definition awf {V} (m : amap V) : Prop := NoDup (map fst m).
