(* C11 — the RFC 1661 automaton exactly as coded three times in pkg/pppoe (lcp.go, ipcp.go,
   ipv6cp.go).  One transition function, parametrised by the option processor of the protocol
   ([procs]); the differences between the three textual copies are explicit fields of [procs]:
     pr_lcp         LCP alone handles codes 7..11 and Code-Rejects unknown codes (NCPs ignore them)
     pr_nak_strict  a Configure-Nak whose options do not parse: LCP and IPCP stop the timer and
                    return the error before the state switch; IPv6CP ignores the error
     pr_rej_strict  the same for Configure-Reject: LCP strict; IPCP ignores the error; IPv6CP does
                    not parse at all
     pr_irc         Initialize-Restart-Count: LCP MaxConfigure as is; NCPs MaxRetransmit, 0 => 10
   Input packets are raw bytes (ParseLCPPacket / ParseLCPOptions are part of the Model).
   Timers: every startTimer() creates a token (generation number).  [EFire t] delivers the expiry
   of token t if it has not been delivered yet; timeout() runs whether or not the code has
   meanwhile stopped or replaced that timer (time.AfterFunc callback blocked on the mutex) — the
   stale fire.  [f_arm] mirrors `restartTimer != nil`.
   Ghost fields (no influence on behaviour):
     g_we    we sent a Configure-Ack for the peer's most recent (well-formed) Configure-Request
     g_peer  the peer's Configure-Ack carried the identifier of our most recent Configure-Request
             and we have sent no Configure-Request since. *)
From Coq Require Import ZArith NArith List Bool.
From Verif Require Import Base.Word.
Import ListNotations.
Local Open Scope N_scope.

Inductive st := Initial | Starting | Closed | Stopped | Closing | Stopping | ReqSent | AckRcvd | AckSent | Opened.

Definition st_n (s : st) : N :=
  match s with Initial => 0 | Starting => 1 | Closed => 2 | Stopped => 3 | Closing => 4
             | Stopping => 5 | ReqSent => 6 | AckRcvd => 7 | AckSent => 8 | Opened => 9 end.

(* states in which RFC 1661 keeps no restart timer; the others retransmit *)
Definition terminal (s : st) : bool :=
  match s with Initial | Starting | Closed | Stopped | Opened => true | _ => false end.

Record opt := mkopt { ot : N; od : list N }.
Record pkt := mkpkt { pc : N; pi : N; pl : N; pd : list N }.   (* code, identifier, length field, data *)

Definition len (l : list N) : N := N.of_nat (length l).
Definition packet (c i : N) (d : list N) : pkt := mkpkt c i ((4 + len d) mod 65536) d.

(* ParseLCPPacket: Some (code, id, data) or None (error) *)
Definition parse_pkt (d : list N) : option (N * N * list N) :=
  match d with
  | c :: i :: lh :: ll :: rest =>
      let L := be16 lh ll in
      if len d <? L then None
      else Some (c, i, if 4 <? L then firstn (N.to_nat (L - 4)) rest else [])
  | _ => None
  end.

(* ParseLCPOptions: the loop runs while two bytes remain; a single trailing byte is dropped *)
Fixpoint parse_opts_f (fuel : nat) (d : list N) : option (list opt) :=
  match fuel with
  | O => Some []
  | S f =>
      match d with
      | t :: l :: rest =>
          if l <? 2 then None
          else if len rest <? l - 2 then None
          else match parse_opts_f f (skipn (N.to_nat (l - 2)) rest) with
               | Some os => Some (mkopt t (firstn (N.to_nat (l - 2)) rest) :: os)
               | None => None
               end
      | _ => Some []
      end
  end.
Definition parse_opts (d : list N) : option (list opt) := parse_opts_f (length d) d.

Definition ser_opt (o : opt) : list N := ot o :: ((2 + len (od o)) mod 256) :: od o.
Definition ser_opts (l : list opt) : list N := flat_map ser_opt l.

Definition str_admin : list N := [65;100;109;105;110;32;99;108;111;115;101].               (* "Admin close" *)
Definition str_timeout : list N := [84;105;109;101;111;117;116].                            (* "Timeout" *)
Definition str_codrej : list N :=
  [67;114;105;116;105;99;97;108;32;99;111;100;101;32;114;101;106;101;99;116;101;100].      (* "Critical code rejected" *)
Definition str_lcprej : list N := [76;67;80;32;114;101;106;101;99;116;101;100].             (* "LCP rejected" *)

Inductive ev :=
| EUp | EDown | EOpen | EClose
| ERecv (d : list N)
| EFire (t : N)
| EEcho.                       (* LCPStateMachine.SendEchoRequest *)

Section Fsm.
  Context {X : Type}.

  Record procs := mkprocs {
    pr_cr : X -> list opt -> X * (list opt * list opt * list opt) * list N;  (* processConfigureOptions: ack, nak, reject; ghost markers *)
    pr_nak : X -> list opt -> X;
    pr_rej : X -> list opt -> X;
    pr_nak_strict : bool;
    pr_rej_strict : bool;
    pr_req : X -> list opt;           (* options of our Configure-Request *)
    pr_irc : X -> Z;
    pr_lcp : bool;
    pr_magic : X -> list N;           (* 4 bytes put in front of Echo-Request / Echo-Reply (LCP) *)
    pr_obs : X -> list N              (* local option state as the verif accessor reports it *)
  }.
  Variable P : procs.

  Record fsm := mkfsm {
    f_st : st; f_x : X; f_rc : Z; f_id : N; f_last : N;
    f_arm : bool; f_tok : N; f_pend : list N;
    g_we : bool; g_peer : bool }.

  Definition init (x : X) : fsm := mkfsm Initial x 0%Z 0 0 false 0 [] false false.

  Definition set_st (s : fsm) (v : st) := mkfsm v (f_x s) (f_rc s) (f_id s) (f_last s) (f_arm s) (f_tok s) (f_pend s) (g_we s) (g_peer s).
  Definition set_x (s : fsm) (v : X) := mkfsm (f_st s) v (f_rc s) (f_id s) (f_last s) (f_arm s) (f_tok s) (f_pend s) (g_we s) (g_peer s).
  Definition set_rc (s : fsm) (v : Z) := mkfsm (f_st s) (f_x s) v (f_id s) (f_last s) (f_arm s) (f_tok s) (f_pend s) (g_we s) (g_peer s).
  Definition set_we (s : fsm) (v : bool) := mkfsm (f_st s) (f_x s) (f_rc s) (f_id s) (f_last s) (f_arm s) (f_tok s) (f_pend s) v (g_peer s).
  Definition set_peer (s : fsm) (v : bool) := mkfsm (f_st s) (f_x s) (f_rc s) (f_id s) (f_last s) (f_arm s) (f_tok s) (f_pend s) (g_we s) v.

  Definition start_timer (s : fsm) :=
    mkfsm (f_st s) (f_x s) (f_rc s) (f_id s) (f_last s) true (f_tok s + 1) ((f_tok s + 1) :: f_pend s) (g_we s) (g_peer s).
  Definition stop_timer (s : fsm) :=
    mkfsm (f_st s) (f_x s) (f_rc s) (f_id s) (f_last s) false (f_tok s) (f_pend s) (g_we s) (g_peer s).

  (* state + packets sent so far in this event *)
  Definition M := (fsm * list pkt)%type.

  Definition goto (v : st) (m : M) : M := (set_st (fst m) v, snd m).
  Definition irc (m : M) : M := (set_rc (fst m) (pr_irc P (f_x (fst m))), snd m).
  Definition zrc (m : M) : M := (set_rc (fst m) 0%Z, snd m).

  (* sendConfigureRequest: identifier++, lastIdentifier, send, startTimer, restartCount-- *)
  Definition scr (m : M) : M :=
    let s := fst m in
    let i := (f_id s + 1) mod 256 in
    let s1 := mkfsm (f_st s) (f_x s) (f_rc s - 1)%Z i i (f_arm s) (f_tok s) (f_pend s) (g_we s) false in
    (start_timer s1, snd m ++ [packet 1 i (ser_opts (pr_req P (f_x s)))]).

  (* sendTerminateRequest *)
  Definition str (reason : list N) (m : M) : M :=
    let s := fst m in
    let i := (f_id s + 1) mod 256 in
    let s1 := mkfsm (f_st s) (f_x s) (f_rc s - 1)%Z i (f_last s) (f_arm s) (f_tok s) (f_pend s) (g_we s) (g_peer s) in
    (start_timer s1, snd m ++ [packet 5 i reason]).

  Definition sta (i : N) (m : M) : M := (fst m, snd m ++ [packet 6 i []]).

  Definition close_internal (reason : list N) (m : M) : M :=
    match f_st (fst m) with
    | Starting => goto Initial m
    | Stopped => goto Closed m
    | Stopping => goto Closing m
    | Opened | ReqSent | AckRcvd | AckSent => goto Closing (str reason (irc m))
    | _ => m
    end.

  Definition do_up (m : M) : M :=
    match f_st (fst m) with
    | Initial => goto Closed m
    | Starting => goto ReqSent (scr (irc m))
    | _ => m
    end.

  Definition do_down (m0 : M) : M :=
    let m := (stop_timer (fst m0), snd m0) in
    match f_st (fst m) with
    | Closed | Closing => goto Initial m
    | Stopped | Stopping | ReqSent | AckRcvd | AckSent | Opened => goto Starting m
    | _ => m
    end.

  Definition do_open (m : M) : M :=
    match f_st (fst m) with
    | Initial => goto Starting m
    | Closed => goto ReqSent (scr (irc m))
    | Closing => goto Stopping m
    | _ => m
    end.

  (* timeout(): the restart-timer callback *)
  Definition do_timeout (m : M) : M :=
    if (0 <? f_rc (fst m))%Z then
      match f_st (fst m) with
      | Closing | Stopping => str str_timeout m
      | ReqSent | AckSent => scr m
      | AckRcvd => goto ReqSent (scr m)      (* TO+ in Ack-Rcvd (fix 9b2a861 / 8c383e7) *)
      | _ => m
      end
    else
      match f_st (fst m) with
      | Closing => goto Closed m
      | Stopping | ReqSent | AckRcvd | AckSent => goto Stopped m
      | _ => m
      end.

  Definition nonempty {A} (l : list A) : bool := match l with [] => false | _ => true end.

  (* receiveConfigureRequest after the options parsed; returns the new state/packets and markers *)
  Definition do_rcr (i : N) (opts : list opt) (m : M) : M * list N :=
    let s := fst m in
    let '(x', (ack, nak, rej), mk) := pr_cr P (f_x s) opts in
    let code := if nonempty rej then 4 else if nonempty nak then 3 else 2 in
    let resp := if nonempty rej then rej else if nonempty nak then nak else ack in
    let isack := code =? 2 in
    let s1 := set_we (set_x s x') isack in
    let m1 : M := (s1, snd m ++ [packet code i (ser_opts resp)]) in
    (match f_st s with
     | Closed => sta i m1
     | Stopped => goto (if isack then AckSent else ReqSent) (scr (irc m1))
     | ReqSent => if isack then goto AckSent m1 else m1
     | AckRcvd => if isack then goto Opened m1 else m1
     | AckSent => if isack then m1 else goto ReqSent m1
     | Opened => goto (if isack then AckSent else ReqSent) (scr m1)
     | _ => m1
     end, mk).

  Definition do_rca (i : N) (m : M) : M :=
    if negb (i =? f_last (fst m)) then m else
    let m1 : M := (set_peer (stop_timer (fst m)) true, snd m) in
    match f_st (fst m) with
    | Closed | Stopped => sta i m1
    | ReqSent => goto AckRcvd (irc m1)
    | AckRcvd => goto ReqSent (scr m1)
    | AckSent => goto Opened (irc m1)
    | Opened => goto ReqSent (scr m1)
    | _ => m1
    end.

  (* shared tail of receiveConfigureNak / receiveConfigureReject *)
  Definition nakrej_tail (i : N) (m : M) : M :=
    match f_st (fst m) with
    | Closed | Stopped => sta i m
    | ReqSent | AckSent => scr (irc m)
    | AckRcvd | Opened => goto ReqSent (scr m)
    | _ => m
    end.

  (* result: new state/packets, error flag *)
  Definition do_rcn (i : N) (d : list N) (m : M) : M * bool :=
    if negb (i =? f_last (fst m)) then (m, false) else
    let m1 : M := (stop_timer (fst m), snd m) in
    match parse_opts d with
    | None => if pr_nak_strict P then (m1, true) else (nakrej_tail i m1, false)
    | Some opts => (nakrej_tail i (set_x (fst m1) (pr_nak P (f_x (fst m1)) opts), snd m1), false)
    end.

  Definition do_rcj (i : N) (d : list N) (m : M) : M * bool :=
    if negb (i =? f_last (fst m)) then (m, false) else
    let m1 : M := (stop_timer (fst m), snd m) in
    match parse_opts d with
    | None => if pr_rej_strict P then (m1, true) else (nakrej_tail i m1, false)
    | Some opts => (nakrej_tail i (set_x (fst m1) (pr_rej P (f_x (fst m1)) opts), snd m1), false)
    end.

  Definition do_rtr (i : N) (m0 : M) : M :=
    let m : M := (stop_timer (fst m0), snd m0) in
    match f_st (fst m) with
    | Closed | Stopped | Closing | Stopping => sta i m
    | ReqSent | AckRcvd | AckSent => goto Stopped (sta i m)
    | Opened => goto Stopping (sta i (zrc m))
    | _ => m
    end.

  Definition do_rta (m0 : M) : M :=
    let m : M := (stop_timer (fst m0), snd m0) in
    match f_st (fst m) with
    | Closing => goto Closed m
    | Stopping => goto Stopped m
    | AckRcvd => goto ReqSent m
    | Opened => goto ReqSent (scr m)
    | _ => m
    end.

  Definition bump_id (s : fsm) : fsm :=
    mkfsm (f_st s) (f_x s) (f_rc s) ((f_id s + 1) mod 256) (f_last s) (f_arm s) (f_tok s) (f_pend s) (g_we s) (g_peer s).

  (* codes 7.. of LCPStateMachine.ReceivePacket *)
  Definition do_lcp_other (c i : N) (d : list N) (m : M) : M :=
    if c =? 7 then
      match d with
      | r :: _ => if (1 <=? r) && (r <=? 4) then close_internal str_codrej m else m
      | [] => m
      end
    else if c =? 8 then
      match d with
      | a :: b :: _ => if be16 a b =? 49185 then close_internal str_lcprej m else m      (* 0xC021 *)
      | _ => m
      end
    else if c =? 9 then
      match f_st (fst m) with
      | Opened => if len d <? 4 then m      (* Echo-Request without magic number: discarded *)
                  else (fst m, snd m ++ [packet 10 i (pr_magic P (f_x (fst m)) ++ skipn 4 d)])
      | _ => m
      end
    else if (c =? 10) || (c =? 11) then m
    else (* unknown code: Code-Reject carrying the re-serialised packet *)
      let s := bump_id (fst m) in
      let L := (4 + len d) mod 65536 in
      (s, snd m ++ [packet 7 (f_id s) (c :: i :: (L / 256) :: (L mod 256) :: d)]).

  (* ReceivePacket: new state/packets, error flag (1 = returned error), markers *)
  Definition do_recv (d : list N) (m : M) : M * N * list N :=
    match parse_pkt d with
    | None => (m, 1, [])
    | Some (c, i, data) =>
        if c =? 1 then
          match parse_opts data with
          | None => (m, 1, [])
          | Some opts => let '(m', mk) := do_rcr i opts m in (m', 0, mk)
          end
        else if c =? 2 then (do_rca i m, 0, [])
        else if c =? 3 then let '(m', e) := do_rcn i data m in (m', if e then 1 else 0, [])
        else if c =? 4 then let '(m', e) := do_rcj i data m in (m', if e then 1 else 0, [])
        else if c =? 5 then (do_rtr i m, 0, [])
        else if c =? 6 then (do_rta m, 0, [])
        else if pr_lcp P then (do_lcp_other c i data m, 0, [])
        else (m, 0, [])
    end.

  Fixpoint remove1 (t : N) (l : list N) : list N :=
    match l with [] => [] | x :: tl => if x =? t then tl else x :: remove1 t tl end.
  Definition memN (t : N) (l : list N) : bool := existsb (N.eqb t) l.

  Definition do_echo (m : M) : M :=
    match f_st (fst m) with
    | Opened => if pr_lcp P then
                  let s := bump_id (fst m) in (s, snd m ++ [packet 9 (f_id s) (pr_magic P (f_x s))])
                else m
    | _ => m
    end.

  Definition trans (s : fsm) (e : ev) : M * N * list N :=
    let m : M := (s, []) in
    match e with
    | EUp => (do_up m, 0, [])
    | EDown => (do_down m, 0, [])
    | EOpen => (do_open m, 0, [])
    | EClose => (close_internal str_admin m, 0, [])
    | ERecv d => do_recv d m
    | EFire t =>
        if memN t (f_pend s) then
          let s1 := mkfsm (f_st s) (f_x s) (f_rc s) (f_id s) (f_last s) (f_arm s) (f_tok s) (remove1 t (f_pend s)) (g_we s) (g_peer s) in
          (do_timeout (s1, []), 0, [])
        else (m, 0, [])
    | EEcho => (do_echo m, 0, [])
    end.

  (* a timer that can still expire regularly is armed, or the state needs none *)
  Definition fresh (s : fsm) : bool := f_arm s && memN (f_tok s) (f_pend s).
  Definition live (s : fsm) : bool := terminal (f_st s) || fresh s.

  Record out := mkout {
    o_pk : list pkt; o_st : N; o_err : N; o_arm : bool; o_rc : Z; o_id : N; o_last : N; o_obs : list N }.

  Definition out_of (s : fsm) (pk : list pkt) (e : N) : out :=
    mkout pk (st_n (f_st s)) e (f_arm s) (f_rc s) (f_id s) (f_last s) (pr_obs P (f_x s)).

  (* ghost marker 1102: this step took away the running restart timer of a retransmitting state *)
  Definition step (s : fsm) (e : ev) : fsm * out * list N :=
    let '((s', pk), er, mk) := trans s e in
    (s', out_of s' pk er, mk ++ (if live s && negb (live s') then [1102] else [])).

  Definition next (s : fsm) (e : ev) : fsm := fst (fst (step s e)).
  Definition sent (s : fsm) (e : ev) : list pkt := o_pk (snd (fst (step s e))).
  Definition run (s : fsm) (evs : list ev) : fsm := fold_left next evs s.
End Fsm.

Arguments procs X : clear implicits.
Arguments fsm X : clear implicits.
