(* Packet-access skeleton of bpf/dhcp_fastpath.c : dhcp_fastpath_prog (XDP), as of /repo 4ab203e
   (c10bfec: the 64-byte options-room test stands before the first write; 4ab203e: ihl != 5 is passed
   to the slow path, the C still computes udp = ip + ihl*4 afterwards and so does the model).
   Every data_end comparison of parse_packet_headers, get_dhcp_msg_type, extract_circuit_id_fixed,
   build_dhcp_options and of the main program is an explicit test.  All stores of the reply
   construction are modelled so that the resulting bytes can be tied.  Statistics are left out.

   build_dhcp_options returning -1 is followed in the C by `return XDP_PASS`; the model fuses the two
   into [exit XDP_PASS] at the failing test.  bpf_xdp_adjust_tail is the last thing the program does:
   [adjust_and_return] is the helper call plus the two returns that follow it.

   Ghost marker 0703 (raised by PktSpec.markers_of): the helper refused the new length after the frame
   had been rewritten, i.e. the run ends in XDP_PASS with a modified frame.

   struct pool_assignment (packed) { u32 pool_id @0; u32 allocated_ip @4; u32 vlan_id @8; u8 class @12;
                                     u64 lease_expiry @13; u8 flags @21; pad[3] }            25 bytes
   struct ip_pool (packed) { u32 network @0; u8 prefix_len @4; pad[3]; u32 gateway @8; u32 dns_primary @12;
                             u32 dns_secondary @16; u32 lease_time @20; u32 pad @24 }        28 bytes
   struct dhcp_server_config (packed) { u8 server_mac[6] @0; pad[2]; u32 server_ip @8; u32 ifindex @12 }  16 *)
From Coq Require Import NArith List Bool.
From Verif Require Import Base.Word Model.PktMonad.
Import ListNotations.
Local Open Scope N_scope.
Local Open Scope pkt_scope.

Definition MAP_SUBSCRIBER_POOLS : N := 30.
Definition MAP_VLAN_SUBSCRIBER_POOLS : N := 31.
Definition MAP_IP_POOLS : N := 32.
Definition MAP_SERVER_CONFIG : N := 33.
Definition MAP_CIRCUIT_ID_SUBSCRIBERS : N := 34.

Definition M16 : N := 65535.
Definition M32 : N := 4294967295.
Definition u16t (v : N) : N := N.land v M16.
Definition u32t (v : N) : N := N.land v M32.

Definition mac_to_u64 (m : list N) : N := fold_left (fun acc b => N.lor (N.shiftl acc 8) b) m 0.

(* dst[i] = src[i], i = 0..k-1 *)
Fixpoint copy_bytes (k : nat) (src dst : N) : M unit :=
  match k with
  | O => ret tt
  | S k' => b <- rd8 src ;; wr8 dst b ;;; copy_bytes k' (src + 1) (dst + 1)
  end.

(* is_zero_mac: returns at the first non-zero byte *)
Fixpoint is_zero_bytes (k : nat) (off : N) : M bool :=
  match k with
  | O => ret true
  | S k' => b <- rd8 off ;; if negb (b =? 0) then ret false else is_zero_bytes k' (off + 1)
  end.

(* get_dhcp_msg_type: one 12-byte room test, then fixed positions 0,1,3,4,5,6 (the C evaluates the
   byte comparisons lazily; all of them lie in opts[0..8], which the model loads up front) *)
Definition get_dhcp_msg_type (dh dl : N) : M N :=
  let opts := dh + 240 in
  if opts + 12 >? dl then ret 0 else
  o <- rd_bytes 9 opts ;;
  let b (i : nat) := nth i o 0 in
  ret (if (b 0%nat =? 53) && (b 1%nat =? 1) then b 2%nat
       else if (b 1%nat =? 53) && (b 2%nat =? 1) then b 3%nat
       else if (b 3%nat =? 53) && (b 4%nat =? 1) then b 5%nat
       else if (b 4%nat =? 53) && (b 5%nat =? 1) then b 6%nat
       else if (b 5%nat =? 53) && (b 6%nat =? 1) then b 7%nat
       else if (b 6%nat =? 53) && (b 7%nat =? 1) then b 8%nat
       else 0).

(* for (i = 0; i < 32; i++) if (i < cid_len) key->data[i] = p[i];   (key zeroed before) *)
Fixpoint rd_cid (k : nat) (i cid_len off : N) : M (list N) :=
  match k with
  | O => ret []
  | S k' => b <- (if i <? cid_len then rd8 (off + i) else ret 0) ;;
            tl <- rd_cid k' (i + 1) cid_len off ;; ret (b :: tl)
  end.

(* for (pos = 12; pos < 20; pos++) ... *)
Fixpoint cid_scan (k : nat) (pos opts dl : N) : M (option (list N)) :=
  match k with
  | O => ret None
  | S k' =>
      c <- rd8 (opts + pos) ;;
      if (c =? 82) && (opts + pos + 8 <=? dl) then
        opt82_len <- rd8 (opts + pos + 1) ;;
        sub <- (if 4 <=? opt82_len then rd8 (opts + pos + 2) else ret 0) ;;
        if (4 <=? opt82_len) && (sub =? 1) then
          cid_len <- rd8 (opts + pos + 3) ;;
          if (0 <? cid_len) && (cid_len <=? 32) && (opts + pos + 4 + cid_len <=? dl) then
            key <- rd_cid 32 0 cid_len (opts + pos + 4) ;; ret (Some key)
          else cid_scan k' (pos + 1) opts dl
        else cid_scan k' (pos + 1) opts dl
      else cid_scan k' (pos + 1) opts dl
  end.

Definition extract_circuit_id_fixed (dh dl : N) : M (option (list N)) :=
  let opts := dh + 240 in
  if opts + 64 >? dl then ret None else
  c3 <- rd8 (opts + 3) ;;
  first <- (if c3 =? 82 then
              opt82_len <- rd8 (opts + 4) ;;
              if (4 <=? opt82_len) && (opts + 5 + opt82_len <=? dl) then
                sub <- rd8 (opts + 5) ;;
                if sub =? 1 then
                  cid_len <- rd8 (opts + 6) ;;
                  if (0 <? cid_len) && (cid_len <=? 32) && (opts + 7 + cid_len <=? dl) then
                    key <- rd_cid 32 0 cid_len (opts + 7) ;; ret (Some key)
                  else ret None
                else ret None
              else ret None
            else ret None) ;;
  match first with
  | Some key => ret (Some key)
  | None => cid_scan 8 12 opts dl
  end.

Definition prefix_to_mask (p : N) : N :=
  if p =? 0 then 0 else if 32 <=? p then M32 else htonl (u32t (N.shiftl M32 (32 - p))).

(* build_dhcp_options; returns the number of option bytes written *)
Definition build_dhcp_options (opt dl msg_type : N) (pool : list N) (server_ip : N) : M N :=
  let lease := fld 20 4 pool in
  let opt4 (off code v : N) (k : N -> M N) : M N :=
    if opt + off + 6 >? dl then exit XDP_PASS else
    wr8 (opt + off) code ;;; wr8 (opt + off + 1) 4 ;;; wr32 (opt + off + 2) v ;;; k (off + 6) in
  if opt + 0 + 3 >? dl then exit XDP_PASS else
  wr8 opt 53 ;;; wr8 (opt + 1) 1 ;;; wr8 (opt + 2) msg_type ;;;
  opt4 3 54 server_ip (fun off =>
  opt4 off 51 (htonl lease) (fun off =>
  opt4 off 1 (prefix_to_mask (fld 4 1 pool)) (fun off =>
  opt4 off 3 (fld 8 4 pool) (fun off =>
  off <- (if negb (fld 12 4 pool =? 0) then
            let dns_len := if negb (fld 16 4 pool =? 0) then 8 else 4 in
            if opt + off + 2 + dns_len >? dl then exit XDP_PASS else
            wr8 (opt + off) 6 ;;; wr8 (opt + off + 1) dns_len ;;; wr32 (opt + off + 2) (fld 12 4 pool) ;;;
            if negb (fld 16 4 pool =? 0) then wr32 (opt + off + 6) (fld 16 4 pool) ;;; ret (off + 10)
            else ret (off + 6)
          else ret off) ;;
  opt4 off 58 (htonl (lease / 2)) (fun off =>
  opt4 off 59 (htonl (u32t (lease * 7) / 8)) (fun off =>
  if opt + off + 1 >? dl then exit XDP_PASS else
  wr8 (opt + off) 255 ;;; ret (off + 1))))))).

(* ip_checksum: ten 16-bit loads *)
Fixpoint sum16 (k : nat) (off : N) : M N :=
  match k with
  | O => ret 0
  | S k' => w <- rd16 off ;; s <- sum16 k' (off + 2) ;; ret (w + s)
  end.
Definition ip_checksum (l3 : N) : M N :=
  s <- sum16 10 l3 ;;
  let s1 := N.land s M16 + N.shiftr s 16 in
  let s2 := N.land s1 M16 + N.shiftr s1 16 in
  ret (M16 - N.land s2 M16).

(* bpf_xdp_adjust_tail(ctx, delta) + `if (ret != 0) return XDP_PASS;` + `return XDP_TX;`
   The helper refuses a new length below ETH_HLEN and, when growing, one beyond the frame's tailroom
   (e_maxlen); on success the frame is cut or extended with zero bytes.
   orig_len is the C's `(__u16)(data_end - data)`. *)
Definition adjust_ok (e : env) (dl newlen : N) : bool :=
  (14 <=? newlen) && ((newlen <=? dl) || (newlen <=? e_maxlen e)).
Definition adjust_and_return (e : env) (dl total_len : N) : M N := fun f =>
  let orig_len := u16t dl in
  if total_len =? orig_len then Exit XDP_TX f else
  let newlen := dl - orig_len + total_len in
  if adjust_ok e dl newlen then Exit XDP_TX (resize newlen f) else Exit XDP_PASS f.

Definition dhcp_body (mp : maps) (e : env) (dl : N) : M N :=
  (* parse_packet_headers *)
  if 14 >? dl then exit XDP_PASS else
  ethp <- rd16 12 ;;
  hdr <- (if (ethp =? htons 0x8100) || (ethp =? htons 0x88A8) then
            if 14 + 4 >? dl then exit XDP_PASS else
            tci <- rd16 14 ;;
            ethp2 <- rd16 16 ;;
            if ethp2 =? htons 0x8100 then
              if 18 + 4 >? dl then exit XDP_PASS else
              tci2 <- rd16 18 ;;
              ethp3 <- rd16 20 ;;
              ret (ethp3, 8, true, N.land (ntohs tci) 4095, N.land (ntohs tci2) 4095)
            else ret (ethp2, 4, true, N.land (ntohs tci) 4095, 0)
          else ret (ethp, 0, false, 0, 0)) ;;
  let '(proto, vlan_offset, tagged, vlan_id, inner_vlan_id) := hdr in
  let l3 := 14 + vlan_offset in
  if negb (proto =? htons 0x0800) then exit XDP_PASS else
  if l3 + 20 >? dl then exit XDP_PASS else
  ipproto <- rd8 (l3 + 9) ;;
  if negb (ipproto =? 17) then exit XDP_PASS else
  vihl <- rd8 l3 ;;
  if negb (N.land vihl 15 =? 5) then exit XDP_PASS else
  let udp := l3 + N.land vihl 15 * 4 in
  if udp + 8 >? dl then exit XDP_PASS else
  dport <- rd16 (udp + 2) ;;
  if negb (dport =? htons 67) then exit XDP_PASS else
  let dh := udp + 8 in
  if dh + 240 >? dl then exit XDP_PASS else
  (* main program *)
  op <- rd8 dh ;;
  if negb (op =? 1) then exit XDP_PASS else
  magic <- rd32 (dh + 236) ;;
  if negb (magic =? htonl 0x63825363) then exit XDP_PASS else
  msg_type <- get_dhcp_msg_type dh dl ;;
  if negb (msg_type =? 1) && negb (msg_type =? 3) then exit XDP_PASS else
  let a1 := if tagged then mp MAP_VLAN_SUBSCRIBER_POOLS (le_n 2 vlan_id ++ le_n 2 inner_vlan_id) else None in
  a2 <- (match a1 with
         | Some a => ret (Some a)
         | None =>
             cid <- extract_circuit_id_fixed dh dl ;;
             match cid with
             | Some key => ret (mp MAP_CIRCUIT_ID_SUBSCRIBERS key)
             | None => ret None
             end
         end) ;;
  a3 <- (match a2 with
         | Some a => ret (Some a)
         | None => chaddr <- rd_bytes 6 (dh + 28) ;; ret (mp MAP_SUBSCRIBER_POOLS (le_n 8 (mac_to_u64 chaddr)))
         end) ;;
  match a3 with
  | None => exit XDP_PASS
  | Some a =>
      if fld 13 8 a <? e_now e / 1000000000 then exit XDP_PASS else
      match mp MAP_IP_POOLS (firstn 4 a) with
      | None => exit XDP_PASS
      | Some pool =>
          if dh + 240 + 64 >? dl then exit XDP_PASS else
          match mp MAP_SERVER_CONFIG (le_n 4 0) with
          | None => exit XDP_PASS
          | Some config =>
              let reply_type := if msg_type =? 1 then 2 else 5 in
              giaddr <- rd32 (dh + 24) ;;
              let server_ip := if negb (fld 8 4 config =? 0) then fld 8 4 config else fld 8 4 pool in
              let server_mac := firstn 6 (config ++ repeat 0 6%nat) in
              (if negb (giaddr =? 0) then
                 copy_bytes 6 6 0 ;;;
                 wr_bytes server_mac 6 ;;;
                 wr32 (l3 + 12) server_ip ;;; wr32 (l3 + 16) giaddr ;;; wr8 (l3 + 8) 64 ;;; wr16 (l3 + 10) 0 ;;;
                 wr16 udp (htons 67) ;;; wr16 (udp + 2) (htons 67) ;;; wr16 (udp + 6) 0
               else
                 flags <- rd16 (dh + 10) ;;
                 use_broadcast <- (if negb (N.land (ntohs flags) 0x8000 =? 0) then ret true
                                   else ciaddr <- rd32 (dh + 12) ;;
                                        if ciaddr =? 0 then _z <- is_zero_bytes 6 (dh + 28) ;; ret true
                                        else ret false) ;;
                 (if (use_broadcast : bool) then wr_bytes [255; 255; 255; 255; 255; 255] 0
                  else copy_bytes 6 (dh + 28) 0) ;;;
                 wr_bytes server_mac 6 ;;;
                 wr32 (l3 + 12) server_ip ;;; wr32 (l3 + 16) M32 ;;; wr8 (l3 + 8) 64 ;;; wr16 (l3 + 10) 0 ;;;
                 wr16 udp (htons 67) ;;; wr16 (udp + 2) (htons 68) ;;; wr16 (udp + 6) 0) ;;;
              wr8 dh 2 ;;; wr8 (dh + 3) 0 ;;; wr32 (dh + 16) (fld 4 4 a) ;;; wr32 (dh + 20) server_ip ;;;
              wr_zero 64 (dh + 44) ;;; wr_zero 128 (dh + 108) ;;;
              opt_len <- build_dhcp_options (dh + 240) dl reply_type pool server_ip ;;
              let dhcp_len := u16t (240 + opt_len) in
              let udp_len := u16t (8 + dhcp_len) in
              let ip_len := u16t (20 + udp_len) in
              let l2_len := u16t (14 + vlan_offset) in
              let total_len := u16t (l2_len + ip_len) in
              wr16 (l3 + 2) (htons ip_len) ;;;
              wr16 (udp + 4) (htons udp_len) ;;;
              ck <- ip_checksum l3 ;;
              wr16 (l3 + 10) ck ;;;
              adjust_and_return e dl total_len
          end
      end
  end.

Definition dhcp_fastpath_prog (mp : maps) (e : env) : M N := fun f => dhcp_body mp e (flen f) f.
