(* C03 — functional byte-level Model of bpf/dhcp_fastpath.c (dhcp_fastpath_prog) as coded, and of the
   Go side that writes the cache the program answers from (pkg/ebpf/loader.go marshalling,
   dhcp.PoolManager.AddPool, Loader.SetServerConfig, dhcp.Server.updateFastPathCache + the circuit-id
   entry of handleRequest, the deletes of handleRelease / handleDecline / cleanupExpiredLeases).

   Part 1 (xdp): frame = list of bytes; every data_end comparison of the C source is an explicit length
   test; every access goes through [rd]/[upd], which fail with [OOB] outside the frame (never a default
   value).  Map values are RAW byte strings of the C-declared sizes (pool_assignment 25, ip_pool 28,
   dhcp_server_config 16): nothing about the Go encoding is assumed here.  Writes happen in source
   order on the current frame.  The result is (verdict, frame', ghost markers).

   Part 2 (cache_step): the bytes the Go side puts into the maps for each slow-path event.  The
   harness observes the events on the real dhcp.Server and compares the resulting maps with the raw
   dump of the real kernel maps (byte-exact).

   Ghost markers (they never influence verdict or frame):
     301  a reply carries an IPv4 word that the Go side wrote as a native-endian integer of the
          big-endian value (ebpf.IPToUint32) - the C copies the bytes as they lie in memory, so the
          address goes out byte-reversed (raised when the word is not a palindrome)
     302  XDP_PASS after the headers were rewritten (build_dhcp_options / bpf_xdp_adjust_tail failure;
          the options-room test itself precedes the first write since commit c10bfec)
     (303: reply for a request whose IHL is not 5 - FIXED, parse_packet_headers now passes such frames)
     304  lease_expiry (Unix seconds) compared with bpf_ktime_get_ns()/1e9 (seconds since boot): the
          entry is expired on the Unix clock and still answered
     (305: DHCPDECLINE left the cache entries in place - FIXED, handleDecline deletes them)
     (306: cleanupExpiredLeases left the circuit-id entry - FIXED by the C16 builder, commit 81d6b2b)
     307  REQUEST answered with ACK although it names another address than the cached one
          (the slow path answers NAK "IP mismatch")
     308  the fixed-offset message-type scan read a value that a TLV walk of the options does not
          give (bytes inside another option's payload, or a type behind offset 6)
     309  server_config.server_ip is zero (Server.Start did not write the entry: interface lookup
          failed): the reply names the pool gateway as server identifier and an all-zero source MAC,
          userspace names its configured server address
     310  a request whose hardware address (hlen bytes) has no lease is answered through the
          subscriber_pools entry of another hardware address with the same first six bytes (the map
          is keyed on six bytes by ebpf.MACToUint64 and mac_to_u64; userspace keys leases on hlen bytes)
     311  answered from the circuit-id entry although the MAC entry of the requesting client holds another
          binding (kernel: circuit-id before MAC; userspace: hardware address before circuit-id) *)
From Coq Require Import NArith List Bool Lia.
From Verif Require Import Base.Word.
Import ListNotations.
Local Open Scope N_scope.

Definition XDP_DROP : N := 1.
Definition XDP_PASS : N := 2.
Definition XDP_TX : N := 3.

(* ------------------------------------------------------------------ checked access *)
Definition rd (f : bytes) (off n : nat) : option bytes :=
  if Nat.leb (off + n) (length f) then Some (firstn n (skipn off f)) else None.
Definition rd8 (f : bytes) (off : nat) : option N :=
  match rd f off 1 with Some [b] => Some b | _ => None end.
Definition upd (f : bytes) (off : nat) (bs : bytes) : option bytes :=
  if Nat.leb (off + length bs) (length f)
  then Some (firstn off f ++ bs ++ skipn (off + length bs) f) else None.

Definition zeros (n : nat) : bytes := repeat 0 n.
Fixpoint all_zero (b : bytes) : bool :=
  match b with [] => true | x :: tl => (x =? 0) && all_zero tl end.
Definition be16b (v : N) : bytes := [(v / 256) mod 256; v mod 256].
Definition le16b (v : N) : bytes := [v mod 256; (v / 256) mod 256].

(* ------------------------------------------------------------------ maps (raw bytes) *)
Definition rawmap := list (bytes * bytes).
Fixpoint lookup (k : bytes) (l : rawmap) : option bytes :=
  match l with
  | [] => None
  | (k', v) :: tl => if bytes_eqb k' k then Some v else lookup k tl
  end.

Record maps := { m_sub : rawmap;      (* subscriber_pools: key __u64 (8), value pool_assignment (25) *)
                 m_vlan : rawmap;     (* vlan_subscriber_pools: key vlan_key (4) *)
                 m_cid : rawmap;      (* circuit_id_subscribers: key 32 bytes *)
                 m_pool : rawmap;     (* ip_pools: key __u32 (4), value ip_pool (28) *)
                 m_cfg : option bytes;(* server_config[0] (16); an ARRAY map: always present in the kernel *)
                 m_origin : N }.      (* ghost: 0 = written by the real Go side; other = harness-written *)

(* ------------------------------------------------------------------ DHCP option walk (RFC 2132 TLV) *)
(* first occurrence of option [code]; stops at END (255), skips PAD (0); None when absent or the
   walk leaves the buffer *)
Fixpoint tlv_find (fuel : nat) (code : N) (o : bytes) : option bytes :=
  match fuel with
  | O => None
  | S k =>
      match o with
      | [] => None
      | c :: tl =>
          if c =? 0 then tlv_find k code tl
          else if c =? 255 then None
          else match tl with
               | [] => None
               | l :: data =>
                   if Nat.ltb (length data) (N.to_nat l) then None
                   else if c =? code then Some (firstn (N.to_nat l) data)
                   else tlv_find k code (skipn (N.to_nat l) data)
               end
      end
  end.
Definition tlv_get (code : N) (o : bytes) : option bytes := tlv_find (S (length o)) code o.
(* does the walk reach an END option inside the buffer? *)
Fixpoint tlv_ended (fuel : nat) (o : bytes) : bool :=
  match fuel with
  | O => false
  | S k =>
      match o with
      | [] => false
      | c :: tl =>
          if c =? 0 then tlv_ended k tl
          else if c =? 255 then true
          else match tl with
               | [] => false
               | l :: data => if Nat.ltb (length data) (N.to_nat l) then false
                              else tlv_ended k (skipn (N.to_nat l) data)
               end
      end
  end.
Definition tlv_msg_type (o : bytes) : N :=
  match tlv_get 53 o with Some [t] => t | _ => 0 end.

(* ------------------------------------------------------------------ parse_packet_headers *)
Record pkt := { p_tagged : bool; p_vid : N; p_ivid : N; p_voff : nat;
                p_ip : nat; p_ihl : N; p_udp : nat; p_dhcp : nat }.

Inductive parsed := NotDhcp | Parsed (p : pkt) | ParseOOB.

Definition vid_of (tci : bytes) : N :=
  match tci with [a; b] => N.land (a * 256 + b) 4095 | _ => 0 end.

Definition parse_l3 (f : bytes) (tagged : bool) (vid ivid : N) (voff : nat) (et : bytes) (l3 : nat) : parsed :=
  if negb (bytes_eqb et [8; 0]) then NotDhcp else
  if Nat.ltb (length f) (l3 + 20) then NotDhcp else
  match rd8 f (l3 + 9), rd8 f l3 with
  | Some proto, Some b0 =>
      if negb (proto =? 17) then NotDhcp else
      let ihl := N.land b0 15 in
      if negb (ihl =? 5) then NotDhcp else       (* fix commit: IP options / bogus IHL go to the slow path *)
      let udp := (l3 + N.to_nat ihl * 4)%nat in
      if Nat.ltb (length f) (udp + 8) then NotDhcp else
      match rd f (udp + 2) 2 with
      | Some dport =>
          if negb (bytes_eqb dport [0; 67]) then NotDhcp else
          let dh := (udp + 8)%nat in
          if Nat.ltb (length f) (dh + 240) then NotDhcp else
          Parsed {| p_tagged := tagged; p_vid := vid; p_ivid := ivid; p_voff := voff;
                    p_ip := l3; p_ihl := ihl; p_udp := udp; p_dhcp := dh |}
      | None => ParseOOB
      end
  | _, _ => ParseOOB
  end.

Definition is_vlan_et (et : bytes) : bool := bytes_eqb et [129; 0] || bytes_eqb et [136; 168].

Definition parse (f : bytes) : parsed :=
  if Nat.ltb (length f) 14 then NotDhcp else
  match rd f 12 2 with
  | None => ParseOOB
  | Some et =>
      if is_vlan_et et then
        if Nat.ltb (length f) 18 then NotDhcp else
        match rd f 14 2, rd f 16 2 with
        | Some tci, Some et2 =>
            if bytes_eqb et2 [129; 0] then
              if Nat.ltb (length f) 22 then NotDhcp else
              match rd f 18 2, rd f 20 2 with
              | Some tci2, Some et3 => parse_l3 f true (vid_of tci) (vid_of tci2) 8 et3 22
              | _, _ => ParseOOB
              end
            else parse_l3 f true (vid_of tci) 0 4 et2 18
        | _, _ => ParseOOB
        end
      else parse_l3 f false 0 0 0 et 14
  end.

(* ------------------------------------------------------------------ get_dhcp_msg_type (fixed offsets) *)
Definition bo (o : bytes) (i : nat) : N := nth i o 0.   (* only used on windows whose length rd fixed *)

Definition msg_type_fixed (o : bytes) : N :=           (* o = the first 12 option bytes *)
  if (bo o 0 =? 53) && (bo o 1 =? 1) then bo o 2 else
  if (bo o 1 =? 53) && (bo o 2 =? 1) then bo o 3 else
  if (bo o 3 =? 53) && (bo o 4 =? 1) then bo o 5 else
  if (bo o 4 =? 53) && (bo o 5 =? 1) then bo o 6 else
  if (bo o 5 =? 53) && (bo o 6 =? 1) then bo o 7 else
  if (bo o 6 =? 53) && (bo o 7 =? 1) then bo o 8 else 0.

Definition get_msg_type (f : bytes) (opts : nat) : option N :=
  if Nat.ltb (length f) (opts + 12) then Some 0 else
  match rd f opts 12 with Some o => Some (msg_type_fixed o) | None => None end.

(* ------------------------------------------------------------------ extract_circuit_id_fixed *)
Definition cid_key (o : bytes) (start : nat) (cl : N) : bytes :=
  firstn (N.to_nat cl) (skipn start o) ++ zeros (32 - N.to_nat cl).

Fixpoint cid_scan (o : bytes) (len opts : nat) (pos n : nat) : option bytes :=
  match n with
  | O => None
  | S k =>
      if (bo o pos =? 82) && Nat.leb (opts + pos + 8) len then
        let l82 := bo o (pos + 1) in
        if (4 <=? l82) && (bo o (pos + 2) =? 1) then
          let cl := bo o (pos + 3) in
          if (0 <? cl) && (cl <=? 32) && Nat.leb (opts + pos + 4 + N.to_nat cl) len
          then Some (cid_key o (pos + 4) cl)
          else cid_scan o len opts (S pos) k
        else cid_scan o len opts (S pos) k
      else cid_scan o len opts (S pos) k
  end.

Definition cid_first (o : bytes) (len opts : nat) : option bytes :=
  if bo o 3 =? 82 then
    let l82 := bo o 4 in
    if (4 <=? l82) && Nat.leb (opts + 5 + N.to_nat l82) len then
      if bo o 5 =? 1 then
        let cl := bo o 6 in
        if (0 <? cl) && (cl <=? 32) && Nat.leb (opts + 7 + N.to_nat cl) len
        then Some (cid_key o 7 cl) else None
      else None
    else None
  else None.

(* Some None = no circuit-id; None = OOB *)
Definition extract_cid (f : bytes) (opts : nat) : option (option bytes) :=
  if Nat.ltb (length f) (opts + 64) then Some None else
  match rd f opts 64 with
  | None => None
  | Some o =>
      match cid_first o (length f) opts with
      | Some k => Some (Some k)
      | None => Some (cid_scan o (length f) opts 12 8)
      end
  end.

(* ------------------------------------------------------------------ ip_checksum, prefix_to_mask *)
Fixpoint sum_le16 (h : bytes) : N :=            (* sum of the little-endian 16-bit words *)
  match h with
  | lo :: hi :: tl => lo + 256 * hi + sum_le16 tl
  | _ => 0
  end.
Definition fold16 (s : N) : N := N.land s 65535 + N.shiftr s 16.
Definition ip_checksum (hdr20 : bytes) : N :=   (* as __u16 *)
  let s := fold16 (fold16 (sum_le16 hdr20)) in
  N.land (4294967295 - N.land s 4294967295) 65535.

Definition prefix_to_mask (p : N) : bytes :=    (* the four bytes stored into the option *)
  if p =? 0 then [0; 0; 0; 0] else
  if 32 <=? p then [255; 255; 255; 255] else
  be_bytes 4 (N.land (N.shiftl 4294967295 (32 - p)) 4294967295).

(* ------------------------------------------------------------------ build_dhcp_options *)
(* writer state: frame and offset; [put] = the bounds test in front of each option, then the stores *)
Inductive wr := WOk (f : bytes) (off : nat) | WFail (f : bytes) | WOob.

Definition put (opt : nat) (w : wr) (bs : bytes) : wr :=
  match w with
  | WOk f off =>
      if Nat.ltb (length f) (opt + off + length bs) then WFail f
      else match upd f (opt + off) bs with
           | Some f' => WOk f' (off + length bs)
           | None => WOob
           end
  | _ => w
  end.

Definition nonpal (w : bytes) : bool := negb (bytes_eqb (rev w) w).

Record poolv := { pv_prefix : N; pv_gw : bytes; pv_dns1 : bytes; pv_dns2 : bytes; pv_lease : N }.
Definition pool_view (v : bytes) : option poolv :=
  match rd8 v 4, rd v 8 4, rd v 12 4, rd v 16 4, rd v 20 4 with
  | Some p, Some g, Some d1, Some d2, Some lt =>
      Some {| pv_prefix := p; pv_gw := g; pv_dns1 := d1; pv_dns2 := d2; pv_lease := le_val lt |}
  | _, _, _, _, _ => None
  end.

Definition build_options (f : bytes) (opt : nat) (mt : N) (pv : poolv) (server_ip : bytes) : wr :=
  let w := WOk f 0 in
  let w := put opt w [53; 1; mt] in
  let w := put opt w ([54; 4] ++ server_ip) in
  let w := put opt w ([51; 4] ++ be_bytes 4 (pv_lease pv)) in
  let w := put opt w ([1; 4] ++ prefix_to_mask (pv_prefix pv)) in
  let w := put opt w ([3; 4] ++ pv_gw pv) in
  let w := if all_zero (pv_dns1 pv) then w
           else if all_zero (pv_dns2 pv) then put opt w ([6; 4] ++ pv_dns1 pv)
           else put opt w ([6; 8] ++ pv_dns1 pv ++ pv_dns2 pv) in
  let w := put opt w ([58; 4] ++ be_bytes 4 (pv_lease pv / 2)) in
  let w := put opt w ([59; 4] ++ be_bytes 4 (((pv_lease pv * 7) mod W32) / 8)) in
  put opt w [255].

(* ------------------------------------------------------------------ header rewrite *)
Fixpoint upds (f : bytes) (ws : list (nat * bytes)) : option bytes :=
  match ws with
  | [] => Some f
  | (o, bs) :: tl => match upd f o bs with Some f' => upds f' tl | None => None end
  end.

(* relayed request: reply to the relay agent *)
Definition rewrite_relay (f : bytes) (p : pkt) (cfgmac server_ip giaddr : bytes) : option bytes :=
  match rd f 6 6 with
  | None => None
  | Some src =>
      upds f [ (0%nat, src); (6%nat, cfgmac);
               ((p_ip p + 12)%nat, server_ip); ((p_ip p + 16)%nat, giaddr);
               ((p_ip p + 8)%nat, [64]); ((p_ip p + 10)%nat, [0; 0]);
               (p_udp p, [0; 67]); ((p_udp p + 2)%nat, [0; 67]); ((p_udp p + 6)%nat, [0; 0]) ]
  end.

(* direct request: setup_reply_l2_headers, then broadcast at the IP layer *)
Definition rewrite_direct (f : bytes) (p : pkt) (cfgmac server_ip : bytes) : option bytes :=
  match rd f (p_dhcp p + 10) 2, rd f (p_dhcp p + 12) 4, rd f (p_dhcp p + 28) 6 with
  | Some [fh; fl], Some ciaddr, Some chaddr =>
      let bcast := negb (N.land fh 128 =? 0) || all_zero ciaddr in
      upds f [ (0%nat, if bcast then [255; 255; 255; 255; 255; 255] else chaddr); (6%nat, cfgmac);
               ((p_ip p + 12)%nat, server_ip); ((p_ip p + 16)%nat, [255; 255; 255; 255]);
               ((p_ip p + 8)%nat, [64]); ((p_ip p + 10)%nat, [0; 0]);
               (p_udp p, [0; 67]); ((p_udp p + 2)%nat, [0; 68]); ((p_udp p + 6)%nat, [0; 0]) ]
  | _, _, _ => None
  end.

Definition rewrite_dhcp (f : bytes) (p : pkt) (yiaddr server_ip : bytes) : option bytes :=
  upds f [ (p_dhcp p, [2]); ((p_dhcp p + 3)%nat, [0]);
           ((p_dhcp p + 16)%nat, yiaddr); ((p_dhcp p + 20)%nat, server_ip);
           ((p_dhcp p + 44)%nat, zeros 64); ((p_dhcp p + 108)%nat, zeros 128) ].

(* bpf_xdp_adjust_tail as BPF_PROG_TEST_RUN implements it: the frame keeps at least an Ethernet header;
   growth is limited by the tailroom of the test page (4096 - 256 headroom - 320 skb_shared_info);
   new bytes are zero *)
Definition TAIL_MAX : nat := 3520.
Definition adjust_tail (f : bytes) (newlen : nat) : option bytes :=
  if Nat.ltb newlen 14 then None
  else if Nat.leb newlen (length f) then Some (firstn newlen f)
  else if Nat.leb newlen TAIL_MAX then Some (f ++ zeros (newlen - length f))
  else None.

(* ------------------------------------------------------------------ the program *)
Inductive res := Done (v : N) (f : bytes) (mk : list N) | OOB.

Definition requested_addr (f : bytes) (p : pkt) : option bytes :=
  (* what handleRequest compares with the lease: option 50 unless absent/0.0.0.0, else ciaddr *)
  match rd f (p_dhcp p + 12) 4 with
  | None => None
  | Some ci =>
      match tlv_get 50 (skipn (p_dhcp p + 240) f) with
      | Some r => if (Nat.eqb (length r) 4) && negb (all_zero r) then Some r else Some ci
      | None => Some ci
      end
  end.

Definition tx_markers (m : maps) (f : bytes) (p : pkt) (mt : N) (yi sip cfgip : bytes) (pv : poolv)
           (expiry unow : N) : list N :=
  (if (m_origin m =? 0) &&
      (nonpal yi || nonpal sip || nonpal (pv_gw pv)
       || (negb (all_zero (pv_dns1 pv)) && (nonpal (pv_dns1 pv)
            || (negb (all_zero (pv_dns2 pv)) && nonpal (pv_dns2 pv)))))
   then [301] else []) ++
  (if expiry <? unow then [304] else []) ++
  (if mt =? 3 then
     match requested_addr f p with
     | Some r => if bytes_eqb r yi || bytes_eqb r (rev yi) then [] else [307]
     | None => []
     end else []) ++
  (if tlv_msg_type (skipn (p_dhcp p + 240) f) =? mt then [] else [308]) ++
  (if all_zero cfgip then [309] else []).

(* after the lookups succeeded: rewrite, options, lengths, checksum, tail.  [f] is the request. *)
Definition reply (m : maps) (unow : N) (f : bytes) (p : pkt) (mt : N) (asg poolval cfg : bytes) (expiry : N) : res :=
  match rd asg 4 4, pool_view poolval, rd cfg 0 6, rd cfg 8 4, rd f (p_dhcp p + 24) 4 with
  | Some yi, Some pv, Some cfgmac, Some cfgip, Some giaddr =>
      let server_ip := if all_zero cfgip then pv_gw pv else cfgip in
      let rt := if mt =? 1 then 2 else 5 in
      let f1 := if all_zero giaddr then rewrite_direct f p cfgmac server_ip
                else rewrite_relay f p cfgmac server_ip giaddr in
      match f1 with
      | None => OOB
      | Some f1 =>
          match rewrite_dhcp f1 p yi server_ip with
          | None => OOB
          | Some f2 =>
              let opt := (p_dhcp p + 240)%nat in
              match build_options f2 opt rt pv server_ip with
              | WOob => OOB
              | WFail f3 => Done XDP_PASS f3 [302]
              | WOk f3 optlen =>
                  let dhcp_len := (240 + N.of_nat optlen) mod W16 in
                  let udp_len := (8 + dhcp_len) mod W16 in
                  let ip_len := (20 + udp_len) mod W16 in
                  let total := (14 + N.of_nat (p_voff p) + ip_len) mod W16 in
                  match upds f3 [ ((p_ip p + 2)%nat, be16b ip_len); ((p_udp p + 4)%nat, be16b udp_len) ] with
                  | None => OOB
                  | Some f4 =>
                      match rd f4 (p_ip p) 20 with
                      | None => OOB
                      | Some hdr =>
                          match upd f4 (p_ip p + 10) (le16b (ip_checksum hdr)) with
                          | None => OOB
                          | Some f5 =>
                              let orig := N.of_nat (length f5) mod W16 in
                              let mk := tx_markers m f p mt yi server_ip cfgip pv expiry unow in
                              if total =? orig then Done XDP_TX f5 mk else
                              (* delta = (int)total - (int)orig; new length = length + delta *)
                              if N.of_nat (length f5) + total <? orig then Done XDP_PASS f5 [302] else
                              match adjust_tail f5 (N.to_nat (N.of_nat (length f5) + total - orig)) with
                              | Some f6 => Done XDP_TX f6 mk
                              | None => Done XDP_PASS f5 [302]
                              end
                          end
                      end
                  end
              end
          end
      end
  | _, _, _, _, _ => OOB
  end.

Definition NS_PER_S : N := 1000000000.

Definition find_assignment (m : maps) (f : bytes) (p : pkt) : option (option bytes) :=   (* None = OOB *)
  let a1 := if p_tagged p then lookup (le16b (p_vid p) ++ le16b (p_ivid p)) (m_vlan m) else None in
  match a1 with
  | Some a => Some (Some a)
  | None =>
      match extract_cid f (p_dhcp p + 240) with
      | None => None
      | Some ck =>
          let a2 := match ck with Some k => lookup k (m_cid m) | None => None end in
          match a2 with
          | Some a => Some (Some a)
          | None =>
              match rd f (p_dhcp p + 28) 6 with
              | None => None
              | Some ch => Some (lookup (rev ch ++ [0; 0]) (m_sub m))   (* mac_to_u64 as a native __u64 *)
              end
          end
      end
  end.

(* [unow] is a ghost input (the Unix clock of userspace at this moment): markers only *)
Definition xdp (m : maps) (now unow : N) (f : bytes) : res :=
  match parse f with
  | ParseOOB => OOB
  | NotDhcp => Done XDP_PASS f []
  | Parsed p =>
      match rd8 f (p_dhcp p), rd f (p_dhcp p + 236) 4 with
      | Some op, Some magic =>
          if negb (op =? 1) then Done XDP_PASS f [] else
          if negb (bytes_eqb magic [99; 130; 83; 99]) then Done XDP_PASS f [] else
          match get_msg_type f (p_dhcp p + 240) with
          | None => OOB
          | Some mt =>
              if negb ((mt =? 1) || (mt =? 3)) then Done XDP_PASS f [] else
              match find_assignment m f p with
              | None => OOB
              | Some None => Done XDP_PASS f []
              | Some (Some asg) =>
                  match rd asg 13 8, rd asg 0 4 with
                  | Some ex, Some pid =>
                      let expiry := le_val ex in
                      if expiry <? now / NS_PER_S then Done XDP_PASS f [] else
                      match lookup pid (m_pool m) with
                      | None => Done XDP_PASS f []
                      | Some poolval =>
                          (* room for the reply's options, tested before the first write (commit c10bfec) *)
                          if Nat.ltb (length f) (p_dhcp p + 240 + 64) then Done XDP_PASS f [] else
                          match m_cfg m with
                          | None => Done XDP_PASS f []
                          | Some cfg => reply m unow f p mt asg poolval cfg expiry
                          end
                      end
                  | _, _ => OOB
                  end
              end
          end
      | _, _ => OOB
      end
  end.

(* ================================================================== Part 2: the Go side *)
(* sorted insertion keeps the maps in the order of the harness' dump (by key bytes) *)
Definition lex_ltb (x y : bytes) : bool := lex_leb x y && negb (bytes_eqb x y).
Fixpoint mput (k v : bytes) (l : rawmap) : rawmap :=
  match l with
  | [] => [(k, v)]
  | (k', v') :: tl =>
      if bytes_eqb k' k then (k, v) :: tl
      else if lex_ltb k k' then (k, v) :: l
      else (k', v') :: mput k v tl
  end.
Definition mdel (k : bytes) (l : rawmap) : rawmap := filter (fun kv => negb (bytes_eqb (fst kv) k)) l.

(* ebpf.IPToUint32 (binary.BigEndian.Uint32) marshalled native-endian by cilium/ebpf: bytes reversed *)
Definition go_ip (ip : bytes) : bytes := le_bytes 4 (be_val ip).
Definition go_u32 (v : N) : bytes := le_bytes 4 (v mod W32).
Definition go_u64 (v : N) : bytes := le_bytes 8 (v mod W64).
Definition go_mac_key (mac : bytes) : bytes :=                                   (* MACToUint64: 0 for fewer than 6 bytes *)
  if Nat.ltb (length mac) 6 then zeros 8 else go_u64 (be_val (firstn 6 mac)).
Definition go_cid_key (cid : bytes) : bytes :=                                   (* MakeCircuitIDKey *)
  firstn 32 cid ++ zeros (32 - length cid).

Record gpool := { gp_id : N; gp_net : bytes; gp_prefix : N; gp_gw : bytes; gp_dns : list bytes;
                  gp_lease : N }.
Definition dns_at (l : list bytes) (i : nat) : bytes :=
  match nth_error l i with Some d => go_ip d | None => [0; 0; 0; 0] end.
Definition go_pool (g : gpool) : bytes :=      (* ebpf.IPPool, 28 bytes *)
  go_ip (gp_net g) ++ [gp_prefix g mod 256; 0; 0; 0] ++ go_ip (gp_gw g) ++ dns_at (gp_dns g) 0 ++
  dns_at (gp_dns g) 1 ++ go_u32 (gp_lease g) ++ [0; 0; 0; 0].
Definition go_assignment (pool : N) (ip : bytes) (vlan class expiry : N) : bytes :=   (* ebpf.PoolAssignment, 25 bytes *)
  go_u32 pool ++ go_ip ip ++ go_u32 vlan ++ [class mod 256] ++ go_u64 expiry ++ [0] ++ [0; 0; 0].
Definition go_config (mac ip : bytes) (ifindex : N) : bytes :=                        (* ebpf.ServerConfig, 16 bytes *)
  firstn 6 mac ++ [0; 0] ++ go_ip ip ++ go_u32 ifindex.

Inductive gev :=
| GPool (g : gpool)                                   (* PoolManager.AddPool *)
| GConfig (mac ip : bytes) (ifindex : N)              (* Loader.SetServerConfig (what Server.Start does) *)
| GAck (mac ip : bytes) (pool vlan class expiry : N) (cid : bytes)   (* handleRequest, ACK branch *)
| GRelease (mac cid : bytes)                          (* handleRelease of an existing lease *)
| GDecline (mac cid : bytes)                          (* handleDecline of an existing lease *)
| GExpire (mac cid : bytes)                           (* cleanupExpiredLeases, one lease *)
| GVlan (s c : N) (mac : bytes)                       (* Loader.AddVLANSubscriber with the subscriber's entry *)
| GAge (d : N)                                        (* d seconds pass: every absolute expiry moves d closer *)
| GDropCid (cid : bytes).                             (* dropCircuitIDBindings (commit c878197): RemoveCircuitIDSubscriber of the
                                                         circuit-id the replaced lease recorded *)

Definition age_val (d : N) (v : bytes) : bytes :=
  match rd v 13 8 with
  | Some ex => firstn 13 v ++ go_u64 (le_val ex + W64 - d mod W64) ++ skipn 21 v
  | None => v
  end.
Definition age_map (d : N) (l : rawmap) : rawmap := map (fun kv => (fst kv, age_val d (snd kv))) l.

Definition set_maps (m : maps) (s v c p : rawmap) (cfg : option bytes) : maps :=
  {| m_sub := s; m_vlan := v; m_cid := c; m_pool := p; m_cfg := cfg; m_origin := m_origin m |}.

Definition has (k : bytes) (l : rawmap) : bool := match lookup k l with Some _ => true | None => false end.

Definition cache_step (m : maps) (e : gev) : maps * list N :=
  match e with
  | GPool g => (set_maps m (m_sub m) (m_vlan m) (m_cid m) (mput (go_u32 (gp_id g)) (go_pool g) (m_pool m)) (m_cfg m), [])
  | GConfig mac ip ifx => (set_maps m (m_sub m) (m_vlan m) (m_cid m) (m_pool m) (Some (go_config mac ip ifx)), [])
  | GAck mac ip pool vlan class ex cid =>
      let a := go_assignment pool ip vlan class ex in
      (set_maps m (mput (go_mac_key mac) a (m_sub m)) (m_vlan m)
                (match cid with [] => m_cid m | _ => mput (go_cid_key cid) a (m_cid m) end)
                (m_pool m) (m_cfg m), [])
  | GRelease mac cid =>
      (set_maps m (mdel (go_mac_key mac) (m_sub m)) (m_vlan m)
                (match cid with [] => m_cid m | _ => mdel (go_cid_key cid) (m_cid m) end)
                (m_pool m) (m_cfg m), [])
  | GDecline mac cid =>
      (set_maps m (mdel (go_mac_key mac) (m_sub m)) (m_vlan m)
                (match cid with [] => m_cid m | _ => mdel (go_cid_key cid) (m_cid m) end)
                (m_pool m) (m_cfg m), [])
  | GExpire mac cid =>                       (* since commit 81d6b2b the sweep deletes the circuit-id entry too *)
      (set_maps m (mdel (go_mac_key mac) (m_sub m)) (m_vlan m)
                (match cid with [] => m_cid m | _ => mdel (go_cid_key cid) (m_cid m) end)
                (m_pool m) (m_cfg m), [])
  | GVlan s c mac =>
      match lookup (go_mac_key mac) (m_sub m) with
      | Some a => (set_maps m (m_sub m) (mput (le16b s ++ le16b c) a (m_vlan m)) (m_cid m) (m_pool m) (m_cfg m), [])
      | None => (m, [])
      end
  | GAge d => (set_maps m (age_map d (m_sub m)) (age_map d (m_vlan m)) (age_map d (m_cid m)) (m_pool m) (m_cfg m), [])
  | GDropCid cid =>
      (set_maps m (m_sub m) (m_vlan m)
                (match cid with [] => m_cid m | _ => mdel (go_cid_key cid) (m_cid m) end)
                (m_pool m) (m_cfg m), [])
  end.

(* ================================================================== Part 2b: the lease table *)
(* What dhcp.Server keeps beside the cache and what decides WHICH cache entries a message touches:
   s.leases (key: the client hardware address, hlen bytes as the codec hands them over) and the
   circuit-ID index s.leasesByCircuitID (key: the full circuit-id, value: the lease OBJECT - modelled
   by a copy carrying the object's identity [l_id]).  [slow_step] turns one handled message into the
   cache events of Part 2:
     SAck      handleRequest reached the ACK branch (whether it does - pool, NAK rules - is observed);
               [cidreq] is the circuit-id of this request's option 82 ([] when it has none),
               [relayed] is giaddr <> 0.  The existing lease is found by hardware address, else for a
               relayed request by the circuit-ID index; a request without circuit-id keeps the one of
               the existing lease; a lease replaced under another circuit-id drops the old circuit's
               bindings when the index still points at it (dropCircuitIDBindings)
     SRelease / SDecline / SExpire   handleRelease / handleDecline / cleanupExpiredLeases for that
               hardware address: nothing happens without a lease; otherwise the lease, its index entry
               (unconditionally: delete(s.leasesByCircuitID, key)) and its cache entries go. *)
Section Assoc.
  Context {A : Type}.
  Fixpoint aget (k : bytes) (l : list (bytes * A)) : option A :=
    match l with
    | [] => None
    | (k', v) :: tl => if bytes_eqb k' k then Some v else aget k tl
    end.
  Fixpoint aput (k : bytes) (v : A) (l : list (bytes * A)) : list (bytes * A) :=
    match l with
    | [] => [(k, v)]
    | (k', v') :: tl =>
        if bytes_eqb k' k then (k, v) :: tl
        else if lex_ltb k k' then (k, v) :: l
        else (k', v') :: aput k v tl
    end.
  Definition adel (k : bytes) (l : list (bytes * A)) : list (bytes * A) :=
    filter (fun kv => negb (bytes_eqb (fst kv) k)) l.
End Assoc.

Record lease := { l_id : N; l_mac : bytes; l_ip : bytes; l_cid : bytes }.
Record ltab := { lt_leases : list (bytes * lease); lt_bycid : list (bytes * lease); lt_next : N }.
Definition lt_init : ltab := {| lt_leases := []; lt_bycid := []; lt_next := 1 |}.

Inductive sev :=
| SAck (hw ip : bytes) (pool vlan class expiry : N) (cidreq : bytes) (relayed : bool)
| SRelease (hw : bytes)
| SDecline (hw : bytes)
| SExpire (hw : bytes).

Definition end_lease (t : ltab) (hw : bytes) (ev : bytes -> bytes -> gev) : ltab * list gev :=
  match aget hw (lt_leases t) with
  | None => (t, [])
  | Some l =>
      ({| lt_leases := adel hw (lt_leases t);
          lt_bycid := match l_cid l with [] => lt_bycid t | _ => adel (l_cid l) (lt_bycid t) end;
          lt_next := lt_next t |}, [ev hw (l_cid l)])
  end.

Definition is_nil (b : bytes) : bool := match b with [] => true | _ => false end.

Definition slow_step (t : ltab) (e : sev) : ltab * list gev :=
  match e with
  | SAck hw ip pool vlan class ex cidreq relayed =>
      let existing :=
        match aget hw (lt_leases t) with
        | Some l => Some l
        | None => if relayed && negb (is_nil cidreq) then aget cidreq (lt_bycid t) else None
        end in
      let cid := match cidreq, existing with
                 | [], Some l => l_cid l
                 | _, _ => cidreq
                 end in
      let l' := {| l_id := lt_next t; l_mac := hw; l_ip := ip; l_cid := cid |} in
      (* dropCircuitIDBindings(existing) *)
      let '(ix, drop) :=
        match existing with
        | Some l =>
            if negb (is_nil (l_cid l)) && negb (bytes_eqb (l_cid l) cid) then
              match aget (l_cid l) (lt_bycid t) with
              | Some o => if l_id o =? l_id l then (adel (l_cid l) (lt_bycid t), [GDropCid (l_cid l)])
                          else (lt_bycid t, [])
              | None => (lt_bycid t, [])
              end
            else (lt_bycid t, [])
        | None => (lt_bycid t, [])
        end in
      ({| lt_leases := aput hw l' (lt_leases t);
          lt_bycid := if is_nil cid then ix else aput cid l' ix;
          lt_next := lt_next t + 1 |},
       drop ++ [GAck hw ip pool vlan class ex cid])
  | SRelease hw => end_lease t hw GRelease
  | SDecline hw => end_lease t hw GDecline
  | SExpire hw => end_lease t hw GExpire
  end.

(* the harness rewrites the maps between Go order and network order around guarded probes: every IPv4
   word reversed in place (an involution); [m_origin] says which form the state is in *)
Definition rev4_at (off : nat) (v : bytes) : bytes :=
  match rd v off 4 with
  | Some w => firstn off v ++ rev w ++ skipn (off + 4) v
  | None => v
  end.
Definition swap_vals (g : bytes -> bytes) (l : rawmap) : rawmap := map (fun kv => (fst kv, g (snd kv))) l.
Definition swap_maps (m : maps) : maps :=
  {| m_sub := swap_vals (rev4_at 4) (m_sub m); m_vlan := swap_vals (rev4_at 4) (m_vlan m);
     m_cid := swap_vals (rev4_at 4) (m_cid m);
     m_pool := swap_vals (fun v => rev4_at 16 (rev4_at 12 (rev4_at 8 (rev4_at 0 v)))) (m_pool m);
     m_cfg := match m_cfg m with Some c => Some (rev4_at 8 c) | None => None end;
     m_origin := if m_origin m =? 0 then 1 else 0 |}.

(* ================================================================== harness-facing step *)
(* what the real userspace server did with the same request in the same state (observation, not used
   by the Model): reply kind 0 none / 2 OFFER / 5 ACK / 6 NAK, its fields, and the status of the
   requesting client's lease: 0 never bound, 1 active, 2 expired, 3 released, 4 declined *)
Record slowview := { sv_kind : N; sv_yiaddr : bytes; sv_sid : bytes; sv_mask : bytes; sv_router : bytes;
                     sv_dns : bytes; sv_lease : N; sv_status : N }.

Inductive op :=
| Ev (e : gev)
| Sv (e : sev)                    (* one message handled by the real server *)
| SetMaps (m : maps)
| Swap                            (* Go order <-> network order of every IPv4 word *)
| Snap                            (* observation only: maps, lease table, circuit-ID index *)
| Probe (f : bytes) (now unow : N) (sv : slowview).

Inductive out :=
| OUnit
| ODump (s v c p : rawmap) (cfg : bytes)
| OSnap (s v c p : rawmap) (cfg : bytes) (ls ix : list (bytes * (bytes * bytes)))   (* key, (hw, ip) *)
| OSnapH (h : N)                       (* the same observation as a 64-bit FNV-1a digest of its serialisation
                                          (case files of ordinary runs; replays carry the full form) *)
| OXdp (v : N) (f : option bytes)      (* None: the frame is unchanged *)
| OOob.

Record state := { s_m : maps; s_l : ltab }.
Definition init : state :=
  {| s_m := {| m_sub := []; m_vlan := []; m_cid := []; m_pool := []; m_cfg := Some (zeros 16); m_origin := 0 |};
     s_l := lt_init |}.

Definition dump_of (m : maps) : out :=
  ODump (m_sub m) (m_vlan m) (m_cid m) (m_pool m) (match m_cfg m with Some c => c | None => [] end).
Definition lview (l : list (bytes * lease)) : list (bytes * (bytes * bytes)) :=
  map (fun kl => (fst kl, (l_mac (snd kl), l_ip (snd kl)))) l.
Definition snap_of (s : state) : out :=
  let m := s_m s in
  OSnap (m_sub m) (m_vlan m) (m_cid m) (m_pool m) (match m_cfg m with Some c => c | None => [] end)
        (lview (lt_leases (s_l s))) (lview (lt_bycid (s_l s))).

Fixpoint cache_steps (m : maps) (es : list gev) : maps :=
  match es with
  | [] => m
  | e :: tl => cache_steps (fst (cache_step m e)) tl
  end.

(* ghost marker 310: the program answered a request whose hardware address (hlen bytes, as the codec
   hands it to the server) has no lease, through the subscriber_pools entry that a lease of ANOTHER
   hardware address with the same first six bytes wrote (both sides key that map on six bytes) *)
Definition hw_of (f : bytes) (p : pkt) : option bytes :=
  match rd8 f (p_dhcp p + 2), rd f (p_dhcp p + 28) 16 with
  | Some hl, Some ch => Some (firstn (Nat.min (N.to_nat hl) 16) ch)
  | _, _ => None
  end.
Definition marker310 (t : ltab) (f : bytes) : list N :=
  match parse f with
  | Parsed p =>
      match hw_of f p, rd f (p_dhcp p + 28) 6 with
      | Some hw, Some ch =>
          match aget hw (lt_leases t) with
          | Some _ => []
          | None => if existsb (fun kl => bytes_eqb (go_mac_key (fst kl)) (rev ch ++ [0; 0])) (lt_leases t)
                    then [310] else []
          end
      | _, _ => []
      end
  | _ => []
  end.

(* ghost marker 311: the program answered from the circuit_id_subscribers entry while subscriber_pools
   holds a DIFFERENT binding, or none, for the requesting hardware address: the kernel looks a relayed request up
   by circuit-id first, userspace by hardware address first (two subscribers seen behind one circuit) *)
Definition marker311 (m : maps) (f : bytes) : list N :=
  match parse f with
  | Parsed p =>
      match (if p_tagged p then lookup (le16b (p_vid p) ++ le16b (p_ivid p)) (m_vlan m) else None) with
      | Some _ => []
      | None =>
          match extract_cid f (p_dhcp p + 240), rd f (p_dhcp p + 28) 6 with
          | Some (Some k), Some ch =>
              match lookup k (m_cid m), lookup (rev ch ++ [0; 0]) (m_sub m) with
              | Some a, Some a' => if bytes_eqb (firstn 8 a) (firstn 8 a') then [] else [311]
              | Some _, None => [311]   (* the requester has no binding of its own (never had one, or it was
                                           released / declined / swept): the answer is another subscriber's
                                           circuit-id entry *)
              | _, _ => []
              end
          | _, _ => []
          end
      end
  | _ => []
  end.

Definition step (s : state) (o : op) : state * out * list N :=
  match o with
  | Ev e => let '(m, mk) := cache_step (s_m s) e in ({| s_m := m; s_l := s_l s |}, dump_of m, mk)
  | Sv e => let '(t, es) := slow_step (s_l s) e in
            let m := cache_steps (s_m s) es in ({| s_m := m; s_l := t |}, dump_of m, [])
  | SetMaps m => ({| s_m := m; s_l := s_l s |}, OUnit, [])
  | Swap => ({| s_m := swap_maps (s_m s); s_l := s_l s |}, OUnit, [])
  | Snap => (s, snap_of s, [])
  | Probe f now unow _ =>
      match xdp (s_m s) now unow f with
      | Done v f' mk => (s, OXdp v (if bytes_eqb f' f then None else Some f'),
                         mk ++ (if v =? XDP_TX then marker310 (s_l s) f ++ marker311 (s_m s) f else []))
      | OOB => (s, OOob, [])
      end
  end.

Fixpoint rawmap_eqb (x y : rawmap) : bool :=
  match x, y with
  | [], [] => true
  | (k, v) :: x', (k', v') :: y' => bytes_eqb k k' && bytes_eqb v v' && rawmap_eqb x' y'
  | _, _ => false
  end.
Fixpoint lview_eqb (x y : list (bytes * (bytes * bytes))) : bool :=
  match x, y with
  | [], [] => true
  | (k, (a, b)) :: x', (k', (a', b')) :: y' => bytes_eqb k k' && bytes_eqb a a' && bytes_eqb b b' && lview_eqb x' y'
  | _, _ => false
  end.

(* serialisation of a snapshot (lengths in front of every string and list) and its FNV-1a digest *)
Definition ser_b (b : bytes) : bytes := N.of_nat (length b) :: b.
Definition ser_map (l : rawmap) : bytes :=
  N.of_nat (length l) :: flat_map (fun kv => ser_b (fst kv) ++ ser_b (snd kv)) l.
Definition ser_lview (l : list (bytes * (bytes * bytes))) : bytes :=
  N.of_nat (length l) :: flat_map (fun x => ser_b (fst x) ++ ser_b (fst (snd x)) ++ ser_b (snd (snd x))) l.
Definition fnv64 (bs : bytes) : N :=
  fold_left (fun h b => N.land (N.lxor h b * 1099511628211) 18446744073709551615) bs 14695981039346656037.
Definition snap_digest (s v c p : rawmap) (g : bytes) (ls ix : list (bytes * (bytes * bytes))) : N :=
  fnv64 (ser_map s ++ ser_map v ++ ser_map c ++ ser_map p ++ ser_b g ++ ser_lview ls ++ ser_lview ix).

(* Model output vs implementation output; the harness records a dump only where it took one *)
Definition out_eqb (model impl : out) : bool :=
  match model, impl with
  | _, OUnit => match model with OUnit | ODump _ _ _ _ _ => true | _ => false end
  | ODump s v c p g, ODump s' v' c' p' g' =>
      rawmap_eqb s s' && rawmap_eqb v v' && rawmap_eqb c c' && rawmap_eqb p p' && bytes_eqb g g'
  | OSnap s v c p g ls ix, OSnap s' v' c' p' g' ls' ix' =>
      rawmap_eqb s s' && rawmap_eqb v v' && rawmap_eqb c c' && rawmap_eqb p p' && bytes_eqb g g'
      && lview_eqb ls ls' && lview_eqb ix ix'
  | OSnap s v c p g ls ix, OSnapH h => snap_digest s v c p g ls ix =? h
  | OXdp v f, OXdp v' f' =>
      (v =? v') && match f, f' with
                   | None, None => true
                   | Some x, Some y => bytes_eqb x y
                   | _, _ => false
                   end
  | OOob, OOob => true
  | _, _ => false
  end.
