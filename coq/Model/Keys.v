(* C20 — Models of the components that hand out subscriber-identifying keys:
     nexus.VLANAllocator   (pkg/nexus/vlan.go)       S-TAG/C-TAG pairs per NTE
     qinq.Mapper           (pkg/qinq/qinq.go)        VLAN pair <-> subscriber id
     pppoe.SessionManager  (pkg/pppoe/session.go)    session ids (uint16, wrap) + MAC index
     ebpf.MakeCircuitIDKey / HashCircuitID (pkg/ebpf/loader.go)
   Go maps are association lists keyed by N (strings / MACs are interned by the harness);
   a VLAN pair (s, c) is observed as the number s * 65536 + c.  uint16 counters wrap explicitly.
   Every step returns the full observation the driver records from the real object: the return
   value plus, per index, the forward (holder -> key) and reverse (key -> holder) lookups. *)
From Coq Require Import NArith List Bool.
From Verif Require Import Base.Word.
Import ListNotations.
Local Open Scope N_scope.

(* ------------------------------------------------------------------ association maps *)
Definition amap (V : Type) := list (N * V).

Fixpoint aget {V} (m : amap V) (k : N) : option V :=
  match m with
  | [] => None
  | (k', v) :: tl => if k' =? k then Some v else aget tl k
  end.

Fixpoint adel {V} (m : amap V) (k : N) : amap V :=
  match m with
  | [] => []
  | (k', v) :: tl => if k' =? k then adel tl k else (k', v) :: adel tl k
  end.

Definition aset {V} (m : amap V) (k : N) (v : V) : amap V := (k, v) :: adel m k.
Definition amem {V} (m : amap V) (k : N) : bool := match aget m k with Some _ => true | None => false end.

Definition get2 {V} (m : amap (amap V)) (a b : N) : option V :=
  match aget m a with Some r => aget r b | None => None end.

(* m[a][b] = v on a map of maps (the inner map is created on demand) *)
Definition set2 {V} (m : amap (amap V)) (a b : N) (v : V) : amap (amap V) :=
  aset m a (aset (match aget m a with Some r => r | None => [] end) b v).
(* delete(m[a], b); if len(m[a]) == 0 { delete(m, a) } *)
Definition vdel2 {V} (m : amap (amap V)) (a b : N) : amap (amap V) :=
  match aget m a with
  | Some u => match adel u b with
              | [] => adel m a
              | u' => aset m a u'
              end
  | None => m
  end.

(* ------------------------------------------------------------------ observations *)
Inductive ret := RNone | RKey (k : N) | RErr (e : N) | RHang.
(* error classes *)
Definition EExhausted : N := 1.
Definition ERange : N := 2.
Definition EConflict : N := 3.
Definition EOther : N := 4.

Record snap := { sfwd : list (N * N);     (* holder -> key, every live holder *)
                 srev : list (N * N);     (* key -> holder, every probed key that has an entry *)
                 stot : option N }.       (* size of the reverse map when the code exposes it *)
Record obs := { o_ret : ret; o_snaps : list snap }.

Fixpoint ins_n (x : N) (l : list N) : list N :=
  match l with
  | [] => [x]
  | y :: tl => if x <? y then x :: l else if x =? y then l else y :: ins_n x tl
  end.
Definition sort_n (l : list N) : list N := fold_right ins_n [] l.

Definition mk_fwd (holders : list N) (f : N -> option N) : list (N * N) :=
  flat_map (fun h => match f h with Some k => [(h, k)] | None => [] end) holders.
(* reverse lookups are probed on the configured probe keys plus every key a live holder reports *)
Definition mk_rev (probe : list N) (fw : list (N * N)) (r : N -> option N) : list (N * N) :=
  mk_fwd (sort_n (probe ++ map snd fw)) r.

Definition pk (s c : N) : N := s * 65536 + c.
Definition ps (k : N) : N := k / 65536.
Definition pc (k : N) : N := k mod 65536.

Fixpoint seqN (a : N) (n : nat) : list N :=
  match n with O => [] | S n' => a :: seqN (a + 1) n' end.
(* the values visited by  for x := a; x <= e; x++ { ...; if x == 65535 { break } }  *)
Definition rangeN (a e : N) : list N := if a <=? e then seqN a (N.to_nat (e + 1 - a)) else [].

(* ------------------------------------------------------------------ nexus.VLANAllocator *)
Record vcfg := { v_ss : N; v_se : N; v_cs : N; v_ce : N }.
Record vst := { v_cfg : vcfg;
                v_alloc : amap (N * N);        (* allocations: nte -> (s, c) *)
                v_usage : amap (amap N);       (* sTagUsage: s -> c -> nte *)
                v_cur : N;                     (* currentSTag *)
                v_ntes : list N; v_probe : list N }.   (* observation universe (constant) *)

Definition v_init (c : vcfg) (ntes probe : list N) : vst :=
  {| v_cfg := c; v_alloc := []; v_usage := []; v_cur := v_ss c; v_ntes := ntes; v_probe := probe |}.

Definition in_s (c : vcfg) (s : N) : bool := (v_ss c <=? s) && (s <=? v_se c).
Definition in_c (c : vcfg) (x : N) : bool := (v_cs c <=? x) && (x <=? v_ce c).

(* findAvailableCTag *)
Definition find_c (st : vst) (s : N) : option N :=
  match aget (v_usage st) s with
  | None => Some (v_cs (v_cfg st))
  | Some u => find (fun c => negb (amem u c)) (rangeN (v_cs (v_cfg st)) (v_ce (v_cfg st)))
  end.

Fixpoint first_s (st : vst) (l : list N) : option (N * N) :=
  match l with
  | [] => None
  | s :: tl => match find_c st s with Some c => Some (s, c) | None => first_s st tl end
  end.

(* findAvailable: from currentSTag to End, then from Start to currentSTag-1 *)
Definition find_avail (st : vst) : option (N * N) :=
  match first_s st (rangeN (v_cur st) (v_se (v_cfg st))) with
  | Some r => Some r
  | None => first_s st (if v_cur st =? 0 then [] else rangeN (v_ss (v_cfg st)) (v_cur st - 1))
  end.

Definition v_with (st : vst) (al : amap (N * N)) (us : amap (amap N)) (cur : N) : vst :=
  {| v_cfg := v_cfg st; v_alloc := al; v_usage := us; v_cur := cur; v_ntes := v_ntes st; v_probe := v_probe st |}.

Definition v_record (st : vst) (n s c : N) : vst :=
  v_with st (aset (v_alloc st) n (s, c)) (set2 (v_usage st) s c n) (v_cur st).

(* releaseUnlocked *)
Definition v_release (st : vst) (n : N) : vst :=
  match aget (v_alloc st) n with
  | None => st
  | Some (s, c) => v_with st (adel (v_alloc st) n) (vdel2 (v_usage st) s c) (v_cur st)
  end.

(* LoadFromStore, one NTE record; the bool says "skipped as conflicting / out of range" *)
Definition v_load1 (acc : vst * bool) (r : N * N * N) : vst * bool :=
  let '(st, bad) := acc in
  let '(n, s, c) := r in
  if (s =? 0) || (c =? 0) then (st, bad)
  else if negb (in_s (v_cfg st) s && in_c (v_cfg st) c) then (st, true)
  else match get2 (v_usage st) s c with
       | Some o => if o =? n then (v_record (v_release st n) n s c, bad) else (st, true)
       | None => (v_record (v_release st n) n s c, bad)
       end.

Inductive vop :=
| VAlloc (n : N)
| VAllocS (n s : N)
| VRelease (n : N)
| VLoad (l : list (N * N * N)).

Definition v_total (st : vst) : N := fold_right (fun e acc => N.of_nat (length (snd e)) + acc) 0 (v_usage st).

Definition v_snap (st : vst) : list snap :=
  let fw := mk_fwd (v_ntes st) (fun n => match aget (v_alloc st) n with Some (s, c) => Some (pk s c) | None => None end) in
  [ {| sfwd := fw; srev := mk_rev (v_probe st) fw (fun k => get2 (v_usage st) (ps k) (pc k)); stot := Some (v_total st) |} ].

Definition v_out (st : vst) (r : ret) : vst * obs * list N := (st, {| o_ret := r; o_snaps := v_snap st |}, []).

Definition v_step (st : vst) (o : vop) : vst * obs * list N :=
  match o with
  | VAlloc n =>
      match aget (v_alloc st) n with
      | Some (s, c) => v_out st (RKey (pk s c))
      | None => match find_avail st with
                | None => v_out st (RErr EExhausted)
                | Some (s, c) => v_out (v_record (v_with st (v_alloc st) (v_usage st) s) n s c) (RKey (pk s c))
                end
      end
  | VAllocS n s =>
      if negb (in_s (v_cfg st) s) then v_out st (RErr ERange)
      else
      match (match aget (v_alloc st) n with Some (s0, c0) => if s0 =? s then Some c0 else None | None => None end) with
      | Some c0 => v_out st (RKey (pk s c0))
      | None => match find_c st s with
                | None => v_out st (RErr EExhausted)
                | Some c => v_out (v_record (v_release st n) n s c) (RKey (pk s c))
                end
      end
  | VRelease n => v_out (v_release st n) RNone
  | VLoad l => let '(st', bad) := fold_left v_load1 l (st, false) in
               v_out st' (if bad then RErr EConflict else RNone)
  end.

(* ------------------------------------------------------------------ qinq.Mapper *)
Record qcfg := { q_sr : list (N * N); q_cs : N; q_ce : N }.
Record qst := { q_cfg : qcfg;
                q_v2s : amap N;      (* vlanToSubscriber: pk s c -> subscriber *)
                q_s2v : amap N;      (* subscriberToVLAN: subscriber -> pk s c *)
                q_subs : list N; q_probe : list N }.

Definition q_init (c : qcfg) (subs probe : list N) : qst :=
  {| q_cfg := c; q_v2s := []; q_s2v := []; q_subs := subs; q_probe := probe |}.

Definition q_contains (r : N * N) (v : N) : bool := (fst r <=? v) && (v <=? snd r).
Definition q_valid (c : qcfg) (s x : N) : bool :=
  ((s =? 0) || existsb (fun r => q_contains r s) (q_sr c)) &&
  ((x =? 0) || q_contains (q_cs c, q_ce c) x).

Inductive qop :=
| QReg (s c id : N)
| QUnreg (s c : N)
| QUnregSub (id : N).

Definition q_with (st : qst) (a b : amap N) : qst :=
  {| q_cfg := q_cfg st; q_v2s := a; q_s2v := b; q_subs := q_subs st; q_probe := q_probe st |}.

Definition q_snap (st : qst) : list snap :=
  let fw := mk_fwd (q_subs st) (aget (q_s2v st)) in
  [ {| sfwd := fw; srev := mk_rev (q_probe st) fw (aget (q_v2s st)); stot := Some (N.of_nat (length (q_v2s st))) |} ].

Definition q_out (st : qst) (r : ret) : qst * obs * list N := (st, {| o_ret := r; o_snaps := q_snap st |}, []).

Definition q_step (st : qst) (o : qop) : qst * obs * list N :=
  match o with
  | QReg s c id =>
      if negb (q_valid (q_cfg st) s c) then q_out st (RErr ERange)
      else
      let v := pk s c in
      match aget (q_v2s st) v with
      | Some e => if e =? id
                  then let a := match aget (q_s2v st) id with Some old => adel (q_v2s st) old | None => q_v2s st end in
                       q_out (q_with st (aset a v id) (aset (q_s2v st) id v)) (RKey v)
                  else q_out st (RErr EConflict)
      | None => let a := match aget (q_s2v st) id with Some old => adel (q_v2s st) old | None => q_v2s st end in
                q_out (q_with st (aset a v id) (aset (q_s2v st) id v)) (RKey v)
      end
  | QUnreg s c =>
      match aget (q_v2s st) (pk s c) with
      | Some id => q_out (q_with st (adel (q_v2s st) (pk s c)) (adel (q_s2v st) id)) RNone
      | None => q_out st RNone
      end
  | QUnregSub id =>
      match aget (q_s2v st) id with
      | Some v => q_out (q_with st (adel (q_v2s st) v) (adel (q_s2v st) id)) RNone
      | None => q_out st RNone
      end
  end.

(* ------------------------------------------------------------------ pppoe.SessionManager *)
Record sst := { s_sess : amap (N * N);       (* sessions: id -> (holder, mac) *)
                s_mac : amap N;              (* macToSession: mac -> id *)
                s_next : N;                  (* nextID (uint16) *)
                s_live : list (N * N * N);   (* sessions the caller created and has not removed: holder, id, mac *)
                s_pids : list N; s_pmacs : list N }.

Definition s_init (next : N) (pids pmacs : list N) : sst :=
  {| s_sess := []; s_mac := []; s_next := next; s_live := []; s_pids := pids; s_pmacs := pmacs |}.

(* the scan of CreateSession:  for { if !exists(next) break; next++; if next == 0 { next = 1 } } ;
   fuel 65536 = one full cycle of the uint16 counter (the table cannot change during the scan) *)
Fixpoint scan_id (fuel : nat) (sess : amap (N * N)) (n : N) : option N :=
  match fuel with
  | O => None
  | S f => if amem sess n
           then let n1 := u16 (n + 1) in scan_id f sess (if n1 =? 0 then 1 else n1)
           else Some n
  end.

Inductive sop :=
| SCreate (h mac : N)
| SRemove (id : N)
| SSetNext (n : N).     (* the counter stands at n (verif accessor VerifSetNextID): where it is when it comes round
                           again, independently of which ids are still in use; n = 0 is never a counter value *)

Definition s_snap (st : sst) : list snap :=
  let fw0 := map (fun x => (fst (fst x), snd (fst x))) (s_live st) in
  let fw1 := map (fun x => (fst (fst x), snd x)) (s_live st) in
  [ {| sfwd := fw0;
       srev := mk_rev (s_pids st) fw0 (fun id => option_map fst (aget (s_sess st) id));
       stot := Some (N.of_nat (length (s_sess st))) |};
    {| sfwd := fw1;
       srev := mk_rev (s_pmacs st) fw1
                (fun m => match aget (s_mac st) m with
                          | Some id => option_map fst (aget (s_sess st) id)
                          | None => None end);
       stot := Some (N.of_nat (length (s_mac st))) |} ].

Definition s_out (st : sst) (r : ret) (mk : list N) : sst * obs * list N :=
  (st, {| o_ret := r; o_snaps := s_snap st |}, mk).

Definition session_cap : N := 65535.

Definition s_step (st : sst) (o : sop) : sst * obs * list N :=
  match o with
  | SCreate h mac =>
      (* table full: refuse before scanning (otherwise the scan would never end) *)
      if session_cap <=? N.of_nat (length (s_sess st)) then s_out st (RErr EExhausted) [] else
      match scan_id (N.to_nat 65536) (s_sess st) (s_next st) with
      | None => s_out st RHang []
      | Some id =>
          let nx := u16 (id + 1) in
          (* ghost marker 2005: the MAC index already holds an entry for this MAC; it is overwritten and
             the earlier session of this MAC is no longer found by GetSessionByMAC *)
          let mk := if amem (s_mac st) mac then [2005] else [] in
          s_out {| s_sess := aset (s_sess st) id (h, mac);
                   s_mac := aset (s_mac st) mac id;
                   s_next := if nx =? 0 then 1 else nx;
                   s_live := s_live st ++ [(h, id, mac)];
                   s_pids := s_pids st; s_pmacs := s_pmacs st |} (RKey id) mk
      end
  | SRemove id =>
      match aget (s_sess st) id with
      | Some (_, mac) =>
          s_out {| s_sess := adel (s_sess st) id; s_mac := adel (s_mac st) mac; s_next := s_next st;
                   s_live := filter (fun x => negb (snd (fst x) =? id)) (s_live st);
                   s_pids := s_pids st; s_pmacs := s_pmacs st |} RNone []
      | None =>
          s_out {| s_sess := s_sess st; s_mac := s_mac st; s_next := s_next st;
                   s_live := filter (fun x => negb (snd (fst x) =? id)) (s_live st);
                   s_pids := s_pids st; s_pmacs := s_pmacs st |} RNone []
      end
  | SSetNext n =>
      if (1 <=? n) && (n <=? 65535)
      then s_out {| s_sess := s_sess st; s_mac := s_mac st; s_next := n; s_live := s_live st;
                    s_pids := s_pids st; s_pmacs := s_pmacs st |} RNone []
      else s_out st (RErr EOther) []
  end.

(* ------------------------------------------------------------------ circuit-id keys *)
Definition ckey_len : nat := 32.
(* MakeCircuitIDKey: copy into a zeroed [32]byte *)
Definition ckey (l : bytes) : bytes := firstn ckey_len l ++ repeat 0 (ckey_len - length l).

(* HashCircuitID: 64-bit FNV-1a *)
Definition fnv_init : N := 14695981039346656037.
Definition fnv_prm : N := 1099511628211.
Definition chash (l : bytes) : N := fold_left (fun h b => mul64 (xor64 h b) fnv_prm) l fnv_init.

Inductive cop := CKey (c : bytes) | CHash (c : bytes).
Inductive cout := CBytes (b : bytes) | CNum (n : N).

Definition trailing_zero (l : bytes) : bool := match rev l with 0 :: _ => true | _ => false end.

Definition c_step (st : unit) (o : cop) : unit * cout * list N :=
  match o with
  | CKey c =>
      (* ghost markers: 2010 the circuit-id is longer than the key and is truncated;
                        2011 the circuit-id ends in a zero byte, which zero padding cannot tell apart *)
      (st, CBytes (ckey c),
       (if Nat.ltb ckey_len (length c) then [2010] else []) ++
       (if trailing_zero c && Nat.leb (length c) ckey_len then [2011] else []))
  | CHash c => (st, CNum (chash c), [])
  end.
