(* C11 — IPCP option processor (pkg/pppoe/ipcp.go).  Addresses are 4-byte lists; [None] = nil net.IP.
   config.IPPool is nil in the harness (pool allocation belongs to C01/C05). *)
From Coq Require Import ZArith NArith List Bool.
From Verif Require Import Base.Word Model.Fsm Model.Lcp.
Import ListNotations.
Local Open Scope N_scope.

Record ipx := mkipx {
  ix_local : option (list N);    (* negotiated.LocalIP *)
  ix_peer : option (list N);     (* config.PeerIP: the address assigned to the session *)
  ix_dns1 : option (list N); ix_dns2 : option (list N);
  ix_maxre : Z }.                (* config.MaxRetransmit *)

Definition is_zero (d : list N) : bool := forallb (N.eqb 0) d.

Definition ipcp_dns (cfg : option (list N)) (t : N) (o : opt) : verdict :=
  if negb (len (od o) =? 4) then VRej
  else if is_zero (od o) then match cfg with Some a => VNak (mkopt t a) | None => VAck end
  else VAck.

Definition ipcp_opt (x : ipx) (o : opt) : ipx * verdict :=
  let t := ot o in let d := od o in
  if t =? 3 then
    if negb (len d =? 4) then (x, VRej)
    else if is_zero d then
      match ix_peer x with Some a => (x, VNak (mkopt 3 a)) | None => (x, VRej) end
    else match ix_peer x with
         | Some a => if bytes_eqb d a then (x, VAck) else (x, VNak (mkopt 3 a))
         | None => (x, VAck)          (* no address assigned: whatever the peer asks for is accepted *)
         end
  else if t =? 129 then (x, ipcp_dns (ix_dns1 x) 129 o)
  else if t =? 131 then (x, ipcp_dns (ix_dns2 x) 131 o)
  else (x, VRej).

(* ghost marker 1103: the accept branch taken with no assigned address *)
Definition ipcp_mark (x : ipx) (o : opt) : bool :=
  (ot o =? 3) && (len (od o) =? 4) && negb (is_zero (od o)) && match ix_peer x with None => true | _ => false end.

Definition ipcp_cr (x : ipx) (opts : list opt) : ipx * (list opt * list opt * list opt) * list N :=
  (classify ipcp_opt x opts, if existsb (ipcp_mark x) opts then [1103] else []).

Definition ipcp_nak1 (x : ipx) (o : opt) : ipx :=
  if (ot o =? 3) && (len (od o) =? 4) then mkipx (Some (od o)) (ix_peer x) (ix_dns1 x) (ix_dns2 x) (ix_maxre x) else x.
Definition ipcp_nak (x : ipx) (opts : list opt) : ipx := fold_left ipcp_nak1 opts x.

Definition ipcp_req (x : ipx) : list opt :=
  match ix_local x with Some a => [mkopt 3 a] | None => [] end.

Definition ncp_irc (v : Z) : Z := if (v =? 0)%Z then 10%Z else v.

Definition ipcp_obs (x : ipx) : list N := match ix_local x with Some a => a | None => [] end.

Definition ipcp_procs : procs ipx :=
  mkprocs ipcp_cr ipcp_nak (fun x _ => x) true false ipcp_req (fun x => ncp_irc (ix_maxre x)) false (fun _ => []) ipcp_obs.

Definition ipcp_new (loc peer d1 d2 : option (list N)) (maxre : Z) : fsm ipx := init (mkipx loc peer d1 d2 maxre).
