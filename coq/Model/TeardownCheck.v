(* Entry points evaluated by the harness-written case files of C16 (one per stream). *)
From Coq Require Import ZArith NArith List.
From Verif Require Import Base.Check Model.Teardown Model.TeardownSpec.
Import ListNotations.

(* ---- stream dhcp ---- *)
Definition DC (lo hi : N) (av : list N) (lease : Z) (radius qos nat : bool) (natcap : N) (cache : bool) (fl : list N) : dcfg :=
  {| c_lo := lo; c_hi := hi; c_avail0 := av; c_lease := lease; c_radius := radius; c_qos := qos;
     c_nat := nat; c_natcap := natcap; c_cache := cache; c_full := fl |}.
Definition dcase := (dcfg * list (dop * dout))%type.
Definition dstepc (cs : dcfg * dst) (o : dop) : (dcfg * dst) * dout * list N :=
  let '(s', r, mk) := dstepo (fst cs) (snd cs) o in ((fst cs, s'), r, mk).
Definition dmk (c : dcase) : (dcfg * dst) * dss * list (dop * dout) :=
  ((fst c, dinit (fst c)), dss_init (fst c), snd c).
Definition run_dhcp (cs : list dcase) : list (list N) :=
  check_all dstepc daccept dout_eqb 1%N (map dmk cs).

(* ---- stream pppoe ---- *)
Definition PC (av : list N) (pool radius : bool) (timeout : Z) : pcfg :=
  {| pc_avail0 := av; pc_pool := pool; pc_radius := radius; pc_timeout := timeout |}.
Definition pcase := (pcfg * list (pop * pout))%type.
Definition pstepc (cs : pcfg * pst) (o : pop) : (pcfg * pst) * pout * list N :=
  let '(s', r, mk) := pstepo (fst cs) (snd cs) o in ((fst cs, s'), r, mk).
Definition pmk (c : pcase) : (pcfg * pst) * pss * list (pop * pout) :=
  ((fst c, pinit (fst c)), pss_init (fst c), snd c).
Definition run_pppoe (cs : list pcase) : list (list N) :=
  check_all pstepc paccept pout_eqb 1%N (map pmk cs).

(* ---- stream submgr ---- *)
Definition SC (av : list N) (st it : Z) : scfg := {| sc_avail0 := av; sc_stimeout := st; sc_itimeout := it |}.
Definition scase := (scfg * list (sop * sout))%type.
Definition sstepc (cs : scfg * sst) (o : sop) : (scfg * sst) * sout * list N :=
  let '(s', r, mk) := sstepo (fst cs) (snd cs) o in ((fst cs, s'), r, mk).
Definition smk (c : scase) : (scfg * sst) * sss * list (sop * sout) :=
  ((fst c, sinit (fst c)), sss_init (fst c), snd c).
Definition run_submgr (cs : list scase) : list (list N) :=
  check_all sstepc saccept sout_eqb 1%N (map smk cs).
