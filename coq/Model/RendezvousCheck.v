(* Entry point evaluated by the harness-written cases files for C17. *)
From Coq Require Import NArith List.
From Verif Require Import Base.Word Base.Check Model.Rendezvous Model.RendezvousSpec.
Import ListNotations.

Definition case := (list (bytes * list bytes) * list (op * out))%type.
Definition mk (c : case) : state * sstate * list (op * out) :=
  (map (fun x => new_node (fst x) (snd x)) (fst c), sinit (fst c), snd c).
Definition run_cases (cs : list case) : list (list N) :=
  check_all step accept out_eqb 1%N (map mk cs).
