(* Model of bpf/antispoof.c antispoof_ingress, in checked-access style: every data_end comparison of the
   C is an explicit length test; a read outside the frame yields AOob, never a default value.
   Maps are raw byte strings of the C-declared sizes:
     antispoof_config   8 bytes : default_mode, log_violations, pad[6]           (array, key 0)
     subscriber_bindings key 8 bytes (u64 of the source MAC, little-endian), value 24 bytes:
        ipv4_addr[0..3] (compared as raw bytes with ip->saddr), ipv6_addr[4..19], ipv4_valid[20],
        ipv6_valid[21], mode[22], pad[23]
     allowed_ranges_v4  LPM trie: (prefixlen, 4 data bytes), matched most significant bit first over the
        data bytes in memory order
   Ghost marker 1804 = loose mode on an IPv6 frame: the C has no IPv6 range check.
   (1803 was: loose mode with a valid IPv4 binding never reached the range check - repaired in /repo.) *)
From Coq Require Import NArith List Bool.
From Verif Require Import Base.Word Model.TcQos Model.TcAntispoofC.
Import ListNotations.
Local Open Scope N_scope.

Definition MODE_DISABLED : N := 0.
Definition MODE_STRICT : N := 1.
Definition MODE_LOOSE : N := 2.
Definition MODE_LOG_ONLY : N := 3.

Record amaps := { a_cfg : option bytes; a_bind : kvmap; a_ranges : list (N * bytes) }.

(* __u64 mac_key = mac_to_u64(eth->h_source); bpf_map_lookup_elem(&subscriber_bindings, &mac_key): the C
   expression evaluated with the C types of its intermediate values (Model/TcAntispoofC.v: every octet is cast to
   __u64 before it is shifted), then the 8 bytes of the __u64 in memory.  That this equals the key the Go
   manager writes, for every MAC, is a theorem (Proofs/TcAntispoofCProofs.v), not a definition. *)
Definition mac_key (mac : bytes) : bytes := c_mac_key mac.

(* first n bits of a and b agree (bytes, MSB first) *)
Fixpoint bits_match (n : nat) (a b : bytes) : bool :=
  match n with
  | O => true
  | _ =>
    match a, b with
    | x :: a', y :: b' =>
        if Nat.leb 8 n then (x =? y) && bits_match (n - 8) a' b'
        else N.shiftr x (8 - N.of_nat n) =? N.shiftr y (8 - N.of_nat n)
    | _, _ => false
    end
  end.

Definition in_ranges (rs : list (N * bytes)) (ip : bytes) : bool :=
  existsb (fun r => (fst r <=? 32) && bits_match (N.to_nat (fst r)) (snd r) ip) rs.

Inductive averdict := ARet (v : N) | AOob.

Definition nthb (l : bytes) (i : nat) : N := nth i l 0.

Definition antispoof_prog (m : amaps) (f : bytes) : averdict * list N :=
  (* C: eth + 1 > data_end => TC_ACT_OK *)
  if Nat.ltb (length f) 14 then (ARet TC_ACT_OK, []) else
  match rd f 6 6, rd f 12 2 with
  | Some mac, Some proto =>
    let default_mode := match a_cfg m with Some c => nthb c 0 | None => MODE_DISABLED end in
    let binding := m_get (a_bind m) (mac_key mac) in
    let mode := match binding with Some b => nthb b 22 | None => default_mode end in
    if mode =? MODE_DISABLED then (ARet TC_ACT_OK, []) else
    if bytes_eqb proto [8; 0] then
      (* C: ip + 1 > data_end => TC_ACT_OK *)
      if Nat.ltb (length f) 34 then (ARet TC_ACT_OK, []) else
      match rd f 26 4 with
      | None => (AOob, [])
      | Some src =>
        (* after the fix of the loose-mode defect (known_findings K18c, status fixed): mode first *)
        let allowed :=
          if mode =? MODE_LOOSE then in_ranges (a_ranges m) src
          else match binding with
               | Some b => if negb (nthb b 20 =? 0)
                           then (if (mode =? MODE_STRICT) || (mode =? MODE_LOG_ONLY) then bytes_eqb src (firstn 4 b) else false)
                           else false
               | None => false
               end in
        if allowed then (ARet TC_ACT_OK, [])
        else if mode =? MODE_LOG_ONLY then (ARet TC_ACT_OK, []) else (ARet TC_ACT_SHOT, [])
      end
    else if bytes_eqb proto [134; 221] then
      (* C: ip6 + 1 > data_end => TC_ACT_OK *)
      if Nat.ltb (length f) 54 then (ARet TC_ACT_OK, []) else
      match rd f 22 16 with
      | None => (AOob, [])
      | Some src6 =>
        let bound6 := match binding with Some b => negb (nthb b 21 =? 0) | None => false end in
        let allowed :=
          if bound6 then match binding with Some b => bytes_eqb src6 (firstn 16 (skipn 4 b)) | None => false end
          else (mode =? MODE_LOOSE) in
        let mk := if mode =? MODE_LOOSE then [1804] else [] in
        if negb allowed && negb (mode =? MODE_LOG_ONLY) then (ARet TC_ACT_SHOT, mk) else (ARet TC_ACT_OK, mk)
      end
    else (ARet TC_ACT_OK, [])
  | _, _ => (AOob, [])
  end.
