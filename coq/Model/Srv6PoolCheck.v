(* Entry point evaluated on the cases of stream "srv6" of harness/c01 (the real dhcpv6.Server driven
   through its message handler): Model/Srv6Pool.v against the trace, Model/Srv6PoolSpec.v on it.
   case = ((hasA, hasP, (abase, appl), (pbase, pppl, dlen), valid), trace); the universes are computed as
   the constructors do (FreeList.v6addr_univ / v6prefix_univ).  The harness writes addresses relative to
   abase and prefixes relative to pbase, both biased by 65536 (see PoolCheck.unb). *)
From Coq Require Import NArith List Bool.
From Verif Require Import Base.Check Model.PoolMap Model.PoolSpec Model.FreeList Model.PoolCheck
  Model.Srv6Pool Model.Srv6PoolSpec.
Import ListNotations.
Local Open Scope N_scope.

Definition srv6_cfg := (bool * bool * (N * N) * (N * N * N) * N)%type.
Definition run_srv6_case := (srv6_cfg * list (msg6 * out6))%type.

Definition mk_k6 (c : srv6_cfg) : k6 :=
  let '(hasA, hasP, (abase, appl), (pbase, pppl, dlen), valid) := c in
  {| k_hasA := hasA; k_hasP := hasP;
     k_ua := if hasA then v6addr_univ abase appl else [];
     k_up := if hasP then v6prefix_univ pbase pppl dlen else [];
     k_valid := valid |}.

(* [ua] / [up]: harness number -> address / prefix (prefixes are written as biased indices) *)
Definition unb_xia (f : N -> N) (x : xia) : xia := match x with XaVal u => XaVal (f u) | _ => x end.
Definition unb_rep (ua up : N -> N) (r : rep6) : rep6 :=
  match r with
  | P6Adv a p => P6Adv (unb_xia ua a) (unb_xia up p)
  | P6Reply a p rc => P6Reply (unb_xia ua a) (unb_xia up p) rc
  | _ => r
  end.
Definition unb_opt1 (f : N -> N) (v : N) : N := if v =? 0 then 0 else f (v - 1) + 1.
Definition unb_snap (ua up : N -> N) (s : snap6) : snap6 :=
  {| n_leases := map (fun p => (fst p, (unb_opt1 ua (fst (snd p)), unb_opt1 up (snd (snd p))))) (n_leases s);
     n_aal := map (fun p => (fst p, ua (snd p))) (n_aal s); n_aav := map ua (n_aav s);
     n_pal := map (fun p => (fst p, up (snd p))) (n_pal s); n_pav := map up (n_pav s) |}.

Definition srv6_univ_ok (c : srv6_cfg) : bool :=
  let '(hasA, hasP, (abase, appl), (pbase, pppl, dlen), valid) := c in
  let k := mk_k6 c in
  nodupb (k_ua k) && nodupb (k_up k) &&
  forallb (fun u => (abase <? u) && (u <? abase + 2 ^ (128 - appl))) (k_ua k) &&
  forallb (fun u => (pbase <=? u) && (u + 2 ^ (128 - dlen) <=? pbase + 2 ^ (128 - pppl))) (k_up k).

Definition run_srv6 (prop : N) (cs : list run_srv6_case) : list (list N) :=
  concat (map (fun ic : N * run_srv6_case =>
     let c := fst (snd ic) in
     let '(_, _, (abase, _), (pbase, _, dlen), _) := c in
     let k := mk_k6 c in
     let ua := unb abase in
     let up := fun v => if v <? BIAS then 0 else pbase + (v - BIAS) * 2 ^ (128 - dlen) in
     let tr := map (fun p => (fst p, (unb_rep ua up (fst (snd p)), unb_snap ua up (snd (snd p))))) (snd (snd ic)) in
     map (fun row => match row with _ :: v => fst ic :: v | [] => [] end)
         (check_all (step6o k) (accept6 prop k) out6_eqb 1 [(sv_init k, m6_init, tr)]) ++
     (if srv6_univ_ok c then [] else [[fst ic; 999999; 0; 0; 0; 0]]))
     (combine (map N.of_nat (seq 1 (length cs))) cs)).
