(* Model of pkg/pool/peer.go: rendezvous (HRW) ownership, ranked fallback, health-aware owner.
   Strings are byte lists; uint64 arithmetic wraps explicitly (Base/Word.v). *)
From Coq Require Import NArith List Bool.
From Verif Require Import Base.Word.
Import ListNotations.
Local Open Scope N_scope.

(* hash/fnv New64a *)
Definition fnv_offset : N := 14695981039346656037.
Definition fnv_prime  : N := 1099511628211.
Definition fnv1a (s : bytes) : N :=
  fold_left (fun h b => mul64 (xor64 h b) fnv_prime) s fnv_offset.

(* hashCombine: Wang's 64-bit mixer exactly as coded *)
Definition wang (c0 : N) : N :=
  let c1 := add64 (not64 c0) (shl64 c0 21) in
  let c2 := xor64 c1 (shr64 c1 24) in
  let c3 := add64 (add64 c2 (shl64 c2 3)) (shl64 c2 8) in
  let c4 := xor64 c3 (shr64 c3 14) in
  let c5 := add64 (add64 c4 (shl64 c4 2)) (shl64 c4 4) in
  let c6 := xor64 c5 (shr64 c5 28) in
  add64 c6 (shl64 c6 31).

Definition score_h (kh : N) (node : bytes) : N := wang (xor64 kh (fnv1a node)).
Definition score (key node : bytes) : N := score_h (fnv1a key) node.

(* rendezvousHash: first strict maximum starting from ("", 0); short-cuts for 0 and 1 nodes *)
Definition best_step (kh : N) (acc : bytes * N) (node : bytes) : bytes * N :=
  let h := score_h kh node in if snd acc <? h then (node, h) else acc.

Definition owner (key : bytes) (nodes : list bytes) : bytes :=
  match nodes with
  | [] => []
  | [n] => n
  | _ => fst (fold_left (best_step (fnv1a key)) nodes ([], 0))
  end.

(* sort.Strings: any sorting algorithm gives the same list (the order is total and antisymmetric);
   the Model uses insertion sort *)
Fixpoint insert_s (x : bytes) (l : list bytes) : list bytes :=
  match l with
  | [] => [x]
  | y :: tl => if lex_leb x y then x :: l else y :: insert_s x tl
  end.
Definition sort_s (l : list bytes) : list bytes := fold_right insert_s [] l.

(* rendezvousRanked: descending by score. Go uses sort.Slice (not stable); the Model is a stable
   insertion sort, equal to any correct sort whenever scores are pairwise distinct. *)
Fixpoint insert_r (x : N * bytes) (l : list (N * bytes)) : list (N * bytes) :=
  match l with
  | [] => [x]
  | y :: tl => if fst y <? fst x then x :: l else y :: insert_r x tl
  end.
Definition ranked (key : bytes) (nodes : list bytes) : list bytes :=
  match nodes with
  | [] => [] | [n] => [n]
  | _ => let kh := fnv1a key in
         map snd (fold_right insert_r [] (map (fun n => (score_h kh n, n)) nodes))
  end.

Definition mem_s (x : bytes) (l : list bytes) : bool := existsb (bytes_eqb x) l.

(* getHealthyOwner as computed by node [self] with its view [unhealthy] *)
Fixpoint first_eligible (self : bytes) (unhealthy : list bytes) (r : list bytes) : option bytes :=
  match r with
  | [] => None
  | n :: tl => if bytes_eqb n self || negb (mem_s n unhealthy) then Some n
               else first_eligible self unhealthy tl
  end.
(* the same scan without the self-preference (used by the ghost marker and by the proofs) *)
Fixpoint first_healthy (un : list bytes) (r : list bytes) : option bytes :=
  match r with
  | [] => None
  | n :: tl => if negb (mem_s n un) then Some n else first_healthy un tl
  end.
Definition healthy_owner (self : bytes) (unhealthy : list bytes) (key : bytes) (nodes : list bytes) : bytes :=
  match first_eligible self unhealthy (ranked key nodes) with Some n => n | None => self end.

(* ---- stateful part: several nodes, each with its own configured peer list ---- *)
Record node := { self : bytes; cfg : list bytes; peers : list bytes; unhealthy : list bytes }.

Definition new_node (id : bytes) (cfg0 : list bytes) : node :=
  (* p.peers aliases cfg.Peers: when the node id is already in the list nothing is appended and
     sort.Strings sorts that same backing array, so the address list is sorted too; otherwise append
     reallocates (len = cap) and the configured order survives *)
  {| self := id; cfg := if mem_s id cfg0 then sort_s cfg0 else cfg0;
     peers := sort_s (if mem_s id cfg0 then cfg0 else cfg0 ++ [id]);
     unhealthy := [] |}.

Fixpoint remove_first (x : bytes) (l : list bytes) : list bytes :=
  match l with
  | [] => []
  | y :: tl => if bytes_eqb y x then tl else y :: remove_first x tl
  end.

Inductive op :=
| AddPeer (n : N) (p : bytes)
| RemovePeer (n : N) (p : bytes)
| SetHealth (n : N) (p : bytes) (healthy : bool)
| GetOwner (n : N) (k : bytes)
| IsLocal (n : N) (k : bytes)
| Ranked (n : N) (k : bytes)
| HealthyOwner (n : N) (k : bytes)
| Alloc (n : N) (k : bytes).      (* PeerPool.Allocate entering at node n; observable: NodeID that served it *)

Inductive out :=
| ONone
| OStr (s : bytes)
| OBool (b : bool)
| OList (l : list bytes)
| OErr.

Fixpoint list_bytes_eqb (a b : list bytes) : bool :=
  match a, b with
  | [], [] => true
  | x :: a', y :: b' => bytes_eqb x y && list_bytes_eqb a' b'
  | _, _ => false
  end.

Definition out_eqb (a b : out) : bool :=
  match a, b with
  | ONone, ONone => true
  | OStr x, OStr y => bytes_eqb x y
  | OBool x, OBool y => Bool.eqb x y
  | OList x, OList y => list_bytes_eqb x y
  | OErr, OErr => true
  | _, _ => false
  end.

Definition state := list node.

Definition upd (s : state) (n : N) (f : node -> node) : state :=
  map (fun p => if fst p =? n then f (snd p) else snd p) (combine (map N.of_nat (seq 0 (length s))) s).

Definition getn (s : state) (n : N) : node :=
  nth (N.to_nat n) s {| self := []; cfg := []; peers := []; unhealthy := [] |}.

(* getPeerAddr: the configured (unsorted, never updated) peer list decides the address *)
Definition peer_addr (nd : node) (o : bytes) : bytes :=
  match find (fun p => bytes_eqb p o || bytes_eqb p (o ++ [58; 56; 48; 56; 49])) (cfg nd) with
  | Some p => p
  | None => o
  end.

Definition step (s : state) (o : op) : state * out * list N :=
  match o with
  | AddPeer n p =>
      (upd s n (fun nd => if mem_s p (peers nd) then nd
                          else {| self := self nd; cfg := cfg nd; peers := sort_s (peers nd ++ [p]); unhealthy := unhealthy nd |}),
       ONone, [])
  | RemovePeer n p =>
      (upd s n (fun nd => {| self := self nd; cfg := cfg nd; peers := remove_first p (peers nd); unhealthy := unhealthy nd |}),
       ONone, [])
  | SetHealth n p h =>
      (upd s n (fun nd => {| self := self nd; cfg := cfg nd; peers := peers nd;
                             unhealthy := if h then filter (fun q => negb (bytes_eqb q p)) (unhealthy nd)
                                          else p :: filter (fun q => negb (bytes_eqb q p)) (unhealthy nd) |}),
       ONone, [])
  | GetOwner n k => (s, OStr (owner k (peers (getn s n))), [])
  | IsLocal n k => let nd := getn s n in (s, OBool (bytes_eqb (owner k (peers nd)) (self nd)), [])
  | Ranked n k => (s, OList (ranked k (peers (getn s n))), [])
  | HealthyOwner n k =>
      let nd := getn s n in
      let r := healthy_owner (self nd) (unhealthy nd) k (peers nd) in
      (* ghost marker 1701 (D17a): this node is in the health vector's unhealthy set, yet elects
         itself where a node without the self-preference would elect another peer *)
      let r0 := match first_healthy (unhealthy nd) (ranked k (peers nd)) with Some x => x | None => self nd end in
      (s, OStr r, if mem_s (self nd) (unhealthy nd) && negb (bytes_eqb r r0) then [1701] else [])
  | Alloc n k =>
      let nd := getn s n in
      let r := healthy_owner (self nd) (unhealthy nd) k (peers nd) in
      let r0 := match first_healthy (unhealthy nd) (ranked k (peers nd)) with Some x => x | None => self nd end in
      let mk := if mem_s (self nd) (unhealthy nd) && negb (bytes_eqb r r0) then [1701] else [] in
      if bytes_eqb r (self nd) then (s, OStr r, mk)
      else (* forwarded: the addressed peer allocates locally without re-checking ownership *)
        match find (fun m => bytes_eqb (self m) (peer_addr nd r)) s with
        | Some m => (* ghost marker 1702 (D17b): address lookup conflated owner X with a peer "X:8081" *)
            (s, OStr (self m), if bytes_eqb (self m) r then mk else 1702 :: mk)
        | None => (s, OErr, mk)
        end
  end.
