(* Model of pkg/pool/peer.go: rendezvous (HRW) ownership, ranked fallback, health-aware owner.
   Strings are byte lists; uint64 arithmetic wraps explicitly (Base/Word.v). *)
From Coq Require Import NArith List Bool.
From Verif Require Import Base.Word.
Import ListNotations.
Local Open Scope N_scope.

(* hash/fnv New64a *)
Definition fnv_offset : N := 14695981039346656037.
Definition fnv_prime  : N := 1099511628211.
Definition fnv1a (s : bytes) : N :=
  fold_left (fun h b => mul64 (xor64 h b) fnv_prime) s fnv_offset.

(* hashCombine: Wang's 64-bit mixer exactly as coded *)
Definition wang (c0 : N) : N :=
  let c1 := add64 (not64 c0) (shl64 c0 21) in
  let c2 := xor64 c1 (shr64 c1 24) in
  let c3 := add64 (add64 c2 (shl64 c2 3)) (shl64 c2 8) in
  let c4 := xor64 c3 (shr64 c3 14) in
  let c5 := add64 (add64 c4 (shl64 c4 2)) (shl64 c4 4) in
  let c6 := xor64 c5 (shr64 c5 28) in
  add64 c6 (shl64 c6 31).

Definition score_h (kh : N) (node : bytes) : N := wang (xor64 kh (fnv1a node)).
Definition score (key node : bytes) : N := score_h (fnv1a key) node.

(* rendezvousHash: first strict maximum starting from ("", 0); short-cuts for 0 and 1 nodes.
   The fold is written over an arbitrary score function [sc] so that the zero-score edge can be
   stated exactly (Props/C17.v); the code's instance is [sc := score_h (fnv1a key)]. *)
Definition best_step_g (sc : bytes -> N) (acc : bytes * N) (node : bytes) : bytes * N :=
  let h := sc node in if snd acc <? h then (node, h) else acc.
Definition owner_g (sc : bytes -> N) (nodes : list bytes) : bytes :=
  match nodes with
  | [] => []
  | [n] => n
  | _ => fst (fold_left (best_step_g sc) nodes ([], 0))
  end.
Definition best_step (kh : N) : bytes * N -> bytes -> bytes * N := best_step_g (score_h kh).
Definition owner (key : bytes) (nodes : list bytes) : bytes := owner_g (score_h (fnv1a key)) nodes.

(* sort.Strings: any sorting algorithm gives the same list (the order is total and antisymmetric);
   the Model uses insertion sort *)
Fixpoint insert_s (x : bytes) (l : list bytes) : list bytes :=
  match l with
  | [] => [x]
  | y :: tl => if lex_leb x y then x :: l else y :: insert_s x tl
  end.
Definition sort_s (l : list bytes) : list bytes := fold_right insert_s [] l.

(* rendezvousRanked: descending by score. Go uses sort.Slice (not stable); the Model is a stable
   insertion sort, equal to any correct sort whenever scores are pairwise distinct. *)
Fixpoint insert_r (x : N * bytes) (l : list (N * bytes)) : list (N * bytes) :=
  match l with
  | [] => [x]
  | y :: tl => if fst y <=? fst x then x :: l else y :: insert_r x tl
  end.
Definition ranked_g (sc : bytes -> N) (nodes : list bytes) : list bytes :=
  match nodes with
  | [] => [] | [n] => [n]
  | _ => map snd (fold_right insert_r [] (map (fun n => (sc n, n)) nodes))
  end.
Definition ranked (key : bytes) (nodes : list bytes) : list bytes := ranked_g (score_h (fnv1a key)) nodes.

Definition mem_s (x : bytes) (l : list bytes) : bool := existsb (bytes_eqb x) l.

(* getHealthyOwner as computed by node [self] with its view [unhealthy] *)
Fixpoint first_eligible (self : bytes) (unhealthy : list bytes) (r : list bytes) : option bytes :=
  match r with
  | [] => None
  | n :: tl => if bytes_eqb n self || negb (mem_s n unhealthy) then Some n
               else first_eligible self unhealthy tl
  end.
(* the same scan without the self-preference (used by the ghost marker and by the proofs) *)
Fixpoint first_healthy (un : list bytes) (r : list bytes) : option bytes :=
  match r with
  | [] => None
  | n :: tl => if negb (mem_s n un) then Some n else first_healthy un tl
  end.
Definition healthy_owner (self : bytes) (unhealthy : list bytes) (key : bytes) (nodes : list bytes) : bytes :=
  match first_eligible self unhealthy (ranked key nodes) with Some n => n | None => self end.

(* ---- health bookkeeping: checkPeer's per-peer record (healthy, consecutiveFailures) ---- *)
Definition health_threshold : N := 3.
Definition chk (h : bool * N) (ok : bool) : bool * N :=
  if ok then (true, 0)
  else let f := snd h + 1 in (if fst h && (health_threshold <=? f) then false else fst h, f).

(* association list peer -> consecutive failures (absent = 0, as a fresh map entry) *)
Fixpoint aget (l : list (bytes * N)) (p : bytes) : N :=
  match l with [] => 0 | (q, v) :: tl => if bytes_eqb q p then v else aget tl p end.
Definition aset (l : list (bytes * N)) (p : bytes) (v : N) : list (bytes * N) :=
  (p, v) :: filter (fun e => negb (bytes_eqb (fst e) p)) l.

(* ---- stateful part: several nodes, each with its own configured peer list ----
   unhealthy/fails together are peerHealthMap (a peer is healthy iff it is not in [unhealthy]; a
   missing map entry behaves as (healthy, 0) everywhere in the code);
   holds = the subscriber ids in this node's LocalPool.allocations;
   cfg = what p.peers (the address list getPeerAddr searches) currently shows; alias = p.peerNodes still
   shares its backing array with p.peers (Go slice aliasing: NewPeerPool keeps cfg.Peers for both when
   the node id is already in it; the caller's slice is assumed to have cap = len, as every literal,
   make() and the drivers give) *)
Record node := { self : bytes; cfg : list bytes; peers : list bytes; unhealthy : list bytes;
                 fails : list (bytes * N); holds : list bytes; alias : bool }.

Definition new_node (id : bytes) (cfg0 : list bytes) : node :=
  (* p.peers aliases cfg.Peers: when the node id is already in the list nothing is appended and
     sort.Strings sorts that same backing array, so the address list is sorted too; otherwise append
     reallocates (len = cap) and the configured order survives *)
  {| self := id; cfg := if mem_s id cfg0 then sort_s cfg0 else cfg0;
     peers := sort_s (if mem_s id cfg0 then cfg0 else cfg0 ++ [id]);
     unhealthy := []; fails := []; holds := []; alias := mem_s id cfg0 |}.

Definition set_peers (nd : node) (l c : list bytes) (a : bool) : node :=
  {| self := self nd; cfg := c; peers := l; unhealthy := unhealthy nd; fails := fails nd; holds := holds nd; alias := a |}.
Definition set_health (nd : node) (un : list bytes) (fl : list (bytes * N)) : node :=
  {| self := self nd; cfg := cfg nd; peers := peers nd; unhealthy := un; fails := fl; holds := holds nd; alias := alias nd |}.
Definition set_holds (nd : node) (h : list bytes) : node :=
  {| self := self nd; cfg := cfg nd; peers := peers nd; unhealthy := unhealthy nd; fails := fails nd; holds := h; alias := alias nd |}.

(* AddPeer: append + sort.Strings on p.peerNodes. While the backing array is shared and has room
   (after a RemovePeer) the append and the sort happen inside p.peers as well; without room append
   reallocates and the sharing ends. *)
Definition add_peer_node (p : bytes) (nd : node) : node :=
  if mem_s p (peers nd) then nd
  else let l' := sort_s (peers nd ++ [p]) in
       if alias nd then
         if Nat.ltb (length (peers nd)) (length (cfg nd))
         then set_peers nd l' (l' ++ skipn (S (length (peers nd))) (cfg nd)) true
         else set_peers nd l' (cfg nd) false
       else set_peers nd l' (cfg nd) false.

Fixpoint remove_first (x : bytes) (l : list bytes) : list bytes :=
  match l with
  | [] => []
  | y :: tl => if bytes_eqb y x then tl else y :: remove_first x tl
  end.

(* RemovePeer: append(a[:i], a[i+1:]...) shifts the tail left inside the backing array; the slot
   after the new end keeps its old value and stays visible through p.peers while shared *)
Definition remove_peer_node (p : bytes) (nd : node) : node :=
  let l' := remove_first p (peers nd) in
  if alias nd && mem_s p (peers nd)
  then set_peers nd l' (l' ++ skipn (length (peers nd) - 1) (cfg nd)) true
  else set_peers nd l' (cfg nd) (alias nd).

Definition without (p : bytes) (l : list bytes) : list bytes := filter (fun q => negb (bytes_eqb q p)) l.
(* the unhealthy set is kept as a sorted duplicate-free list (the Go map has no order to mirror) *)
Definition mark (un : list bytes) (p : bytes) (healthy : bool) : list bytes :=
  if healthy then without p un else sort_s (p :: without p un).

Inductive op :=
| AddPeer (n : N) (p : bytes)
| RemovePeer (n : N) (p : bytes)
| SetHealth (n : N) (p : bytes) (healthy : bool)
| GetOwner (n : N) (k : bytes)
| IsLocal (n : N) (k : bytes)
| Ranked (n : N) (k : bytes)
| HealthyOwner (n : N) (k : bytes)
| Alloc (n : N) (k : bytes)       (* PeerPool.Allocate entering at node n; observable: NodeID and SubscriberID of the response *)
| Release (n : N) (k : bytes)     (* PeerPool.Release entering at node n; observable: nil / error *)
| Get (n : N) (k : bytes)         (* PeerPool.Get at node n; observable: found *)
| Holds (k : bytes)               (* which nodes' LocalPool holds k (VerifLocalHolds on every node) *)
| CheckPeer (n : N) (p : bytes) (up : bool).
   (* one real checkPeer(p) at node n; [up] = the scripted transport lets the status request through
      to the peer's handler (false: transport error or HTTP 500); observable: the peer's record *)

Inductive out :=
| ONone
| OStr (s : bytes)
| OBool (b : bool)
| OList (l : list bytes)
| OErr
| OHold (l : list N)
| OHealth (h : bool) (f : N)
| OServed (node : bytes) (sid : bytes).   (* Allocate: NodeID and SubscriberID of the response *)

Fixpoint list_bytes_eqb (a b : list bytes) : bool :=
  match a, b with
  | [], [] => true
  | x :: a', y :: b' => bytes_eqb x y && list_bytes_eqb a' b'
  | _, _ => false
  end.

Definition out_eqb (a b : out) : bool :=
  match a, b with
  | ONone, ONone => true
  | OStr x, OStr y => bytes_eqb x y
  | OBool x, OBool y => Bool.eqb x y
  | OList x, OList y => list_bytes_eqb x y
  | OErr, OErr => true
  | OHold x, OHold y => bytes_eqb x y
  | OHealth h f, OHealth h' f' => Bool.eqb h h' && (f =? f')
  | OServed a x, OServed b y => bytes_eqb a b && bytes_eqb x y
  | _, _ => false
  end.

Definition state := list node.

Definition upd (s : state) (n : N) (f : node -> node) : state :=
  map (fun p => if fst p =? n then f (snd p) else snd p) (combine (map N.of_nat (seq 0 (length s))) s).

Definition getn (s : state) (n : N) : node :=
  nth (N.to_nat n) s {| self := []; cfg := []; peers := []; unhealthy := []; fails := []; holds := []; alias := false |}.

(* getPeerAddr: the configured (unsorted, never updated) peer list decides the address *)
Definition peer_addr (nd : node) (o : bytes) : bytes :=
  match find (fun p => bytes_eqb p o || bytes_eqb p (o ++ [58; 56; 48; 56; 49])) (cfg nd) with
  | Some p => p
  | None => o
  end.

(* index of the first node whose id is [id]: the process that answers at that address *)
Fixpoint find_idx (i : N) (s : list node) (id : bytes) : option N :=
  match s with
  | [] => None
  | m :: tl => if bytes_eqb (self m) id then Some i else find_idx (i + 1) tl id
  end.

(* Is [a] usable as the host of "http://a/pool/..." ?  Exact for the names the drivers use:
   letters, digits, '.', '-' and an optional ":<digits>" port (non-empty).  Everything else is
   treated as a request that cannot be sent (see docs/C17.md, limits). *)
Definition is_digit (b : N) : bool := (48 <=? b) && (b <=? 57).
Definition is_alnum (b : N) : bool :=
  is_digit b || ((65 <=? b) && (b <=? 90)) || ((97 <=? b) && (b <=? 122)).
Fixpoint host_ok_aux (l : bytes) : bool :=
  match l with
  | [] => true
  | b :: tl => if b =? 58 then (match tl with [] => false | _ => forallb is_digit tl end)
               else (is_alnum b || (b =? 45) || (b =? 46)) && host_ok_aux tl
  end.
Definition host_ok (l : bytes) : bool := match l with [] => false | _ => host_ok_aux l end.

(* getHealthyOwner at node nd plus ghost marker 1701 (K17a): this node is in the health vector's
   unhealthy set, yet elects itself ("local node always eligible") *)
Definition howner_mk (nd : node) (k : bytes) : bytes * list N :=
  let r := healthy_owner (self nd) (unhealthy nd) k (peers nd) in
  (r, if mem_s (self nd) (unhealthy nd) && bytes_eqb r (self nd) then [1701] else []).

(* where a request entering at node n for owner r is executed: the node itself, or the process
   listening at getPeerAddr(r) (which acts on its own LocalPool without re-checking ownership);
   ghost marker 1702 (K17b): the address lookup conflated owner X with a configured peer "X:8081" *)
Definition target (s : state) (n : N) (r : bytes) : option N * list N :=
  let nd := getn s n in
  if bytes_eqb r (self nd) then (Some n, [])
  else let a := peer_addr nd r in
       if negb (host_ok a) then (None, [])
       else match find_idx 0 s a with
            | Some j => (Some j, if bytes_eqb (self (getn s j)) r then [] else [1702])
            | None => (None, [])
            end.

(* the subscriber id as the release handler of a peer sees it: forwardRelease path-escapes the id,
   the handler reads the decoded path.  Still not deliverable: "" (400), "." and ".." (the mux
   redirects to the cleaned path, the client follows with GET, the handler answers 405/404). *)
Definition url_id (k : bytes) : option bytes :=
  match k with
  | [] => None
  | [46] => None
  | [46; 46] => None
  | _ => Some k
  end.

(* What a subscriber id becomes when it travels in the JSON body of a forwarded Allocate:
   encoding/json replaces every byte that does not start a valid UTF-8 sequence (utf8.DecodeRune
   = RuneError, size 1) by U+FFFD; the peer decodes EF BF BD.  Valid UTF-8 survives unchanged. *)
Definition in_rng (lo hi b : N) : bool := (lo <=? b) && (b <=? hi).
Definition ufffd : bytes := [239; 191; 189].
(* for a lead byte: number of continuation bytes (0 = ASCII, 9 = invalid) and the range of the first one *)
Definition lead (b : N) : N * N * N :=
  if b <? 128 then (0, 0, 0)
  else if in_rng 194 223 b then (1, 128, 191)
  else if b =? 224 then (2, 160, 191)
  else if in_rng 225 236 b then (2, 128, 191)
  else if b =? 237 then (2, 128, 159)
  else if in_rng 238 239 b then (2, 128, 191)
  else if b =? 240 then (3, 144, 191)
  else if in_rng 241 243 b then (3, 128, 191)
  else if b =? 244 then (3, 128, 143)
  else (9, 0, 0).
Fixpoint utf8_coerce (l : bytes) : bytes :=
  match l with
  | [] => []
  | b0 :: tl =>
      let '(n, lo, hi) := lead b0 in
      if n =? 0 then b0 :: utf8_coerce tl
      else if n =? 1 then
        match tl with
        | b1 :: t1 => if in_rng lo hi b1 then b0 :: b1 :: utf8_coerce t1 else ufffd ++ utf8_coerce tl
        | _ => ufffd ++ utf8_coerce tl
        end
      else if n =? 2 then
        match tl with
        | b1 :: (b2 :: t2) as t1 =>
            if in_rng lo hi b1 && in_rng 128 191 b2 then b0 :: b1 :: b2 :: utf8_coerce t2 else ufffd ++ utf8_coerce tl
        | _ => ufffd ++ utf8_coerce tl
        end
      else if n =? 3 then
        match tl with
        | b1 :: (b2 :: (b3 :: t3)) =>
            if in_rng lo hi b1 && in_rng 128 191 b2 && in_rng 128 191 b3
            then b0 :: b1 :: b2 :: b3 :: utf8_coerce t3 else ufffd ++ utf8_coerce tl
        | _ => ufffd ++ utf8_coerce tl
        end
      else ufffd ++ utf8_coerce tl
  end.

Definition add_hold (k : bytes) (nd : node) : node :=
  if mem_s k (holds nd) then nd else set_holds nd (k :: holds nd).
Definition del_hold (k : bytes) (nd : node) : node := set_holds nd (without k (holds nd)).

Fixpoint holders (i : N) (s : list node) (k : bytes) : list N :=
  match s with
  | [] => []
  | m :: tl => if mem_s k (holds m) then i :: holders (i + 1) tl k else holders (i + 1) tl k
  end.

Definition step (s : state) (o : op) : state * out * list N :=
  match o with
  | AddPeer n p =>
      (upd s n (add_peer_node p), ONone, [])
  | RemovePeer n p => (upd s n (remove_peer_node p), ONone, [])
  | SetHealth n p h =>
      (* harness hook VerifSetPeerHealth: sets the flag; a healthy mark also clears the counter *)
      (upd s n (fun nd => set_health nd (mark (unhealthy nd) p h) (if h then aset (fails nd) p 0 else fails nd)),
       ONone, [])
  | GetOwner n k => (s, OStr (owner k (peers (getn s n))), [])
  | IsLocal n k => let nd := getn s n in (s, OBool (bytes_eqb (owner k (peers nd)) (self nd)), [])
  | Ranked n k => (s, OList (ranked k (peers (getn s n))), [])
  | HealthyOwner n k => let '(r, mk) := howner_mk (getn s n) k in (s, OStr r, mk)
  | Alloc n k =>
      let '(r, mk) := howner_mk (getn s n) k in
      (* forwarded requests carry the id in JSON; ghost marker 1704 (K17d): the peer allocates, and
         answers for, a different id *)
      let k' := if bytes_eqb r (self (getn s n)) then k else utf8_coerce k in
      match target s n r with
      | (Some j, mk2) => (upd s j (add_hold k'), OServed (self (getn s j)) k',
                          (if bytes_eqb k' k then [] else [1704]) ++ mk2 ++ mk)
      | (None, _) => (s, OErr, mk)
      end
  | Release n k =>
      let '(r, mk) := howner_mk (getn s n) k in
      if bytes_eqb r (self (getn s n)) then (upd s n (del_hold k), ONone, mk)
      else match target s n r, url_id k with
           | (Some j, mk2), Some k' => (upd s j (del_hold k'), ONone, mk2 ++ mk)
           | _, _ => (s, OErr, mk)
           end
  | Get n k =>
      (* Get consults the plain rendezvous owner (not the health view) and never forwards *)
      let nd := getn s n in
      (s, OBool (bytes_eqb (owner k (peers nd)) (self nd) && mem_s k (holds nd)), [])
  | Holds k => (s, OHold (holders 0 s k), [])
  | CheckPeer n p up =>
      let nd := getn s n in
      let a := peer_addr nd p in
      if negb (host_ok a) then
        (* no request can be made (empty address / unparsable URL): checkPeer returns before it touches
           the map; [mark] with the current status only re-normalises the list representation *)
        let h0 := negb (mem_s p (unhealthy nd)) in
        (upd s n (fun nd => set_health nd (mark (unhealthy nd) p h0) (fails nd)), OHealth h0 (aget (fails nd) p), [])
      else
        let ok := up && match find_idx 0 s a with Some _ => true | None => false end in
        let h' := chk (negb (mem_s p (unhealthy nd)), aget (fails nd) p) ok in
        (upd s n (fun nd => set_health nd (mark (unhealthy nd) p (fst h')) (aset (fails nd) p (snd h'))),
         OHealth (fst h') (snd h'), [])
  end.
