(* Executable monitor for C14 over an observed trace (event, observation after the event).
   It knows the configuration, the RESULTS of the individual health checks and the clock moves that
   were injected, and which role-change callbacks are outstanding (entries and returns are
   observable); it knows nothing of the controller's or the health monitor's internals.
   "The partner is reported down / healthy" is the monitor's OWN reading of the check results
   (Model/HealthHyst.v: down once FailureThreshold consecutive checks failed, healthy again once
   RecoveryThreshold consecutive checks succeeded), never the implementation's flag.
   Clauses, as in the property text:

   0  role_changes_only_after_callback_ok : the reported role differs from the previous report only
      at a step where an outstanding callback returned nil, and it becomes that callback's newRole
   1  failback_only_if_partner_healthy    : a failback execution (callback entered from the failback
      timer's function) starts only while the last health report is "healthy"
   2  promotion_requires_sustained_down   : a failover execution started by a timer function (not by
      the operator) starts only if the partner is reported down and has been, without interruption,
      for at least the configured failover delay
   3  one_completed_event_per_promotion   : the number of "completed" events emitted at a step is 1
      if the role went standby -> active at that step and 0 otherwise
   4  never_stuck                         : state in_progress => a failover callback is outstanding or
      the failover timer is pending; state pending => the failover timer is pending;
      state failback_pending => the failback timer is pending or a failback callback is outstanding
   5  failback_completes_healthy          : the role returns to the configured role (failback
      completes) only while the last health report is "healthy"
   6  partner_down_only_after_threshold   : the implementation's health report (IsPartnerHealthy, and
      the partner_down / partner_up notifications) goes healthy -> down only at a failed check that
      completes >= FailureThreshold consecutive failures, and down -> healthy only at a successful
      check that completes >= RecoveryThreshold consecutive successes
   9  malformed observation *)
From Coq Require Import NArith List Bool.
From Verif Require Import Model.HealthHyst Model.Failover.
Import ListNotations.
Local Open Scope N_scope.

Record sstate := mkSS {
  s_now : N;
  s_healthy : bool; s_cf : N; s_cs : N; (* the hysteresis of HealthHyst.v over the check results so far *)
  s_rep : bool;                         (* the implementation's last health report *)
  s_since : N; s_role : role;
  s_inflight : list (kind * role)       (* outstanding callbacks: started by, newRole *)
}.

Definition sinit (c : config) : sstate := mkSS 0 true 0 0 true 0 (c_orig c) [].

Definition check_result (e : ev) : option bool :=
  match e with Down => Some false | Up => Some true | _ => None end.

Definition shyst (c : config) (ss : sstate) (e : ev) : hyst :=
  let y := mkH (s_healthy ss) (s_cf ss) (s_cs ss) in
  match check_result e with
  | Some ok => hyst_step (c_fthr c) (c_rthr c) y ok
  | None => y
  end.

Definition started_kind (e : ev) : option kind :=
  match e with
  | FireFO | StaleFO | ForceFO => Some FO
  | FireFB | StaleFB => Some FB
  | _ => None
  end.

Definition count_completed (l : list fevent) : N :=
  N.of_nat (length (filter (fun x => evtype_n (fst (fst x)) =? 1) l)).

Definition has_kind (k : kind) (l : list (kind * role)) : bool :=
  existsb (fun x => kind_eqb (fst x) k) l.

(* next monitor state (independent of whether a clause is violated) *)
Definition snext (c : config) (ss : sstate) (e : ev) (o : out) : sstate :=
  let nw := match e with Advance d => s_now ss + d | _ => s_now ss end in
  let y := shyst c ss e in
  let sn := if s_healthy ss && negb (y_up y) then s_now ss else s_since ss in
  let fl := match e with
            | CbReturn i _ => remove_nth (N.to_nat i) (s_inflight ss)
            | _ => s_inflight ss
            end in
  let fl := match o_cb o, started_kind e with
            | Some r, Some k => fl ++ [(k, r)]
            | _, _ => fl
            end in
  mkSS nw (y_up y) (y_f y) (y_s y) (o_healthy o) sn (o_role o) fl.

Definition returned (ss : sstate) (e : ev) : option (kind * role) :=
  match e with
  | CbReturn i true => nth_error (s_inflight ss) (N.to_nat i)
  | _ => None
  end.

(* one boolean per clause: true = violated at this step *)
Definition v0 (ss : sstate) (e : ev) (o : out) : bool :=
  if role_eqb (o_role o) (s_role ss) then false
  else match returned ss e with
       | Some (_, r) => negb (role_eqb r (o_role o))
       | None => true
       end.

Definition v1 (ss : sstate) (e : ev) (o : out) : bool :=
  match o_cb o, started_kind e with
  | Some _, Some FB => negb (s_healthy ss)
  | _, _ => false
  end.

Definition v2 (c : config) (ss : sstate) (e : ev) (o : out) : bool :=
  match o_cb o, e with
  | Some _, FireFO | Some _, StaleFO =>
      negb (negb (s_healthy ss) && (s_since ss + c_delay c <=? s_now ss))
  | _, _ => false
  end.

Definition v3 (ss : sstate) (o : out) : bool :=
  negb (count_completed (o_evs o) =?
        (if role_eqb (s_role ss) Standby && role_eqb (o_role o) Active then 1 else 0)).

Definition v4 (ss' : sstate) (o : out) : bool :=
  match o_st o with
  | InProgress => negb (has_kind FO (s_inflight ss') || o_fo o)
  | Pending => negb (o_fo o)
  | FailbackPending => negb (o_fb o || has_kind FB (s_inflight ss'))
  | _ => false
  end.

Definition v5 (ss : sstate) (e : ev) (o : out) : bool :=
  match returned ss e with
  | Some (FB, _) => negb (role_eqb (o_role o) (s_role ss) || s_healthy ss)
  | _ => false
  end.

Definition v6 (c : config) (ss : sstate) (e : ev) (o : out) : bool :=
  let y := shyst c ss e in
  let down_ok := match e with Down => c_fthr c <=? y_f y | _ => false end in
  let up_ok := match e with Up => c_rthr c <=? y_s y | _ => false end in
  (s_rep ss && negb (o_healthy o) && negb down_ok)
  || (negb (s_rep ss) && o_healthy o && negb up_ok)
  || ((o_hev o =? 1) && negb down_ok)
  || ((o_hev o =? 2) && negb up_ok).

Definition v9 (e : ev) (o : out) : bool :=
  match o_cb o, started_kind e with
  | Some _, None => true
  | _, _ => false
  end.

Definition flag (b : bool) (k : N) : list N := if b then [k] else [].

(* the clauses violated by this step, in increasing order *)
Definition viol (c : config) (ss : sstate) (e : ev) (o : out) : list N :=
  flag (v0 ss e o) 0 ++ flag (v1 ss e o) 1 ++ flag (v2 c ss e o) 2 ++ flag (v3 ss o) 3
  ++ flag (v4 (snext c ss e o) o) 4 ++ flag (v5 ss e o) 5 ++ flag (v6 c ss e o) 6 ++ flag (v9 e o) 9.

(* [m] selects the clauses that are monitored *)
Definition accept_m (m : N -> bool) (c : config) (ss : sstate) (e : ev) (o : out) : sstate + N :=
  match filter m (viol c ss e o) with
  | [] => inl (snext c ss e o)
  | cl :: _ => inr cl
  end.

Definition accept (c : config) : sstate -> ev -> out -> sstate + N := accept_m (fun _ => true) c.

Definition only (k : N) : N -> bool := N.eqb k.

(* The monitor run against the Model itself: first violated clause among those selected by [m]
   when the Model executes the event list [evs] from state [s] (None = never rejected). *)
Fixpoint monitor (m : N -> bool) (c : config) (s : state) (ss : sstate) (evs : list ev) : option N :=
  match evs with
  | [] => None
  | e :: tl =>
      let '(s', o, _) := step c s e in
      match accept_m m c ss e o with
      | inl ss' => monitor m c s' ss' tl
      | inr cl => Some cl
      end
  end.

(* guards: a boolean evaluated along the Model's run of the history *)
Fixpoint run_ok (P : state -> ev -> bool) (c : config) (s : state) (evs : list ev) : bool :=
  match evs with
  | [] => true
  | e :: tl => P s e && run_ok P c (fst (fst (step c s e))) tl
  end.

(* no stale timer function runs (the timer-atomic semantics): a property of the history alone *)
Definition not_stale (_ : state) (e : ev) : bool :=
  match e with StaleFO | StaleFB => false | _ => true end.
(* at most one role-change callback outstanding at any time *)
Definition serial_step (c : config) (s : state) (e : ev) : bool :=
  Nat.leb (length (inflight (fst (fst (step c s e))))) 1.
(* the partner is not reported down (no failed check that completes FailureThreshold consecutive
   failures of a healthy partner) while a failback callback is outstanding *)
Definition quiet_fb (c : config) (s : state) (e : ev) : bool :=
  match e with
  | Down => negb (existsb (fun x => kind_eqb (x_kind x) FB) (inflight s) && goes_down c s)
  | _ => true
  end.
