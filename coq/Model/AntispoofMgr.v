(* Model of pkg/antispoof/manager.go: what NewManager / AddBinding / AddBindingV6 / RemoveBinding /
   SetMode / AddAllowedRange write into the maps read by bpf/antispoof.c, and the C18 op alphabet.
   Ghost markers: 1801 AddBinding stored the IPv4 address byte-reversed (BigEndian.Uint32 marshalled in
                       native little-endian order) and the address is not a palindrome
                  1802 AddBinding replaced a binding that carried a valid IPv6 address (it is erased)
                  1805 AddAllowedRange stored the range byte-reversed (non-palindromic address) *)
From Coq Require Import NArith List Bool.
From Verif Require Import Base.Word Model.TcQos Model.TcAntispoofC Model.TcAntispoof.
Import ListNotations.
Local Open Scope N_scope.

(* keys: the manager computes macToUint64(mac) in Go (TcAntispoofC.go_mac_key) and cilium marshals the uint64
   natively; PutBinding is the harness writing a raw entry under the documented key form (spec_mac_key: the MAC as
   a 48-bit big-endian number in a little-endian u64); the program looks up TcAntispoof.mac_key = the C derivation. *)
Record state := { maps : amaps; mgr_mode : N }.
Definition init : state := {| maps := {| a_cfg := Some [0;0;0;0;0;0;0;0]; a_bind := []; a_ranges := [] |}; mgr_mode := 1 |}.

Inductive op :=
| NewMgr (m : N)                          (* NewManager(DefaultMode m): 0 means strict *)
| AddBinding (mac : bytes) (ip : bytes)   (* ip: 4 bytes, or empty (nil), or 16 bytes (not IPv4) *)
| AddBindingV6 (mac : bytes) (ip : bytes) (* ip: 16 bytes, 4 bytes (v4-mapped by To16), or empty *)
| RemoveBinding (mac : bytes)
| SetMode (m : N)
| AddRange (ip : bytes) (ones : N)
| PutBinding (mac : bytes) (val : bytes)  (* raw 24-byte value under the key of mac *)
| PutConfig (val : bytes)                 (* raw 8-byte config *)
| PutRange (plen : N) (data : bytes)      (* raw LPM entry *)
| Frame (f : bytes)
| SnapB.                                   (* raw dump of subscriber_bindings, sorted by key bytes *)

Inductive out := OUnit | OErr | OVerdict (v : N) | OOob | OSnapB (l : kvmap).

Definition zero16 : bytes := [0;0;0;0;0;0;0;0;0;0;0;0;0;0;0;0].
Definition is_v4mapped (ip : bytes) : bool :=
  (N.of_nat (length ip) =? 16) && bytes_eqb (firstn 12 ip) [0;0;0;0;0;0;0;0;0;0;255;255].
(* net.IP.To4 *)
Definition to4 (ip : bytes) : option bytes :=
  if N.of_nat (length ip) =? 4 then Some ip else if is_v4mapped ip then Some (skipn 12 ip) else None.
(* net.IP.To16 *)
Definition to16 (ip : bytes) : option bytes :=
  if N.of_nat (length ip) =? 4 then Some ([0;0;0;0;0;0;0;0;0;0;255;255] ++ ip)
  else if N.of_nat (length ip) =? 16 then Some ip else None.

Definition mk_binding (v4 v6 : bytes) (valid4 valid6 mode : N) : bytes := v4 ++ v6 ++ [valid4; valid6; mode; 0].
Definition palin4 (ip : bytes) : bool := bytes_eqb ip (rev ip).

Definition set_bind (s : state) (b : kvmap) : state :=
  {| maps := {| a_cfg := a_cfg (maps s); a_bind := b; a_ranges := a_ranges (maps s) |}; mgr_mode := mgr_mode s |}.

(* LPM update as the kernel does it: an entry with the same prefix length and the same significant bits is
   replaced; bits past the prefix are cleared *)
Fixpoint mask_bits (n : nat) (a : bytes) : bytes :=
  match a with
  | [] => []
  | x :: a' => if Nat.leb 8 n then x :: mask_bits (n - 8) a'
               else N.shiftl (N.shiftr x (8 - N.of_nat n)) (8 - N.of_nat n) :: mask_bits 0 a'
  end.
Definition range_put (rs : list (N * bytes)) (plen : N) (data : bytes) : list (N * bytes) :=
  let d := mask_bits (N.to_nat plen) data in
  (plen, d) :: filter (fun r => negb ((fst r =? plen) && bytes_eqb (snd r) d)) rs.

Definition step (s : state) (o : op) : state * out * list N :=
  match o with
  | NewMgr m => ({| maps := maps s; mgr_mode := if m =? 0 then 1 else m |}, OUnit, [])
  | AddBinding mac ip =>
      if negb (N.of_nat (length mac) =? 6) then (s, OErr, []) else
      let old := m_get (a_bind (maps s)) (go_mac_key mac) in
      let erased := match old with Some b => negb (nthb b 21 =? 0) | None => false end in
      let v := match to4 ip with
               | Some ip4 => mk_binding (rev ip4) zero16 1 0 (mgr_mode s)
               | None => mk_binding [0;0;0;0] zero16 0 0 (mgr_mode s)
               end in
      (set_bind s (m_put (a_bind (maps s)) (go_mac_key mac) v), OUnit,
       (match to4 ip with Some ip4 => if palin4 ip4 then [] else [1801] | None => [] end) ++
       (if erased then [1802] else []))
  | AddBindingV6 mac ip =>
      if negb (N.of_nat (length mac) =? 6) then (s, OErr, []) else
      let old := match m_get (a_bind (maps s)) (go_mac_key mac) with Some b => b | None => mk_binding [0;0;0;0] zero16 0 0 0 end in
      let v := match to16 ip with
               | Some ip6 => firstn 4 old ++ ip6 ++ [nthb old 20; 1; mgr_mode s; nthb old 23]
               | None => firstn 22 old ++ [mgr_mode s; nthb old 23]
               end in
      (set_bind s (m_put (a_bind (maps s)) (go_mac_key mac) v), OUnit, [])
  | RemoveBinding mac =>
      if negb (N.of_nat (length mac) =? 6) then (s, OErr, []) else
      (set_bind s (m_del (a_bind (maps s)) (go_mac_key mac)), OUnit, [])
  | SetMode m =>
      ({| maps := {| a_cfg := Some [N.land m 255; 1; 0; 0; 0; 0; 0; 0]; a_bind := a_bind (maps s); a_ranges := a_ranges (maps s) |};
          mgr_mode := N.land m 255 |}, OUnit, [])
  | AddRange ip ones =>
      match to4 ip with
      | Some ip4 =>
          if 32 <? ones then (s, OErr, []) else
          ({| maps := {| a_cfg := a_cfg (maps s); a_bind := a_bind (maps s);
                         a_ranges := range_put (a_ranges (maps s)) ones (rev ip4) |}; mgr_mode := mgr_mode s |},
           OUnit, if palin4 ip4 then [] else [1805])
      | None => (s, OErr, [])
      end
  | PutBinding mac v =>
      if (N.of_nat (length mac) =? 6) && (N.of_nat (length v) =? 24)
      then (set_bind s (m_put (a_bind (maps s)) (spec_mac_key mac) v), OUnit, []) else (s, OErr, [])
  | PutConfig v =>
      if N.of_nat (length v) =? 8
      then ({| maps := {| a_cfg := Some v; a_bind := a_bind (maps s); a_ranges := a_ranges (maps s) |}; mgr_mode := mgr_mode s |}, OUnit, [])
      else (s, OErr, [])
  | PutRange plen d =>
      if (N.of_nat (length d) =? 4) && (plen <=? 32)
      then ({| maps := {| a_cfg := a_cfg (maps s); a_bind := a_bind (maps s); a_ranges := range_put (a_ranges (maps s)) plen d |};
               mgr_mode := mgr_mode s |}, OUnit, [])
      else (s, OErr, [])
  | Frame f =>
      let '(v, mk) := antispoof_prog (maps s) f in
      (s, match v with ARet x => OVerdict x | AOob => OOob end, mk)
  | SnapB => (s, OSnapB (a_bind (maps s)), [])
  end.

Fixpoint kvb_eqb (a b : kvmap) : bool :=
  match a, b with
  | [], [] => true
  | (k, v) :: a', (k', v') :: b' => bytes_eqb k k' && bytes_eqb v v' && kvb_eqb a' b'
  | _, _ => false
  end.

Definition out_eqb (a b : out) : bool :=
  match a, b with
  | OUnit, OUnit | OErr, OErr | OOob, OOob => true
  | OVerdict v, OVerdict v' => v =? v'
  | OSnapB l, OSnapB l' => kvb_eqb l l'
  | _, _ => false
  end.
