(* C03 executable monitor.  It judges one probe at a time: the request frame [f], what the fast path
   did with it (verdict, frame'), and what the REAL userspace server did with the same request in the
   same state ([slowview], recorded by the harness: reply kind and fields, status of the client's lease).
   Nothing here looks at the maps or at the Model.

   Clauses (numbers are what the harness reports):
     0  a transmitted reply is a well-formed Ethernet/IPv4/UDP/BOOTP frame: IPv4 with IHL >= 5, header
        checksum valid over the IHL*4 header bytes, ip.tot_len = frame length - L2 header,
        udp.len = tot_len - IHL*4, BOOTREPLY with magic cookie and an options area that a TLV walk
        finishes at an END option inside the datagram
     1  it echoes the request: same xid, htype, hlen, chaddr; DHCPOFFER for a DISCOVER and DHCPACK for
        a REQUEST (the request's type read by a TLV walk, as the userspace parser does)
     2  userspace answers the same request with the same kind of message (it does not stay silent and
        does not send a NAK)
     3  the reply carries the client address, server identifier, subnet mask, router, DNS servers and
        lease time of the userspace reply
     4  when the fast path does not transmit, the verdict is XDP_PASS and the frame is byte-identical
     5  no reply for a client whose lease userspace has released, declined or expired *)
From Coq Require Import NArith List Bool.
From Verif Require Import Base.Word Model.XdpDhcp.
Import ListNotations.
Local Open Scope N_scope.

Definition sstate := unit.
Definition sinit : sstate := tt.

(* ---- how a receiver reads a frame: L2 length from the ethertype chain, IPv4 with its own IHL ---- *)
Definition l2_len (f : bytes) : option nat :=
  match rd f 12 2 with
  | Some et =>
      if bytes_eqb et [8; 0] then Some 14%nat
      else if is_vlan_et et then
        match rd f 16 2 with
        | Some et2 =>
            if bytes_eqb et2 [8; 0] then Some 18%nat
            else if bytes_eqb et2 [129; 0] then
              match rd f 20 2 with
              | Some et3 => if bytes_eqb et3 [8; 0] then Some 22%nat else None
              | None => None
              end
            else None
        | None => None
        end
      else None
  | None => None
  end.

Fixpoint sum_be16 (h : bytes) : N :=
  match h with
  | hi :: lo :: tl => 256 * hi + lo + sum_be16 tl
  | _ => 0
  end.
(* RFC 1071: the one's-complement sum of the header words is 0xFFFF *)
Definition ip_checksum_valid (hdr : bytes) : bool :=
  let s := sum_be16 hdr in (0 <? s) && (s mod 65535 =? 0).

Record bootp := { bp_ip : nat; bp_ihl : nat; bp_udp : nat; bp_dh : nat; bp_optlen : nat }.

(* positions of a frame that is IPv4/UDP with a complete BOOTP fixed part; lengths taken from the
   headers when [strict] (a reply), from the frame when not (a request is whatever arrived) *)
Definition locate (f : bytes) : option bootp :=
  match l2_len f with
  | None => None
  | Some l2 =>
      match rd8 f l2 with
      | None => None
      | Some b0 =>
          let ihl := (N.to_nat (N.land b0 15) * 4)%nat in
          if negb (b0 / 16 =? 4) || Nat.ltb ihl 20 then None else
          let dh := (l2 + ihl + 8)%nat in
          if Nat.ltb (length f) (dh + 240) then None else
          Some {| bp_ip := l2; bp_ihl := ihl; bp_udp := (l2 + ihl)%nat; bp_dh := dh;
                  bp_optlen := (length f - (dh + 240))%nat |}
      end
  end.

Definition be_at (f : bytes) (off n : nat) : N := match rd f off n with Some x => be_val x | None => 0 end.
Definition opts_of (f : bytes) (p : bootp) : bytes := skipn (bp_dh p + 240) f.

Definition wellformed (r : bytes) : bool :=
  match locate r with
  | None => false
  | Some p =>
      match rd r (bp_ip p) (bp_ihl p) with
      | None => false
      | Some hdr =>
          ip_checksum_valid hdr
          && (be_at r (bp_ip p + 2) 2 =? N.of_nat (length r - bp_ip p))
          && (be_at r (bp_ip p + 9) 1 =? 17)
          && (be_at r (bp_udp p + 4) 2 =? N.of_nat (length r - bp_udp p))
          && (be_at r (bp_udp p) 2 =? 67)
          && (be_at r (bp_dh p) 1 =? 2)
          && (be_at r (bp_dh p + 236) 4 =? 1669485411)
          && tlv_ended (S (length r)) (opts_of r p)
      end
  end.

Definition echoes (f r : bytes) : bool :=
  match locate f, locate r with
  | Some pf, Some pr =>
      match rd f (bp_dh pf + 1) 2, rd r (bp_dh pr + 1) 2, rd f (bp_dh pf + 4) 4, rd r (bp_dh pr + 4) 4,
            rd f (bp_dh pf + 28) 16, rd r (bp_dh pr + 28) 16 with
      | Some h, Some h', Some x, Some x', Some c, Some c' =>
          (* htype and hlen as received; the hardware address = the first hlen (at most 16) chaddr bytes,
             what lies behind it is padding the property does not speak about *)
          let n := Nat.min (N.to_nat (nth 1%nat h 0)) 16%nat in
          bytes_eqb h h' && bytes_eqb x x' && bytes_eqb (firstn n c) (firstn n c')
          && (let tq := tlv_msg_type (opts_of f pf) in
              let tr := tlv_msg_type (opts_of r pr) in
              ((tq =? 1) && (tr =? 2)) || ((tq =? 3) && (tr =? 5)))
      | _, _, _, _, _, _ => false
      end
  | _, _ => false
  end.

Definition opt_or_nil (code : N) (o : bytes) : bytes :=
  match tlv_get code o with Some x => x | None => [] end.

Definition same_kind (r : bytes) (sv : slowview) : bool :=
  match locate r with
  | Some pr => let tr := tlv_msg_type (opts_of r pr) in
               ((tr =? 2) || (tr =? 5)) && (tr =? sv_kind sv)
  | None => false
  end.

Definition same_fields (r : bytes) (sv : slowview) : bool :=
  match locate r with
  | Some pr =>
      let o := opts_of r pr in
      match rd r (bp_dh pr + 16) 4 with
      | Some yi =>
          bytes_eqb yi (sv_yiaddr sv)
          && bytes_eqb (opt_or_nil 54 o) (sv_sid sv)
          && bytes_eqb (opt_or_nil 1 o) (sv_mask sv)
          && bytes_eqb (opt_or_nil 3 o) (sv_router sv)
          && bytes_eqb (opt_or_nil 6 o) (sv_dns sv)
          && bytes_eqb (opt_or_nil 51 o) (be_bytes 4 (sv_lease sv))
      | None => false
      end
  | None => false
  end.

Definition gone (sv : slowview) : bool := (2 <=? sv_status sv) && (sv_status sv <=? 4).

Definition judge (f : bytes) (sv : slowview) (v : N) (f' : bytes) : option N :=   (* Some c = clause c rejected *)
  if v =? XDP_TX then
    if gone sv then Some 5
    else if negb (wellformed f') then Some 0
    else if negb (echoes f f') then Some 1
    else if sv_kind sv =? 99 then None      (* harness-written maps: there is no userspace state to agree with *)
    else if negb (same_kind f' sv) then Some 2
    else if negb (same_fields f' sv) then Some 3
    else None
  else if (v =? XDP_PASS) && bytes_eqb f' f then None else Some 4.

Definition accept (s : sstate) (o : op) (r : out) : sstate + N :=
  match o, r with
  | Probe f _ _ sv, OXdp v fo =>
      match judge f sv v (match fo with Some x => x | None => f end) with
      | None => inl s
      | Some c => inr c
      end
  | _, _ => inl s
  end.
