(* Entry point evaluated by the harness-written cases files for C03. *)
From Coq Require Import NArith List.
From Verif Require Import Base.Word Base.Check Model.XdpDhcp Model.XdpDhcpSpec.
Import ListNotations.

(* frames are written with their zero runs compressed (parsing dominates the evaluation time) *)
Inductive chunk := B (l : bytes) | Z (n : N).
Fixpoint unz (c : list chunk) : bytes :=
  match c with
  | [] => []
  | B l :: t => l ++ unz t
  | Z n :: t => repeat 0%N (N.to_nat n) ++ unz t
  end.

Definition case := list (op * out).
Definition mk (c : case) : state * sstate * list (op * out) := (init, sinit, c).
Definition run_cases (cs : list case) : list (list N) :=
  check_all step accept out_eqb 1%N (map mk cs).
