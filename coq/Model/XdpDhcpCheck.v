(* Entry point evaluated by the harness-written cases files for C03. *)
From Coq Require Import NArith List Bool.
From Verif Require Import Base.Word Base.Check Model.XdpDhcp Model.XdpDhcpSpec.
Import ListNotations.
Local Open Scope N_scope.

(* frames are written with their zero runs compressed (parsing dominates the evaluation time) *)
Inductive chunk := B (l : bytes) | Z (n : N).
Fixpoint unz (c : list chunk) : bytes :=
  match c with
  | [] => []
  | B l :: t => l ++ unz t
  | Z n :: t => repeat 0%N (N.to_nat n) ++ unz t
  end.

Definition case := list (op * out).

(* One row PER REJECTED PROBE (the monitor is stateless: every probe is judged on its own, so a
   rejection explained by a known finding never hides a later one of the same case):
     [mismatch; step; impl_clause+1; model_step; model_clause+1; markers raised by the Model AT that step]
   model_step = step when the monitor rejects the Model's own output there too, else 0.
   A case without rejection yields one row [mismatch; 0; 0; 0; 0; all markers] (dropped when all is 0). *)
Definition rej (o : op) (r : out) : N :=
  match accept sinit o r with inl _ => 0 | inr c => c + 1 end.

Fixpoint probe_rows (i mm : N) (m : list (op * out * list N)) (tr : list (op * out)) : list (list N) :=
  match m, tr with
  | (o, r, mk) :: m', (_, r') :: tr' =>
      let ic := rej o r' in
      let mc := rej o r in
      let rest := probe_rows (i + 1) mm m' tr' in
      if ic =? 0 then
        (if mc =? 0 then rest else [mm; 0; 0; i; mc] :: rest)   (* only the Model is rejected: a tie-1 mismatch at i as well *)
      else ([mm; i; ic; (if mc =? 0 then 0 else i); mc] ++ dedup mk) :: rest
  | _, _ => []
  end.

Definition case_rows (tr : case) : list (list N) :=
  let m := model_trace step init (map fst tr) in
  let mm := first_mismatch out_eqb 1 m tr in
  match probe_rows 1 mm m tr with
  | [] => let mk := dedup (markers_upto 1 0 m) in
          match mm, mk with
          | 0, [] => []
          | _, _ => [[mm; 0; 0; 0; 0] ++ mk]
          end
  | rows => rows
  end.

Fixpoint run_from (i : N) (cs : list case) : list (list N) :=
  match cs with
  | [] => []
  | c :: tl => map (cons i) (case_rows c) ++ run_from (i + 1) tl
  end.
Definition run_cases (cs : list case) : list (list N) := run_from 1 cs.
