(* Model of pkg/ha/failover.go (FailoverController) composed with pkg/ha/health_monitor.go
   (HealthMonitor.recordFailure / recordSuccess: the consecutive-failure / consecutive-success counters,
   FailureThreshold / RecoveryThreshold, the Healthy flag and the partner_down / partner_up /
   check_failed / check_succeeded notifications).  [Down] / [Up] are ONE failed / successful health
   check; the monitor turns the check history into partner-down / partner-up reports, which are what
   the controller's handleHealthEvent sees.

   Time is a model clock moved by [Advance].  The two time.AfterFunc timers are explicit: the
   controller's current timer is [Some deadline]; the Go runtime's part is made of events:
   [FireFO]/[FireFB] run a pending timer's function once it is due (the harness decides when, at or
   after the deadline); Timer.Stop on a timer that is already due does not prevent its function from
   running (it "expired just before it was stopped"): such a timer becomes a zombie and the events
   [StaleFO]/[StaleFB] run its function later.  executeFailover/executeFailback are two micro-steps:
   everything up to the role-change callback (state check, in-progress mark, grace sleep), then
   [CbReturn i ok] = the i-th outstanding callback returns nil / an error and the rest runs.
   Several executions can be outstanding at once, exactly as several goroutines can in the code.

   Ghost markers (no influence on behaviour):
     1402  a stale timer function passed the state check and started an execution
     1403  an execution started while another one was still outstanding
     1404  a failback completed although the partner had gone down during its grace/callback window *)
From Coq Require Import NArith List Bool.
Import ListNotations.
Local Open Scope N_scope.

Inductive role := Active | Standby.
Inductive fstate := Normal | Pending | InProgress | Complete | FailbackPending.
Inductive kind := FO | FB.

Definition role_eqb (a b : role) : bool :=
  match a, b with Active, Active | Standby, Standby => true | _, _ => false end.
Definition fstate_eqb (a b : fstate) : bool :=
  match a, b with
  | Normal, Normal | Pending, Pending | InProgress, InProgress | Complete, Complete
  | FailbackPending, FailbackPending => true
  | _, _ => false
  end.
Definition kind_eqb (a b : kind) : bool :=
  match a, b with FO, FO | FB, FB => true | _, _ => false end.

(* FailoverConfig (Enabled = true; GracePeriod has no effect on the state machine: it is the time the
   harness lets pass between an execution's start and its callback's return) + the configured role *)
Record config := { c_delay : N; c_fbdelay : N; c_fb_enabled : bool; c_orig : role;
                   c_fthr : N; c_rthr : N   (* HealthConfig.FailureThreshold / RecoveryThreshold *) }.

(* one execution blocked in the role-change callback: kind, oldRole captured under the lock *)
Record exec := { x_kind : kind; x_old : role }.

Record state := mkS {
  role_ : role;                 (* currentRole *)
  st : fstate;                  (* state *)
  healthy : bool;               (* HealthMonitor.health.Healthy *)
  h_cf : N; h_cs : N;           (* health.ConsecutiveFailures / ConsecutiveSuccesses *)
  now : N;
  fo : option N;                (* failoverTimer pending, with its deadline *)
  fb : option N;                (* failbackTimer pending *)
  fo_z : N; fb_z : N;           (* timers stopped after they were due: their function may still run *)
  inflight : list exec;
  n_init : N; n_comp : N; n_canc : N; n_fb : N;   (* Stats() *)
  since : N                     (* ghost: instant of the last healthy -> unhealthy transition *)
}.

Definition init (c : config) : state :=
  mkS (c_orig c) Normal true 0 0 0 None None 0 0 [] 0 0 0 0 0.

(* events handed to the OnFailoverEvent handlers: type, OldRole, NewRole *)
Inductive evtype := EInitiated | ECompleted | ECanceled | EFbInitiated | EFbCompleted | ERoleChanged.
Definition fevent := (evtype * role * role)%type.

Inductive ev :=
| Down                      (* one failed health check *)
| Up                        (* one successful health check *)
| Advance (d : N)
| FireFO | FireFB           (* the pending timer's function runs (if due) *)
| StaleFO | StaleFB         (* a stopped-after-due timer's function runs *)
| Tick                      (* controlLoop: evaluateState *)
| ForceFO | ForceFB         (* operator commands *)
| CbReturn (i : N) (ok : bool).

Inductive res := RNone | RForce (ok : bool) | RFire (ran : bool).

Record out := mkOut {
  o_role : role; o_st : fstate;
  o_stats : N * N * N * N;
  o_evs : list fevent;
  o_fo : bool; o_fb : bool;       (* timer pending *)
  o_foz : N; o_fbz : N;
  o_healthy : bool;
  o_hc : N * N;                   (* Health().ConsecutiveFailures / ConsecutiveSuccesses *)
  o_hev : N;                      (* health event handed to the OnHealthChange handlers:
                                     0 none, 1 partner_down, 2 partner_up, 3 check_failed, 4 check_succeeded *)
  o_dl : option N * option N;     (* deadline (model time) the armed failover / failback timer was given,
                                     as the implementation records it (failoverTime / failbackTime) *)
  o_cb : option role;             (* the role-change callback was entered with this newRole *)
  o_res : res
}.

(* Timer.Stop: a pending timer that is already due becomes a zombie *)
Definition stop (nw : N) (t : option N) (z : N) : N :=
  match t with Some d => if d <=? nw then z + 1 else z | None => z end.

Definition set_st (s : state) (v : fstate) : state :=
  mkS (role_ s) v (healthy s) (h_cf s) (h_cs s) (now s) (fo s) (fb s) (fo_z s) (fb_z s) (inflight s)
      (n_init s) (n_comp s) (n_canc s) (n_fb s) (since s).

(* handleHealthEvent(PartnerDown) *)
Definition deliver_down (c : config) (s : state) : state :=
  if role_eqb (role_ s) Standby && fstate_eqb (st s) Normal then
    mkS (role_ s) Pending (healthy s) (h_cf s) (h_cs s) (now s) (Some (now s + c_delay c)) (fb s)
        (stop (now s) (fo s) (fo_z s)) (fb_z s) (inflight s)
        (n_init s) (n_comp s) (n_canc s) (n_fb s) (since s)
  else s.

(* handleHealthEvent(PartnerUp) *)
Definition deliver_up (c : config) (s : state) : state * list fevent :=
  if fstate_eqb (st s) Pending then
    (mkS (role_ s) Normal (healthy s) (h_cf s) (h_cs s) (now s) None (fb s)
         (stop (now s) (fo s) (fo_z s)) (fb_z s) (inflight s)
         (n_init s) (n_comp s) (n_canc s + 1) (n_fb s) (since s),
     [(ECanceled, role_ s, role_ s)])
  else if fstate_eqb (st s) Complete && c_fb_enabled c then
    (mkS (role_ s) FailbackPending (healthy s) (h_cf s) (h_cs s) (now s) (fo s) (Some (now s + c_fbdelay c))
         (fo_z s) (stop (now s) (fb s) (fb_z s)) (inflight s)
         (n_init s) (n_comp s) (n_canc s) (n_fb s) (since s), [])
  else (s, []).

(* executeFailover up to the callback *)
Definition fo_start (stale : bool) (s : state) : state * option role * list N :=
  match st s with
  | Pending | InProgress =>
      (mkS (role_ s) InProgress (healthy s) (h_cf s) (h_cs s) (now s) (fo s) (fb s) (fo_z s) (fb_z s)
           (inflight s ++ [{| x_kind := FO; x_old := role_ s |}])
           (n_init s + 1) (n_comp s) (n_canc s) (n_fb s) (since s),
       Some Active,
       (if stale then [1402] else []) ++ (match inflight s with [] => [] | _ => [1403] end))
  | _ => (s, None, [])
  end.

(* executeFailback up to the callback *)
Definition fb_start (c : config) (stale : bool) (s : state) : state * option role * list N :=
  match st s with
  | FailbackPending =>
      if healthy s then
        (mkS (role_ s) (st s) (healthy s) (h_cf s) (h_cs s) (now s) (fo s) (fb s) (fo_z s) (fb_z s)
             (inflight s ++ [{| x_kind := FB; x_old := role_ s |}])
             (n_init s) (n_comp s) (n_canc s) (n_fb s) (since s),
         Some (c_orig c),
         (if stale then [1402] else []) ++ (match inflight s with [] => [] | _ => [1403] end))
      else (set_st s Complete, None, [])
  | _ => (s, None, [])
  end.

Definition set_fo (s : state) (t : option N) (z : N) : state :=
  mkS (role_ s) (st s) (healthy s) (h_cf s) (h_cs s) (now s) t (fb s) z (fb_z s) (inflight s)
      (n_init s) (n_comp s) (n_canc s) (n_fb s) (since s).
Definition set_fb (s : state) (t : option N) (z : N) : state :=
  mkS (role_ s) (st s) (healthy s) (h_cf s) (h_cs s) (now s) (fo s) t (fo_z s) z (inflight s)
      (n_init s) (n_comp s) (n_canc s) (n_fb s) (since s).

Fixpoint remove_nth {A} (i : nat) (l : list A) : list A :=
  match l, i with
  | [], _ => []
  | _ :: tl, O => tl
  | x :: tl, S j => x :: remove_nth j tl
  end.

(* the rest of executeFailover / executeFailback after the callback returned *)
Definition finish (c : config) (x : exec) (ok : bool) (s : state) (rest : list exec)
  : state * list fevent * list N :=
  match x_kind x with
  | FO =>
      if ok then
        (mkS Active Complete (healthy s) (h_cf s) (h_cs s) (now s) (fo s) (fb s) (fo_z s) (fb_z s) rest
             (n_init s) (n_comp s + 1) (n_canc s) (n_fb s) (since s),
         [(ECompleted, x_old x, Active); (ERoleChanged, x_old x, Active)], [])
      else
        (mkS (role_ s) Normal (healthy s) (h_cf s) (h_cs s) (now s) (fo s) (fb s) (fo_z s) (fb_z s) rest
             (n_init s) (n_comp s) (n_canc s) (n_fb s) (since s), [], [])
  | FB =>
      if ok then
        (mkS (c_orig c) Normal (healthy s) (h_cf s) (h_cs s) (now s) (fo s) (fb s) (fo_z s) (fb_z s) rest
             (n_init s) (n_comp s) (n_canc s) (n_fb s + 1) (since s),
         [(EFbCompleted, x_old x, c_orig c); (ERoleChanged, x_old x, c_orig c)],
         if healthy s then [] else [1404])
      else
        (mkS (role_ s) Complete (healthy s) (h_cf s) (h_cs s) (now s) (fo s) (fb s) (fo_z s) (fb_z s) rest
             (n_init s) (n_comp s) (n_canc s) (n_fb s) (since s), [], [])
  end.

Definition is_some {A} (o : option A) : bool := match o with Some _ => true | None => false end.

Definition observe (s : state) (evs : list fevent) (hev : N) (cb : option role) (r : res) : out :=
  mkOut (role_ s) (st s) (n_init s, n_comp s, n_canc s, n_fb s) evs
        (is_some (fo s)) (is_some (fb s)) (fo_z s) (fb_z s) (healthy s) (h_cf s, h_cs s) hev (fo s, fb s) cb r.

(* recordFailure: wasHealthy && ConsecutiveFailures (after the increment) >= FailureThreshold *)
Definition goes_down (c : config) (s : state) : bool :=
  if healthy s then c_fthr c <=? h_cf s + 1 else false.
(* recordSuccess: wasUnhealthy && ConsecutiveSuccesses (after the increment) >= RecoveryThreshold *)
Definition goes_up (c : config) (s : state) : bool :=
  if healthy s then false else c_rthr c <=? h_cs s + 1.

(* the notification the monitor hands to its handlers for this check *)
Definition health_ev (c : config) (s : state) (e : ev) : N :=
  match e with
  | Down => if goes_down c s then 1 else 3
  | Up => if goes_up c s then 2 else 4
  | _ => 0
  end.

(* state after the event, handler events, callback entry, result, markers *)
Definition step_core (c : config) (s : state) (e : ev)
  : state * list fevent * option role * res * list N :=
  match e with
  | Down =>
      (* recordFailure: ConsecutiveFailures++, ConsecutiveSuccesses = 0; a transition (and a
         partner_down event to the controller) only when the partner was healthy and the failure
         streak reached FailureThreshold; otherwise a check_failed event the controller ignores *)
      if goes_down c s then
        let s1 := mkS (role_ s) (st s) false (h_cf s + 1) 0 (now s) (fo s) (fb s) (fo_z s) (fb_z s) (inflight s)
                      (n_init s) (n_comp s) (n_canc s) (n_fb s) (now s) in
        (deliver_down c s1, [], None, RNone, [])
      else
        (mkS (role_ s) (st s) (healthy s) (h_cf s + 1) 0 (now s) (fo s) (fb s) (fo_z s) (fb_z s) (inflight s)
             (n_init s) (n_comp s) (n_canc s) (n_fb s) (since s), [], None, RNone, [])
  | Up =>
      (* recordSuccess: ConsecutiveSuccesses++, ConsecutiveFailures = 0; partner_up only when the
         partner was unhealthy and the success streak reached RecoveryThreshold *)
      if goes_up c s then
        let s1 := mkS (role_ s) (st s) true 0 (h_cs s + 1) (now s) (fo s) (fb s) (fo_z s) (fb_z s) (inflight s)
                      (n_init s) (n_comp s) (n_canc s) (n_fb s) (since s) in
        let '(s2, evs) := deliver_up c s1 in (s2, evs, None, RNone, [])
      else
        (mkS (role_ s) (st s) (healthy s) 0 (h_cs s + 1) (now s) (fo s) (fb s) (fo_z s) (fb_z s) (inflight s)
             (n_init s) (n_comp s) (n_canc s) (n_fb s) (since s), [], None, RNone, [])
  | Advance d =>
      (mkS (role_ s) (st s) (healthy s) (h_cf s) (h_cs s) (now s + d) (fo s) (fb s) (fo_z s) (fb_z s) (inflight s)
           (n_init s) (n_comp s) (n_canc s) (n_fb s) (since s), [], None, RNone, [])
  | FireFO =>
      match fo s with
      | Some d => if d <=? now s
                  then let '(s1, cb, mk) := fo_start false (set_fo s None (fo_z s)) in
                       (s1, [], cb, RFire true, mk)
                  else (s, [], None, RFire false, [])
      | None => (s, [], None, RFire false, [])
      end
  | FireFB =>
      match fb s with
      | Some d => if d <=? now s
                  then let '(s1, cb, mk) := fb_start c false (set_fb s None (fb_z s)) in
                       (s1, [], cb, RFire true, mk)
                  else (s, [], None, RFire false, [])
      | None => (s, [], None, RFire false, [])
      end
  | StaleFO =>
      if fo_z s =? 0 then (s, [], None, RFire false, [])
      else let '(s1, cb, mk) := fo_start true (set_fo s (fo s) (fo_z s - 1)) in
           (s1, [], cb, RFire true, mk)
  | StaleFB =>
      if fb_z s =? 0 then (s, [], None, RFire false, [])
      else let '(s1, cb, mk) := fb_start c true (set_fb s (fb s) (fb_z s - 1)) in
           (s1, [], cb, RFire true, mk)
  | Tick =>
      if fstate_eqb (st s) FailbackPending && negb (healthy s) then
        (set_st (set_fb s None (stop (now s) (fb s) (fb_z s))) Complete, [], None, RNone, [])
      else (s, [], None, RNone, [])
  | ForceFO =>
      (* ForceFailover = initiateFailover (refused when already active or already in progress; stops
         the delay timer) followed by executeFailover *)
      if role_eqb (role_ s) Active || fstate_eqb (st s) InProgress then (s, [], None, RForce false, [])
      else
        let s1 := mkS (role_ s) InProgress (healthy s) (h_cf s) (h_cs s) (now s) None (fb s)
                      (stop (now s) (fo s) (fo_z s)) (fb_z s) (inflight s)
                      (n_init s + 1) (n_comp s) (n_canc s) (n_fb s) (since s) in
        let '(s2, cb, mk) := fo_start false s1 in
        (s2, [(EInitiated, role_ s, Active)], cb, RForce true, mk)
  | ForceFB =>
      (* ForceFailback = initiateFailback: emits an event, changes nothing *)
      if role_eqb (role_ s) (c_orig c) then (s, [], None, RForce false, [])
      else (s, [(EFbInitiated, role_ s, c_orig c)], None, RForce true, [])
  | CbReturn i ok =>
      match nth_error (inflight s) (N.to_nat i) with
      | None => (s, [], None, RNone, [])
      | Some x =>
          let '(s1, evs, mk) := finish c x ok s (remove_nth (N.to_nat i) (inflight s)) in
          (s1, evs, None, RNone, mk)
      end
  end.

Definition step (c : config) (s : state) (e : ev) : state * out * list N :=
  let '(s1, evs, cb, r, mk) := step_core c s e in (s1, observe s1 evs (health_ev c s e) cb r, mk).

Definition run (c : config) (s : state) (evs : list ev) : state :=
  fold_left (fun s e => fst (fst (step c s e))) evs s.

(* ---- equality on outputs (projected observables) ---- *)
Definition evtype_n (t : evtype) : N :=
  match t with EInitiated => 0 | ECompleted => 1 | ECanceled => 2 | EFbInitiated => 3
             | EFbCompleted => 4 | ERoleChanged => 5 end.
Definition fevent_eqb (a b : fevent) : bool :=
  (evtype_n (fst (fst a)) =? evtype_n (fst (fst b))) && role_eqb (snd (fst a)) (snd (fst b))
  && role_eqb (snd a) (snd b).
Fixpoint list_eqb {A} (f : A -> A -> bool) (a b : list A) : bool :=
  match a, b with
  | [], [] => true
  | x :: a', y :: b' => f x y && list_eqb f a' b'
  | _, _ => false
  end.
Definition res_eqb (a b : res) : bool :=
  match a, b with
  | RNone, RNone => true
  | RForce x, RForce y | RFire x, RFire y => Bool.eqb x y
  | _, _ => false
  end.
Definition on_eqb (a b : option N) : bool :=
  match a, b with None, None => true | Some x, Some y => x =? y | _, _ => false end.
Definition orole_eqb (a b : option role) : bool :=
  match a, b with None, None => true | Some x, Some y => role_eqb x y | _, _ => false end.
Definition stats_eqb (a b : N * N * N * N) : bool :=
  let '(a1, a2, a3, a4) := a in let '(b1, b2, b3, b4) := b in
  (a1 =? b1) && (a2 =? b2) && (a3 =? b3) && (a4 =? b4).
Definition out_eqb (a b : out) : bool :=
  role_eqb (o_role a) (o_role b) && fstate_eqb (o_st a) (o_st b) && stats_eqb (o_stats a) (o_stats b)
  && list_eqb fevent_eqb (o_evs a) (o_evs b) && Bool.eqb (o_fo a) (o_fo b) && Bool.eqb (o_fb a) (o_fb b)
  && (o_foz a =? o_foz b) && (o_fbz a =? o_fbz b) && Bool.eqb (o_healthy a) (o_healthy b)
  && (fst (o_hc a) =? fst (o_hc b)) && (snd (o_hc a) =? snd (o_hc b)) && (o_hev a =? o_hev b)
  && on_eqb (fst (o_dl a)) (fst (o_dl b)) && on_eqb (snd (o_dl a)) (snd (o_dl b))
  && orole_eqb (o_cb a) (o_cb b) && res_eqb (o_res a) (o_res b).
