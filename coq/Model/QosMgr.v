(* Model of pkg/qos/manager.go SetSubscriberQoS / SetSubscriberPolicy / RemoveSubscriberQoS (what they
   write into qos_egress / qos_ingress), and the op alphabet of the C19 correspondence runs.
   - key: ipToKey = big-endian uint32 of the address, marshalled by cilium in NATIVE (little-endian)
     byte order: the map key bytes are the address reversed, while the C looks up the raw
     network-order bytes of ip->daddr / ip->saddr.            ghost marker 1901 when key <> ip
   - egress burst: qos.BurstBytes, or when 0: uint32(DownloadBPS/8) clamped to [65536, 10 MiB]
   - ingress burst: ALWAYS uint32(UploadBPS/8) clamped; the policy's burst is ignored.
                                                               ghost marker 1902 when they differ *)
From Coq Require Import NArith List Bool.
From Verif Require Import Base.Word Model.TcQos.
Import ListNotations.
Local Open Scope N_scope.

Definition ip_to_key (ip : bytes) : N :=       (* uint32(ip4[0])<<24 | ... *)
  match ip with [a; b; c; d] => be32 a b c d | _ => 0 end.
Definition key_bytes (ip : bytes) : bytes := le_n 4 (ip_to_key ip).   (* native-endian marshal *)

Definition clamp_burst (b : N) : N :=
  let b := b mod W32 in                        (* uint32(bps / 8) *)
  if b <? 65536 then 65536 else if 10485760 <? b then 10485760 else b.
Definition egress_burst (down burst : N) : N := if burst =? 0 then clamp_burst (down / 8) else burst.
Definition ingress_burst (up : N) : N := clamp_burst (up / 8).

Definition full_bucket (r b p : N) : bytes :=
  tb_encode {| tokens := b; last := 0; rate := r; burst := b; prio := p |}.

(* radius.PolicyManager: name -> policy, AddPolicy overwrites an existing name (map assignment), an empty
   name is refused, RemovePolicy deletes, GetPolicy returns nil for an unknown name. Kept sorted by name. *)
Definition pol := (N * N * N * N)%type.          (* DownloadBPS, UploadBPS, BurstSize, Priority *)
Definition ptab := list (bytes * pol).
Fixpoint p_get (t : ptab) (n : bytes) : option pol :=
  match t with [] => None | (n', v) :: tl => if bytes_eqb n n' then Some v else p_get tl n end.
Fixpoint p_put (t : ptab) (n : bytes) (v : pol) : ptab :=
  match t with
  | [] => [(n, v)]
  | (n', v') :: tl => if bytes_eqb n n' then (n, v) :: tl
                      else if lex_leb n n' then (n, v) :: (n', v') :: tl else (n', v') :: p_put tl n v
  end.
(* delete(pm.policies, name): no entry of that name is left *)
Fixpoint p_del (t : ptab) (n : bytes) : ptab :=
  match t with [] => [] | (n', v) :: tl => if bytes_eqb n n' then p_del tl n else (n', v) :: p_del tl n end.

(* radius.DefaultPolicies(), names as ASCII bytes *)
Definition default_policies : list (bytes * pol) :=
  [ ([114;101;115;105;100;101;110;116;105;97;108;45;53;48;109;98;112;115], (50000000, 10000000, 1000000, 4));
    ([114;101;115;105;100;101;110;116;105;97;108;45;49;48;48;109;98;112;115], (100000000, 20000000, 2000000, 4));
    ([114;101;115;105;100;101;110;116;105;97;108;45;53;48;48;109;98;112;115], (500000000, 50000000, 5000000, 4));
    ([114;101;115;105;100;101;110;116;105;97;108;45;49;103;98;112;115], (1000000000, 100000000, 10000000, 4));
    ([98;117;115;105;110;101;115;115;45;49;48;48;109;98;112;115], (100000000, 100000000, 2000000, 6));
    ([98;117;115;105;110;101;115;115;45;49;103;98;112;115], (1000000000, 1000000000, 10000000, 6));
    ([103;117;101;115;116], (10000000, 5000000, 500000, 2));
    ([117;110;108;105;109;105;116;101;100], (0, 0, 0, 4)) ].

Record state := { eg : kvmap; ing : kvmap; pols : ptab }.
Definition init : state := {| eg := []; ing := []; pols := [] |}.
Definition get_map (s : state) (d : dir) : kvmap := match d with Egress => eg s | Ingress => ing s end.
Definition set_map (s : state) (d : dir) (m : kvmap) : state :=
  match d with Egress => {| eg := m; ing := ing s; pols := pols s |} | Ingress => {| eg := eg s; ing := m; pols := pols s |} end.

Inductive op :=
| PutRaw (d : dir) (key val : bytes)                 (* direct write into the map the program reads *)
| SetQoS (via_policy : bool) (ip : bytes) (down up burst pr : N)   (* SetSubscriberQoS / SetSubscriberPolicy *)
| Remove (ip : bytes)
| Pkt (d : dir) (frame : bytes) (plen now : N)       (* one program run: linear bytes, skb->len, clock *)
| Sub (d : dir) (ip : bytes) (plen now : N)          (* canonical IPv4 frame of subscriber ip *)
| Rep (d : dir) (ip : bytes) (plen start gap n : N)  (* n canonical frames at start + i*gap (mod 2^64) *)
| Snap (d : dir)
(* radius.PolicyManager and qos.Manager.SetSubscriberPolicy *)
| PolAdd (name : bytes) (down up burst pr : N)     (* AddPolicy: define or RE-define *)
| PolRemove (name : bytes)
| PolGet (name : bytes)
| PolLoadDefaults
| PolList
| ApplyPol (ip : bytes) (name : bytes).            (* SetSubscriberPolicy(ip, name) *)

Inductive out :=
| OUnit | OErr
| OVerdict (v pr : N)
| ORle (l : list (N * N))          (* run-length encoded verdicts *)
| OSnap (l : kvmap)
| OPol (p : option pol)
| ONames (l : list bytes)
| OOob.

Definition is_v4 (ip : bytes) : bool := N.of_nat (length ip) =? 4.

Definition set_qos (s : state) (ip : bytes) (down up burst pr : N) : state * list N :=
  let k := key_bytes ip in
  let be := egress_burst down burst in
  let bi := ingress_burst up in
  ({| eg := m_put (eg s) k (full_bucket down be pr); ing := m_put (ing s) k (full_bucket up bi pr); pols := pols s |},
   (if bytes_eqb k ip then [] else [1901]) ++
   (if negb (burst =? 0) && negb (bi =? burst) then [1902] else [])).

Definition rle_push (v : N) (l : list (N * N)) : list (N * N) :=   (* l is reversed *)
  match l with (v', c) :: tl => if v =? v' then (v', c + 1) :: tl else (v, 1) :: l | [] => [(v, 1)] end.

Definition vcode (v : verdict) : N := match v with VRet x _ => x | VOob => 999 end.

(* n runs of the program on one frame: the lookup key is the same every time and a hit only rewrites
   tokens/last_update of that entry, so the bucket is decoded once, stepped n times, written back once *)
Definition mk_add (mk' mk : list N) : list N :=
  fold_left (fun a x => if existsb (N.eqb x) a then a else x :: a) mk' mk.

Fixpoint rep_tb (fuel : nat) (t : tb) (plen now gap : N) (acc : list (N * N)) (mk : list N) : tb * list (N * N) * list N :=
  match fuel with
  | O => (t, rev acc, mk)
  | S k =>
      let '(t', ok) := tb_step t now plen in
      rep_tb k t' plen (add64 now gap) gap (rle_push (if ok then TC_ACT_OK else TC_ACT_SHOT) acc)
             (if rate t =? 0 then mk else mk_add (tb_markers t now) mk)
  end.

Definition rep_run (n : N) (d : dir) (m : kvmap) (f : bytes) (plen t gap : N) : kvmap * list (N * N) * list N :=
  if n =? 0 then (m, [], []) else
  match qos_lookup d m f with
  | LPass => (m, [(TC_ACT_OK, n)], [])
  | LOob => (m, [(999, n)], [])
  | LHit key v b =>
      let '(b', l, mk) := rep_tb (N.to_nat n) b (N.land plen 4294967295) t gap [] [] in
      ((if rate b =? 0 then m else m_put m key (tb_writeback v (tokens b') (last b'))), l, mk)
  end.

Definition step (s : state) (o : op) : state * out * list N :=
  match o with
  | PutRaw d k v =>
      if (N.of_nat (length k) =? 4) && (N.of_nat (length v) =? 32)
      then (set_map s d (m_put (get_map s d) k v), OUnit, []) else (s, OErr, [])
  | SetQoS _ ip down up burst pr =>
      if is_v4 ip then let '(s', mk) := set_qos s ip down up burst pr in (s', OUnit, mk) else (s, OErr, [])
  | Remove ip =>
      if is_v4 ip then ({| eg := m_del (eg s) (key_bytes ip); ing := m_del (ing s) (key_bytes ip); pols := pols s |}, OUnit, [])
      else (s, OErr, [])
  | Pkt d f plen now =>
      let '(m', v, mk) := qos_prog d (get_map s d) f plen now 0 in
      (set_map s d m', match v with VRet x p => OVerdict x p | VOob => OOob end, mk)
  | Sub d ip plen now =>
      let '(m', v, mk) := qos_prog d (get_map s d) (sub_frame d ip) plen now 0 in
      (set_map s d m', match v with VRet x p => OVerdict x p | VOob => OOob end, mk)
  | Rep d ip plen start gap n =>
      let '(m', l, mk) := rep_run n d (get_map s d) (sub_frame d ip) plen start gap in
      (set_map s d m', ORle l, mk)
  | Snap d => (s, OSnap (get_map s d), [])
  | PolAdd n down up b pr =>
      match n with
      | [] => (s, OErr, [])
      | _ => ({| eg := eg s; ing := ing s; pols := p_put (pols s) n (down, up, b, pr) |}, OUnit, [])
      end
  | PolRemove n => ({| eg := eg s; ing := ing s; pols := p_del (pols s) n |}, OUnit, [])
  | PolGet n => (s, OPol (p_get (pols s) n), [])
  | PolLoadDefaults =>
      ({| eg := eg s; ing := ing s; pols := fold_left (fun t x => p_put t (fst x) (snd x)) default_policies (pols s) |}, OUnit, [])
  | PolList => (s, ONames (map fst (pols s)), [])
  | ApplyPol ip n =>
      match p_get (pols s) n with
      | None => (s, OErr, [])
      | Some (down, up, b, pr) =>
          if is_v4 ip then let '(s', mk) := set_qos s ip down up b pr in (s', OUnit, mk) else (s, OErr, [])
      end
  end.

(* equality on observables *)
Fixpoint kv_eqb (a b : kvmap) : bool :=
  match a, b with
  | [], [] => true
  | (k, v) :: a', (k', v') :: b' => bytes_eqb k k' && bytes_eqb v v' && kv_eqb a' b'
  | _, _ => false
  end.
Fixpoint rle_eqb (a b : list (N * N)) : bool :=
  match a, b with
  | [], [] => true
  | (v, c) :: a', (v', c') :: b' => (v =? v') && (c =? c') && rle_eqb a' b'
  | _, _ => false
  end.
Definition out_eqb (a b : out) : bool :=
  match a, b with
  | OUnit, OUnit | OErr, OErr | OOob, OOob => true
  | OVerdict v p, OVerdict v' p' => (v =? v') && (p =? p')
  | ORle l, ORle l' => rle_eqb l l'
  | OSnap l, OSnap l' => kv_eqb l l'
  | OPol None, OPol None => true
  | OPol (Some (a, b, c, d)), OPol (Some (a', b', c', d')) => (a =? a') && (b =? b') && (c =? c') && (d =? d')
  | ONames l, ONames l' => (N.of_nat (length l) =? N.of_nat (length l')) && forallb (fun x => bytes_eqb (fst x) (snd x)) (combine l l')
  | _, _ => false
  end.
