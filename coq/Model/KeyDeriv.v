(* C06 - key derivations, modelled on both sides as the code computes them.

   Every function returns the BYTES that end up in (Go) or are compared with (C) the kernel map:
   Go marshals integers little-endian (native order; cilium sysenc), the C programs pass the address of
   a native integer / struct, or load raw network-order words from the packet.

   Go sources : pkg/ebpf/loader.go  MACToUint64, IPToUint32, MakeCircuitIDKey, HashCircuitID, VLANKey
                pkg/nat/manager.go  ipToKey, ConfigureALG key
                pkg/qos/manager.go  ipToKey
                pkg/antispoof/manager.go  macToUint64, AddBinding (BigEndian.Uint32), AddAllowedRange
   C sources  : bpf/dhcp_fastpath.c mac_to_u64, extract_circuit_id_fixed, vlan_key construction, yiaddr/saddr
                bpf/antispoof.c     mac_to_u64, ip->saddr compare, lpm_key_v4
                bpf/nat44.c         ip->saddr key, check_alg_trigger
                bpf/qos_ratelimit.c ip->daddr / ip->saddr key *)
From Coq Require Import NArith List Bool Arith Lia.
From Verif Require Import Base.Word Model.Layout.
Import ListNotations.
Local Open Scope N_scope.

(* ------------------------------------------------------------------ MAC -> u64 *)
(* Go ebpf.MACToUint64 and C dhcp_fastpath.c mac_to_u64: for i in 0..5: result = (result << 8) | mac[i] *)
Definition mac_loop (mac : bytes) : N := fold_left (fun r b => N.lor (shl64 r 8) b) (firstn 6 mac) 0.
Definition go_mac_u64_ebpf (mac : bytes) : N := if (List.length mac <? 6)%nat then 0 else mac_loop mac.
Definition c_mac_u64_dhcp (mac : bytes) : N := mac_loop mac.      (* reads chaddr[0..5] *)

(* Go antispoof.macToUint64 / walledgarden.macToUint64 and C antispoof.c mac_to_u64:
   mac[0]<<40 | mac[1]<<32 | mac[2]<<24 | mac[3]<<16 | mac[4]<<8 | mac[5]   (64-bit operands) *)
Definition mac_or6 (mac : bytes) : N :=
  let b i := nth i mac 0 in
  N.lor (N.lor (N.lor (N.lor (N.lor (shl64 (b 0%nat) 40) (shl64 (b 1%nat) 32)) (shl64 (b 2%nat) 24))
                      (shl64 (b 3%nat) 16)) (shl64 (b 4%nat) 8)) (b 5%nat).
Definition go_mac_u64_antispoof := mac_or6.
Definition c_mac_u64_antispoof := mac_or6.

(* the 8 key bytes: Go marshals the uint64 natively, C passes &mac_key *)
Definition key_u64 (v : N) : bytes := le_enc 8 v.
Definition go_mac_key_ebpf mac := key_u64 (go_mac_u64_ebpf mac).
Definition c_mac_key_dhcp mac := key_u64 (c_mac_u64_dhcp mac).
Definition go_mac_key_antispoof mac := key_u64 (go_mac_u64_antispoof mac).
Definition c_mac_key_antispoof mac := key_u64 (c_mac_u64_antispoof mac).

(* "MAC as a 48-bit big-endian number in a 64-bit little-endian word" *)
Definition spec_mac_key (mac : bytes) : bytes := rev mac ++ [0; 0].

(* ------------------------------------------------------------------ IPv4 -> u32 *)
(* Go: binary.BigEndian.Uint32(ip4)  (ebpf.IPToUint32, nat.ipToKey, antispoof.AddBinding / AddAllowedRange) *)
Definition go_ip_u32_be (ip : bytes) : N := be_val ip.
(* Go qos.ipToKey: uint32(ip4[0])<<24 | uint32(ip4[1])<<16 | uint32(ip4[2])<<8 | uint32(ip4[3]) *)
Definition go_ip_u32_qos (ip : bytes) : N :=
  let b i := nth i ip 0 in
  N.lor (N.lor (N.lor (N.shiftl (b 0%nat) 24 mod W32) (N.shiftl (b 1%nat) 16 mod W32)) (N.shiftl (b 2%nat) 8 mod W32)) (b 3%nat).
(* what the map then holds: the uint32 marshalled natively *)
Definition go_ip_bytes (ip : bytes) : bytes := le_enc 4 (go_ip_u32_be ip).
Definition go_ip_bytes_qos (ip : bytes) : bytes := le_enc 4 (go_ip_u32_qos ip).
(* C: __u32 x = ip->saddr (raw network-order word); &x is the key / x is compared with the value: the
   bytes in memory are the bytes on the wire *)
Definition c_ip_bytes (ip : bytes) : bytes := ip.

Definition ip_palin (ip : bytes) : bool :=
  match ip with [a; b; c; d] => (a =? d) && (b =? c) | _ => false end.

(* ------------------------------------------------------------------ circuit-id -> 32-byte key *)
Definition CID_LEN : nat := 32.
(* Go MakeCircuitIDKey: var key [32]byte; copy(key[:], circuitID) *)
Definition go_cid_key (cid : bytes) : bytes := firstn CID_LEN cid ++ zeros (CID_LEN - List.length cid).
(* C extract_circuit_id_fixed: memset(key,0); if (cid_len > 0 && cid_len <= 32) for i<32: if (i<cid_len) key[i]=cid[i];
   otherwise no key is derived (the lookup is skipped) *)
Definition c_cid_key (cid : bytes) : option bytes :=
  let n := List.length cid in
  if (Nat.ltb 0 n && Nat.leb n CID_LEN)%bool
  then Some (map (fun i => if Nat.ltb i n then nth i cid 0 else 0) (seq 0 CID_LEN))
  else None.
Definition cid_guard (cid : bytes) : bool := (Nat.ltb 0 (List.length cid) && Nat.leb (List.length cid) CID_LEN)%bool.

(* Go HashCircuitID (FNV-1a 64) - the key of circuit_id_map. No eBPF program computes this hash: the map is
   declared in maps.h but dhcp_fastpath.c never reads it. Modelled for the Go tie only. *)
Definition fnv_init : N := 14695981039346656037.
Definition fnv_prime : N := 1099511628211.
Definition go_hash_cid (cid : bytes) : N := fold_left (fun h b => mul64 (N.lxor h b) fnv_prime) cid fnv_init.

(* ------------------------------------------------------------------ VLAN pair *)
(* Go VLANKey{STag, CTag} marshalled: two native uint16 *)
Definition go_vlan_key (s c : N) : bytes := le_enc 2 s ++ le_enc 2 c.
(* C: vlan_id = bpf_ntohs(h_vlan_TCI) & 0x0FFF for each tag; struct vlan_key {s_tag, c_tag} on the stack *)
Definition c_vlan_key (tci_outer tci_inner : N) : bytes :=
  le_enc 2 (N.land tci_outer 4095) ++ le_enc 2 (N.land tci_inner 4095).

(* ------------------------------------------------------------------ ALG port key *)
(* Go ConfigureALG: (uint32(port) << 16) | uint32(protocol);  C check_alg_trigger: ((__u32)port << 16) | protocol *)
Definition alg_u32 (port proto : N) : N := N.lor (N.shiftl port 16 mod W32) proto.
Definition go_alg_key (port proto : N) : bytes := le_enc 4 (alg_u32 port proto).
Definition c_alg_key (port proto : N) : bytes := le_enc 4 (alg_u32 port proto).

(* ------------------------------------------------------------------ LPM key (antispoof allowed_ranges_v4) *)
(* Go AddAllowedRange: lpmKey{Prefixlen: ones, IP: BigEndian.Uint32(net)} marshalled natively *)
Definition go_lpm_key (plen : N) (net : bytes) : bytes := le_enc 4 plen ++ go_ip_bytes net.
(* C ip_in_allowed_range: {.prefixlen = 32, .ip = ip->saddr} *)
Definition c_lpm_lookup (src : bytes) : bytes := le_enc 4 32 ++ c_ip_bytes src.
(* kernel LPM trie: an entry matches when its first prefixlen bits, taken most significant bit first over the
   data bytes in memory order, equal those of the looked-up data *)
Definition lpm_entry_matches (entry lookup : bytes) : bool :=
  let plen := le_dec (firstn 4 entry) in
  let ed := be_val (skipn 4 entry) in
  let ld := be_val (skipn 4 lookup) in
  (plen <=? 32) && (N.shiftr ed (32 - plen) =? N.shiftr ld (32 - plen)).
(* what the operator meant: src lies in net/plen *)
Definition in_prefix (plen : N) (net src : bytes) : bool :=
  N.shiftr (be_val net) (32 - plen) =? N.shiftr (be_val src) (32 - plen).

(* ------------------------------------------------------------------ MAC: hardware addresses of any length 0..16 *)
(* pkg/dhcp hands req.ClientHWAddr (= chaddr[:hlen], hlen 0..16) to ebpf.MACToUint64; the program always reads the first
   six bytes of the 16-byte chaddr field, whatever hlen says.  A client fills chaddr with its hlen address bytes and zeros. *)
Definition chaddr_of (mac : bytes) : bytes := firstn 16 (mac ++ zeros 16).
Definition c_mac_key_dhcp_chaddr (mac : bytes) : bytes := key_u64 (c_mac_u64_dhcp (chaddr_of mac)).
Definition mac_len_guard (mac : bytes) : bool := Nat.leb 6 (List.length mac).

(* antispoof.AddBinding / AddBindingV6: len(mac) != 6 -> error "invalid MAC address", nothing is written;
   antispoof.RemoveBinding has no length check: macToUint64 indexes mac[0..5] and panics below 6 bytes *)
Definition go_mac_antispoof_add (mac : bytes) : option bytes :=
  if Nat.eqb (List.length mac) 6 then Some (go_mac_key_antispoof mac) else None.
Definition go_mac_antispoof_remove_panics (mac : bytes) : bool := Nat.ltb (List.length mac) 6.

(* ------------------------------------------------------------------ circuit-id: the extraction as coded (two branches) *)
(* opts = the DHCP options area (bytes from offset 240 of the BOOTP message; bytes beyond the list are the zeros of
   the frame), avail = number of option bytes in front of data_end *)
Definition ob (opts : bytes) (i : nat) : N := nth i opts 0.
Definition key_at (opts : bytes) (off n : nat) : bytes :=
  map (fun i => if Nat.ltb i n then ob opts (off + i) else 0) (seq 0 CID_LEN).
Definition cid_len_ok (n : N) (dataoff avail : nat) : bool :=
  (0 <? n) && (n <=? N.of_nat CID_LEN) && Nat.leb (dataoff + N.to_nat n) avail.

(* branch 1: option 82 right after the message type, [53][1][x][82][len][1][cid_len][cid...] *)
Definition extract_b1 (opts : bytes) (avail : nat) : option bytes :=
  if ob opts 3 =? 82 then
    let l := ob opts 4 in
    if (4 <=? l) && Nat.leb (5 + N.to_nat l) avail then
      if ob opts 5 =? 1 then
        let n := ob opts 6 in
        if cid_len_ok n 7 avail then Some (key_at opts 7 (N.to_nat n)) else None
      else None
    else None
  else None.
(* branch 2, one position of the scan 12..19: [82][len][1][cid_len][cid...] *)
Definition extract_at (opts : bytes) (avail pos : nat) : option bytes :=
  if (ob opts pos =? 82) && Nat.leb (pos + 8) avail then
    let l := ob opts (pos + 1) in
    if (4 <=? l) && (ob opts (pos + 2) =? 1) then
      let n := ob opts (pos + 3) in
      if cid_len_ok n (pos + 4) avail then Some (key_at opts (pos + 4) (N.to_nat n)) else None
    else None
  else None.
Fixpoint extract_scan (opts : bytes) (avail : nat) (ps : list nat) : option bytes :=
  match ps with
  | [] => None
  | p :: t => match extract_at opts avail p with Some k => Some k | None => extract_scan opts avail t end
  end.
Definition scan_positions : list nat := [12; 13; 14; 15; 16; 17; 18; 19]%nat.
Definition c_extract_cid (opts : bytes) (avail : nat) : option bytes :=
  if Nat.leb 64 avail then
    match extract_b1 opts avail with
    | Some k => Some k
    | None => extract_scan opts avail scan_positions
    end
  else None.
(* the circuit-id [cid] sits at data offset [off] of the options *)
Definition embedded (opts : bytes) (off : nat) (cid : bytes) : Prop :=
  forall i, (i < List.length cid)%nat -> ob opts (off + i) = nth i cid 0.
