(* Entry point evaluated by the harness-written case files for C08. *)
From Coq Require Import NArith List.
From Verif Require Import Base.Check Model.Gigaword Model.Acct Model.AcctSpec.
Import ListNotations.

Definition case := (N * list (op * out))%type.     (* MaxRetries, trace *)
Definition mk (c : case) : state * (sstate * aux) * list (op * out) := (init (fst c), (sinit (fst c), ainit), snd c).
Definition run_cases (cs : list case) : list (list N) :=
  check_all step accept7 out_eqb 1%N (map mk cs).
