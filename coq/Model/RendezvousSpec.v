(* Executable monitor for C17 over observed traces. It does not know the hash: it only relates
   answers to each other, as the property text does.
   clause 0  agreement      : two GetOwner answers for the same (peer set, key) are equal
   clause 1  membership     : the owner is a member of the (non-empty) peer set
   clause 2  ranked         : ranked list is a permutation of the peer set and starts with the owner
   clause 3  removal-minimal: owner over S and over S minus p differ only if the owner over S was p
   clause 4  health         : HealthyOwner answers for the same (set, unhealthy set, key) agree across
                              nodes; marking p unhealthy changes the answer only if it was p
   clause 5  one pool       : a subscriber is held by at most one node's LocalPool, unless a peer set or
                              health view changed (or the nodes' views differed) since it was first served;
                              a Get never finds a subscriber nobody was asked to allocate
   clause 6  release        : after a successful Release (same proviso) no pool holds the subscriber
   clause 7  persistence    : after a successful Allocate and until a Release of the same subscriber is
                              requested, some pool holds it (a request for another id never frees it)
   clause 8  identity       : the response to an Allocate names the subscriber that was asked for
   The monitor is the product of two parts: [acceptA] (clauses 0-4, state s_nodes/s_obs) and
   [acceptH] (clauses 5-6, state s_act/s_taint/s_exp0/s_exp1; it reads the node views of the A part). *)
From Coq Require Import NArith List Bool.
From Verif Require Import Base.Word Model.Rendezvous.
Import ListNotations.
Local Open Scope N_scope.

Record obs := { o_tag : N; o_set : list bytes; o_un : list bytes; o_key : bytes; o_ans : bytes }.
Record snode := { s_self : bytes; s_set : list bytes; s_un : list bytes }.
(* s_act   : subscribers for which a successful Allocate was observed and not yet seen unheld
   s_taint : subscribers exempt from clause 5/6 (a view changed, or views differed, while active)
   s_exp0  : subscribers whose last event was a successful Release inside the proviso
   s_exp1  : subscribers whose last event was a successful Allocate (no Release requested since) *)
Record sstate := { s_nodes : list snode; s_obs : list obs;
                   s_act : list bytes; s_taint : list bytes; s_exp0 : list bytes; s_exp1 : list bytes }.

Definition sinit (cfgs : list (bytes * list bytes)) : sstate :=
  {| s_nodes := map (fun c => {| s_self := fst c;
                                 s_set := sort_s (if mem_s (fst c) (snd c) then snd c else snd c ++ [fst c]);
                                 s_un := [] |}) cfgs;
     s_obs := []; s_act := []; s_taint := []; s_exp0 := []; s_exp1 := [] |}.

Definition sget (s : sstate) (n : N) : snode :=
  nth (N.to_nat n) (s_nodes s) {| s_self := []; s_set := []; s_un := [] |}.
Definition supd (s : sstate) (n : N) (f : snode -> snode) : sstate :=
  {| s_nodes := map (fun p => if fst p =? n then f (snd p) else snd p)
                    (combine (map N.of_nat (seq 0 (length (s_nodes s)))) (s_nodes s));
     s_obs := s_obs s; s_act := s_act s; s_taint := s_taint s; s_exp0 := s_exp0 s; s_exp1 := s_exp1 s |}.
Definition srec (s : sstate) (o : obs) : sstate :=
  {| s_nodes := s_nodes s; s_obs := o :: s_obs s; s_act := s_act s; s_taint := s_taint s; s_exp0 := s_exp0 s; s_exp1 := s_exp1 s |}.
Definition sset_h (s : sstate) (act taint exp0 exp1 : list bytes) : sstate :=
  {| s_nodes := s_nodes s; s_obs := s_obs s; s_act := act; s_taint := taint; s_exp0 := exp0; s_exp1 := exp1 |}.

(* S' = S minus one occurrence of p *)
Definition is_minus (S S' : list bytes) (p : bytes) : bool :=
  mem_s p S && list_bytes_eqb (remove_first p S) S'.

Definition ok_owner (obsl : list obs) (S : list bytes) (k ans : bytes) : option N :=
  if negb (forallb (fun o => negb ((o_tag o =? 0) && list_bytes_eqb (o_set o) S && bytes_eqb (o_key o) k)
                              || bytes_eqb (o_ans o) ans) obsl) then Some 0
  else if negb (match S with [] => true | _ => mem_s ans S end) then Some 1
  else if negb (forallb (fun o =>
         negb ((o_tag o =? 0) && bytes_eqb (o_key o) k) ||
         (* recorded over a superset S0 = S + p : if recorded owner is not p, same owner now *)
         (negb (existsb (fun p => is_minus (o_set o) S p && negb (bytes_eqb (o_ans o) p)) (o_set o))
          || bytes_eqb (o_ans o) ans) &&
         (* recorded over a subset S0 = S - p : if the owner now is not p, it was the owner then *)
         (negb (existsb (fun p => is_minus S (o_set o) p && negb (bytes_eqb ans p)) S)
          || bytes_eqb (o_ans o) ans)) obsl) then Some 3
  else None.

Definition ok_health (obsl : list obs) (S U : list bytes) (k ans : bytes) : option N :=
  if negb (forallb (fun o =>
         negb ((o_tag o =? 1) && list_bytes_eqb (o_set o) S && bytes_eqb (o_key o) k) ||
         ((negb (list_bytes_eqb (o_un o) U) || bytes_eqb (o_ans o) ans) &&
          (negb (existsb (fun p => is_minus U (o_un o) p && negb (bytes_eqb (o_ans o) p)) U)
           || bytes_eqb (o_ans o) ans) &&
          (negb (existsb (fun p => is_minus (o_un o) U p && negb (bytes_eqb ans p)) (o_un o))
           || bytes_eqb (o_ans o) ans))) obsl) then Some 4
  else None.

(* the health view of node nd after "p is (un)healthy" *)
Definition smark (nd : snode) (p : bytes) (h : bool) : snode :=
  {| s_self := s_self nd; s_set := s_set nd; s_un := mark (s_un nd) p h |}.

(* ---------- part A: clauses 0-4 ---------- *)
Definition acceptA (s : sstate) (o : op) (r : out) : sstate + N :=
  match o, r with
  | AddPeer n p, ONone =>
      inl (supd s n (fun nd => if mem_s p (s_set nd) then nd else
               {| s_self := s_self nd; s_set := sort_s (p :: s_set nd); s_un := s_un nd |}))
  | RemovePeer n p, ONone =>
      inl (supd s n (fun nd => {| s_self := s_self nd; s_set := remove_first p (s_set nd); s_un := s_un nd |}))
  | SetHealth n p h, ONone => inl (supd s n (fun nd => smark nd p h))
  | CheckPeer n p _, OHealth h _ => inl (supd s n (fun nd => smark nd p h))
  | GetOwner n k, OStr a =>
      let nd := sget s n in
      match ok_owner (s_obs s) (s_set nd) k a with
      | Some c => inr c
      | None => inl (srec s {| o_tag := 0; o_set := s_set nd; o_un := []; o_key := k; o_ans := a |})
      end
  | IsLocal n k, OBool b =>
      let nd := sget s n in
      (* consistent with any recorded owner for the same set/key *)
      if forallb (fun o => negb ((o_tag o =? 0) && list_bytes_eqb (o_set o) (s_set nd) && bytes_eqb (o_key o) k)
                           || Bool.eqb (bytes_eqb (o_ans o) (s_self nd)) b) (s_obs s)
      then inl s else inr 0
  | Ranked n k, OList l =>
      let nd := sget s n in
      if negb (list_bytes_eqb (sort_s l) (s_set nd)) then inr 2
      else if negb (forallb (fun o => negb ((o_tag o =? 0) && list_bytes_eqb (o_set o) (s_set nd) && bytes_eqb (o_key o) k)
                           || match l with [] => true | h :: _ => bytes_eqb (o_ans o) h end) (s_obs s)) then inr 2
      else inl s
  | HealthyOwner n k, OStr a =>
      let nd := sget s n in
      match ok_health (s_obs s) (s_set nd) (s_un nd) k a with
      | Some c => inr c
      | None => inl (srec s {| o_tag := 1; o_set := s_set nd; o_un := s_un nd; o_key := k; o_ans := a |})
      end
  | Alloc n k, OServed a sid =>
      (* end to end: the node that served the request is the healthy owner all nodes agree on *)
      let nd := sget s n in
      if negb (bytes_eqb sid k) then inr 8 else
      match ok_health (s_obs s) (s_set nd) (s_un nd) k a with
      | Some c => inr c
      | None => inl (srec s {| o_tag := 1; o_set := s_set nd; o_un := s_un nd; o_key := k; o_ans := a |})
      end
  | Alloc n k, OErr => inl s      (* owner not reachable: nothing served *)
  | Release n k, ONone => inl s
  | Release n k, OErr => inl s    (* owner not reachable / id not deliverable: nothing released *)
  | Get n k, OBool b =>
      (* a subscriber is only found at the node every GetOwner answer names *)
      let nd := sget s n in
      if negb b || forallb (fun o => negb ((o_tag o =? 0) && list_bytes_eqb (o_set o) (s_set nd) && bytes_eqb (o_key o) k)
                                     || bytes_eqb (o_ans o) (s_self nd)) (s_obs s)
      then inl s else inr 0
  | Holds k, OHold _ => inl s
  | _, _ => inr 9
  end.

(* ---------- part H: clauses 5-6 ---------- *)
Fixpoint nodup_b (l : list bytes) : bool :=
  match l with [] => true | x :: tl => negb (mem_s x tl) && nodup_b tl end.
(* all nodes are distinct processes and share one view (peer set, health vector) *)
Definition consistent (s : sstate) : bool :=
  nodup_b (map s_self (s_nodes s)) &&
  match s_nodes s with
  | [] => true
  | n0 :: tl => forallb (fun nd => list_bytes_eqb (s_set nd) (s_set n0) && list_bytes_eqb (s_un nd) (s_un n0)) tl
  end.
Definition add_s (k : bytes) (l : list bytes) : list bytes := if mem_s k l then l else k :: l.
Definition is_nil {A} (l : list A) : bool := match l with [] => true | _ => false end.

(* [s] is the state BEFORE the op (its node views are the ones the request was routed with) *)
Definition acceptH (s : sstate) (o : op) (r : out) : sstate + N :=
  match o, r with
  | AddPeer _ _, _ | RemovePeer _ _, _ | SetHealth _ _ _, _ | CheckPeer _ _ _, _ =>
      inl (sset_h s (s_act s) (s_act s ++ s_taint s) (s_exp0 s) (s_exp1 s))
  | Alloc n k, OServed _ _ =>
      inl (sset_h s (add_s k (s_act s)) (if consistent s then s_taint s else add_s k (s_taint s))
                  (without k (s_exp0 s)) (add_s k (s_exp1 s)))
  | Release n k, ONone =>
      inl (sset_h s (s_act s) (s_taint s) (if mem_s k (s_taint s) then s_exp0 s else add_s k (s_exp0 s))
                  (without k (s_exp1 s)))
  | Release n k, _ => inl (sset_h s (s_act s) (s_taint s) (s_exp0 s) (without k (s_exp1 s)))
  | Get n k, OBool b =>
      if b && (negb (mem_s k (s_act s)) || mem_s k (s_exp0 s)) then inr 5 else inl s
  | Holds k, OHold hs =>
      if mem_s k (s_exp0 s) && negb (is_nil hs) then inr 6
      else if negb (mem_s k (s_taint s)) && (2 <=? N.of_nat (length hs)) then inr 5
      else if mem_s k (s_exp1 s) && is_nil hs then inr 7
      else inl (if is_nil hs then sset_h s (without k (s_act s)) (without k (s_taint s)) (s_exp0 s) (s_exp1 s) else s)
  | _, _ => inl s
  end.

(* the monitor: part A decides first; part H reads the views before the op *)
Definition accept (s : sstate) (o : op) (r : out) : sstate + N :=
  match acceptA s o r with
  | inr c => inr c
  | inl sa =>
      match acceptH s o r with
      | inr c => inr c
      | inl sh => inl {| s_nodes := s_nodes sa; s_obs := s_obs sa;
                         s_act := s_act sh; s_taint := s_taint sh; s_exp0 := s_exp0 sh; s_exp1 := s_exp1 sh |}
      end
  end.
