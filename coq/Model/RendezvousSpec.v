(* Executable monitor for C17 over observed traces. It does not know the hash: it only relates
   answers to each other, as the property text does.
   clause 0  agreement      : two GetOwner answers for the same (peer set, key) are equal
   clause 1  membership     : the owner is a member of the (non-empty) peer set
   clause 2  ranked         : ranked list is a permutation of the peer set and starts with the owner
   clause 3  removal-minimal: owner over S and over S minus p differ only if the owner over S was p
   clause 4  health         : HealthyOwner answers for the same (set, unhealthy set, key) agree across
                              nodes; marking p unhealthy changes the answer only if it was p *)
From Coq Require Import NArith List Bool.
From Verif Require Import Base.Word Model.Rendezvous.
Import ListNotations.
Local Open Scope N_scope.

Record obs := { o_tag : N; o_set : list bytes; o_un : list bytes; o_key : bytes; o_ans : bytes }.
Record snode := { s_self : bytes; s_set : list bytes; s_un : list bytes }.
Record sstate := { s_nodes : list snode; s_obs : list obs }.

Definition sinit (cfgs : list (bytes * list bytes)) : sstate :=
  {| s_nodes := map (fun c => {| s_self := fst c;
                                 s_set := sort_s (if mem_s (fst c) (snd c) then snd c else snd c ++ [fst c]);
                                 s_un := [] |}) cfgs;
     s_obs := [] |}.

Definition sget (s : sstate) (n : N) : snode :=
  nth (N.to_nat n) (s_nodes s) {| s_self := []; s_set := []; s_un := [] |}.
Definition supd (s : sstate) (n : N) (f : snode -> snode) : sstate :=
  {| s_nodes := map (fun p => if fst p =? n then f (snd p) else snd p)
                    (combine (map N.of_nat (seq 0 (length (s_nodes s)))) (s_nodes s));
     s_obs := s_obs s |}.
Definition srec (s : sstate) (o : obs) : sstate := {| s_nodes := s_nodes s; s_obs := o :: s_obs s |}.

(* S' = S minus one occurrence of p *)
Definition is_minus (S S' : list bytes) (p : bytes) : bool :=
  mem_s p S && list_bytes_eqb (remove_first p S) S'.

Definition ok_owner (obsl : list obs) (S : list bytes) (k ans : bytes) : option N :=
  if negb (forallb (fun o => negb ((o_tag o =? 0) && list_bytes_eqb (o_set o) S && bytes_eqb (o_key o) k)
                              || bytes_eqb (o_ans o) ans) obsl) then Some 0
  else if negb (match S with [] => true | _ => mem_s ans S end) then Some 1
  else if negb (forallb (fun o =>
         negb ((o_tag o =? 0) && bytes_eqb (o_key o) k) ||
         (* recorded over a superset S0 = S + p : if recorded owner is not p, same owner now *)
         (negb (existsb (fun p => is_minus (o_set o) S p && negb (bytes_eqb (o_ans o) p)) (o_set o))
          || bytes_eqb (o_ans o) ans) &&
         (* recorded over a subset S0 = S - p : if the owner now is not p, it was the owner then *)
         (negb (existsb (fun p => is_minus S (o_set o) p && negb (bytes_eqb ans p)) S)
          || bytes_eqb (o_ans o) ans)) obsl) then Some 3
  else None.

Definition ok_health (obsl : list obs) (S U : list bytes) (k ans : bytes) : option N :=
  if negb (forallb (fun o =>
         negb ((o_tag o =? 1) && list_bytes_eqb (o_set o) S && bytes_eqb (o_key o) k) ||
         ((negb (list_bytes_eqb (o_un o) U) || bytes_eqb (o_ans o) ans) &&
          (negb (existsb (fun p => is_minus U (o_un o) p && negb (bytes_eqb (o_ans o) p)) U)
           || bytes_eqb (o_ans o) ans) &&
          (negb (existsb (fun p => is_minus (o_un o) U p && negb (bytes_eqb ans p)) (o_un o))
           || bytes_eqb (o_ans o) ans))) obsl) then Some 4
  else None.

Definition accept (s : sstate) (o : op) (r : out) : sstate + N :=
  match o, r with
  | AddPeer n p, ONone =>
      inl (supd s n (fun nd => if mem_s p (s_set nd) then nd else
               {| s_self := s_self nd; s_set := sort_s (p :: s_set nd); s_un := s_un nd |}))
  | RemovePeer n p, ONone =>
      inl (supd s n (fun nd => {| s_self := s_self nd; s_set := remove_first p (s_set nd); s_un := s_un nd |}))
  | SetHealth n p h, ONone =>
      inl (supd s n (fun nd =>
             let rest := filter (fun q => negb (bytes_eqb q p)) (s_un nd) in
             {| s_self := s_self nd; s_set := s_set nd; s_un := if h then rest else sort_s (p :: rest) |}))
  | GetOwner n k, OStr a =>
      let nd := sget s n in
      match ok_owner (s_obs s) (s_set nd) k a with
      | Some c => inr c
      | None => inl (srec s {| o_tag := 0; o_set := s_set nd; o_un := []; o_key := k; o_ans := a |})
      end
  | IsLocal n k, OBool b =>
      let nd := sget s n in
      (* consistent with any recorded owner for the same set/key *)
      if forallb (fun o => negb ((o_tag o =? 0) && list_bytes_eqb (o_set o) (s_set nd) && bytes_eqb (o_key o) k)
                           || Bool.eqb (bytes_eqb (o_ans o) (s_self nd)) b) (s_obs s)
      then inl s else inr 0
  | Ranked n k, OList l =>
      let nd := sget s n in
      if negb (list_bytes_eqb (sort_s l) (s_set nd)) then inr 2
      else if negb (forallb (fun o => negb ((o_tag o =? 0) && list_bytes_eqb (o_set o) (s_set nd) && bytes_eqb (o_key o) k)
                           || match l with [] => true | h :: _ => bytes_eqb (o_ans o) h end) (s_obs s)) then inr 2
      else inl s
  | HealthyOwner n k, OStr a =>
      let nd := sget s n in
      match ok_health (s_obs s) (s_set nd) (s_un nd) k a with
      | Some c => inr c
      | None => inl (srec s {| o_tag := 1; o_set := s_set nd; o_un := s_un nd; o_key := k; o_ans := a |})
      end
  | Alloc n k, OStr a =>
      (* end to end: the node that served the request is the healthy owner all nodes agree on *)
      let nd := sget s n in
      match ok_health (s_obs s) (s_set nd) (s_un nd) k a with
      | Some c => inr c
      | None => inl (srec s {| o_tag := 1; o_set := s_set nd; o_un := s_un nd; o_key := k; o_ans := a |})
      end
  | Alloc n k, OErr => inl s      (* owner not reachable: nothing served *)
  | _, _ => inr 9
  end.
