(* Model of allocator.DistributedAllocator (pkg/allocator/distributed.go) for C12.

   memory   : the inner allocator — session mode: allocator.IPAllocator = Model/Bitmap.v (imported);
              lease mode: allocator.EpochBitmapAllocator, modelled here ([estate], names e_...,
              every field of the Go struct, 2-bit generations, hint, byte(gracePeriod) truncation)
   store    : the backing Store as a map subscriber -> record (address, prefix length, epoch)
              ([d_store]); the JSON text, AllocatedAt and MAC are projected away
   oracles  : every store call that can fail carries its outcome in the op ([fail] flags);
              the order in which Query enumerates the records on restart is the list carried by
              [DRestart]; watch notifications are explicit ops ([DRemotePut]/[DRemoteDel] = another
              node changed the store and the watch fired; [DEcho] = a notification delivered with no
              store change, i.e. the node's own echo, possibly late — nexus.MemoryStore delivers on
              fresh goroutines)
   A stop (clean or crash) loses the memory and nothing else: every API call makes at most one
   store write and makes it after its memory update, so a crash inside a call leaves the store
   either as before the call or as after it; [DRestart] between any two ops therefore covers "a stop
   after every store operation".

   Ghost markers (do not influence behaviour):
     1201  lease-mode load re-Allocated a stored subscriber to another address than the record's
     1202  lease-mode remote put: the subscriber does not hold the announced address afterwards
     1203  a watch notification that is not the current store content changed the memory (stale echo)
   Code as of /repo after fix commits for Allocate rollback / Release ordering (see docs/C12.md). *)
From Coq Require Import NArith ZArith List Bool.
From Verif Require Import Base.Word Model.PoolMap Model.Geometry Model.PoolSpec Model.Bitmap.
Import ListNotations.
Local Open Scope N_scope.

(* ------------------------------------------------------------------------------------------ *)
(* EpochBitmapAllocator (epoch_bitmap.go)                                                      *)

Record estate := {
  e_base : N; e_ones : N; e_pl : N;          (* baseIP, mask ones, prefixLength (IPv4, 32 bits) *)
  e_gens : amap N;                           (* generations: index -> 2-bit value, absent = 0 *)
  e_sub : amap N;                            (* subscribers: subscriber -> index *)
  e_rev : amap N;                            (* ipToSubscriber: index -> subscriber *)
  e_epoch : N; e_grace : N; e_hint : N }.

Definition e_total (s : estate) : N := 2 ^ (e_pl s - e_ones s).      (* uint64(1) << (plen - ones) *)

Definition e_init (base ones pl grace : N) : estate :=
  {| e_base := base; e_ones := ones; e_pl := pl; e_gens := []; e_sub := []; e_rev := [];
     e_epoch := 2; e_grace := if grace =? 0 then 1 else grace; e_hint := 1 |}.

Definition e_gen (s : estate) (i : N) : N := match aget i (e_gens s) with Some g => g | None => 0 end.
Definition e_cur (s : estate) : N := e_epoch s mod 4.
(* isGenerationFree: dist := (current - gen + 4) % 4 ; dist > byte(gracePeriod) *)
Definition e_free (s : estate) (g : N) : bool := (e_grace s mod 256) <? ((e_cur s + 4 - g) mod 4).
Definition e_ip (s : estate) (i : N) : N := add_nocarry32 (e_base s) i.
Definition e_idx (s : estate) (ip : N) : option N :=
  let o := sub_bytes32 ip (e_base s) in if e_total s <=? o then None else Some o.

Definition e_with (s : estate) gens sub rev epoch hint : estate :=
  {| e_base := e_base s; e_ones := e_ones s; e_pl := e_pl s; e_gens := gens; e_sub := sub; e_rev := rev;
     e_epoch := epoch; e_grace := e_grace s; e_hint := hint |}.

(* first k in [i, i+p) with f k = true; structural on the binary representation (no unary numbers) *)
Fixpoint find_fromP (p : positive) (f : N -> bool) (i : N) : option N :=
  match p with
  | xH => if f i then Some i else None
  | xO q => match find_fromP q f i with Some j => Some j | None => find_fromP q f (i + Npos q) end
  | xI q => if f i then Some i
            else match find_fromP q f (i + 1) with Some j => Some j | None => find_fromP q f (i + 1 + Npos q) end
  end.
Definition find_from (n : N) (f : N -> bool) (i : N) : option N :=
  match n with N0 => None | Npos p => find_fromP p f i end.

(* the scan of Allocate: for i := 0; i < totalIPs; i++ { idx := (hint+i) % totalIPs; skip 0 and last } *)
Definition e_slot (s : estate) (k : N) : N := (e_hint s + k) mod e_total s.
Definition e_slot_ok (s : estate) (k : N) : bool :=
  let idx := e_slot s k in
  negb ((idx =? 0) || (idx =? e_total s - 1)) && e_free s (e_gen s idx).
Definition e_find (s : estate) : option N :=
  match find_from (e_total s) (e_slot_ok s) 0 with Some k => Some (e_slot s k) | None => None end.

Definition e_alloc (s : estate) (h : N) : estate * option N :=
  match aget h (e_sub s) with
  | Some i => (e_with s (aset i (e_cur s) (e_gens s)) (e_sub s) (e_rev s) (e_epoch s) (e_hint s), Some (e_ip s i))
  | None =>
      match e_find s with
      | None => (s, None)
      | Some i => (e_with s (aset i (e_cur s) (e_gens s)) (aset h i (e_sub s)) (aset i h (e_rev s)) (e_epoch s)
                          ((i + 1) mod e_total s), Some (e_ip s i))
      end
  end.

Definition e_renew (s : estate) (h : N) : estate * bool :=
  match aget h (e_sub s) with
  | Some i => (e_with s (aset i (e_cur s) (e_gens s)) (e_sub s) (e_rev s) (e_epoch s) (e_hint s), true)
  | None => (s, false)
  end.

Definition e_release (s : estate) (h : N) : estate :=
  match aget h (e_sub s) with
  | Some i => e_with s (aset i ((e_cur s + 2) mod 4) (e_gens s)) (adel h (e_sub s)) (adel i (e_rev s)) (e_epoch s)
                     (if i <? e_hint s then i else e_hint s)
  | None => s
  end.

Definition e_lookup (s : estate) (h : N) : option N :=
  match aget h (e_sub s) with
  | Some i => if e_free s (e_gen s i) then None else Some (e_ip s i)
  | None => None
  end.

Definition e_lookup_ip (s : estate) (ip : N) : option N :=
  match e_idx s ip with
  | Some i => match aget i (e_rev s) with
              | Some h => if e_free s (e_gen s i) then None else Some h
              | None => None
              end
  | None => None
  end.

(* AdvanceEpoch: currentEpoch++ then drop every subscriber whose slot reads as free *)
Definition e_advance (s : estate) : estate :=
  let s1 := e_with s (e_gens s) (e_sub s) (e_rev s) (wrap64 (e_epoch s + 1)) (e_hint s) in
  let dead := filter (fun p => e_free s1 (e_gen s1 (snd p))) (e_sub s1) in
  e_with s1 (e_gens s1) (filter (fun p => negb (e_free s1 (e_gen s1 (snd p)))) (e_sub s1))
         (fold_left (fun rv p => adel (snd p) rv) dead (e_rev s1)) (e_epoch s1) (e_hint s1).

(* Stats: active = #{1 <= idx < total-1 | not free}; usable = total - 2 (uint64 wrap) *)
Definition e_active (s : estate) : N :=
  N.of_nat (length (filter (fun k => negb (e_free s (e_gen s (N.of_nat k))))
                           (seq 1 (N.to_nat (e_total s - 2))))).
Definition e_usable (s : estate) : N := sub64 (e_total s) 2.

(* ------------------------------------------------------------------------------------------ *)
(* DistributedAllocator                                                                        *)

Record rec := { r_addr : N; r_pl : N; r_ep : N }.

Record cfg := { c_lease : bool; c_geo : geo; c_grace : N; c_univ : list N }.

Record dstate := {
  d_cfg : cfg;
  d_bm : bstate;            (* da.allocator      (session mode) *)
  d_ep : estate;            (* da.epochAllocator (lease mode)   *)
  d_store : amap rec }.

Definition fresh_bm (c : cfg) : bstate := binit (c_geo c).
Definition fresh_ep (c : cfg) : estate :=
  e_init (g_base (c_geo c)) (g_ppl (c_geo c)) (g_pl (c_geo c)) (c_grace c).
Definition dinit (c : cfg) : dstate :=
  {| d_cfg := c; d_bm := fresh_bm c; d_ep := fresh_ep c; d_store := [] |}.

Definition d_lease (s : dstate) : bool := c_lease (d_cfg s).
Definition set_bm (s : dstate) b : dstate := {| d_cfg := d_cfg s; d_bm := b; d_ep := d_ep s; d_store := d_store s |}.
Definition set_ep (s : dstate) e : dstate := {| d_cfg := d_cfg s; d_bm := d_bm s; d_ep := e; d_store := d_store s |}.
Definition set_store (s : dstate) st : dstate := {| d_cfg := d_cfg s; d_bm := d_bm s; d_ep := d_ep s; d_store := st |}.

Inductive dop :=
| DAlloc (h : N) (mac fail : bool)     (* Allocate / AllocateWithMAC; fail: the store Put fails *)
| DRelease (h : N) (fail : bool)       (* Release; fail: the store Delete fails *)
| DRenew (h : N) (failg failp : bool)  (* Renew; the store Get / Put fails *)
| DGet (h : N)
| DGetBy (a pl : N)                    (* GetByPrefix *)
| DStats
| DAdvance                             (* AdvanceEpoch *)
| DRestart (ord : list N)              (* stop; new allocator; Start with Query enumerating in this order *)
| DRemotePut (h a pl ep : N)           (* another node put the record; the watch callback runs *)
| DRemoteDel (h : N)
| DEcho (h : N) (r : option rec).      (* watch callback alone: (key, value, deleted = r is None) *)

Inductive ret :=
| RUnit (u : N) | RNone | ROk
| RErr (e : N)                         (* 1 exhausted 2 not-allocated 6 store/other 7 not-found *)
| RHolder (h : N)
| RStats (al tot num den : N)
| REpoch (e : N).

(* what is observed after every op: the return value, Get(h) for every subscriber of the case's
   universe, and the store's records sorted by subscriber *)
Record dout := { o_ret : ret; o_mem : list (N * N); o_store : list (N * (N * N * N)) }.

Definition bnext (b : bstate) (o : op) : bstate := fst (fst (Bitmap.step b o)).
Definition bout (b : bstate) (o : op) : out := snd (fst (Bitmap.step b o)).

Definition d_lookup (s : dstate) (h : N) : option N :=
  if d_lease s then e_lookup (d_ep s) h
  else match aget h (b_alloc (d_bm s)) with Some i => Some (unit_of (d_bm s) i) | None => None end.

Definition snap_mem (s : dstate) : list (N * N) :=
  flat_map (fun h => match d_lookup s h with Some u => [(h, u)] | None => [] end) (c_univ (d_cfg s)).

Fixpoint ins_rec (x : N * (N * N * N)) (l : list (N * (N * N * N))) :=
  match l with
  | [] => [x]
  | y :: tl => if fst x <=? fst y then x :: l else y :: ins_rec x tl
  end.
Definition snap_store (s : dstate) : list (N * (N * N * N)) :=
  fold_right ins_rec [] (map (fun p => (fst p, (r_addr (snd p), r_pl (snd p), r_ep (snd p)))) (d_store s)).

Definition mkout (s : dstate) (r : ret) : dout := {| o_ret := r; o_mem := snap_mem s; o_store := snap_store s |}.

(* ---- Query enumeration: the records named by [ord], in that order, then the remaining ones ---- *)
Fixpoint enum (ord : list N) (st : amap rec) : list (N * rec) :=
  match ord with
  | [] => st
  | h :: tl => match aget h st with
               | Some r => (h, r) :: enum tl (adel h st)
               | None => enum tl st
               end
  end.

(* ---- loadAllocations ---- *)
Definition load_session (b : bstate) (l : list (N * rec)) : bstate :=
  fold_left (fun b hr => bnext b (SetAlloc (fst hr) (r_addr (snd hr)) (r_pl (snd hr)))) l b.

(* lease mode: an expired record is deleted from the store and skipped; every other record is
   re-Allocated — the stored address is not used *)
Definition lease_expired (e : estate) (ep : N) : bool := (2 <=? e_epoch e) && (ep <? e_epoch e - 2).
Definition load_lease (es : estate * amap rec) (l : list (N * rec)) : estate * amap rec :=
  fold_left (fun es hr =>
               if lease_expired (fst es) (r_ep (snd hr)) then (fst es, adel (fst hr) (snd es))
               else (fst (e_alloc (fst es) (fst hr)), snd es)) l es.

Definition restart_with (l : list (N * rec)) (s : dstate) : dstate :=
  let c := d_cfg s in
  if c_lease c then
    let '(e, st) := load_lease (fresh_ep c, d_store s) l in
    {| d_cfg := c; d_bm := fresh_bm c; d_ep := e; d_store := st |}
  else {| d_cfg := c; d_bm := load_session (fresh_bm c) l; d_ep := fresh_ep c; d_store := d_store s |}.

(* ---- handleRemoteChange ---- *)
Definition handle_remote (s : dstate) (h : N) (r : option rec) : dstate :=
  match r with
  | None => if d_lease s then set_ep s (e_release (d_ep s) h) else set_bm s (bnext (d_bm s) (Release h))
  | Some r =>
      if d_lease s then
        if lease_expired (d_ep s) (r_ep r) then s
        else match e_lookup (d_ep s) h with
             | Some _ => s                                     (* "already in sync" *)
             | None => set_ep s (fst (e_alloc (d_ep s) h))
             end
      else
        (* existing.String() == prefix.String(): both are canonical CIDRs, equal iff same index *)
        let same := match aget h (b_alloc (d_bm s)), index_of (d_bm s) (r_addr r) (r_pl r) with
                    | Some i, Some j => i =? j
                    | _, _ => false
                    end in
        if same then s else set_bm s (bnext (d_bm s) (SetAlloc h (r_addr r) (r_pl r)))
  end.

Definition opt_eqb (a b : option N) : bool :=
  match a, b with Some x, Some y => x =? y | None, None => true | _, _ => false end.

Definition store_addr (s : dstate) (h : N) : option N :=
  match aget h (d_store s) with Some r => Some (r_addr r) | None => None end.

(* marker 1201: after a lease-mode load some stored subscriber does not hold its recorded address *)
Definition load_moved (s : dstate) : bool :=
  existsb (fun p => negb (opt_eqb (d_lookup s (fst p)) (Some (r_addr (snd p))))) (d_store s).

Definition rec_same (a : option rec) (b : option rec) : bool :=
  match a, b with
  | Some x, Some y => (r_addr x =? r_addr y) && (r_pl x =? r_pl y)
  | None, None => true
  | _, _ => false
  end.

Definition dstep (s : dstate) (o : dop) : dstate * dout * list N :=
  match o with
  | DAlloc h _ fail =>
      if d_lease s then
        let existed := match e_lookup (d_ep s) h with Some _ => true | None => false end in
        match e_alloc (d_ep s) h with
        | (_, None) => (s, mkout s (RErr 1), [])
        | (e1, Some ip) =>
            if fail then
              let s' := if existed then set_ep s e1 else set_ep s (e_release e1 h) in
              (s', mkout s' (RErr 6), [])
            else
              let s' := set_store (set_ep s e1) (aset h {| r_addr := ip; r_pl := 32; r_ep := e_epoch e1 |} (d_store s)) in
              (s', mkout s' (RUnit ip), [])
        end
      else
        let existed := ahas h (b_alloc (d_bm s)) in
        match Bitmap.step (d_bm s) (Alloc h) with
        | (b1, OUnit u, _) =>
            if fail then
              let s' := if existed then set_bm s b1 else set_bm s (bnext b1 (Release h)) in
              (s', mkout s' (RErr 6), [])
            else
              let s' := set_store (set_bm s b1) (aset h {| r_addr := u; r_pl := g_pl (b_g b1); r_ep := 0 |} (d_store s)) in
              (s', mkout s' (RUnit u), [])
        | (_, OErr e, _) => (s, mkout s (RErr e), [])
        | (_, _, _) => (s, mkout s (RErr 9), [])
        end
  | DRelease h fail =>
      if d_lease s then
        if fail then (s, mkout s (RErr 6), [])
        else let s' := set_store (set_ep s (e_release (d_ep s) h)) (adel h (d_store s)) in (s', mkout s' ROk, [])
      else
        if negb (ahas h (b_alloc (d_bm s))) then (s, mkout s (RErr 2), [])
        else if fail then (s, mkout s (RErr 6), [])
        else let s' := set_store (set_bm s (bnext (d_bm s) (Release h))) (adel h (d_store s)) in (s', mkout s' ROk, [])
  | DRenew h failg failp =>
      if negb (d_lease s) then (s, mkout s ROk, [])
      else
        match e_renew (d_ep s) h with
        | (_, false) => (s, mkout s (RErr 7), [])
        | (e1, true) =>
            let s1 := set_ep s e1 in
            match (if failg then None else aget h (d_store s)) with
            | None => (s1, mkout s1 (RErr 6), [])
            | Some r =>
                if failp then (s1, mkout s1 (RErr 6), [])
                else let s' := set_store s1 (aset h {| r_addr := r_addr r; r_pl := r_pl r; r_ep := e_epoch e1 |} (d_store s)) in
                     (s', mkout s' ROk, [])
            end
        end
  | DGet h => (s, mkout s (match d_lookup s h with Some u => RUnit u | None => RNone end), [])
  | DGetBy a pl =>
      if d_lease s then (s, mkout s (match e_lookup_ip (d_ep s) a with Some h => RHolder h | None => RNone end), [])
      else (s, mkout s (match bout (d_bm s) (LookupUnit a pl) with OHolder h => RHolder h | _ => RNone end), [])
  | DStats =>
      if d_lease s then
        (s, mkout s (RStats (e_active (d_ep s)) (e_usable (d_ep s)) (e_active (d_ep s)) (e_usable (d_ep s))), [])
      else (s, mkout s (match bout (d_bm s) Stats with OStats a t n d => RStats a t n d | _ => RErr 9 end), [])
  | DAdvance =>
      if d_lease s then let s' := set_ep s (e_advance (d_ep s)) in (s', mkout s' (REpoch (e_epoch (d_ep s'))), [])
      else (s, mkout s (REpoch 0), [])
  | DRestart ord =>
      let s' := restart_with (enum ord (d_store s)) s in
      (s', mkout s' ROk, if d_lease s && load_moved s' then [1201] else [])
  | DRemotePut h a pl ep =>
      let r := {| r_addr := a; r_pl := pl; r_ep := ep |} in
      let s1 := set_store s (aset h r (d_store s)) in
      let s' := handle_remote s1 h (Some r) in
      (s', mkout s' ROk,
       if d_lease s && negb (lease_expired (d_ep s) ep) && negb (opt_eqb (d_lookup s' h) (Some a)) then [1202] else [])
  | DRemoteDel h =>
      let s' := handle_remote (set_store s (adel h (d_store s))) h None in
      (s', mkout s' ROk, [])
  | DEcho h r =>
      let s' := handle_remote s h r in
      (s', mkout s' ROk,
       if negb (rec_same r (aget h (d_store s))) && negb (opt_eqb (d_lookup s' h) (d_lookup s h)) then [1203] else [])
  end.

Definition dnext (s : dstate) (o : dop) : dstate := fst (fst (dstep s o)).
Definition drun (c : cfg) (ops : list dop) : dstate := fold_left dnext ops (dinit c).

(* ------------------------------------------------------------------------------------------ *)
(* Store keys and subscriber ids as the code writes them.
     allocationKey(id) = fmt.Sprintf("/allocation/%s/%s", poolID, id)
     keyPrefix()       = fmt.Sprintf("/allocation/%s/", poolID)
     handleRemoteChange: subscriberID := key[len(da.keyPrefix()):]
     loadAllocations:    subscriberID := strings.TrimPrefix(kv.Key, da.keyPrefix())
   Since fix e669782 the subscriber of a record is ALWAYS the one its key names (puts, deletes, reload,
   Renew's write-back); the SubscriberID copy inside the JSON value is not used: encoding/json rewrites every
   byte of a string that is not valid UTF-8 to U+FFFD, so that copy is not the id for binary circuit ids
   (before the fix "\xff" was reloaded as "\xef\xbf\xbd": finding F12e).
   Ids are arbitrary byte strings ('/', "..", empty segments, ids that are suffixes of each other, an id
   equal to the key prefix, invalid UTF-8).  [wop] is the op alphabet the harness drives: remote events carry
   the KEY the store delivered and the id found inside the value ([vid], ignored by the code); [wtrans]
   derives the subscriber exactly as the code does and looks it up in the case's table of subscriber ids
   ([intern]); local calls pass through.  An event whose key names no id of the table is outside the Model
   (no-op; not driven). *)
Definition alloc_lit : bytes := [47; 97; 108; 108; 111; 99; 97; 116; 105; 111; 110; 47].   (* "/allocation/" *)
Definition key_prefix (pool : bytes) : bytes := alloc_lit ++ pool ++ [47].
Definition key_of_id (pool id : bytes) : bytes := alloc_lit ++ pool ++ [47] ++ id.
(* key[len(prefix):]; None = the slice expression panics (key shorter than the prefix: the Store contract
   only delivers keys under the watched prefix) *)
Definition id_of_key (pool key : bytes) : option bytes :=
  if Nat.ltb (length key) (length (key_prefix pool)) then None else Some (skipn (length (key_prefix pool)) key).

Record wire := { w_pool : bytes; w_names : list (N * bytes) }.
Fixpoint intern (names : list (N * bytes)) (id : bytes) : option N :=
  match names with
  | [] => None
  | (h, n) :: tl => if bytes_eqb n id then Some h else intern tl id
  end.
Definition holder_of_key (w : wire) (key : bytes) : option N :=
  match id_of_key (w_pool w) key with Some id => intern (w_names w) id | None => None end.

Inductive wop :=
| WLocal (o : dop)
| WRemotePut (key vid : bytes) (a pl ep : N)        (* key of the event, SubscriberID inside the value *)
| WRemoteDel (key : bytes)
| WEcho (key : bytes) (r : option (bytes * rec)).

Definition wtrans (w : wire) (o : wop) : option dop :=
  match o with
  | WLocal o => Some o
  | WRemoteDel key => match holder_of_key w key with Some h => Some (DRemoteDel h) | None => None end
  | WRemotePut key _ a pl ep =>
      match holder_of_key w key with Some h => Some (DRemotePut h a pl ep) | None => None end
  | WEcho key None => match holder_of_key w key with Some h => Some (DEcho h None) | None => None end
  | WEcho key (Some (_, r)) =>
      match holder_of_key w key with Some h => Some (DEcho h (Some r)) | None => None end
  end.
Definition wstep (w : wire) (s : dstate) (o : wop) : dstate * dout * list N :=
  match wtrans w o with Some d => dstep s d | None => (s, mkout s ROk, []) end.
Definition wnext (w : wire) (s : dstate) (o : wop) : dstate := fst (fst (wstep w s o)).
