(* C20 — subscriber.Manager (pkg/subscriber/manager.go) as the sequence of its CRITICAL SECTIONS.
   The manager's mutex is released inside AssignAddress (around the allocator's AllocateIPv4 /
   AllocateIPv6) and inside TerminateSession (around ReleaseIPv4 / ReleaseIPv6), so concurrent callers
   interleave at those points.  Every locked region is one atomic step of this Model; a concurrent
   execution of the real manager is a sequence of these steps, and the theorems quantify over ALL
   sequences (Proofs/KeysMgrProofs.v).

     CreateSession      one section   [GCreate]
     AssignAddress      section 1: look the session up                              [GAssignBegin]
                        -- AllocateIPv4 (unlocked) --
                        section 2: (after fix 060c165) refuse when the session was removed or is
                                   terminating; else session.IPv4 = ip, byIP[ip] = id [GAssignWrite]
                        -- AllocateIPv6 (unlocked; the driver's allocator has no IPv6) --
                        last section: State = establishing unless terminating       [GAssignEnd]
     ActivateSession    one section: State = active (whatever it was)               [GActivate]
     TerminateSession   section 1: lookup, refuse when already terminating, State = terminating
                                                                                    [GTermBegin]
                        -- ReleaseIPv4 (unlocked; only when the session has an address) --
                        section 2: delete byMAC[session.MAC], byIP[session.IPv4] (the fields of the
                                   session OBJECT as they are now, whoever the entries name), delete
                                   the session                                      [GTermEnd]
                        [GTerm] = both sections back to back (a session without an address: the code
                                   makes no allocator call between them)

   The sections of one call work on the *Session pointer they looked up in section 1: the object
   outlives its removal from the map.  The heap below keeps every Session object ever created, by its
   creation number (the uuid is interned by the driver in creation order); [so_stored] says whether
   m.sessions still holds it. *)
From Coq Require Import NArith List Bool.
From Verif Require Import Base.Word Model.Keys.
Import ListNotations.
Local Open Scope N_scope.

Record sobj := { so_mac : N; so_ip : option N; so_term : bool; so_stored : bool }.

Record gst := { g_cap : N;                  (* config.MaxSessions *)
                g_next : N;                 (* number of Session objects created so far *)
                g_heap : amap sobj;
                g_mac : amap N;             (* byMAC *)
                g_ip : amap N;              (* byIP *)
                g_pmacs : list N; g_pips : list N }.   (* probed keys (constant) *)

Definition g_init (cap : N) (pmacs pips : list N) : gst :=
  {| g_cap := cap; g_next := 0; g_heap := []; g_mac := []; g_ip := []; g_pmacs := pmacs; g_pips := pips |}.

Definition g_with (st : gst) (nx : N) (h : amap sobj) (bm bi : amap N) : gst :=
  {| g_cap := g_cap st; g_next := nx; g_heap := h; g_mac := bm; g_ip := bi;
     g_pmacs := g_pmacs st; g_pips := g_pips st |}.

Definition stored (st : gst) (id : N) : bool :=
  match aget (g_heap st) id with Some o => so_stored o | None => false end.

Definition g_count (st : gst) : N :=
  N.of_nat (length (filter (fun e => so_stored (snd e)) (g_heap st))).

Inductive gop :=
| GCreate (id mac : N)          (* id: the creation number the driver expects (= g_next) *)
| GAssignBegin (id : N)
| GAssignWrite (id ip : N)
| GAssignEnd (id : N)
| GActivate (id : N)
| GTermBegin (id : N)
| GTermEnd (id : N)
| GTerm (id : N).

Definition EBusy : N := 5.      (* "session already terminating" *)
Definition EShape : N := 9.     (* the driver issued a step the code cannot take here *)

Definition g_dangling : N := 999999.

(* observation: index 0 = MAC, index 1 = IPv4; forward = GetSession(id) of every session created so far,
   reverse = GetSessionByMAC / GetSessionByIP of every probed key (a nil session with ok = true is
   reported as [g_dangling]) *)
Definition g_ids (st : gst) : list N := seqN 0 (N.to_nat (g_next st)).
Definition g_rev (st : gst) (m : amap N) (k : N) : option N :=
  match aget m k with
  | Some id => if stored st id then Some id else Some g_dangling
  | None => None
  end.
Definition g_snaps (st : gst) : list snap :=
  let fw0 := mk_fwd (g_ids st) (fun id => match aget (g_heap st) id with
                                          | Some o => if so_stored o then Some (so_mac o) else None
                                          | None => None end) in
  let fw1 := mk_fwd (g_ids st) (fun id => match aget (g_heap st) id with
                                          | Some o => if so_stored o then so_ip o else None
                                          | None => None end) in
  [ {| sfwd := fw0; srev := mk_rev (g_pmacs st) fw0 (g_rev st (g_mac st)); stot := None |};
    {| sfwd := fw1; srev := mk_rev (g_pips st) fw1 (g_rev st (g_ip st)); stot := None |} ].

Definition g_out (st : gst) (r : ret) (mk : list N) : gst * obs * list N :=
  (st, {| o_ret := r; o_snaps := g_snaps st |}, mk).

Definition set_obj (st : gst) (id : N) (o : sobj) : gst :=
  g_with st (g_next st) (aset (g_heap st) id o) (g_mac st) (g_ip st).

(* an entry of another session under this key *)
Definition names_other (m : amap N) (k id : N) : bool :=
  match aget m k with Some e => negb (e =? id) | None => false end.

(* section 1 of TerminateSession *)
Definition term_begin (st : gst) (id : N) : gst * ret :=
  match aget (g_heap st) id with
  | None => (st, RErr EOther)
  | Some o =>
      if negb (so_stored o) then (st, RErr EOther)
      else if so_term o then (st, RErr EBusy)
      else (set_obj st id {| so_mac := so_mac o; so_ip := so_ip o; so_term := true; so_stored := true |}, RNone)
  end.

(* section 2 of TerminateSession, on the session object the call holds.
   ghost marker 2024: the section runs although the session is no longer stored, or deletes an index
   entry that names another session (a second teardown of the same object: the state was overwritten
   by ActivateSession between the two TerminateSession calls) *)
Definition term_end (st : gst) (id : N) : gst * ret * list N :=
  match aget (g_heap st) id with
  | None => (st, RErr EShape, [])
  | Some o =>
      let bm := adel (g_mac st) (so_mac o) in
      let bi := match so_ip o with Some k => adel (g_ip st) k | None => g_ip st end in
      let mk := if negb (so_stored o) || names_other (g_mac st) (so_mac o) id ||
                   match so_ip o with Some k => names_other (g_ip st) k id | None => false end
                then [2024] else [] in
      (g_with st (g_next st)
              (aset (g_heap st) id {| so_mac := so_mac o; so_ip := so_ip o; so_term := so_term o; so_stored := false |})
              bm bi, RNone, mk)
  end.

Definition g_step (st : gst) (o : gop) : gst * obs * list N :=
  match o with
  | GCreate id mac =>
      if negb (id =? g_next st) then g_out st (RErr EShape) []
      else if g_cap st <=? g_count st then g_out st (RErr EExhausted) []
      else if amem (g_mac st) mac then g_out st (RErr EConflict) []
      else g_out (g_with st (g_next st + 1)
                         (aset (g_heap st) id {| so_mac := mac; so_ip := None; so_term := false; so_stored := true |})
                         (aset (g_mac st) mac id) (g_ip st)) (RKey id) []
  | GAssignBegin id => g_out st (if stored st id then RNone else RErr EOther) []
  | GAssignWrite id ip =>
      match aget (g_heap st) id with
      | None => g_out st (RErr EShape) []
      | Some o =>
          (* the re-check of section 2 (commit 060c165): the session must still be stored and not be
             terminating; otherwise the address goes back to the allocator and the call fails *)
          if negb (so_stored o) || so_term o then g_out st (RErr EOther) [] else
          (* ghost marker 2022: the session already has another address (its byIP entry stays), or the
             address is indexed for another session (the entry is overwritten) *)
          let mk := if names_other (g_ip st) ip id ||
                       match so_ip o with Some k0 => negb (k0 =? ip) | None => false end
                    then [2022] else [] in
          g_out (g_with st (g_next st)
                        (aset (g_heap st) id {| so_mac := so_mac o; so_ip := Some ip; so_term := so_term o; so_stored := so_stored o |})
                        (g_mac st) (aset (g_ip st) ip id)) RNone mk
      end
  | GAssignEnd id =>
      match aget (g_heap st) id with
      | None => g_out st (RErr EShape) []
      | Some o => g_out st RNone []      (* State = establishing unless terminating (060c165): so_term stays *)
      end
  | GActivate id =>
      match aget (g_heap st) id with
      | None => g_out st (RErr EOther) []
      | Some o =>
          if negb (so_stored o) then g_out st (RErr EOther) []
          else g_out (set_obj st id {| so_mac := so_mac o; so_ip := so_ip o; so_term := false; so_stored := true |}) RNone []
      end
  | GTermBegin id => let '(st', r) := term_begin st id in g_out st' r []
  | GTermEnd id => let '(st', r, mk) := term_end st id in g_out st' r mk
  | GTerm id =>
      match aget (g_heap st) id with
      | Some {| so_ip := Some _; so_stored := true; so_term := false |} =>
          g_out st (RErr EShape) []       (* the code would call ReleaseIPv4 between the sections *)
      | _ =>
          let '(st1, r) := term_begin st id in
          match r with
          | RNone => let '(st2, r2, mk) := term_end st1 id in g_out st2 r2 mk
          | _ => g_out st r []
          end
      end
  end.
