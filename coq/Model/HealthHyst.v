(* Specification of "the partner is reported down / up" for C14: the hysteresis that the
   configuration of pkg/ha/health_monitor.go documents (HealthConfig):

     FailureThreshold  = number of CONSECUTIVE failed checks before the partner is considered unhealthy
     RecoveryThreshold = number of CONSECUTIVE successful checks needed to consider a previously
                         unhealthy partner recovered

   as a pure function of the list of check results (true = the check succeeded), independent of the
   controller.  [y_f] / [y_s] are the lengths of the trailing run of failures / successes.
   Proofs/HealthHystProofs.v characterises it over ALL check-result lists. *)
From Coq Require Import NArith List Bool.
Import ListNotations.
Local Open Scope N_scope.

Record hyst := mkH { y_up : bool; y_f : N; y_s : N }.
Definition hyst0 : hyst := mkH true 0 0.

Definition hyst_step (F R : N) (y : hyst) (ok : bool) : hyst :=
  if ok then
    mkH (if y_up y then true else R <=? y_s y + 1) 0 (y_s y + 1)
  else
    mkH (if y_up y then negb (F <=? y_f y + 1) else false) (y_f y + 1) 0.

Definition hyst_run (F R : N) (y : hyst) (l : list bool) : hyst := fold_left (hyst_step F R) l y.

(* length of the trailing run of results equal to [b] *)
Fixpoint lead (b : bool) (l : list bool) : N :=
  match l with
  | x :: tl => if Bool.eqb x b then lead b tl + 1 else 0
  | [] => 0
  end.
Definition trail (b : bool) (l : list bool) : N := lead b (rev l).
