(* Model of allocator.EpochBitmapAllocator (pkg/allocator/epoch_bitmap.go), IPv4 only as the code
   (baseIP = ipNet.IP.To4()).
     generations    : 2-bit tag per slot (the packed byte array is modelled per slot)  [e_gens, default 0]
     subscribers    : subscriber -> slot                                               [e_subs]
     ipToSubscriber : slot -> subscriber                                               [e_rev]
     currentEpoch (starts at 2), gracePeriod (0 means 1; compared as byte), nextFreeHint (starts at 1)
   GHOST (never read by the behaviour): [e_tgen] the unbounded epoch in which the slot's tag was last
   written (Release writes "two epochs ago"), default 0 = construction.  The stored tag is always
   tgen mod 4; the slot's true age is epoch - tgen.  Markers:
     502  a slot nobody holds is treated as live and its true age is >= 4   (2-bit generation wrap)
     503  a slot nobody holds is treated as live although its age is < 4    (grace >= 2: Release's
          "two epochs behind" / construction tags are still within grace), or a lease older than
          grace is not reclaimed by AdvanceEpoch (grace >= 3: distance never exceeds 3) *)
From Coq Require Import NArith List Bool.
From Verif Require Import Base.Word Model.PoolMap Model.Geometry Model.PoolSpec.
Import ListNotations.
Local Open Scope N_scope.

Record estate := {
  e_base : N; e_total : N; e_grace : N;
  e_gens : amap N; e_tgen : amap N; e_subs : amap N; e_rev : amap N; e_epoch : N; e_hint : N }.

Definition einit (base ppl pl grace : N) : estate :=
  {| e_base := base; e_total := wrap64 (N.shiftl 1 (pl - ppl)); e_grace := if grace =? 0 then 1 else grace;
     e_gens := []; e_tgen := []; e_subs := []; e_rev := []; e_epoch := 2; e_hint := 1 |}.

Definition egen (s : estate) (i : N) : N := match aget i (e_gens s) with Some g => g | None => 0 end.
Definition etg (s : estate) (i : N) : N := match aget i (e_tgen s) with Some g => g | None => 0 end.
Definition cur_gen (s : estate) : N := e_epoch s mod 4.
Definition grace8 (s : estate) : N := e_grace s mod 256.                 (* byte(a.gracePeriod) *)
(* isGenerationFree: dist := (current - gen + 4) % 4 on bytes; free iff dist > byte(grace) *)
Definition gen_free (s : estate) (g : N) : bool := grace8 s <? (cur_gen s + 4 - g) mod 4.
Definition slot_free (s : estate) (i : N) : bool := gen_free s (egen s i).
Definition usable_slot (s : estate) (i : N) : bool := negb (i =? 0) && negb (i =? sub64 (e_total s) 1).
Definition eunit (s : estate) (i : N) : N := add_nocarry32 (e_base s) i. (* indexToIP *)

Definition set_gen (s : estate) (i g tg : N) : estate :=
  {| e_base := e_base s; e_total := e_total s; e_grace := e_grace s;
     e_gens := aset i g (e_gens s); e_tgen := aset i tg (e_tgen s);
     e_subs := e_subs s; e_rev := e_rev s; e_epoch := e_epoch s; e_hint := e_hint s |}.
Definition set_maps (s : estate) (sb rv : amap N) (hint : N) : estate :=
  {| e_base := e_base s; e_total := e_total s; e_grace := e_grace s;
     e_gens := e_gens s; e_tgen := e_tgen s;
     e_subs := sb; e_rev := rv; e_epoch := e_epoch s; e_hint := hint |}.

(* first k in [i, i+n) with ok k = true, structural on the binary representation of n *)
Fixpoint scanFP (p : positive) (ok : N -> bool) (i : N) : option N :=
  match p with
  | xH => if ok i then Some i else None
  | xO q => match scanFP q ok i with Some j => Some j | None => scanFP q ok (i + Npos q) end
  | xI q => if ok i then Some i
            else match scanFP q ok (i + 1) with Some j => Some j | None => scanFP q ok (i + 1 + Npos q) end
  end.
Definition scanF (n : N) (ok : N -> bool) (i : N) : option N :=
  match n with N0 => None | Npos p => scanFP p ok i end.

(* the allocation loop: idx = (hint + i) % total for i = 0 .. total-1, skipping 0 and total-1 *)
Definition slot_at (s : estate) (k : N) : N := (e_hint s + k) mod e_total s.
Definition find_slot (s : estate) : option N :=
  match scanF (e_total s) (fun k => let i := slot_at s k in usable_slot s i && slot_free s i) 0 with
  | Some k => Some (slot_at s k)
  | None => None
  end.

(* ghost: kinds of leaked slots currently present (unheld, usable, not free) *)
Definition stale_markers (s : estate) : list N :=
  let stale k := let i := k in usable_slot s i && negb (slot_free s i) && negb (ahas i (e_rev s)) in
  let old i := 4 <=? e_epoch s - etg s i in
  (match scanF (e_total s) (fun i => stale i && old i) 0 with Some _ => [502] | None => [] end) ++
  (match scanF (e_total s) (fun i => stale i && negb (old i)) 0 with Some _ => [503] | None => [] end).

(* ipToIndex *)
Definition eindex (s : estate) (a : N) : option N :=
  let off := sub_bytes32 a (e_base s) in if e_total s <=? off then None else Some off.

Fixpoint count_active (s : estate) (n : nat) (i : N) : N :=      (* Stats: idx = 1 .. total-2 *)
  match n with
  | O => 0
  | S k => (if slot_free s i then 0 else 1) + count_active s k (i + 1)
  end.

(* AdvanceEpoch's clean-up loop over the subscribers map: every mapping whose slot is free at the new
   epoch is deleted from both maps (the deletions are independent, so the Go map order is irrelevant) *)
Definition cleanup (s : estate) : estate :=
  set_maps s (filter (fun p => negb (slot_free s (snd p))) (e_subs s))
             (filter (fun p => negb (slot_free s (fst p))) (e_rev s)) (e_hint s).
Definition bump (s : estate) : estate :=
  {| e_base := e_base s; e_total := e_total s; e_grace := e_grace s;
     e_gens := e_gens s; e_tgen := e_tgen s; e_subs := e_subs s; e_rev := e_rev s;
     e_epoch := e_epoch s + 1; e_hint := e_hint s |}.
Definition overdue (s : estate) : bool :=      (* ghost: a kept lease whose true age exceeds grace *)
  existsb (fun p => e_grace s <? e_epoch s - etg s (snd p)) (e_subs s).

Definition step (s : estate) (o : op) : estate * out * list N :=
  match o with
  | Alloc h =>
      match aget h (e_subs s) with
      | Some i => (set_gen s i (cur_gen s) (e_epoch s), OUnit (eunit s i), [])
      | None =>
          match find_slot s with
          | Some i =>
              let s1 := set_gen s i (cur_gen s) (e_epoch s) in
              (set_maps s1 (aset h i (e_subs s)) (aset i h (e_rev s)) ((i + 1) mod e_total s),
               OUnit (eunit s i), [])
          | None => (s, OErr 1, stale_markers s)
          end
      end
  | Renew h =>
      match aget h (e_subs s) with
      | Some i => (set_gen s i (cur_gen s) (e_epoch s), OOk, [])
      | None => (s, OErr 2, [])
      end
  | Release h =>
      match aget h (e_subs s) with
      | None => (s, OOk, [])
      | Some i =>
          let s1 := set_gen s i ((cur_gen s + 2) mod 4) (e_epoch s - 2) in
          (set_maps s1 (adel h (e_subs s)) (adel i (e_rev s)) (if i <? e_hint s then i else e_hint s), OOk, [])
      end
  | Lookup h =>
      match aget h (e_subs s) with
      | None => (s, ONone, [])
      | Some i => if slot_free s i then (s, ONone, []) else (s, OUnit (eunit s i), [])
      end
  | LookupUnit a _ =>
      match eindex s a with
      | None => (s, ONone, [])
      | Some i =>
          match aget i (e_rev s) with
          | None => (s, ONone, [])
          | Some h => if slot_free s i then (s, ONone, []) else (s, OHolder h, [])
          end
      end
  | Advance =>
      let s2 := cleanup (bump s) in
      (s2, OOk, if overdue s2 then [503] else [])
  | Stats =>
      let usable := sub64 (e_total s) 2 in
      let active := count_active s (N.to_nat (e_total s - 2)) 1 in
      (s, OStats active usable active usable, stale_markers s)
  | _ => (s, OErr 9, [])
  end.

(* Spec configuration: usable units are base+1 .. base+total-2 *)
Definition epoch_usable (base total : N) (u : N) : bool := (base + 1 <=? u) && (u + 2 <=? base + total).
Definition epoch_scfg (prop base ppl pl grace : N) : scfg :=
  let total := wrap64 (N.shiftl 1 (pl - ppl)) in
  {| sc_prop := prop; sc_usable := epoch_usable base total;
     sc_canon := fun a _ => if epoch_usable base total a then Some a else None;
     sc_cap := total - 2; sc_grace := Some (if grace =? 0 then 1 else grace); sc_scale := 1 |}.
