(* C09 — Model of ReceivePacket of the three RFC 1661 automata (pkg/pppoe/lcp.go, ipcp.go,
   ipv6cp.go), restricted to what can panic or fail: the packet / option decoding each code path
   performs, every guarded read of option data, the Echo-Reply and Code-Reject construction.
   Also modelled: the close path taken on a critical Code-Reject / a Protocol-Reject of LCP itself
   (resulting state and the Terminate-Request sent), and "unknown code leaves the state unchanged".
   The other state transitions and the packets they send are the subject of C11, not of this Model.
   [state] is the RFC 1661 state number (9 = Opened), [last_id] the identifier of the last
   Configure-Request sent (both read from the real object by the harness). *)
From Coq Require Import ZArith NArith List Lia ZifyN ZifyNat ZifyBool Bool.
From Verif Require Import Model.CodecBase Model.CodecPPPoE.
Import ListNotations.
Local Open Scope N_scope.

(* the reads processConfigureOptions / storePeerOptions / receiveConfigureNak do on option data;
   kind 0 = LCP request, 1 = LCP nak, 2 = IPv6CP (request and nak), other = no reads *)
Definition opt_reads (kind : N) (r : list N) : res unit :=
  match r with
  | ty :: _ :: v =>
      if kind =? 0 then
        if ty =? 1 then (if lenN v =? 2 then (_ <- be16 v 0 ;; Ok tt) else Ok tt)
        else if ty =? 3 then (if lenN v <? 2 then Ok tt else (_ <- be16 v 0 ;; Ok tt))
        else if ty =? 5 then (if lenN v =? 4 then (_ <- be32 v 0 ;; Ok tt) else Ok tt)
        else Ok tt
      else if kind =? 1 then
        if ty =? 1 then (if 2 <=? lenN v then (_ <- be16 v 0 ;; Ok tt) else Ok tt)
        else if ty =? 3 then
          (if 2 <=? lenN v then
             a <- be16 v 0 ;;
             if (a =? 49699) && (3 <=? lenN v) then (_ <- idx v 2 ;; Ok tt) else Ok tt
           else Ok tt)
        else Ok tt
      else if kind =? 2 then
        if ty =? 1 then (if lenN v =? 8 then (_ <- sub0 v 0 8 ;; Ok tt) else Ok tt) else Ok tt
      else Ok tt
  | _ => Ok tt
  end.

Fixpoint all_reads (kind : N) (rs : rows) : res unit :=
  match rs with
  | [] => Ok tt
  | r :: tl => _ <- opt_reads kind r ;; all_reads kind tl
  end.

(* parse options, then do the guarded reads; [strict] = the code returns the parse error *)
Definition opts_then_reads (strict : bool) (kind : N) (data : bytes) : res rows :=
  match parse_lcp_options data with
  | Ok os => _ <- all_reads kind os ;; Ok []
  | Err => if strict then Err else Ok []
  | Panic => Panic
  | Hang => Hang
  end.

(* closeInternal(reason): new state and the Terminate-Request it sends (code 5, data = reason;
   its identifier is projected out) *)
Definition close_internal (state : N) (reason : bytes) : N * rows :=
  if state =? 1 then (0, [])
  else if state =? 3 then (2, [])
  else if state =? 5 then (4, [])
  else if (state =? 9) || (state =? 6) || (state =? 7) || (state =? 8) then (4, [5 :: reason])
  else (state, []).
Definition reason_code : bytes :=   (* "Critical code rejected" *)
  [67; 114; 105; 116; 105; 99; 97; 108; 32; 99; 111; 100; 101; 32; 114; 101; 106; 101; 99; 116; 101; 100].
Definition reason_lcp : bytes := [76; 67; 80; 32; 114; 101; 106; 101; 99; 116; 101; 100].   (* "LCP rejected" *)
(* packets sent, then the row (99, state after the call) *)
Definition close_rows (critical : bool) (state : N) (reason : bytes) : rows :=
  let r := if critical then close_internal state reason else (state, []) in
  snd r ++ [[99; fst r]].

Definition lcp_receive (state last_id : N) (d : bytes) : res rows :=
  x <- parse_lcp_packet d ;;
  let '(c, i, _, data) := x in
  if c =? 1 then opts_then_reads true 0 data
  else if c =? 2 then Ok []
  else if c =? 3 then (if i =? last_id then opts_then_reads true 1 data else Ok [])
  else if c =? 4 then (if i =? last_id then opts_then_reads true 9 data else Ok [])
  else if (c =? 5) || (c =? 6) then Ok []
  else if c =? 7 then
    (* Code-Reject: a rejected code 1..4 is critical and closes the link *)
    (if 0 <? lenN data
     then (rc <- idx data 0 ;; Ok (close_rows ((1 <=? rc) && (rc <=? 4)) state reason_code))
     else Ok (close_rows false state reason_code))
  else if c =? 8 then
    (* Protocol-Reject: rejecting LCP itself (0xC021) closes the link *)
    (if lenN data <? 2 then Ok (close_rows false state reason_lcp)
     else (rp <- be16 data 0 ;; Ok (close_rows (rp =? 49185) state reason_lcp)))
  else if c =? 9 then
    if negb (state =? 9) then Ok []
    else if lenN data <? 4 then Ok []
    else
      (* replyData := make([]byte, len(data)); replyData[:4]; copy(replyData[4:], data[4:]) *)
      _ <- sub0 data 0 4 ;;
      rest <- (if 4 <? lenN data then from data 4 else Ok []) ;;
      Ok [[10; i]; rest]
  else if (c =? 10) || (c =? 11) then Ok []
  else Ok [[7]; ser_lcp_packet c i data].

Definition ipcp_receive (state last_id : N) (d : bytes) : res rows :=
  x <- parse_lcp_packet d ;;
  let '(c, i, _, data) := x in
  if c =? 1 then opts_then_reads true 9 data
  else if c =? 3 then (if i =? last_id then opts_then_reads true 9 data else Ok [])
  else if c =? 4 then (if i =? last_id then opts_then_reads false 9 data else Ok [])
  else if (c =? 2) || (c =? 5) || (c =? 6) then Ok []
  else Ok [[99; state]].   (* unknown code: ignored, state unchanged *)

Definition ip6cp_receive (state last_id : N) (d : bytes) : res rows :=
  x <- parse_lcp_packet d ;;
  let '(c, i, _, data) := x in
  if c =? 1 then opts_then_reads true 2 data
  else if c =? 3 then (if i =? last_id then opts_then_reads false 2 data else Ok [])
  else if (c =? 2) || (c =? 4) || (c =? 5) || (c =? 6) then Ok []
  else Ok [[99; state]].   (* unknown code: ignored, state unchanged *)
