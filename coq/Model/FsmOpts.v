(* C11 — the option policies of the three control protocols at VALUE level, written as predicates
   (specification side: no reference to the option processors of Lcp.v / Ipcp.v / Ipv6cp.v).
   An option of a received Configure-Request is exactly one of
     rejectable  unknown type, type we never negotiate, or wrong length          -> Configure-Reject
     offending   well-formed, negotiable, but its value is not acceptable         -> Configure-Nak
     acceptable  everything else                                                   -> Configure-Ack
   and [*_suggests] says what a Nak entry answering an offending option carries.
   Proofs/FsmOptProofs.v proves that the processors implement exactly these predicates, for all
   option lists, and that the monitor's [acceptable] (FsmSpec.v) is the same predicate.
     LCP     MRU (1): length 2, value in [64,1492]; suggestion 64 below, 1492 above
             Authentication-Protocol (3): always rejected (we are the authenticator)
             Magic-Number (5): length 4, not zero, not our own; suggestion: 4 random bytes
             PFC (7), ACFC (8): length 0
     IPCP    IP-Address (3): length 4; 0.0.0.0 with no address to assign is rejected; with an
             assigned address only that address is acceptable, suggestion = the assigned address;
             with none assigned any non-zero address is acceptable (K11c)
             Primary/Secondary DNS (129/131): length 4; 0.0.0.0 offends iff a server is configured
             (suggestion = the configured server); IP-Compression (2) and all others rejected
     IPv6CP  Interface-Identifier (1): length 8, not zero, not config.LocalInterfaceID;
             suggestion: 8 bytes *)
From Coq Require Import ZArith NArith List Bool.
From Verif Require Import Base.Word Model.Fsm Model.Lcp Model.Ipcp Model.Ipv6cp Model.FsmSpec Model.FsmCheck.
Import ListNotations.
Local Open Scope N_scope.

(* ------------------------------------------------------------------ LCP *)
Definition lcp_mru_min : N := 64.
Definition lcp_mru_max : N := 1492.

Definition lcp_wf (o : opt) : bool :=
  if ot o =? 1 then len (od o) =? 2
  else if ot o =? 5 then len (od o) =? 4
  else if (ot o =? 7) || (ot o =? 8) then len (od o) =? 0
  else false.
Definition lcp_bad (magic : N) (o : opt) : bool :=
  if ot o =? 1 then negb (in_range lcp_mru_min (be_val (od o)) lcp_mru_max)
  else if ot o =? 5 then (be_val (od o) =? 0) || (be_val (od o) =? magic)
  else false.
Definition lcp_rejectable (o : opt) : bool := negb (lcp_wf o).
Definition lcp_offending (magic : N) (o : opt) : bool := lcp_wf o && lcp_bad magic o.
Definition lcp_acceptable (magic : N) (o : opt) : bool := lcp_wf o && negb (lcp_bad magic o).
Definition lcp_suggests (o o' : opt) : bool :=
  (ot o' =? ot o) &&
  (if ot o =? 1 then bytes_eqb (od o') (be_bytes 2 (if be_val (od o) <? lcp_mru_min then lcp_mru_min else lcp_mru_max))
   else len (od o') =? 4).

(* ------------------------------------------------------------------ IPCP *)
Definition ipcp_wf (o : opt) : bool :=
  if (ot o =? 3) || (ot o =? 129) || (ot o =? 131) then len (od o) =? 4 else false.
Definition ipcp_cfgval (x : ipx) (t : N) : option (list N) :=
  if t =? 3 then ix_peer x else if t =? 129 then ix_dns1 x else ix_dns2 x.
Definition ipcp_rejectable (x : ipx) (o : opt) : bool :=
  negb (ipcp_wf o) || ((ot o =? 3) && is_zero (od o) && negb (isSome (ix_peer x))).
Definition ipcp_offending (x : ipx) (o : opt) : bool :=
  ipcp_wf o &&
  (if ot o =? 3 then match ix_peer x with Some a => is_zero (od o) || negb (bytes_eqb (od o) a) | None => false end
   else is_zero (od o) && isSome (ipcp_cfgval x (ot o))).
Definition ipcp_acceptable (x : ipx) (o : opt) : bool :=
  ipcp_wf o && negb (ipcp_rejectable x o) && negb (ipcp_offending x o).
Definition ipcp_suggests (x : ipx) (o o' : opt) : bool :=
  (ot o' =? ot o) && match ipcp_cfgval x (ot o) with Some a => bytes_eqb (od o') a | None => false end.

(* ------------------------------------------------------------------ IPv6CP *)
Definition v6_wf (o : opt) : bool := (ot o =? 1) && (len (od o) =? 8).
Definition v6_bad (ours : N) (o : opt) : bool := (be_val (od o) =? 0) || (be_val (od o) =? ours).
Definition v6_rejectable (o : opt) : bool := negb (v6_wf o).
Definition v6_offending (ours : N) (o : opt) : bool := v6_wf o && v6_bad ours o.
Definition v6_acceptable (ours : N) (o : opt) : bool := v6_wf o && negb (v6_bad ours o).
Definition v6_suggests (o o' : opt) : bool := (ot o' =? 1) && (len (od o') =? 8).

(* ------------------------------------------------------------------ the options a Nak answers
   [offenders f off x opts]: the options of the request that offend, each paired with the option
   state in which it is examined ([f] threads the state: a magic-number / interface-id collision
   regenerates our own value in the middle of the list, as the code does). *)
Section Offenders.
  Context {X : Type}.
  Variable f : X -> opt -> X * verdict.
  Variable off : X -> opt -> bool.
  Fixpoint offenders (x : X) (opts : list opt) : list (X * opt) :=
    match opts with
    | [] => []
    | o :: tl => (if off x o then [(x, o)] else []) ++ offenders (fst (f x o)) tl
    end.
End Offenders.
