(* MarshalJSON / UnmarshalJSON of the allocators (C12 "serialising then restoring any allocator
   yields an allocator that answers every query identically"), modelled as functions between model
   states, field by field as coded.  The JSON text itself (encoding/json, hex / base64 codecs,
   net.ParseCIDR of a string the code printed itself) is an oracle: each field travels unchanged.

   IPAllocator (bitmap.go):   state {base_network, prefix_length, bitmap (hex), allocated}
       Unmarshal: NewIPAllocator(base_network, prefix_length); bitmap := parsed; allocated := parsed;
       indexToSubscriber REBUILT from allocated; allocatedCount := len(allocated); nextFree := 0.
   EpochBitmapAllocator (epoch_bitmap.go): state {base_network, prefix_length, current_epoch,
       grace_period, generations, subscribers, ip_to_subscriber}
       Unmarshal: NewEpochBitmapAllocator(base_network, prefix_length, grace) for the geometry, then the
       five state fields copied; nextFreeHint is NOT restored (zero receiver: 0).
   MemoryAllocationStore (store.go): state {allocations (flattened byPool), pool_totals}
       Unmarshal: byPool, bySubscriber, byIP all rebuilt from the flattened list; each record's prefix
       travels as text and comes back through net.ParseCIDR with the address as saved. *)
From Coq Require Import NArith ZArith List Bool.
From Verif Require Import Base.Word Model.PoolMap Model.Geometry Model.PoolSpec Model.Bitmap Model.DistAlloc.
Import ListNotations.
Local Open Scope N_scope.

(* ---------------------------------------------------------------- IPAllocator *)
(* base_network is the text "ip/len": it carries base address, pool length AND the address family
   (v4 text vs v6 text); NewIPAllocator re-derives isIPv6 and the total bit width from it, and
   UnmarshalJSON copies isIPv6 back into the receiver.  The family is therefore a field of the
   marshalled record. *)
Record bjson := { jb_base : N; jb_ppl : N; jb_pl : N; jb_v6 : bool; jb_bitmap : N; jb_alloc : amap N }.

Definition b_isv6 (s : bstate) : bool := g_bits (b_g s) =? 128.           (* isIPv6 *)
Definition b_maskbits (s : bstate) : N := if b_isv6 s then 128 else 32.     (* bits in getPrefixByIndex *)

Definition b_marshal (s : bstate) : bjson :=
  {| jb_base := g_base (b_g s); jb_ppl := g_ppl (b_g s); jb_pl := g_pl (b_g s); jb_v6 := b_isv6 s;
     jb_bitmap := b_bm s; jb_alloc := b_alloc s |}.

(* for subID, idx := range state.Allocated { indexToSubscriber[idx] = subID } *)
Fixpoint rebuild_rev (m : amap N) : amap N :=
  match m with [] => [] | (h, i) :: tl => aset i h (rebuild_rev tl) end.

Definition b_unmarshal (j : bjson) : bstate :=
  {| b_g := {| g_bits := if jb_v6 j then 128 else 32; g_base := jb_base j; g_ppl := jb_ppl j; g_pl := jb_pl j |};
     b_bm := jb_bitmap j; b_alloc := jb_alloc j; b_rev := rebuild_rev (jb_alloc j);
     b_count := Z.of_N (asize (jb_alloc j)); b_hint := 0 |}.

(* what net.ParseCIDR can produce: 32-bit or 128-bit addresses *)
Definition fam_ok (g : geo) : Prop := g_bits g = 32 \/ g_bits g = 128.

(* queries, with their FULL results: a prefix is (address, mask ones, mask bits) *)
Inductive bq := QLookup (h : N) | QLookupUnit (a pl : N) | QIsAlloc (a pl : N) | QStats
              | QIsV6 | QPrefixLen | QList.
Inductive bans := BOut (o : out) | BPfx (u pl bits : N) | BFlag (b : bool) | BNum (n : N)
                | BList (l : list (N * (N * N * N))).

Definition b_query (s : bstate) (q : bq) : bans :=
  match q with
  | QLookup h => match aget h (b_alloc s) with
                 | Some i => BPfx (unit_of s i) (g_pl (b_g s)) (b_maskbits s)
                 | None => BOut ONone
                 end
  | QLookupUnit a pl => BOut (bout s (LookupUnit a pl))
  | QIsAlloc a pl => match index_of s a pl with
                     | Some i => BFlag (N.testbit (b_bm s) i)
                     | None => BFlag false
                     end
  | QStats => BOut (bout s Stats)
  | QIsV6 => BFlag (b_isv6 s)
  | QPrefixLen => BNum (g_pl (b_g s))
  | QList => BList (fold_right ins_rec []
                      (map (fun p => (fst p, (unit_of s (snd p), g_pl (b_g s), b_maskbits s))) (b_alloc s)))
  end.

Definition bans_eqb (a b : bans) : bool :=
  match a, b with
  | BOut x, BOut y => out_eqb x y
  | BPfx u p b1, BPfx v q b2 => (u =? v) && (p =? q) && (b1 =? b2)
  | BFlag x, BFlag y => Bool.eqb x y
  | BNum x, BNum y => x =? y
  | BList x, BList y =>
      (fix eq (a b : list (N * (N * N * N))) : bool :=
         match a, b with
         | [], [] => true
         | (h, (x1, y1, z1)) :: a', (h', (x2, y2, z2)) :: b' =>
             (h =? h') && (x1 =? x2) && (y1 =? y2) && (z1 =? z2) && eq a' b'
         | _, _ => false
         end) x y
  | _, _ => false
  end.

(* ---------------------------------------------------------------- EpochBitmapAllocator *)
Record ejson := { je_base : N; je_netlen : N; je_pl : N; je_epoch : N; je_grace : N;
                  je_gens : amap N; je_sub : amap N; je_rev : amap N }.

(* base_network := fmt.Sprintf("%s/%d", baseIP, ones) with ones taken from the pool mask
   (fix: the code used to print ones+(bits-prefixLength), which is the pool's length only when
   prefixLength = 32) *)
Definition e_marshal (s : estate) : ejson :=
  {| je_base := e_base s; je_netlen := e_ones s; je_pl := e_pl s; je_epoch := e_epoch s;
     je_grace := e_grace s; je_gens := e_gens s; je_sub := e_sub s; je_rev := e_rev s |}.

(* None = UnmarshalJSON returns an error (NewEpochBitmapAllocator: prefix length out of range) *)
Definition e_unmarshal (j : ejson) : option estate :=
  if (je_pl j <? je_netlen j) || (32 <? je_pl j) then None
  else Some {| e_base := je_base j - je_base j mod 2 ^ (32 - je_netlen j);       (* ParseCIDR masks the address *)
               e_ones := je_netlen j; e_pl := je_pl j; e_gens := je_gens j; e_sub := je_sub j;
               e_rev := je_rev j; e_epoch := je_epoch j; e_grace := je_grace j; e_hint := 0 |}.

Inductive eq_ := QELookup (h : N) | QELookupIP (a : N) | QEStats | QEEpoch.

Definition e_query (s : estate) (q : eq_) : ret :=
  match q with
  | QELookup h => match e_lookup s h with Some u => RUnit u | None => RNone end
  | QELookupIP a => match e_lookup_ip s a with Some h => RHolder h | None => RNone end
  | QEStats => RStats (e_active s) (e_usable s) (e_active s) (e_usable s)
  | QEEpoch => REpoch (e_epoch s)
  end.

(* ---------------------------------------------------------------- MemoryAllocationStore *)
(* a record: pool, subscriber, prefix (address as written by the caller, prefix length, 32/128 bits),
   pool type, mac/duid interned, iaid.  Times and metadata are projected away. *)
Record srec := { sr_pool : N; sr_sub : N; sr_addr : N; sr_pl : N; sr_bits : N; sr_type : N; sr_mac : N; sr_iaid : N }.

Definition srec_eqb (a b : srec) : bool :=
  (sr_pool a =? sr_pool b) && (sr_sub a =? sr_sub b) && (sr_addr a =? sr_addr b) && (sr_pl a =? sr_pl b) &&
  (sr_bits a =? sr_bits b) && (sr_type a =? sr_type b) && (sr_mac a =? sr_mac b) && (sr_iaid a =? sr_iaid b).

(* byPool and bySubscriber hold the same records under the key (pool, subscriber) by construction of
   every writer, so one list [ms_recs] (newest first, keys distinct) stands for both; byIP is separate
   because it is keyed differently and is what Unmarshal rebuilds; key = the address (IP.String()) *)
Record mstate := { ms_recs : list srec; ms_byip : amap srec; ms_totals : amap N }.
Definition minit : mstate := {| ms_recs := []; ms_byip := []; ms_totals := [] |}.

Definition key_is (p s : N) (r : srec) : bool := (sr_pool r =? p) && (sr_sub r =? s).
Definition m_find (m : mstate) (p s : N) : option srec := find (key_is p s) (ms_recs m).
Definition m_drop (l : list srec) (p s : N) : list srec := filter (fun r => negb (key_is p s r)) l.

Inductive mop :=
| MSave (r : srec)
| MRemove (p s : N)
| MSetTotal (p t : N).

(* SaveAllocation (after fix 88964ee) *)
Definition m_step (m : mstate) (o : mop) : mstate * ret :=
  match o with
  | MSave r =>
      match aget (sr_addr r) (ms_byip m) with
      | Some e => if negb (sr_sub e =? sr_sub r) || negb (sr_pool e =? sr_pool r) then (m, RErr 3) else
          let ip1 := match m_find m (sr_pool r) (sr_sub r) with
                     | Some prev => if sr_addr prev =? sr_addr r then ms_byip m else adel (sr_addr prev) (ms_byip m)
                     | None => ms_byip m end in
          ({| ms_recs := r :: m_drop (ms_recs m) (sr_pool r) (sr_sub r); ms_byip := aset (sr_addr r) r ip1;
              ms_totals := ms_totals m |}, ROk)
      | None =>
          let ip1 := match m_find m (sr_pool r) (sr_sub r) with
                     | Some prev => if sr_addr prev =? sr_addr r then ms_byip m else adel (sr_addr prev) (ms_byip m)
                     | None => ms_byip m end in
          ({| ms_recs := r :: m_drop (ms_recs m) (sr_pool r) (sr_sub r); ms_byip := aset (sr_addr r) r ip1;
              ms_totals := ms_totals m |}, ROk)
      end
  | MRemove p s =>
      let ip1 := match m_find m p s with Some prev => adel (sr_addr prev) (ms_byip m) | None => ms_byip m end in
      ({| ms_recs := m_drop (ms_recs m) p s; ms_byip := ip1; ms_totals := ms_totals m |}, ROk)
  | MSetTotal p t => ({| ms_recs := ms_recs m; ms_byip := ms_byip m; ms_totals := aset p t (ms_totals m) |}, ROk)
  end.

(* the prefix text "addr/pl" comes back through net.ParseCIDR; since fix c5f7c8e the record keeps the
   address as saved (before it, the address came back masked to pl bits: [mask_addr]) *)
Definition mask_addr (bits pl a : N) : N := a - a mod 2 ^ (bits - pl).
Definition srec_rt (r : srec) : srec := r.

(* Unmarshal: every index rebuilt from the flattened list (later records overwrite earlier ones) *)
Definition m_roundtrip (m : mstate) : mstate :=
  let recs := map srec_rt (ms_recs m) in
  {| ms_recs := recs;
     ms_byip := fold_right (fun r ip => aset (sr_addr r) r ip) [] recs;
     ms_totals := ms_totals m |}.

Inductive mq := QMBySub (s : N) | QMByPool (p : N) | QMByType (t : N) | QMByIP (a : N) | QMUtil (p : N) | QMCount.

(* answers as sorted lists of record fingerprints are produced by the harness; here a list of records
   in model order, compared as multisets by [mans_eqb] *)
Inductive mans := MRecs (l : list srec) | MOne (r : option srec) | MNums (a b : N).

Definition m_query (m : mstate) (q : mq) : mans :=
  match q with
  | QMBySub s => MRecs (filter (fun r => sr_sub r =? s) (ms_recs m))
  | QMByPool p => MRecs (filter (fun r => sr_pool r =? p) (ms_recs m))
  | QMByType t => MRecs (filter (fun r => sr_type r =? t) (ms_recs m))
  | QMByIP a => MOne (aget a (ms_byip m))
  | QMUtil p => MNums (N.of_nat (length (filter (fun r => sr_pool r =? p) (ms_recs m))))
                      (match aget p (ms_totals m) with Some t => t | None => 0 end)
  | QMCount => MNums (N.of_nat (length (ms_recs m))) 0
  end.

Definition sub_multiset (a b : list srec) : bool :=
  forallb (fun r => N.of_nat (length (filter (srec_eqb r) a)) <=? N.of_nat (length (filter (srec_eqb r) b))) a.
Definition mans_eqb (a b : mans) : bool :=
  match a, b with
  | MRecs x, MRecs y => sub_multiset x y && sub_multiset y x
  | MOne (Some x), MOne (Some y) => srec_eqb x y
  | MOne None, MOne None => true
  | MNums a1 b1, MNums a2 b2 => (a1 =? a2) && (b1 =? b2)
  | _, _ => false
  end.

(* ================================================================ ids inside JSON *)
(* Subscriber ids travel inside the JSON text as strings (map keys of IPAllocator.Allocated and
   EpochBitmapState.Subscribers, values of IPToSubscriber, AllocationRecord.SubscriberID).  encoding/json
   writes a Go string rune by rune (utf8.DecodeRuneInString): every byte that does not start a valid
   UTF-8 sequence is written as � and read back as EF BF BD.  [json_coerce] is that function on byte
   strings; it is tied against the real json.Marshal + json.Unmarshal (stream jsoncoerce).
   [utf8_len b0 tl] = number of continuation bytes of the sequence starting with b0 when tl continues it
   validly (Unicode table 3-7, what Go's utf8 accepts: no overlongs, no surrogates, <= U+10FFFF). *)
Definition in_rng (lo hi b : N) : bool := (lo <=? b) && (b <=? hi).
Definition cont (b : N) : bool := in_rng 128 191 b.
Definition utf8_len (b0 : N) (tl : bytes) : option nat :=
  if b0 <? 128 then Some 0%nat
  else if in_rng 194 223 b0 then
    match tl with b1 :: _ => if cont b1 then Some 1%nat else None | _ => None end
  else if in_rng 224 239 b0 then
    match tl with
    | b1 :: b2 :: _ =>
        let lo := if b0 =? 224 then 160 else 128 in
        let hi := if b0 =? 237 then 159 else 191 in
        if in_rng lo hi b1 && cont b2 then Some 2%nat else None
    | _ => None
    end
  else if in_rng 240 244 b0 then
    match tl with
    | b1 :: b2 :: b3 :: _ =>
        let lo := if b0 =? 240 then 144 else 128 in
        let hi := if b0 =? 244 then 143 else 191 in
        if in_rng lo hi b1 && cont b2 && cont b3 then Some 3%nat else None
    | _ => None
    end
  else None.

Fixpoint coerce_fuel (n : nat) (l : bytes) : bytes :=
  match n with
  | O => []
  | S n' =>
      match l with
      | [] => []
      | b0 :: tl =>
          match utf8_len b0 tl with
          | Some k => b0 :: firstn k tl ++ coerce_fuel n' (skipn k tl)
          | None => 239 :: 191 :: 189 :: coerce_fuel n' tl
          end
      end
  end.
Definition json_coerce (l : bytes) : bytes := coerce_fuel (length l) l.
(* valid UTF-8 = left unchanged by the coercion *)
Definition utf8_valid (l : bytes) : bool := bytes_eqb (json_coerce l) l.

(* the case's table of ids: holder -> id bytes (a holder without an entry has the default id "s<h>",
   plain ASCII).  [alias] = the holder whose id is what encoding/json makes of h's id.  Tables driven by
   the harness are closed under the coercion; an id outside the table gets a number no query names. *)
Fixpoint name_of (names : list (N * bytes)) (h : N) : option bytes :=
  match names with [] => None | (h', n) :: tl => if h' =? h then Some n else name_of tl h end.
Definition id_changed (names : list (N * bytes)) (h : N) : bool :=
  match name_of names h with Some n => negb (utf8_valid n) | None => false end.
Definition alias (names : list (N * bytes)) (h : N) : N :=
  match name_of names h with
  | None => h
  | Some n => match intern names (json_coerce n) with Some h' => h' | None => 1000 + h end
  end.
(* decidable guard of the round-trip theorems: every id held in the allocator is valid UTF-8 *)
Definition ids_valid (names : list (N * bytes)) (hs : list N) : bool := forallb (fun h => negb (id_changed names h)) hs.

Fixpoint enumN {V} (ord : list N) (m : amap V) : list (N * V) :=
  match ord with
  | [] => m
  | h :: tl => match aget h m with Some v => (h, v) :: enumN tl (adel h m) | None => enumN tl m end
  end.

(* a JSON object keyed by ids.  All ids valid: the keys are distinct strings and the object is the map
   (the identity, as before).  Otherwise every key is rewritten and colliding keys collapse: json.Marshal
   writes a Go map in the byte order of its ORIGINAL keys ([ord], oracle input computed by the harness
   from the id table) and json.Unmarshal lets the later duplicate overwrite the earlier one. *)
Definition coerce_keys {V} (names : list (N * bytes)) (ord : list N) (m : amap V) : amap V :=
  if ids_valid names (map fst m) then m
  else fold_left (fun acc hv => aset (alias names (fst hv)) (snd hv) acc) (enumN ord m) [].
Definition coerce_vals (names : list (N * bytes)) (m : amap N) : amap N :=
  if ids_valid names (map snd m) then m else map (fun p => (fst p, alias names (snd p))) m.

(* marker 1204: the serialised state contains an id that encoding/json changes *)
Definition mk1204 (names : list (N * bytes)) (hs : list N) : list N := if ids_valid names hs then [] else [1204].

Definition b_roundtrip (names : list (N * bytes)) (ord : list N) (s : bstate) : bstate :=
  let j := b_marshal s in
  b_unmarshal {| jb_base := jb_base j; jb_ppl := jb_ppl j; jb_pl := jb_pl j; jb_v6 := jb_v6 j;
                 jb_bitmap := jb_bitmap j; jb_alloc := coerce_keys names ord (jb_alloc j) |}.

Definition e_roundtrip (names : list (N * bytes)) (ord : list N) (s : estate) : option estate :=
  let j := e_marshal s in
  e_unmarshal {| je_base := je_base j; je_netlen := je_netlen j; je_pl := je_pl j; je_epoch := je_epoch j;
                 je_grace := je_grace j; je_gens := je_gens j;
                 je_sub := coerce_keys names ord (je_sub j);
                 je_rev := if ids_valid names (map fst (je_sub j)) then je_rev j else coerce_vals names (je_rev j) |}.

(* the allocation store: records are a JSON array (no keys to collapse in the text); the indexes are
   rebuilt from the coerced records.  Two records of one pool whose ids collide after the coercion would
   overwrite each other in the order Go iterates byPool (not reproducible: not driven) *)
Definition srec_coerce (names : list (N * bytes)) (r : srec) : srec :=
  {| sr_pool := sr_pool r; sr_sub := alias names (sr_sub r); sr_addr := sr_addr r; sr_pl := sr_pl r;
     sr_bits := sr_bits r; sr_type := sr_type r; sr_mac := sr_mac r; sr_iaid := sr_iaid r |}.
Definition m_roundtrip_ids (names : list (N * bytes)) (m : mstate) : mstate :=
  if ids_valid names (map sr_sub (ms_recs m)) then m_roundtrip m
  else m_roundtrip {| ms_recs := map (srec_coerce names) (ms_recs m); ms_byip := ms_byip m; ms_totals := ms_totals m |}.
