(* MarshalJSON / UnmarshalJSON of the allocators (C12 "serialising then restoring any allocator
   yields an allocator that answers every query identically"), modelled as functions between model
   states, field by field as coded.  The JSON text itself (encoding/json, hex / base64 codecs,
   net.ParseCIDR of a string the code printed itself) is an oracle: each field travels unchanged.

   IPAllocator (bitmap.go):   state {base_network, prefix_length, bitmap (hex), allocated}
       Unmarshal: NewIPAllocator(base_network, prefix_length); bitmap := parsed; allocated := parsed;
       indexToSubscriber REBUILT from allocated; allocatedCount := len(allocated); nextFree := 0.
   EpochBitmapAllocator (epoch_bitmap.go): state {base_network, prefix_length, current_epoch,
       grace_period, generations, subscribers, ip_to_subscriber}
       Unmarshal: NewEpochBitmapAllocator(base_network, prefix_length, grace) for the geometry, then the
       five state fields copied; nextFreeHint is NOT restored (zero receiver: 0).
   MemoryAllocationStore (store.go): state {allocations (flattened byPool), pool_totals}
       Unmarshal: byPool, bySubscriber, byIP all rebuilt from the flattened list; each record's prefix
       travels as text and comes back through net.ParseCIDR with the address as saved. *)
From Coq Require Import NArith ZArith List Bool.
From Verif Require Import Base.Word Model.PoolMap Model.Geometry Model.PoolSpec Model.Bitmap Model.DistAlloc.
Import ListNotations.
Local Open Scope N_scope.

(* ---------------------------------------------------------------- IPAllocator *)
(* base_network is the text "ip/len": it carries base address, pool length AND the address family
   (v4 text vs v6 text); NewIPAllocator re-derives isIPv6 and the total bit width from it, and
   UnmarshalJSON copies isIPv6 back into the receiver.  The family is therefore a field of the
   marshalled record. *)
Record bjson := { jb_base : N; jb_ppl : N; jb_pl : N; jb_v6 : bool; jb_bitmap : N; jb_alloc : amap N }.

Definition b_isv6 (s : bstate) : bool := g_bits (b_g s) =? 128.           (* isIPv6 *)
Definition b_maskbits (s : bstate) : N := if b_isv6 s then 128 else 32.     (* bits in getPrefixByIndex *)

Definition b_marshal (s : bstate) : bjson :=
  {| jb_base := g_base (b_g s); jb_ppl := g_ppl (b_g s); jb_pl := g_pl (b_g s); jb_v6 := b_isv6 s;
     jb_bitmap := b_bm s; jb_alloc := b_alloc s |}.

(* for subID, idx := range state.Allocated { indexToSubscriber[idx] = subID } *)
Fixpoint rebuild_rev (m : amap N) : amap N :=
  match m with [] => [] | (h, i) :: tl => aset i h (rebuild_rev tl) end.

Definition b_unmarshal (j : bjson) : bstate :=
  {| b_g := {| g_bits := if jb_v6 j then 128 else 32; g_base := jb_base j; g_ppl := jb_ppl j; g_pl := jb_pl j |};
     b_bm := jb_bitmap j; b_alloc := jb_alloc j; b_rev := rebuild_rev (jb_alloc j);
     b_count := Z.of_N (asize (jb_alloc j)); b_hint := 0 |}.

(* what net.ParseCIDR can produce: 32-bit or 128-bit addresses *)
Definition fam_ok (g : geo) : Prop := g_bits g = 32 \/ g_bits g = 128.

(* queries, with their FULL results: a prefix is (address, mask ones, mask bits) *)
Inductive bq := QLookup (h : N) | QLookupUnit (a pl : N) | QIsAlloc (a pl : N) | QStats
              | QIsV6 | QPrefixLen | QList.
Inductive bans := BOut (o : out) | BPfx (u pl bits : N) | BFlag (b : bool) | BNum (n : N)
                | BList (l : list (N * (N * N * N))).

Definition b_query (s : bstate) (q : bq) : bans :=
  match q with
  | QLookup h => match aget h (b_alloc s) with
                 | Some i => BPfx (unit_of s i) (g_pl (b_g s)) (b_maskbits s)
                 | None => BOut ONone
                 end
  | QLookupUnit a pl => BOut (bout s (LookupUnit a pl))
  | QIsAlloc a pl => match index_of s a pl with
                     | Some i => BFlag (N.testbit (b_bm s) i)
                     | None => BFlag false
                     end
  | QStats => BOut (bout s Stats)
  | QIsV6 => BFlag (b_isv6 s)
  | QPrefixLen => BNum (g_pl (b_g s))
  | QList => BList (fold_right ins_rec []
                      (map (fun p => (fst p, (unit_of s (snd p), g_pl (b_g s), b_maskbits s))) (b_alloc s)))
  end.

Definition bans_eqb (a b : bans) : bool :=
  match a, b with
  | BOut x, BOut y => out_eqb x y
  | BPfx u p b1, BPfx v q b2 => (u =? v) && (p =? q) && (b1 =? b2)
  | BFlag x, BFlag y => Bool.eqb x y
  | BNum x, BNum y => x =? y
  | BList x, BList y =>
      (fix eq (a b : list (N * (N * N * N))) : bool :=
         match a, b with
         | [], [] => true
         | (h, (x1, y1, z1)) :: a', (h', (x2, y2, z2)) :: b' =>
             (h =? h') && (x1 =? x2) && (y1 =? y2) && (z1 =? z2) && eq a' b'
         | _, _ => false
         end) x y
  | _, _ => false
  end.

(* ---------------------------------------------------------------- EpochBitmapAllocator *)
Record ejson := { je_base : N; je_netlen : N; je_pl : N; je_epoch : N; je_grace : N;
                  je_gens : amap N; je_sub : amap N; je_rev : amap N }.

(* base_network := fmt.Sprintf("%s/%d", baseIP, ones) with ones taken from the pool mask
   (fix: the code used to print ones+(bits-prefixLength), which is the pool's length only when
   prefixLength = 32) *)
Definition e_marshal (s : estate) : ejson :=
  {| je_base := e_base s; je_netlen := e_ones s; je_pl := e_pl s; je_epoch := e_epoch s;
     je_grace := e_grace s; je_gens := e_gens s; je_sub := e_sub s; je_rev := e_rev s |}.

(* None = UnmarshalJSON returns an error (NewEpochBitmapAllocator: prefix length out of range) *)
Definition e_unmarshal (j : ejson) : option estate :=
  if (je_pl j <? je_netlen j) || (32 <? je_pl j) then None
  else Some {| e_base := je_base j - je_base j mod 2 ^ (32 - je_netlen j);       (* ParseCIDR masks the address *)
               e_ones := je_netlen j; e_pl := je_pl j; e_gens := je_gens j; e_sub := je_sub j;
               e_rev := je_rev j; e_epoch := je_epoch j; e_grace := je_grace j; e_hint := 0 |}.

Inductive eq_ := QELookup (h : N) | QELookupIP (a : N) | QEStats | QEEpoch.

Definition e_query (s : estate) (q : eq_) : ret :=
  match q with
  | QELookup h => match e_lookup s h with Some u => RUnit u | None => RNone end
  | QELookupIP a => match e_lookup_ip s a with Some h => RHolder h | None => RNone end
  | QEStats => RStats (e_active s) (e_usable s) (e_active s) (e_usable s)
  | QEEpoch => REpoch (e_epoch s)
  end.

(* ---------------------------------------------------------------- MemoryAllocationStore *)
(* a record: pool, subscriber, prefix (address as written by the caller, prefix length, 32/128 bits),
   pool type, mac/duid interned, iaid.  Times and metadata are projected away. *)
Record srec := { sr_pool : N; sr_sub : N; sr_addr : N; sr_pl : N; sr_bits : N; sr_type : N; sr_mac : N; sr_iaid : N }.

Definition srec_eqb (a b : srec) : bool :=
  (sr_pool a =? sr_pool b) && (sr_sub a =? sr_sub b) && (sr_addr a =? sr_addr b) && (sr_pl a =? sr_pl b) &&
  (sr_bits a =? sr_bits b) && (sr_type a =? sr_type b) && (sr_mac a =? sr_mac b) && (sr_iaid a =? sr_iaid b).

(* byPool and bySubscriber hold the same records under the key (pool, subscriber) by construction of
   every writer, so one list [ms_recs] (newest first, keys distinct) stands for both; byIP is separate
   because it is keyed differently and is what Unmarshal rebuilds; key = the address (IP.String()) *)
Record mstate := { ms_recs : list srec; ms_byip : amap srec; ms_totals : amap N }.
Definition minit : mstate := {| ms_recs := []; ms_byip := []; ms_totals := [] |}.

Definition key_is (p s : N) (r : srec) : bool := (sr_pool r =? p) && (sr_sub r =? s).
Definition m_find (m : mstate) (p s : N) : option srec := find (key_is p s) (ms_recs m).
Definition m_drop (l : list srec) (p s : N) : list srec := filter (fun r => negb (key_is p s r)) l.

Inductive mop :=
| MSave (r : srec)
| MRemove (p s : N)
| MSetTotal (p t : N).

(* SaveAllocation (after fix 88964ee) *)
Definition m_step (m : mstate) (o : mop) : mstate * ret :=
  match o with
  | MSave r =>
      match aget (sr_addr r) (ms_byip m) with
      | Some e => if negb (sr_sub e =? sr_sub r) || negb (sr_pool e =? sr_pool r) then (m, RErr 3) else
          let ip1 := match m_find m (sr_pool r) (sr_sub r) with
                     | Some prev => if sr_addr prev =? sr_addr r then ms_byip m else adel (sr_addr prev) (ms_byip m)
                     | None => ms_byip m end in
          ({| ms_recs := r :: m_drop (ms_recs m) (sr_pool r) (sr_sub r); ms_byip := aset (sr_addr r) r ip1;
              ms_totals := ms_totals m |}, ROk)
      | None =>
          let ip1 := match m_find m (sr_pool r) (sr_sub r) with
                     | Some prev => if sr_addr prev =? sr_addr r then ms_byip m else adel (sr_addr prev) (ms_byip m)
                     | None => ms_byip m end in
          ({| ms_recs := r :: m_drop (ms_recs m) (sr_pool r) (sr_sub r); ms_byip := aset (sr_addr r) r ip1;
              ms_totals := ms_totals m |}, ROk)
      end
  | MRemove p s =>
      let ip1 := match m_find m p s with Some prev => adel (sr_addr prev) (ms_byip m) | None => ms_byip m end in
      ({| ms_recs := m_drop (ms_recs m) p s; ms_byip := ip1; ms_totals := ms_totals m |}, ROk)
  | MSetTotal p t => ({| ms_recs := ms_recs m; ms_byip := ms_byip m; ms_totals := aset p t (ms_totals m) |}, ROk)
  end.

(* the prefix text "addr/pl" comes back through net.ParseCIDR; since fix c5f7c8e the record keeps the
   address as saved (before it, the address came back masked to pl bits: [mask_addr]) *)
Definition mask_addr (bits pl a : N) : N := a - a mod 2 ^ (bits - pl).
Definition srec_rt (r : srec) : srec := r.

(* Unmarshal: every index rebuilt from the flattened list (later records overwrite earlier ones) *)
Definition m_roundtrip (m : mstate) : mstate :=
  let recs := map srec_rt (ms_recs m) in
  {| ms_recs := recs;
     ms_byip := fold_right (fun r ip => aset (sr_addr r) r ip) [] recs;
     ms_totals := ms_totals m |}.

Inductive mq := QMBySub (s : N) | QMByPool (p : N) | QMByType (t : N) | QMByIP (a : N) | QMUtil (p : N) | QMCount.

(* answers as sorted lists of record fingerprints are produced by the harness; here a list of records
   in model order, compared as multisets by [mans_eqb] *)
Inductive mans := MRecs (l : list srec) | MOne (r : option srec) | MNums (a b : N).

Definition m_query (m : mstate) (q : mq) : mans :=
  match q with
  | QMBySub s => MRecs (filter (fun r => sr_sub r =? s) (ms_recs m))
  | QMByPool p => MRecs (filter (fun r => sr_pool r =? p) (ms_recs m))
  | QMByType t => MRecs (filter (fun r => sr_type r =? t) (ms_recs m))
  | QMByIP a => MOne (aget a (ms_byip m))
  | QMUtil p => MNums (N.of_nat (length (filter (fun r => sr_pool r =? p) (ms_recs m))))
                      (match aget p (ms_totals m) with Some t => t | None => 0 end)
  | QMCount => MNums (N.of_nat (length (ms_recs m))) 0
  end.

Definition sub_multiset (a b : list srec) : bool :=
  forallb (fun r => N.of_nat (length (filter (srec_eqb r) a)) <=? N.of_nat (length (filter (srec_eqb r) b))) a.
Definition mans_eqb (a b : mans) : bool :=
  match a, b with
  | MRecs x, MRecs y => sub_multiset x y && sub_multiset y x
  | MOne (Some x), MOne (Some y) => srec_eqb x y
  | MOne None, MOne None => true
  | MNums a1 b1, MNums a2 b2 => (a1 =? a2) && (b1 =? b2)
  | _, _ => false
  end.
