(* Model of bpf/qos_ratelimit.c: token_bucket_check and the two TC programs, as the C codes them.
   - 64-bit arithmetic wraps where the C wraps: elapsed = (now - last) mod 2^64,
     new = ((elapsed * (rate/8)) mod 2^64) / 10^9, tokens += new (mod 2^64), cap at burst, spend.
   - map values are raw 32-byte strings (struct token_bucket, little-endian fields); a hit rewrites
     the first 16 bytes (tokens, last_update) in place and leaves the rest alone.
   - frames are byte lists read through checked accessors; every data_end comparison of the C is an
     explicit length test here, a read outside the frame yields VOob (never a default value).
   Ghost markers: 1903 = refill lost a fraction (per-packet truncation / rate not a multiple of 8),
                  1904 = the 64-bit product elapsed * (rate/8) wrapped. *)
From Coq Require Import NArith List Bool.
From Verif Require Import Base.Word.
Import ListNotations.
Local Open Scope N_scope.

Definition G : N := 1000000000.

(* ---- struct token_bucket *)
Record tb := { tokens : N; last : N; rate : N; burst : N; prio : N }.

(* little-endian bytes by shifts (N.div / N.modulo are far slower under vm_compute) *)
Fixpoint le_n (n : nat) (v : N) : bytes :=
  match n with O => [] | S k => N.land v 255 :: le_n k (N.shiftr v 8) end.
(* harness-facing: n bytes given as one big-endian number (one numeral instead of n list cells: Coq
   elaborates long list literals at ~250 us per element) *)
Definition B (n : nat) (v : N) : bytes := rev (le_n n v).
Definition Zs (k : N) : bytes := repeat 0 (N.to_nat k).      (* k zero bytes *)
Fixpoint le_v (l : bytes) : N := match l with [] => 0 | b :: tl => b + 256 * le_v tl end.
Definition tb_decode (v : bytes) : option tb :=
  if N.of_nat (length v) =? 32 then
    Some {| tokens := le_v (firstn 8 v); last := le_v (firstn 8 (skipn 8 v));
            rate := le_v (firstn 8 (skipn 16 v)); burst := le_v (firstn 4 (skipn 24 v));
            prio := nth 28 v 0 |}
  else None.
Definition tb_encode (t : tb) : bytes :=
  le_n 8 (tokens t) ++ le_n 8 (last t) ++ le_n 8 (rate t) ++ le_n 4 (burst t) ++ [N.land (prio t) 255; 0; 0; 0].
(* what the program stores back: tokens and last_update only *)
Definition tb_writeback (v : bytes) (tok now : N) : bytes := le_n 8 tok ++ le_n 8 now ++ skipn 16 v.

(* ---- token_bucket_check *)
Definition rate8 (t : tb) : N := N.shiftr (rate t) 3.     (* rate_bps / 8 *)
Definition refill_product (t : tb) (now : N) : N := sub64 now (last t) * rate8 t.
Definition tb_refill (t : tb) (now : N) : N :=
  let newt := wrap64 (refill_product t now) / G in
  let t1 := add64 (tokens t) newt in
  if burst t <? t1 then burst t else t1.

Definition tb_markers (t : tb) (now : N) : list N :=
  (if (negb (N.land (rate t) 7 =? 0) && negb (sub64 now (last t) =? 0)) || negb (wrap64 (refill_product t now) mod G =? 0)
   then [1903] else []) ++
  (if W64 <=? refill_product t now then [1904] else []).

(* returns (bucket after, allowed) ; rate 0 returns before touching the bucket *)
Definition tb_step (t : tb) (now len : N) : tb * bool :=
  if rate t =? 0 then (t, true) else
  let t2 := tb_refill t now in
  if len <=? t2
  then ({| tokens := t2 - len; last := now; rate := rate t; burst := burst t; prio := prio t |}, true)
  else ({| tokens := t2; last := now; rate := rate t; burst := burst t; prio := prio t |}, false).

(* ---- maps: association lists sorted by key (raw bytes) *)
Definition kvmap := list (bytes * bytes).
Fixpoint m_get (m : kvmap) (k : bytes) : option bytes :=
  match m with [] => None | (k', v) :: tl => if bytes_eqb k k' then Some v else m_get tl k end.
Fixpoint m_put (m : kvmap) (k v : bytes) : kvmap :=
  match m with
  | [] => [(k, v)]
  | (k', v') :: tl => if bytes_eqb k k' then (k, v) :: tl
                      else if lex_leb k k' then (k, v) :: (k', v') :: tl else (k', v') :: m_put tl k v
  end.
Fixpoint m_del (m : kvmap) (k : bytes) : kvmap :=
  match m with [] => [] | (k', v) :: tl => if bytes_eqb k k' then tl else (k', v) :: m_del tl k end.

(* ---- frames, checked access *)
Definition rd (f : bytes) (off n : nat) : option bytes :=
  if Nat.leb (off + n) (length f) then Some (firstn n (skipn off f)) else None.

Definition TC_ACT_OK : N := 0.
Definition TC_ACT_SHOT : N := 2.

Inductive verdict := VRet (v : N) (skb_prio : N) | VOob.

Inductive dir := Egress | Ingress.
Definition dir_eqb (a b : dir) : bool := match a, b with Egress, Egress | Ingress, Ingress => true | _, _ => false end.

(* one TC program run: map of that direction, frame (linear part), skb->len, clock, skb->priority on entry.
   [qos_lookup] is the parse + map lookup part (no state change), [qos_prog] the whole program. *)
Inductive lookup := LPass | LOob | LHit (key v : bytes) (t : tb).

Definition qos_lookup (d : dir) (m : kvmap) (f : bytes) : lookup :=
  (* C: eth + 1 > data_end  =>  TC_ACT_OK *)
  if Nat.ltb (length f) 14 then LPass else
  match rd f 12 2 with
  | None => LOob
  | Some proto =>
    (* C: h_proto <> htons(ETH_P_IP)  =>  TC_ACT_OK *)
    if negb (bytes_eqb proto [8; 0]) then LPass else
    (* C: ip + 1 > data_end  =>  TC_ACT_OK *)
    if Nat.ltb (length f) 34 then LPass else
    match rd f (match d with Egress => 30 | Ingress => 26 end) 4 with
    | None => LOob
    | Some key =>
      match m_get m key with
      | None => LPass                      (* no policy = no rate limiting *)
      | Some v => match tb_decode v with
                  | None => LOob           (* a value of another size cannot be in the map *)
                  | Some t => LHit key v t
                  end
      end
    end
  end.

Definition qos_prog (d : dir) (m : kvmap) (f : bytes) (plen now prio_in : N) : kvmap * verdict * list N :=
  match qos_lookup d m f with
  | LPass => (m, VRet TC_ACT_OK prio_in, [])
  | LOob => (m, VOob, [])
  | LHit key v t =>
      let '(t', ok) := tb_step t now (N.land plen 4294967295) in
      let mk := if rate t =? 0 then [] else tb_markers t now in
      let m' := if rate t =? 0 then m else m_put m key (tb_writeback v (tokens t') (last t')) in
      if ok then (m', VRet TC_ACT_OK (match d with Egress => prio t | Ingress => prio_in end), mk)
      else (m', VRet TC_ACT_SHOT prio_in, mk)
  end.

(* canonical IPv4 frame of a subscriber: 14-byte Ethernet + 20-byte IPv4 header; the subscriber's
   address is the destination on egress and the source on ingress, the other end is 192.0.2.1 *)
Definition other_end : bytes := [192; 0; 2; 1].
Definition sub_frame (d : dir) (ip : bytes) : bytes :=
  [255;255;255;255;255;255; 2;0;0;0;0;1; 8;0] ++ [69;0;0;84; 0;0;0;0; 64;17;0;0] ++
  match d with Egress => other_end ++ ip | Ingress => ip ++ other_end end.
