(* C11 — executable trace monitor.  It sees only what an observer of the real automaton sees: the
   event (admin call, received bytes, timer expiry) and the observables after it (packets handed
   to the send callback, GetState(), whether restartTimer is set, the local option state).
   Clauses (numbers are what the check reports):
     0  opened-only-on-mutual-ack : state Opened => we acknowledged the peer's most recent
        well-formed Configure-Request and the peer acknowledged (identifier) our most recent one
     1  leaves-opened : in Opened, a well-formed Configure-Request, a Configure-Ack/Nak/Reject
        carrying the identifier of our latest request, a Terminate-Request/Ack, Down, Close, and
        (LCP) a Code-Reject of codes 1..4 or a Protocol-Reject of LCP leave Opened
     2  reply-echoes-identifier : Configure-Ack/Nak/Reject, Terminate-Ack, Echo-Reply are sent only
        in reply to a packet of the matching kind and carry its identifier
     3  ack-repeats / nak-reject-only-offending : an Ack carries the request's options unchanged; a
        Reject lists only options of the request that are not acceptable; a Nak lists (in order)
        only option types that occur as not acceptable options in the request
     4  ipcp-acks-only-assigned : an IPCP Configure-Ack carries no IP-Address other than the one
        assigned to the session
     5  silent-peer bound : in a run of consecutive timer expiries at most max(0, configured count)
        Configure-/Terminate-Requests are sent
     6  always-terminates (checked when mk_live) : a state that retransmits (Closing, Stopping,
        Req-Sent, Ack-Rcvd, Ack-Sent) has a running restart timer that has not fired yet *)
From Coq Require Import ZArith NArith List Bool.
From Verif Require Import Base.Word Model.Fsm.
Import ListNotations.
Local Open Scope N_scope.

Record mcfg := mkmcfg {
  mk_kind : N;                      (* 0 LCP, 1 IPCP, 2 IPv6CP *)
  mk_max : Z;                       (* configured count: MaxConfigure / MaxRetransmit (0 => 10) *)
  mk_assigned : option (list N);    (* IPCP: address assigned to the session *)
  mk_dns1 : bool; mk_dns2 : bool;   (* IPCP: DNS servers configured *)
  mk_live : bool }.

Record mon := mkmon {
  m_cfg : mcfg; m_st : N; m_we : bool; m_peer : bool; m_ourcr : N;
  m_tok : N; m_pend : list N; m_streak : Z; m_obs : list N }.

Definition mon0 (k : mcfg) (obs : list N) : mon := mkmon k 0 false false 0 0 [] 0%Z obs.

Definition parsed (e : ev) : option (N * N * list N) :=
  match e with ERecv d => parse_pkt d | _ => None end.

Definition opt_eqb (a b : opt) : bool := (ot a =? ot b) && bytes_eqb (od a) (od b).

Section Sub.
  Context {A : Type}.
  Variable eqb : A -> A -> bool.
  (* l is a subsequence of r *)
  Fixpoint subseq (l r : list A) : bool :=
    match l, r with
    | [], _ => true
    | _ :: _, [] => false
    | a :: l', b :: r' => if eqb a b then subseq l' r' else subseq l r'
    end.
End Sub.

Definition in_range (lo v hi : N) : bool := (lo <=? v) && (v <=? hi).

(* what the protocol's policy accepts; obs0/obs1 = local option state before / after the event *)
Definition acceptable (k : mcfg) (obs0 obs1 : list N) (o : opt) : bool :=
  let t := ot o in let d := od o in
  if mk_kind k =? 0 then
    if t =? 1 then (len d =? 2) && in_range 64 (be_val d) 1492
    else if t =? 5 then (len d =? 4) && negb (be_val d =? 0)
                        && negb (be_val d =? be_val (firstn 4 obs0)) && negb (be_val d =? be_val (firstn 4 obs1))
    else if (t =? 7) || (t =? 8) then len d =? 0
    else false
  else if mk_kind k =? 1 then
    if t =? 3 then (len d =? 4) && negb (forallb (N.eqb 0) d)
                   && match mk_assigned k with Some a => bytes_eqb d a | None => true end
    else if t =? 129 then (len d =? 4) && (negb (forallb (N.eqb 0) d) || negb (mk_dns1 k))
    else if t =? 131 then (len d =? 4) && (negb (forallb (N.eqb 0) d) || negb (mk_dns2 k))
    else false
  else
    if t =? 1 then (len d =? 8) && negb (be_val d =? 0)
                   && negb (be_val d =? be_val (firstn 8 obs0)) && negb (be_val d =? be_val (firstn 8 obs1))
    else false.

Definition reply_code (c : N) : bool := (c =? 2) || (c =? 3) || (c =? 4) || (c =? 6) || (c =? 10).

Definition chk_ids (e : ev) (pk : list pkt) : bool :=
  forallb (fun p =>
    negb (reply_code (pc p)) ||
    match parsed e with
    | Some (c, i, _) =>
        (pi p =? i) && (if pc p =? 10 then c =? 9 else if pc p =? 6 then in_range 1 c 5 else c =? 1)
    | None => false
    end) pk.

Definition chk_opts (k : mcfg) (obs0 obs1 : list N) (req : list opt) (pk : list pkt) : bool :=
  forallb (fun p =>
    if pc p =? 2 then bytes_eqb (pd p) (ser_opts req)
    else if pc p =? 4 then
      match parse_opts (pd p) with
      | Some l => nonempty l && subseq opt_eqb l req && forallb (fun o => negb (acceptable k obs0 obs1 o)) l
      | None => false
      end
    else if pc p =? 3 then
      match parse_opts (pd p) with
      | Some l => nonempty l &&
                  subseq N.eqb (map ot l) (map ot (filter (fun o => negb (acceptable k obs0 obs1 o)) req))
      | None => false
      end
    else true) pk.

Definition chk_assigned (k : mcfg) (pk : list pkt) : bool :=
  negb (mk_kind k =? 1) ||
  forallb (fun p =>
    negb (pc p =? 2) ||
    match parse_opts (pd p) with
    | Some l => forallb (fun o => negb (ot o =? 3) ||
                                  match mk_assigned k with Some a => bytes_eqb (od o) a | None => false end) l
    | None => false
    end) pk.

Definition is_req (p : pkt) : bool := (pc p =? 1) || (pc p =? 5).
Definition count_timers (pk : list pkt) : N := N.of_nat (length (filter is_req pk)).

Fixpoint new_toks (n : nat) (t : N) (pend : list N) : list N :=
  match n with O => pend | S k => new_toks k (t + 1) ((t + 1) :: pend) end.

Definition terminal_n (s : N) : bool := (s <=? 3) || (s =? 9).

(* events that must take the automaton out of Opened; [lcp] = codes 7/8 are handled, [last] = the
   identifier of our most recent Configure-Request *)
Definition leaving_of (lcp : bool) (last : N) (e : ev) : bool :=
  match e with
  | EDown | EClose => true
  | ERecv d =>
      match parse_pkt d with
      | Some (c, i, data) =>
          if c =? 1 then match parse_opts data with Some _ => true | None => false end
          else if c =? 2 then i =? last
          else if (c =? 3) || (c =? 4) then
            (i =? last) && match parse_opts data with Some _ => true | None => false end
          else if (c =? 5) || (c =? 6) then true
          else if c =? 7 then lcp && match data with r :: _ => in_range 1 r 4 | [] => false end
          else if c =? 8 then lcp && match data with a :: b :: _ => be16 a b =? 49185 | _ => false end
          else false
      | None => false
      end
  | _ => false
  end.
Definition leaving (m : mon) (e : ev) : bool := leaving_of (mk_kind (m_cfg m) =? 0) (m_ourcr m) e.

Definition accept (m : mon) (e : ev) (o : out) : mon + N :=
  let k := m_cfg m in
  let pk := o_pk o in
  let req := match parsed e with
             | Some (c, i, data) => if c =? 1 then match parse_opts data with Some l => Some (i, l) | None => None end else None
             | None => None
             end in
  let we1 := match req with
             | Some (i, _) => existsb (fun p => (pc p =? 2) && (pi p =? i)) pk
             | None => m_we m
             end in
  let peer1 := match parsed e with
               | Some (c, i, _) => if (c =? 2) && (i =? m_ourcr m) then true else m_peer m
               | None => m_peer m
               end in
  let '(cr', peer') := fold_left (fun acc p => if pc p =? 1 then (pi p, false) else acc) pk (m_ourcr m, peer1) in
  let n := count_timers pk in
  let pend0 := match e with EFire t => remove1 t (m_pend m) | _ => m_pend m end in
  let pend' := new_toks (N.to_nat n) (m_tok m) pend0 in
  let tok' := m_tok m + n in
  let fresh' := o_arm o && memN tok' pend' in
  let streak' := match e with EFire _ => (m_streak m + Z.of_N n)%Z | _ => 0%Z end in
  if negb (chk_ids e pk) then inr 2
  else if negb (match req with Some (_, l) => chk_opts k (m_obs m) (o_obs o) l pk
                             | None => forallb (fun p => negb (in_range 2 (pc p) 4)) pk end) then inr 3
  else if negb (chk_assigned k pk) then inr 4
  else if (m_st m =? 9) && leaving m e && (o_st o =? 9) then inr 1
  else if (o_st o =? 9) && negb (we1 && peer') then inr 0
  else if (Z.max (mk_max k) 0 <? streak')%Z then inr 5
  else if mk_live k && negb (terminal_n (o_st o) || fresh') then inr 6
  else inl (mkmon k (o_st o) we1 peer' cr' tok' pend' streak' (o_obs o)).
