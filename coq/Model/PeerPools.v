(* C05 over a CLUSTER of pool.PeerPool nodes (pkg/pool/peer.go): every node owns a LocalPool (the
   free-list Model, Model/FreeList.v) and routes Allocate / Release by getHealthyOwner - the first node
   of the subscriber's rendezvous ranking that is this node itself or that THIS node's health map does
   not mark unhealthy (fallback: this node) - and Get by the static owner (head of the ranking).
   Forwarded calls run the owner's handleAllocate / handleRelease = allocateLocal / releaseLocal.
   The ranking of every subscriber is an input of the case (computed by the real rendezvousRanked; the
   hash itself is C17's subject); health marks are per node (its view) and change by [PHealth].
   Transport always works (an "unhealthy" mark is a view, not an outage).

   GHOST: marker 508 - a Release leaves an allocation for the subscriber on some node (it was routed,
   under the releasing node's present health view, to another node than the one that served the
   Allocate); 509 - an Allocate is served by a node while another node still holds an allocation
   for the subscriber.  [pp_live] (ghost): subscribers told an address and not released since. *)
From Coq Require Import NArith List Bool.
From Verif Require Import Model.PoolMap Model.PoolSpec Model.FreeList.
Import ListNotations.
Local Open Scope N_scope.

Record ppst := { pp_nodes : list fstate;            (* node i = nth i *)
                 pp_hv : list (N * N);              (* (n, m): node n marks node m unhealthy *)
                 pp_rank : list (N * list N);       (* subscriber -> nodes, best first *)
                 pp_live : list N }.

Definition pp_init (univs : list (list N)) (rank : list (N * list N)) : ppst :=
  {| pp_nodes := map (finit true) univs; pp_hv := []; pp_rank := rank; pp_live := [] |}.

Inductive pop :=
| PAlloc (n h : N) | PRelease (n h : N) | PGet (n h : N) | PStats (n : N)
| PHealth (n m : N) (healthy : bool).

Definition unhealthy (s : ppst) (n m : N) : bool := existsb (fun p => (fst p =? n) && (snd p =? m)) (pp_hv s).
Definition ranking (s : ppst) (h : N) : list N := match aget h (pp_rank s) with Some l => l | None => [] end.
Definition healthy_owner (s : ppst) (n h : N) : N :=
  match find (fun m => (m =? n) || negb (unhealthy s n m)) (ranking s h) with Some m => m | None => n end.
Definition static_owner (s : ppst) (h : N) : N := hd 0 (ranking s h).

Fixpoint upd_nth {A} (i : nat) (x : A) (l : list A) : list A :=
  match l, i with
  | [], _ => []
  | _ :: tl, O => x :: tl
  | y :: tl, S k => y :: upd_nth k x tl
  end.
Definition node (s : ppst) (i : N) : fstate := nth (N.to_nat i) (pp_nodes s) (finit true []).
Definition set_node (s : ppst) (i : N) (f : fstate) (live : list N) : ppst :=
  {| pp_nodes := upd_nth (N.to_nat i) f (pp_nodes s); pp_hv := pp_hv s; pp_rank := pp_rank s; pp_live := live |}.
Definition held_any (s : ppst) (h : N) : bool :=        (* some node holds something for h *)
  existsb (fun f => ahas h (f_alloc f)) (pp_nodes s).
Definition rm (h : N) (l : list N) : list N := filter (fun x => negb (x =? h)) l.

Definition pstep (s : ppst) (o : pop) : ppst * out * list N :=
  match o with
  | PAlloc n h =>
      let w := healthy_owner s n h in
      let '(f', r, _) := FreeList.step (node s w) (Alloc h) in
      let elsewhere := held_any (set_node s w (finit true []) (pp_live s)) h in   (* on a node other than w *)
      match r with
      | OUnit u => (set_node s w f' (h :: rm h (pp_live s)), OUnit u, if elsewhere then [509] else [])
      | _ => (s, OErr 1, [])
      end
  | PRelease n h =>
      let w := healthy_owner s n h in
      let '(f', _, _) := FreeList.step (node s w) (Release h) in
      let s' := set_node s w f' (rm h (pp_live s)) in
      (s', OOk, if held_any s' h then [508] else [])
  | PGet n h =>
      if static_owner s h =? n then
        match aget h (f_alloc (node s n)) with Some u => (s, OUnit u, []) | None => (s, ONone, []) end
      else (s, ONone, [])
  | PStats n =>
      let f := node s n in
      let al := asize (f_alloc f) in (s, OStats al (al + N.of_nat (length (f_avail f))) 0 0, [])
  | PHealth n m healthy =>
      let hv := filter (fun p => negb ((fst p =? n) && (snd p =? m))) (pp_hv s) in
      ({| pp_nodes := pp_nodes s; pp_hv := if healthy then hv else (n, m) :: hv; pp_rank := pp_rank s; pp_live := pp_live s |},
       OOk, [])
  end.

Definition pnext (s : ppst) (o : pop) : ppst := fst (fst (pstep s o)).
Definition prun (univs : list (list N)) (rank : list (N * list N)) (ops : list pop) : ppst :=
  fold_left pnext ops (pp_init univs rank).

(* ---- observables: the answer and, per node, who holds something there + the pool's two counts ---- *)
Definition psnap := list (list N * N * N).           (* per node: holders (sorted), allocated, available *)
Definition pout := (out * psnap)%type.
Fixpoint ins_n (x : N) (l : list N) : list N :=
  match l with [] => [x] | y :: tl => if x <=? y then x :: l else y :: ins_n x tl end.
Definition sort_n (l : list N) : list N := fold_right ins_n [] l.
Definition snap_pp (s : ppst) : psnap :=
  map (fun f => (sort_n (map fst (f_alloc f)), asize (f_alloc f), N.of_nat (length (f_avail f)))) (pp_nodes s).
Definition pstepo (s : ppst) (o : pop) : ppst * pout * list N :=
  let '(s', r, mk) := pstep s o in (s', (r, snap_pp s'), mk).

Fixpoint ln_eqb (a b : list N) : bool :=
  match a, b with [], [] => true | x :: a', y :: b' => (x =? y) && ln_eqb a' b' | _, _ => false end.
Fixpoint psnap_eqb (a b : psnap) : bool :=
  match a, b with
  | [], [] => true
  | (h1, a1, v1) :: a', (h2, a2, v2) :: b' => ln_eqb h1 h2 && (a1 =? a2) && (v1 =? v2) && psnap_eqb a' b'
  | _, _ => false
  end.
Definition pout_eqb (a b : pout) : bool := out_eqb (fst a) (fst b) && psnap_eqb (snd a) (snd b).

(* ---- Spec acceptor (C05): live holders = told an address, not released since.
     3 exhaustion answered while no node is full of live holders
     4 an allocation on some node for a subscriber that is not live (released, never told); a Release
       of a live holder refused
     5 a live holder has no allocation on any node
     6 a node's Stats differ from its pool (allocated <> #holders there, total <> allocated + available) ---- *)
Definition paccept (L : list N) (o : pop) (r : pout) : list N + N :=
  let '(ans, sn) := r in
  let upd : list N + N :=
    match o, ans with
    | PAlloc _ h, OUnit _ => inl (h :: rm h L)
    | PAlloc _ h, OErr _ =>
        if existsb (fun nd => let '(hs, al, av) := nd in (av =? 0) && forallb (fun x => memN x L) hs) sn
        then inl L else inr 3
    | PRelease _ h, OOk => inl (rm h L)
    | PRelease _ h, OErr _ => if memN h L then inr 4 else inl L
    | PGet _ h, OUnit _ => if memN h L then inl L else inr 4
    | PGet _ _, ONone => inl L
    | PStats n, OStats al tot _ _ =>
        match nth_error sn (N.to_nat n) with
        | Some (hs, a, v) => if (al =? N.of_nat (length hs)) && (al =? a) && (tot =? a + v) then inl L else inr 6
        | None => inr 9
        end
    | PHealth _ _ _, OOk => inl L
    | _, _ => inr 9
    end in
  match upd with
  | inr c => inr c
  | inl L' =>
      if negb (forallb (fun h => existsb (fun nd => memN h (fst (fst nd))) sn) L') then inr 5
      else if negb (forallb (fun nd => forallb (fun h => memN h L') (fst (fst nd))) sn) then inr 4
      else if negb (forallb (fun nd => N.of_nat (length (fst (fst nd))) =? snd (fst nd)) sn) then inr 6
      else inl L'
  end.
