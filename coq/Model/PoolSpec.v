(* Common operation alphabet of every pool implementation, and the executable Spec acceptor
   (trace monitor) for C01 and C05.

   Spec state: who holds which unit ([ss_h]: holder -> (unit, age in epochs)), and the units taken
   out of circulation by the operator/protocol ([ss_out], DHCP DECLINE).  It is a fold over the
   OBSERVED trace; the acceptor relates every answer to it, as the property texts do.

   C01 clauses                                          C05 clauses
     0 unique     a unit is never given to / reported     3 exhausted_only_if_full
                  for a second holder                     4 returns_to_circulation (release of a live
     1 in_range   every assigned unit is usable                                    holder is refused)
     2 stable     a holder that asks again (Allocate /    5 renew_protects (a live lease is refused,
                  Lookup) gets the value it holds                           lost or reported absent)
                                                          6 stats_exact
   [sc_prop] selects which property's clauses are enforced (1 or 5); the state is updated the same
   way for both. *)
From Coq Require Import NArith List Bool.
From Verif Require Import Model.PoolMap.
Import ListNotations.
Local Open Scope N_scope.

Inductive op :=
| Alloc (h : N)                 (* Allocate(holder) *)
| AllocSpec (h a pl : N)        (* AllocateSpecific(holder, address/prefix-length) *)
| SetAlloc (h a pl : N)         (* SetAllocation: re-apply a stored record (reload) *)
| Release (h : N)
| ReleaseUnit (a pl : N)        (* ReleasePrefix / dhcp.Pool.Release(ip) *)
| Renew (h : N)
| Advance                       (* AdvanceEpoch *)
| Lookup (h : N)
| LookupUnit (a pl : N)         (* LookupByPrefix / LookupByIP *)
| MarkUnavail (a pl : N)        (* dhcp.Pool.MarkUnavailable *)
| Stats
| Snap.                         (* ListAllocations, sorted by holder *)

Inductive out :=
| OUnit (u : N) | ONone | OOk
| OErr (e : N)                  (* 1 exhausted  2 not-allocated  3 already-allocated  4 out-of-range  5 other *)
| OHolder (h : N)
| OStats (al tot num den : N)   (* allocated, total, utilisation = num/den (den = 0: none reported) *)
| OSnap (l : list (N * N)).

Definition absdiff (a b : N) : N := if a <? b then b - a else a - b.
Definition ratio_close (n1 d1 n2 d2 : N) : bool :=                   (* |n1/d1 - n2/d2| <= 2^-40 *)
  if (d1 =? 0) || (d2 =? 0) then (d1 =? 0) && (d2 =? 0)
  else absdiff (n1 * d2) (n2 * d1) * 1099511627776 <=? d1 * d2.

Fixpoint pairs_eqb (a b : list (N * N)) : bool :=
  match a, b with
  | [], [] => true
  | (x, y) :: a', (x', y') :: b' => (x =? x') && (y =? y') && pairs_eqb a' b'
  | _, _ => false
  end.

Definition out_eqb (a b : out) : bool :=
  match a, b with
  | OUnit u, OUnit v => u =? v
  | ONone, ONone => true
  | OOk, OOk => true
  | OErr e, OErr f => e =? f
  | OHolder h, OHolder k => h =? k
  | OStats a1 t1 n1 d1, OStats a2 t2 n2 d2 => (a1 =? a2) && (t1 =? t2) && ratio_close n1 d1 n2 d2
  | OSnap l, OSnap m => pairs_eqb l m
  | _, _ => false
  end.

Record scfg := {
  sc_prop : N;
  sc_usable : N -> bool;              (* the unit is one of the pool's allocatable units *)
  sc_canon : N -> N -> option N;      (* the unit a caller names by (address, prefix length) *)
  sc_cap : N;                         (* number of usable units *)
  sc_grace : option N;                (* Some g: a lease not renewed for more than g epochs expires *)
  sc_scale : N                        (* utilisation unit: 100 = percent, 1 = fraction *)
}.
Record sstate := { ss_h : amap (N * N); ss_out : list N }.
Definition sinit : sstate := {| ss_h := []; ss_out := [] |}.
Definition set_h (s : sstate) (m : amap (N * N)) : sstate := {| ss_h := m; ss_out := ss_out s |}.

Definition memN (x : N) (l : list N) : bool := existsb (N.eqb x) l.
Definition other_holds (s : sstate) (h u : N) : bool :=
  existsb (fun p => (fst (snd p) =? u) && negb (fst p =? h)) (ss_h s).
Definition unit_held (s : sstate) (u : N) : bool := existsb (fun p => fst (snd p) =? u) (ss_h s).
Definition holds (s : sstate) (h : N) : bool := ahas h (ss_h s).
Definition held_unit (s : sstate) (h : N) : option N :=
  match aget h (ss_h s) with Some (u, _) => Some u | None => None end.

(* sorted snapshot (by holder) *)
Fixpoint ins_pair (x : N * N) (l : list (N * N)) : list (N * N) :=
  match l with
  | [] => [x]
  | y :: tl => if fst x <=? fst y then x :: l else y :: ins_pair x tl
  end.
Definition sort_pairs (l : list (N * N)) : list (N * N) := fold_right ins_pair [] l.
Fixpoint nodupb (l : list N) : bool :=
  match l with [] => true | x :: tl => negb (memN x tl) && nodupb tl end.

Section Accept.
  Variable c : scfg.
  Definition on (p cl : N) (ok : bool) (k : sstate + N) : sstate + N :=
    if (sc_prop c =? p) && negb ok then inr cl else k.

  Definition assign (s : sstate) (h u : N) : sstate + N :=
    on 1 0 (negb (other_holds s h u)) (
    on 1 1 (sc_usable c u && negb (memN u (ss_out s))) (
    on 1 2 (match held_unit s h with Some u0 => u0 =? u | None => true end) (
    inl (set_h s (aset h (u, 0) (ss_h s)))))).

  Definition stats_ok (s : sstate) (al tot num den : N) : bool :=
    (al =? asize (ss_h s)) && (tot =? sc_cap c - N.of_nat (length (ss_out s))) &&
    ((den =? 0) || (if tot =? 0 then num =? 0 else ratio_close num den (al * sc_scale c) tot)).

  Definition accept (s : sstate) (o : op) (r : out) : sstate + N :=
    match o, r with
    | Alloc h, OUnit u => assign s h u
    | Alloc h, OErr e =>
        on 1 2 (negb (holds s h)) (
        on 5 5 (negb (holds s h)) (
        on 5 3 (negb (e =? 1) || (sc_cap c <=? asize (ss_h s) + N.of_nat (length (ss_out s)))) (inl s)))
    | AllocSpec h a pl, OOk =>
        match sc_canon c a pl with
        | Some u => assign s h u
        | None => on 1 1 false (inl s)
        end
    | AllocSpec _ _ _, OErr _ => inl s
    | SetAlloc h a pl, OOk =>
        match sc_canon c a pl with
        | Some u =>
            on 1 0 (negb (other_holds s h u)) (
            on 1 1 (sc_usable c u && negb (memN u (ss_out s))) (
            inl (set_h s (aset h (u, 0) (ss_h s)))))
        | None => on 1 1 false (inl s)
        end
    | SetAlloc _ _ _, OErr _ => inl s
    | Release h, OOk => inl (set_h s (adel h (ss_h s)))
    | Release h, OErr _ => on 5 4 (negb (holds s h)) (inl s)
    | ReleaseUnit a pl, OOk =>
        match sc_canon c a pl with
        | Some u => inl (set_h s (filter (fun p => negb (fst (snd p) =? u)) (ss_h s)))
        | None => inl s
        end
    | ReleaseUnit a pl, OErr _ =>
        on 5 4 (match sc_canon c a pl with Some u => negb (unit_held s u) | None => true end) (inl s)
    | Renew h, OOk =>
        inl (match held_unit s h with Some u => set_h s (aset h (u, 0) (ss_h s)) | None => s end)
    | Renew h, OErr _ => on 5 5 (negb (holds s h)) (inl s)
    | Advance, OOk =>
        match sc_grace c with
        | Some g => inl (set_h s (filter (fun p => snd (snd p) <=? g)
                                         (map (fun p => (fst p, (fst (snd p), snd (snd p) + 1))) (ss_h s))))
        | None => inl s
        end
    | Lookup h, OUnit u =>
        match held_unit s h with
        | Some u0 => on 1 2 (u0 =? u) (inl s)
        | None => on 1 0 (negb (other_holds s h u)) (on 5 4 false (inl s))   (* a released / expired lease is still reported *)
        end
    | Lookup h, ONone => on 1 2 (negb (holds s h)) (on 5 5 (negb (holds s h)) (inl s))
    | LookupUnit a pl, OHolder h =>
        on 1 0 (match sc_canon c a pl, held_unit s h with Some u, Some u0 => u0 =? u | _, _ => false end) (inl s)
    | LookupUnit a pl, ONone =>
        let free := match sc_canon c a pl with Some u => negb (unit_held s u) | None => true end in
        on 1 2 free (on 5 5 free (inl s))
    | MarkUnavail a pl, OOk =>      (* the unit leaves circulation; whoever held it loses it (DHCP DECLINE) *)
        match sc_canon c a pl with
        | Some u => inl {| ss_h := filter (fun p => negb (fst (snd p) =? u)) (ss_h s);
                           ss_out := if memN u (ss_out s) then ss_out s else u :: ss_out s |}
        | None => inl s
        end
    | Stats, OStats al tot num den => on 5 6 (stats_ok s al tot num den) (inl s)
    | Snap, OSnap l =>
        on 1 0 (nodupb (map snd l)) (
        on 1 2 (pairs_eqb l (sort_pairs (map (fun p => (fst p, fst (snd p))) (ss_h s)))) (inl s))
    | _, _ => inr 9
    end.
End Accept.
