(* The Manager with a real subscriber_nat kernel map (the nil-map Manager of Model/Nat.v never
   executes the map-write path).  Two ways for a map call of the Manager to fail, both driven by the
   harness on a real kernel map:
     - the fault oracles fm of AllocF / DeallocF (Model/Nat.v): the Manager's handle is replaced by a
       dead one for the duration of that call (every map syscall of the call fails);
     - capacity: the map is a hash map of [k_max] entries and the harness may hold entries of its own
       in it (KPut / KDel: foreign keys), so that an update of a NEW key fails with E2BIG.
   AllocateNAT as coded: the existing-allocation fast path does not touch the map; otherwise pool
   entry, block, ports and the subscriber id are determined, then subscriberNAT.Put; when the Put
   fails the call returns an error BEFORE the allocation is tracked, the block reserved, the count
   incremented or the record logged -- only the subscriber id stays registered.
   DeallocateNAT as coded (after the repair K10f): the key is deleted while the allocation is still
   tracked; a failing Delete (other than "no such key") refuses the release and changes nothing.

   The Manager component of the state always moves by a base step of Model/Nat.v: [kbase] names
   the base operation (with the effective fault oracle) that a K operation amounts to. *)
From Coq Require Import ZArith NArith List Bool.
From Verif Require Import Model.Nat.
Import ListNotations.
Local Open Scope Z_scope.

Record kentry := { ke_key : Z; ke_pub : Z; ke_start : Z; ke_end : Z; ke_next : Z; ke_sid : Z;
                   ke_log2 : Z; ke_rest0 : bool }.   (* ke_rest0: every other field of the value is 0 *)

(* k_map: one entry per key, order irrelevant (compared as a set) *)
Record kstate := { k_s : state; k_max : Z; k_map : list kentry }.
Definition kinit (c : cfg) (m : logmode) (max : Z) : kstate := {| k_s := init c m; k_max := max; k_map := [] |}.

Definition kmap_mem (k : Z) (l : list kentry) : bool := existsb (fun e => ke_key e =? k) l.
Definition kmap_del (k : Z) (l : list kentry) : list kentry := filter (fun e => negb (ke_key e =? k)) l.
Definition kmap_ins (e : kentry) (l : list kentry) : list kentry := e :: kmap_del (ke_key e) l.
(* BPF_ANY update of a hash map: replaces an existing key, else needs a free slot *)
Definition kmap_room (max : Z) (k : Z) (l : list kentry) : bool :=
  kmap_mem k l || (Z.of_nat (length l) <? max).

Definition kentry_of (c : cfg) (a : alloc) : kentry :=
  {| ke_key := a_priv a; ke_pub := a_pub a; ke_start := a_start a; ke_end := a_end a; ke_next := a_start a;
     ke_sid := a_sid a; ke_log2 := Z.log2 (c_pps c) mod 256; ke_rest0 := true |}.
Definition kentry_foreign (k : Z) : kentry :=
  {| ke_key := k; ke_pub := 0; ke_start := 0; ke_end := 0; ke_next := 0; ke_sid := 0; ke_log2 := 0; ke_rest0 := true |}.

Inductive kop := KO (o : op) | KPut (k : Z) | KDel (k : Z) | KDump.
Inductive kout := KOut (r : out) | KMap (l : list kentry).

(* the base operation a Manager call amounts to on this map: an update of a new key also fails
   when the map has no room *)
Definition kbase (ks : kstate) (o : op) : op :=
  match o with
  | Alloc priv => AllocF priv (negb (kmap_room (k_max ks) priv (k_map ks))) false
  | AllocF priv fm fl => AllocF priv (fm || negb (kmap_room (k_max ks) priv (k_map ks))) fl
  | o' => o'
  end.

Definition op_priv (o : op) : option Z :=
  match o with
  | Alloc p | AllocF p _ _ | Dealloc p | DeallocF p _ _ => Some p
  | _ => None
  end.

Definition kstep (ks : kstate) (o : kop) : kstate * kout * list N :=
  let s := k_s ks in
  match o with
  | KO o0 =>
      let '(s', r, mk) := step s (kbase ks o0) in
      let m' :=
        match op_priv o0 with
        | None => k_map ks
        | Some priv =>
            match find_alloc priv (s_allocs s), find_alloc priv (s_allocs s') with
            | None, Some a => kmap_ins (kentry_of (s_cfg s) a) (k_map ks)   (* new allocation: Put succeeded *)
            | Some _, None => kmap_del priv (k_map ks)                      (* released: Delete succeeded *)
            | _, _ => k_map ks
            end
        end in
      ({| k_s := s'; k_max := k_max ks; k_map := m' |}, KOut r, mk)
  | KPut k =>
      if kmap_room (k_max ks) k (k_map ks)
      then ({| k_s := s; k_max := k_max ks; k_map := kmap_ins (kentry_foreign k) (k_map ks) |}, KOut (mk_out RNone []), [])
      else (ks, KOut (mk_out (RErr 3) []), [])
  | KDel k => ({| k_s := s; k_max := k_max ks; k_map := kmap_del k (k_map ks) |}, KOut (mk_out RNone []), [])
  | KDump => (ks, KMap (k_map ks), [])
  end.

Definition kentry_eqb (a b : kentry) : bool :=
  (ke_key a =? ke_key b) && (ke_pub a =? ke_pub b) && (ke_start a =? ke_start b) && (ke_end a =? ke_end b) &&
  (ke_next a =? ke_next b) && (ke_sid a =? ke_sid b) && (ke_log2 a =? ke_log2 b) && Bool.eqb (ke_rest0 a) (ke_rest0 b).
(* map contents are compared as sets (both sides hold one entry per key) *)
Definition kmap_eqb (x y : list kentry) : bool :=
  Nat.eqb (length x) (length y) && forallb (fun e => existsb (kentry_eqb e) y) x &&
  forallb (fun e => existsb (kentry_eqb e) x) y.
Definition kout_eqb (a b : kout) : bool :=
  match a, b with
  | KOut x, KOut y => out_eqb x y
  | KMap x, KMap y => kmap_eqb x y
  | _, _ => false
  end.

Definition krun (ks : kstate) (ops : list kop) : kstate :=
  fold_left (fun st o => fst (fst (kstep st o))) ops ks.
