(* C07 Spec: what one run of a kernel program may look like, as an executable acceptor over
   OBSERVATIONS (of the native / kernel execution, or of the Model).

     clause 0  no fault: no access outside [data, data_end)
     clause 1  the program terminated with a verdict defined for its hook
     clause 2  a pass verdict (XDP_PASS / TC_ACT_OK) leaves the frame as it was given, unless the
               frame is one the program is specified to act on ([act]):
                 antispoof      a packet of a bound subscriber (source MAC in subscriber_bindings)
                 qos            an IPv4 packet whose subscriber address has a token bucket
                 nat egress     IPv4, subscriber_nat entry for the source, TCP/UDP/ICMP
                 nat ingress    the reverse table has the flow
                 nat hairpin    (none: the XDP program only counts)
                 dhcp           (none: a request answered from the cache leaves with XDP_TX; whatever
                                 is passed up must still be the request)                          *)
From Coq Require Import NArith List Bool.
From Verif Require Import Base.Word Model.PktMonad Model.TcAntispoofPkt Model.TcQosPkt Model.TcNatPkt Model.XdpDhcpPkt.
Import ListNotations.
Local Open Scope N_scope.

(* program ids (shared with harness/c07) *)
Definition P_ANTISPOOF : N := 1.
Definition P_QOS_EGRESS : N := 2.
Definition P_QOS_INGRESS : N := 3.
Definition P_NAT_EGRESS : N := 4.
Definition P_NAT_INGRESS : N := 5.
Definition P_NAT_HAIRPIN : N := 6.
Definition P_DHCP : N := 7.

Definition prog_of (p : N) (mp : maps) (e : env) : M N :=
  if p =? P_ANTISPOOF then antispoof_ingress mp
  else if p =? P_QOS_EGRESS then qos_egress_prog mp e
  else if p =? P_QOS_INGRESS then qos_ingress_prog mp e
  else if p =? P_NAT_EGRESS then nat44_egress mp
  else if p =? P_NAT_INGRESS then nat44_ingress mp
  else if p =? P_NAT_HAIRPIN then nat44_hairpin_xdp mp
  else dhcp_fastpath_prog mp e.

Definition is_xdp (p : N) : bool := (p =? P_NAT_HAIRPIN) || (p =? P_DHCP).
Definition is_pass (p v : N) : bool := if is_xdp p then v =? XDP_PASS else v =? TC_ACT_OK.
(* XDP_ABORTED..XDP_REDIRECT = 0..4;  TC_ACT_OK..TC_ACT_TRAP = 0..8 and TC_ACT_UNSPEC = (u32)-1 *)
Definition defined_verdict (p v : N) : bool :=
  if is_xdp p then v <=? 4 else (v <=? 8) || (v =? 4294967295).

Definition act (p : N) (mp : maps) (f : frame) : bool :=
  if p =? P_ANTISPOOF then act_antispoof mp f
  else if p =? P_QOS_EGRESS then act_qos false mp f
  else if p =? P_QOS_INGRESS then act_qos true mp f
  else if p =? P_NAT_EGRESS then act_nat_egress mp f
  else if p =? P_NAT_INGRESS then act_nat_ingress mp f
  else false.

(* ---- observations *)
Record obs := { o_fault : bool; o_verdict : N; o_len : N; o_diff : list (N * N) }.

(* positions of f' that are new or differ from f, with their new value *)
Fixpoint diff_from (i : N) (f f' : frame) : list (N * N) :=
  match f', f with
  | [], _ => []
  | b' :: t', [] => (i, b') :: diff_from (i + 1) [] t'
  | b' :: t', b :: t => if b =? b' then diff_from (i + 1) t t' else (i, b') :: diff_from (i + 1) t t'
  end.

Definition obs_of (f : frame) (o : outcome) : obs :=
  match o with
  | Fault => {| o_fault := true; o_verdict := 0; o_len := 0; o_diff := [] |}
  | Done v f' => {| o_fault := false; o_verdict := v; o_len := flen f'; o_diff := diff_from 0 f f' |}
  end.

Definition unchanged (f : frame) (o : obs) : bool :=
  (o_len o =? flen f) && match o_diff o with [] => true | _ => false end.

Definition accept_obs (p : N) (mp : maps) (f : frame) (o : obs) : unit + N :=
  if o_fault o then inr 0
  else if negb (defined_verdict p (o_verdict o)) then inr 1
  else if is_pass p (o_verdict o) && negb (unchanged f o) && negb (act p mp f) then inr 2
  else inl tt.

Fixpoint pair_list_eqb (a b : list (N * N)) : bool :=
  match a, b with
  | [], [] => true
  | (x, y) :: a', (x', y') :: b' => (x =? x') && (y =? y') && pair_list_eqb a' b'
  | _, _ => false
  end.
Definition obs_eqb (a b : obs) : bool :=
  if o_fault a || o_fault b then Bool.eqb (o_fault a) (o_fault b)
  else (o_verdict a =? o_verdict b) && (o_len a =? o_len b) && pair_list_eqb (o_diff a) (o_diff b).

(* ghost markers: 703 = XDP_PASS of a frame the DHCP fast path had already rewritten (the only way
   left after /repo c10bfec: bpf_xdp_adjust_tail refusing the new length) *)
Definition markers_of (p : N) (f : frame) (o : obs) : list N :=
  if (p =? P_DHCP) && negb (o_fault o) && is_pass p (o_verdict o) && negb (unchanged f o) then [703] else [].
