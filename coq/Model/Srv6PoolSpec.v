(* Executable Spec acceptor (trace monitor) of C05 - and the C01 clauses - for a DHCPv6 server:
   the pools judged against the LIVE SUBSCRIBERS, which exist only at the level of the server.

   Spec state = what the clients were told, a fold over the OBSERVED replies: per pool
   holder (DUID) -> (unit, until when the lifetimes last sent for it run, bound?).
     Reply carrying an IA value      -> the client holds the unit until now + valid lifetime (bound)
     Advertise carrying an IA value  -> a tentative holding for the same time (the Advertise carries the
                                        same lifetimes; the client may still Request it) - the server may
                                        or may not reserve the unit, both are accepted
     Release / Decline answered      -> the client holds nothing any more
     time passing beyond "until"     -> the holding has expired: the client is no longer a live subscriber
   After EVERY message the snapshot of the server (lease table, both pools' allocated maps and free lists)
   is compared with it.  Clauses (numbers as in Model/PoolSpec.v):

     C05  3 exhausted_only_if_full   NoAddrsAvail / NoPrefixAvail (or an Advertise without the IA) while
                                     #live holders (+ declined units nobody holds) < #units of the pool
          4 returns_to_circulation   a unit is marked allocated in a pool - or recorded in a lease - for a
                                     DUID that is not a live holder of it (released, declined, expired, never
                                     told); a unit of the pool is neither free nor allocated; a Release /
                                     Decline of a live holder is not answered
          5 renew_protects           a live bound holder is missing from the pool or the lease table, is
                                     answered NoBinding / NoAddrsAvail, or is given another unit
          6 stats_exact              #allocated of a pool <> #live holders the pool can name
     C01  0 unique    a unit is told to a client while another live holder has it; a pool's allocated map
                      or its allocated map + free list contain a unit twice
          1 in_range  a unit told / allocated is not one of the pool's units
          2 stable    a live holder is told another unit than the one it holds
     9 malformed trace (a reply shape the message cannot have). *)
From Coq Require Import NArith List Bool.
From Verif Require Import Model.PoolMap Model.PoolSpec Model.Srv6Pool.
Import ListNotations.
Local Open Scope N_scope.

Record hold := { h_u : N; h_until : N; h_bound : bool }.
Record m6 := { m_a : amap hold; m_p : amap hold; m_now : N; m_da : list N; m_dp : list N }.
Definition m6_init : m6 := {| m_a := []; m_p := []; m_now := 0; m_da := []; m_dp := [] |}.

Definition live (now : N) (m : amap hold) : amap hold := filter (fun p => now <=? h_until (snd p)) m.
Definition unit_live (m : amap hold) (u : N) : bool := existsb (fun p => h_u (snd p) =? u) m.
Definition other_has (m : amap hold) (d u : N) : bool :=
  existsb (fun p => (h_u (snd p) =? u) && negb (fst p =? d)) m.

Section Pool.
  Variables (prop : N) (univ : list N) (valid now : N).
  Let cap := N.of_nat (length univ).

  (* exhaustion is justified: every unit is held by a live holder or was declined and is not held *)
  Definition full (m : amap hold) (decl : list N) : bool :=
    cap <=? asize m + N.of_nat (length (filter (fun u => negb (unit_live m u)) decl)).

  (* one IA of a reply. [has]: the pool is configured; [asked]: the message carried the IA;
     [isrep]: Reply (binding) or Advertise (tentative) *)
  Definition upd_ia (has asked isrep : bool) (m : amap hold) (decl : list N) (d : N) (r : xia) : amap hold + N :=
    if negb (asked && has) then match r with XaNone => inl m | _ => inr 9 end else
    let cur := aget d m in
    match r with
    | XaVal u =>
        if (prop =? 1) && other_has m d u then inr 0
        else if (prop =? 1) && negb (memN u univ) then inr 1
        else match cur with
             | Some h =>
                 if h_u h =? u then inl (aset d {| h_u := u; h_until := now + valid; h_bound := isrep || h_bound h |} m)
                 else if prop =? 1 then inr 2
                 else if h_bound h then inr 5
                 else inl (aset d {| h_u := u; h_until := now + valid; h_bound := isrep |} m)
             | None => inl (aset d {| h_u := u; h_until := now + valid; h_bound := isrep |} m)
             end
    | XaErr _ | XaNone =>
        match r, isrep with
        | XaNone, true => inr 9
        | XaErr _, false => inr 9
        | _, _ =>
          if prop =? 1 then match cur with Some _ => inr 2 | None => inl m end
          else match cur with
               | Some h => if h_bound h then inr 5 else if full m decl then inl m else inr 3
               | None => if full m decl then inl m else inr 3
               end
        end
    end.

  (* the pool's part of the snapshot against the live holders.
     [al] allocated map, [av] free list, [lf] the lease table's field for this pool (unit + 1 or 0) *)
  Definition post_pool (m : amap hold) (decl : list N) (al : list (N * N)) (av : list N) (lf : list (N * N)) : option N :=
    if prop =? 1 then
      if negb (nodupb (map snd al ++ av)) then Some 0
      else if negb (forallb (fun p => memN (snd p) univ) al) then Some 1
      else None
    else
      if negb (forallb (fun p => negb (h_bound (snd p)) ||
                                 (match aget (fst p) al with Some u => u =? h_u (snd p) | None => false end &&
                                  match aget (fst p) lf with Some x => x =? h_u (snd p) + 1 | None => false end)) m)
      then Some 5
      else if negb (forallb (fun p => match aget (fst p) m with Some h => h_u h =? snd p | None => false end) al)
      then Some 4
      else if negb (forallb (fun p => (snd p =? 0) ||
                                      match aget (fst p) m with Some h => (h_u h + 1 =? snd p) && h_bound h | None => false end) lf)
      then Some 4
      else if negb (forallb (fun u => memN u av || existsb (fun p => snd p =? u) al || memN u decl) univ)
      then Some 4
      else if negb (N.of_nat (length al) =? N.of_nat (length (filter (fun p => h_bound (snd p) || ahas (fst p) al) m)))
      then Some 6
      else None.
End Pool.

Definition drop_holder (m : amap hold) (d : N) : amap hold := adel d m.
Definition add_decl (m : amap hold) (d : N) (decl : list N) : list N :=
  match aget d m with Some h => if memN (h_u h) decl then decl else h_u h :: decl | None => decl end.

Definition accept6 (prop : N) (k : k6) (s : m6) (msg : msg6) (o : out6) : m6 + N :=
  let '(r, sn) := o in
  let now := match msg with MTick t => m_now s + t | _ => m_now s end in
  let la := live now (m_a s) in
  let lp := live now (m_p s) in
  let upd (d : N) (na pd isrep : bool) (ra rp : xia) : m6 + N :=
    match upd_ia prop (k_ua k) (k_valid k) now (k_hasA k) na isrep la (m_da s) d ra with
    | inr c => inr c
    | inl la' =>
        match upd_ia prop (k_up k) (k_valid k) now (k_hasP k) pd isrep lp (m_dp s) d rp with
        | inr c => inr c
        | inl lp' => inl {| m_a := la'; m_p := lp'; m_now := now; m_da := m_da s; m_dp := m_dp s |}
        end
    end in
  let same : m6 + N := inl {| m_a := la; m_p := lp; m_now := now; m_da := m_da s; m_dp := m_dp s |} in
  let gone (d : N) (decl : bool) : m6 + N :=
    match r with
    | P6Status 0 =>
        inl {| m_a := drop_holder la d; m_p := drop_holder lp d; m_now := now;
               m_da := if decl then add_decl la d (m_da s) else m_da s;
               m_dp := if decl then add_decl lp d (m_dp s) else m_dp s |}
    | _ => if (prop =? 5) && (ahas d la || ahas d lp) then inr 4 else same
    end in
  let s1 : m6 + N :=
    match msg, r with
    | MSolicit d false na pd, P6Adv ra rp => upd d na pd false ra rp
    | MSolicit d true na pd, P6Reply ra rp true => upd d na pd true ra rp
    | MRequest d true na pd, P6Reply ra rp false => upd d na pd true ra rp
    | MRequest d false _ _, P6None => same
    | MRenew d _ na pd, P6Reply ra rp false => upd d na pd true ra rp
    | MRenew d _ _ _, P6Status 3 =>
        let bound (m : amap hold) := match aget d m with Some h => h_bound h | None => false end in
        if (prop =? 5) && (bound la || bound lp) then inr 5 else same
    | MRelease d, _ => gone d false
    | MDecline d, _ => gone d true
    | MTick _, P6None => same
    | _, _ => inr 9
    end in
  match s1 with
  | inr c => inr c
  | inl s' =>
      let lfa := map (fun p => (fst p, fst (snd p))) (n_leases sn) in
      let lfp := map (fun p => (fst p, snd (snd p))) (n_leases sn) in
      match (if k_hasA k then post_pool prop (k_ua k) (m_a s') (m_da s') (n_aal sn) (n_aav sn) lfa else None) with
      | Some c => inr c
      | None =>
          match (if k_hasP k then post_pool prop (k_up k) (m_p s') (m_dp s') (n_pal sn) (n_pav sn) lfp else None) with
          | Some c => inr c
          | None => inl s'
          end
      end
  end.
