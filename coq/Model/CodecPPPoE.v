(* C09 — Model of the PPPoE decoders and of the server's frame glue (pkg/pppoe/protocol.go,
   server.go handleDiscovery/handleSession/handleLCP/handlePAP/handleIPCP, teardown.go ParsePADT,
   keepalive.go ParseEchoPacket, session.go CreateSession), as the code stands after the C09 fix
   commits.  Every index / slice expression of the Go code goes through [idx]/[sub]/[be16], which
   can [Panic]; every loop has fuel (out of fuel = [Hang]) and counts its iterations. *)
From Coq Require Import ZArith NArith List Lia ZifyN ZifyNat ZifyBool Bool.
From Verif Require Import Model.CodecBase.
Import ListNotations.
Local Open Scope N_scope.

(* ---- ParsePPPoEHeader *)
Definition parse_header (d : bytes) : res (N * N * N * N) :=
  if lenN d <? 6 then Err else
  v <- idx d 0 ;; c <- idx d 1 ;; sid <- be16 d 2 ;; ln <- be16 d 4 ;; Ok (v, c, sid, ln).

Definition ser_header (v c sid ln : N) : bytes := [v; c] ++ put16 sid ++ put16 ln.

(* ---- 16-bit type / 16-bit length TLV loop: ParseTags (eol = true: type 0 stops) and dhcpv6.ParseOptions *)
Fixpoint tlv16_loop (eol : bool) (fuel : nat) (d : bytes) (off : N) (acc : rows) (steps : N) : res rows * N :=
  if off + 4 <=? lenN d then
    match fuel with
    | O => (Hang, steps)
    | S f =>
        match be16 d off, be16 d (off + 2) with
        | Ok ty, Ok ln =>
            if eol && (ty =? 0) then (Ok (rev acc), steps)
            else if lenN d <? off + 4 + ln then (Err, steps)
            else match sub0 d (off + 4) (off + 4 + ln) with
                 | Ok v => tlv16_loop eol f d (off + 4 + ln) ((ty :: ln :: v) :: acc) (steps + 1)
                 | _ => (Panic, steps)
                 end
        | _, _ => (Panic, steps)
        end
    end
  else (Ok (rev acc), steps).

Definition tlv16 (eol : bool) (d : bytes) : res rows * N := tlv16_loop eol (S (length d)) d 0 [] 0.
Definition parse_tags (d : bytes) : res rows := fst (tlv16 true d).
Definition parse_tags_steps (d : bytes) : N := snd (tlv16 true d).

(* SerializeTags: a tag is (type, value) *)
Fixpoint ser_tlv16 (ts : list (N * bytes)) : bytes :=
  match ts with
  | [] => []
  | (ty, v) :: tl => put16 ty ++ put16 (lenN v) ++ v ++ ser_tlv16 tl
  end.
Definition tlv_rows (ts : list (N * bytes)) : rows := map (fun t => fst t :: lenN (snd t) :: snd t) ts.

Definition find_tag (t : rows) (ty : N) : option bytes :=
  match find (fun r => match r with h :: _ => h =? ty | [] => false end) t with
  | Some r => Some (skipn 2 r)
  | None => None
  end.

(* ---- ParseLCPPacket *)
Definition parse_lcp_packet (d : bytes) : res (N * N * N * bytes) :=
  if lenN d <? 4 then Err else
  c <- idx d 0 ;; i <- idx d 1 ;; ln <- be16 d 2 ;;
  if lenN d <? ln then Err else
  if 4 <? ln then (v <- sub0 d 4 ln ;; Ok (c, i, ln, v)) else Ok (c, i, ln, []).

Definition ser_lcp_packet (c i : N) (data : bytes) : bytes := [c; i] ++ put16 (4 + lenN data) ++ data.

(* ---- ParseLCPOptions *)
Fixpoint lcpopt_loop (fuel : nat) (d : bytes) (off : N) (acc : rows) (steps : N) : res rows * N :=
  if off + 2 <=? lenN d then
    match fuel with
    | O => (Hang, steps)
    | S f =>
        match idx d off, idx d (off + 1) with
        | Ok ty, Ok ln =>
            if ln <? 2 then (Err, steps)
            else if lenN d <? off + ln then (Err, steps)
            else match (if 2 <? ln then sub0 d (off + 2) (off + ln) else Ok []) with
                 | Ok v => lcpopt_loop f d (off + ln) ((ty :: ln :: v) :: acc) (steps + 1)
                 | _ => (Panic, steps)
                 end
        | _, _ => (Panic, steps)
        end
    end
  else (Ok (rev acc), steps).

Definition lcpopts (d : bytes) : res rows * N := lcpopt_loop (S (length d)) d 0 [] 0.
Definition parse_lcp_options (d : bytes) : res rows := fst (lcpopts d).
Definition parse_lcp_options_steps (d : bytes) : N := snd (lcpopts d).

Fixpoint ser_lcp_options (os : list (N * bytes)) : bytes :=
  match os with
  | [] => []
  | (ty, v) :: tl => [ty; (2 + lenN v) mod 256] ++ v ++ ser_lcp_options tl
  end.
Definition lcpopt_rows (os : list (N * bytes)) : rows := map (fun t => fst t :: (2 + lenN (snd t)) :: snd t) os.

(* ---- ParsePADT (teardown.go) on a slice with spare capacity [tail] *)
Definition parse_padt (d tail : bytes) : res rows :=
  h <- parse_header d ;;
  let '(_, c, sid, ln) := h in
  if negb (c =? 167) then Ok [[0]] else
  if 6 <? lenN d then
    if lenN d - 6 <? ln then Err else
    p <- sub d tail 6 (6 + ln) ;; t <- parse_tags p ;; Ok ([sid] :: t)
  else Ok [[sid]].

(* ---- ParseEchoPacket (keepalive.go) *)
Definition parse_echo (d : bytes) : res rows :=
  if lenN d <? 4 then Ok [[0]; []] else
  m <- be32 d 0 ;;
  p <- (if 4 <? lenN d then from d 4 else Ok []) ;;
  Ok [[m]; p].

(* ---- server.go handleDiscovery; [sid_live] = id of the one live session (0: none).
   Result: one row per discovery frame sent (code; session id; number of tags; Host-Uniq value)
   and a last row holding the number of live sessions afterwards. *)
Definition svc_name : bytes := [105; 110; 116; 101; 114; 110; 101; 116].   (* "internet" *)

Definition handle_discovery (sid_live : N) (d tail : bytes) : res rows :=
  let count := if sid_live =? 0 then 0 else 1 in
  if lenN d <? 6 then Ok [[count]] else
  h <- parse_header d ;;
  let '(_, c, sid, ln) := h in
  if lenN d - 6 <? ln then Ok [[count]] else
  p <- sub d tail 6 (6 + ln) ;;
  match parse_tags p with
  | Err => Ok [[count]]
  | Panic => Panic
  | Hang => Hang
  | Ok tags =>
      let hu := find_tag tags 259 in
      let hub := match hu with Some v => v | None => [] end in
      let hun := match hu with Some _ => 1 | None => 0 end in
      if c =? 9 then
        let pado := Ok [[7; 0; 3 + hun] ++ hub; [count]] in
        match find_tag tags 257 with
        | Some v => if (0 <? lenN v) && negb (bytes_eqb v svc_name) then Ok [[count]] else pado
        | None => pado
        end
      else if c =? 25 then
        match find_tag tags 260 with
        | None => Ok [[count]]
        | Some _ => Ok [[101; sid_live + 1; 1 + hun] ++ hub; [count + 1]]
        end
      else if c =? 167 then
        Ok [[if negb (sid_live =? 0) && (sid =? sid_live) then 0 else count]]
      else Ok [[count]]
  end.

(* ---- server.go handleSession and the per-protocol handlers it calls; the frame comes from the
   MAC that owns the session; [authed] = the session passed PAP before (no RADIUS client, no
   address pool, no DNS configured: the harness' configuration) *)
Definition login_ok : bytes := [8; 76; 111; 103; 105; 110; 32; 79; 75].   (* len, "Login OK" *)

Definition srv_lcp (count : N) (p : bytes) : res rows :=
  match parse_lcp_packet p with
  | Err => Ok [[count]]
  | Panic => Panic
  | Hang => Hang
  | Ok (c, i, _, data) =>
      if c =? 1 then
        match parse_lcp_options data with
        | Err => Ok [[count]]
        | Panic => Panic
        | Hang => Hang
        | Ok _ => Ok [[49185; 2; i] ++ data; [count]]
        end
      else if c =? 3 then Ok [[49185; 1; 0]; [count]]
      else if c =? 9 then Ok [[49185; 10; i]; [count]]
      else if c =? 5 then Ok [[49185; 6; i]; [count - 1]]
      else Ok [[count]]
  end.

Definition srv_pap (count : N) (p : bytes) : res rows :=
  if lenN p <? 4 then Ok [[count]] else
  c <- idx p 0 ;; i <- idx p 1 ;;
  if negb (c =? 1) then Ok [[count]] else
  if lenN p <? 6 then Ok [[count]] else
  ul <- idx p 4 ;;
  if lenN p <? 5 + ul + 1 then Ok [[count]] else
  _ <- sub0 p 5 (5 + ul) ;;
  pl <- idx p (5 + ul) ;;
  if lenN p <? 6 + ul + pl then Ok [[count]] else
  _ <- sub0 p (6 + ul) (6 + ul + pl) ;;
  Ok [[49187; 2; i] ++ login_ok; [count]].

Definition srv_ipcp (authed count : N) (p : bytes) : res rows :=
  if authed =? 0 then Ok [[count]] else   (* NCP packets before authentication are discarded *)
  match parse_lcp_packet p with
  | Err => Ok [[count]]
  | Panic => Panic
  | Hang => Hang
  | Ok (c, i, _, data) =>
      if c =? 1 then
        match parse_lcp_options data with
        | Err => Ok [[count]]
        | Panic => Panic
        | Hang => Hang
        | Ok _ => Ok [[32801; 2; i] ++ data; [count]]
        end
      else Ok [[count]]
  end.

Definition handle_session (sid_live authed : N) (d tail : bytes) : res rows :=
  let count := if sid_live =? 0 then 0 else 1 in
  if lenN d <? 8 then Ok [[count]] else
  h <- parse_header d ;;
  let '(_, _, sid, ln) := h in
  if (ln <? 2) || (lenN d - 6 <? ln) then Ok [[count]] else
  if (sid_live =? 0) || negb (sid =? sid_live) then Ok [[count]] else
  proto <- be16 d 6 ;;
  p <- sub d tail 8 (6 + ln) ;;
  if proto =? 49185 then srv_lcp count p
  else if proto =? 49187 then srv_pap count p
  else if proto =? 32801 then srv_ipcp authed count p
  else Ok [[count]].

(* ---- session.go CreateSession: [used] = live ids, [count] = len(m.sessions), [next] = m.nextID *)
Definition next_id (n : N) : N := let n1 := (n + 1) mod 65536 in if n1 =? 0 then 1 else n1.

Fixpoint scan_id (fuel : nat) (used : N -> bool) (next : N) (steps : N) : res N * N :=
  if negb (used next) then (Ok next, steps) else
  match fuel with
  | O => (Hang, steps)
  | S f => scan_id f used (next_id next) (steps + 1)
  end.

Definition id_fuel : nat := N.to_nat 65537.

Definition create_session (used : N -> bool) (count next : N) : res (N * N) :=
  if 65535 <=? count then Err else
  id <- fst (scan_id id_fuel used next 0) ;; Ok (id, next_id id).

(* n successive CreateSession calls on one table (a PADR flood after the table was filled to a
   boundary).  One row per attempt: [1; id; cursor afterwards] or [0] when refused (table full). *)
Fixpoint create_seq (n : nat) (used : N -> bool) (count next : N) : res rows :=
  match n with
  | O => Ok []
  | S n' =>
      match create_session used count next with
      | Ok (id, nx) =>
          r <- create_seq n' (fun x => (x =? id) || used x) (count + 1) nx ;; Ok ([1; id; nx] :: r)
      | Err => r <- create_seq n' used count next ;; Ok ([0] :: r)
      | Panic => Panic
      | Hang => Hang
      end
  end.
