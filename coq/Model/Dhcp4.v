(* Model of pkg/dhcp/server.go (handleDHCP and its handlers, cleanupExpiredLeases) together with the
   dhcp.Pool of pkg/dhcp/pool.go it allocates from, as coded (after the two C02 fix commits:
   Pool.Reserve in handleRequest, MarkUnavailable dropping the allocation + handleDecline cleaning
   the circuit-ID index; and after fix c878197: a renewal from another circuit drops the old
   circuit-id's index entry).

   Configuration modelled: one local pool (PoolManager.ClassifyClient always returns the default
   pool), RADIUS authentication off, no Nexus client / HTTP allocator / peer pool, loader present
   but with no maps (its calls only fail and are logged).  Those branches are NOT modelled.

   MACs, IPv4 addresses and circuit-ids are numbers (the harness interns them); 0 is "no
   circuit-id" and the unspecified address 0.0.0.0.  Time is in seconds.

   Time: a model instant t stands for a clock reading in (t, t+1): the server reads a strictly
   increasing clock, so a reading never equals an expiry computed from an earlier reading;
   time.Now().Before(exp) is [now <? exp] and now.After(exp) is [exp <=? now].

   Ghost marker 0201: the MAC has no lease, and a lease object found through the circuit-ID index
   (another MAC's lease, or a stale object no longer in the lease table) is used as "the client's
   existing lease" (OFFER in handleDiscover, ACK + a second lease entry in handleRequest). *)
From Coq Require Import NArith List Bool.
Import ListNotations.
Local Open Scope N_scope.

(* ---- association lists keyed by N (Go maps; order never reaches behaviour) ---- *)
Fixpoint alookup {A} (k : N) (l : list (N * A)) : option A :=
  match l with
  | [] => None
  | (k', v) :: tl => if k' =? k then Some v else alookup k tl
  end.
Definition aremove {A} (k : N) (l : list (N * A)) : list (N * A) :=
  filter (fun p => negb (fst p =? k)) l.
Definition aset {A} (k : N) (v : A) (l : list (N * A)) : list (N * A) := (k, v) :: aremove k l.

Definition memN (x : N) (l : list N) : bool := existsb (N.eqb x) l.
Fixpoint remove1 (x : N) (l : list N) : list N :=
  match l with
  | [] => []
  | y :: tl => if y =? x then tl else y :: remove1 x tl
  end.

(* ---- the free-list pool shared by dhcp.Pool and the two dhcpv6 pools ---- *)
(* Allocate(holder): the holder's value if it has one, else pop the head of the free list *)
Definition pool_alloc (h : N) (alloc : list (N * N)) (avail : list N)
  : option (N * list (N * N) * list N) :=
  match alookup h alloc with
  | Some v => Some (v, alloc, avail)
  | None => match avail with
            | [] => None
            | v :: tl => Some (v, (h, v) :: alloc, tl)
            end
  end.

(* ---- configuration ---- *)
Record cfg4 := { c_net : N;      (* network address *)
                 c_size : N;     (* number of addresses of the CIDR (2^hostbits) *)
                 c_gw : N;       (* gateway *)
                 c_lt : N }.     (* lease time, seconds *)

Definition contains4 (c : cfg4) (ip : N) : bool := (c_net c <=? ip) && (ip <? c_net c + c_size c).
(* not network, not broadcast, not gateway, inside the CIDR *)
Definition usable4 (c : cfg4) (ip : N) : bool :=
  (c_net c <? ip) && (ip + 1 <? c_net c + c_size c) && negb (ip =? c_gw c).
(* generateAvailableIPs with no reserved ranges: hosts 1 .. size-2 in order, gateway skipped.
   (aligned base, no byte carry: the byte-wise add of the code is C01's subject) *)
Definition init_avail (c : cfg4) : list N :=
  filter (fun ip => negb (ip =? c_gw c))
         (map (fun i => c_net c + N.of_nat i) (seq 1 (N.to_nat (c_size c) - 2))).

(* ---- state ---- *)
Record lease4 := { l_mac : N; l_ip : N; l_exp : N; l_cid : N }.
Record state4 := { leases : list (N * lease4);     (* Server.leases : MAC -> *Lease *)
                   cidx : list (N * lease4);       (* Server.leasesByCircuitID *)
                   alloc : list (N * N);           (* Pool.allocated : MAC -> IP *)
                   avail : list N;                 (* Pool.available *)
                   unavail : list N;               (* Pool.unavailable *)
                   now : N }.

Definition init4 (c : cfg4) : state4 :=
  {| leases := []; cidx := []; alloc := []; avail := init_avail c; unavail := []; now := 0 |}.

(* ---- messages ---- *)
Record msg4 := { m_mac : N;
                 m_req : option N;   (* option 50 *)
                 m_ci : N;           (* ciaddr *)
                 m_relay : bool;     (* giaddr <> 0 *)
                 m_cid : N }.        (* option 82 circuit-id, 0 = no option 82 *)

Inductive op4 :=
| Discover (m : msg4) | Request (m : msg4) | Release (m : msg4) | Decline (m : msg4) | Inform (m : msg4)
| Advance (d : N)                   (* time passes *)
| Cleanup (order : list N).         (* one cleanupExpiredLeases; [order] = Go map iteration order (oracle) *)

Inductive reply4 := RNone | ROffer (ip : N) | RAck (ip : N) | RNak | RInformAck.

(* requestedIP of handleRequest *)
Definition requested (m : msg4) : N :=
  match m_req m with
  | Some r => if r =? 0 then m_ci m else r
  | None => m_ci m
  end.

(* existingLease of handleDiscover / handleRequest; the flag says "found through the circuit index" *)
Definition existing (s : state4) (m : msg4) : option (lease4 * bool) :=
  match alookup (m_mac m) (leases s) with
  | Some l => Some (l, false)
  | None => if m_relay m && negb (m_cid m =? 0)
            then match alookup (m_cid m) (cidx s) with Some l => Some (l, true) | None => None end
            else None
  end.

Definition mark (m : msg4) (e : lease4 * bool) : list N :=
  if snd e then [201] else [].

(* Pool.Release(ip): the (unique) holder of ip loses it, ip goes to the end of the free list *)
Fixpoint drop_first_val (ip : N) (a : list (N * N)) : option (list (N * N)) :=
  match a with
  | [] => None
  | (h, v) :: tl => if v =? ip then Some tl
                    else match drop_first_val ip tl with Some tl' => Some ((h, v) :: tl') | None => None end
  end.
Definition pool_release (s : state4) (ip : N) : state4 :=
  match drop_first_val ip (alloc s) with
  | Some a' => {| leases := leases s; cidx := cidx s; alloc := a'; avail := avail s ++ [ip];
                  unavail := unavail s; now := now s |}
  | None => s
  end.

(* Pool.Reserve(mac, ip) *)
Definition pool_reserve (s : state4) (mac ip : N) : option state4 :=
  match alookup mac (alloc s) with
  | Some cur => if cur =? ip then Some s else None
  | None => if memN ip (avail s)
            then Some {| leases := leases s; cidx := cidx s; alloc := (mac, ip) :: alloc s;
                         avail := remove1 ip (avail s); unavail := unavail s; now := now s |}
            else None
  end.

(* Pool.MarkUnavailable(ip) *)
Definition pool_mark (s : state4) (ip : N) : state4 :=
  {| leases := leases s; cidx := cidx s;
     alloc := filter (fun p => negb (snd p =? ip)) (alloc s);
     avail := remove1 ip (avail s);
     unavail := if memN ip (unavail s) then unavail s else ip :: unavail s;
     now := now s |}.

Definition drop_lease (s : state4) (mac : N) (l : lease4) : state4 :=
  {| leases := aremove mac (leases s);
     cidx := if l_cid l =? 0 then cidx s else aremove (l_cid l) (cidx s);
     alloc := alloc s; avail := avail s; unavail := unavail s; now := now s |}.

Definition expire_one (s : state4) (mac : N) : state4 :=
  match alookup mac (leases s) with
  | Some l => if l_exp l <=? now s then pool_release (drop_lease s mac l) (l_ip l) else s
  | None => s
  end.

Definition lease4_eqb (a b : lease4) : bool :=
  (l_mac a =? l_mac b) && (l_ip a =? l_ip b) && (l_exp a =? l_exp b) && (l_cid a =? l_cid b).

(* dropCircuitIDBindings(old) (fix c878197): when the renewed lease records another circuit-id than
   the lease it replaces, the index entry of the old circuit-id goes, provided it still points at
   the replaced lease object.  Pointer identity of the code is value equality here: two distinct
   lease objects with equal fields (same MAC, same instant, same circuit-id) are never both
   reachable - the second ACK replaced the first in the table and in the index. *)
Definition drop_old_cid (cx : list (N * lease4)) (ex : option (lease4 * bool)) (cid : N) : list (N * lease4) :=
  match ex with
  | Some e =>
      let old := fst e in
      if negb (l_cid old =? 0) && negb (l_cid old =? cid)
      then match alookup (l_cid old) cx with
           | Some x => if lease4_eqb x old then aremove (l_cid old) cx else cx
           | None => cx
           end
      else cx
  | None => cx
  end.

Definition do_ack (c : cfg4) (s : state4) (m : msg4) (ex : option (lease4 * bool)) (ip : N) : state4 :=
  let cid := if m_cid m =? 0 then match ex with Some e => l_cid (fst e) | None => 0 end else m_cid m in
  let l := {| l_mac := m_mac m; l_ip := ip; l_exp := now s + c_lt c; l_cid := cid |} in
  let cx := drop_old_cid (cidx s) ex cid in
  {| leases := aset (m_mac m) l (leases s);
     cidx := if cid =? 0 then cx else aset cid l cx;
     alloc := alloc s; avail := avail s; unavail := unavail s; now := now s |}.

Definition step4 (c : cfg4) (s : state4) (o : op4) : state4 * reply4 * list N :=
  match o with
  | Discover m =>
      let ex := existing s m in
      match ex with
      | Some e =>
          if now s <? l_exp (fst e) then (s, ROffer (l_ip (fst e)), mark m e)
          else match pool_alloc (m_mac m) (alloc s) (avail s) with
               | Some (ip, a', v') =>
                   ({| leases := leases s; cidx := cidx s; alloc := a'; avail := v';
                       unavail := unavail s; now := now s |}, ROffer ip, [])
               | None => (s, RNone, [])
               end
      | None =>
          match pool_alloc (m_mac m) (alloc s) (avail s) with
          | Some (ip, a', v') =>
              ({| leases := leases s; cidx := cidx s; alloc := a'; avail := v';
                  unavail := unavail s; now := now s |}, ROffer ip, [])
          | None => (s, RNone, [])
          end
      end
  | Request m =>
      let ex := existing s m in
      let ip := requested m in
      match ex with
      | Some e =>
          if l_ip (fst e) =? ip then (do_ack c s m ex ip, RAck ip, mark m e) else (s, RNak, [])
      | None =>
          if negb (contains4 c ip) then (s, RNak, [])
          else match pool_reserve s (m_mac m) ip with
               | Some s' => (do_ack c s' m None ip, RAck ip, [])
               | None => (s, RNak, [])
               end
      end
  | Release m =>
      match alookup (m_mac m) (leases s) with
      | Some l => (pool_release (drop_lease s (m_mac m) l) (l_ip l), RNone, [])
      | None => (s, RNone, [])
      end
  | Decline m =>
      match alookup (m_mac m) (leases s) with
      | Some l =>
          let s1 := drop_lease s (m_mac m) l in
          (match m_req m with Some d => pool_mark s1 d | None => s1 end, RNone, [])
      | None => (s, RNone, [])
      end
  | Inform m => (s, RInformAck, [])
  | Advance d =>
      ({| leases := leases s; cidx := cidx s; alloc := alloc s; avail := avail s;
          unavail := unavail s; now := now s + d |}, RNone, [])
  | Cleanup order =>
      (fold_left expire_one (order ++ map fst (leases s)) s, RNone, [])
  end.

Definition step4s (c : cfg4) (s : state4) (o : op4) : state4 := fst (fst (step4 c s o)).
Definition run4 (c : cfg4) (ops : list op4) : state4 := fold_left (step4s c) ops (init4 c).

(* ---- observables: reply + snapshot of the binding state after the message ---- *)
Record snap4 := { sn_leases : list (N * (N * N * N));   (* mac -> (ip, expiry, cid) *)
                  sn_cidx : list (N * (N * N * N));     (* cid -> (mac, ip, expiry) *)
                  sn_alloc : list (N * N);
                  sn_avail : list N;
                  sn_unavail : list N }.
Definition out4 := (reply4 * snap4)%type.

Definition snap_of (s : state4) : snap4 :=
  {| sn_leases := map (fun p => (fst p, (l_ip (snd p), l_exp (snd p), l_cid (snd p)))) (leases s);
     sn_cidx := map (fun p => (fst p, (l_mac (snd p), l_ip (snd p), l_exp (snd p)))) (cidx s);
     sn_alloc := alloc s; sn_avail := avail s; sn_unavail := unavail s |}.

Definition step4o (c : cfg4) (s : state4) (o : op4) : state4 * out4 * list N :=
  let '(s', r, mk) := step4 c s o in (s', (r, snap_of s'), mk).

Definition reply4_eqb (a b : reply4) : bool :=
  match a, b with
  | RNone, RNone | RNak, RNak | RInformAck, RInformAck => true
  | ROffer x, ROffer y | RAck x, RAck y => x =? y
  | _, _ => false
  end.

Definition t3_eqb (a b : N * N * N) : bool :=
  let '(a1, a2, a3) := a in let '(b1, b2, b3) := b in (a1 =? b1) && (a2 =? b2) && (a3 =? b3).
Definition e3_eqb (a b : N * (N * N * N)) : bool := (fst a =? fst b) && t3_eqb (snd a) (snd b).
Definition e2_eqb (a b : N * N) : bool := (fst a =? fst b) && (snd a =? snd b).
(* equality of maps/sets given as lists in arbitrary order (keys are unique on both sides) *)
Definition set_eqb {A} (eqb : A -> A -> bool) (a b : list A) : bool :=
  Nat.eqb (length a) (length b) && forallb (fun x => existsb (eqb x) b) a && forallb (fun x => existsb (eqb x) a) b.
Fixpoint listN_eqb (a b : list N) : bool :=
  match a, b with
  | [], [] => true
  | x :: a', y :: b' => (x =? y) && listN_eqb a' b'
  | _, _ => false
  end.

Definition snap4_eqb (a b : snap4) : bool :=
  set_eqb e3_eqb (sn_leases a) (sn_leases b) && set_eqb e3_eqb (sn_cidx a) (sn_cidx b) &&
  set_eqb e2_eqb (sn_alloc a) (sn_alloc b) && listN_eqb (sn_avail a) (sn_avail b) &&
  set_eqb N.eqb (sn_unavail a) (sn_unavail b).

Definition out4_eqb (a b : out4) : bool := reply4_eqb (fst a) (fst b) && snap4_eqb (snd a) (snd b).
