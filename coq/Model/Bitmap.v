(* Model of allocator.IPAllocator (pkg/allocator/bitmap.go) at index level.
   bitmap         : N used as a bit set, as the code's big.Int
   allocated      : subscriber -> index          (Go map)      [b_alloc]
   indexToSubscriber : index -> subscriber       (Go map)      [b_rev]
   allocatedCount : big.Int, may disagree with the maps if the code miscounts  [b_count : Z]
   nextFree       : hint                                        [b_hint]
   totalPrefixes.Uint64() truncates to 64 bits as coded ([total64]); so does index.Uint64().
   Subscribers are interned to numbers by the harness; units in outputs are addresses (Geometry). *)
From Coq Require Import NArith ZArith List Bool.
From Verif Require Import Base.Word Model.PoolMap Model.Geometry Model.PoolSpec.
Import ListNotations.
Local Open Scope N_scope.

Record bstate := {
  b_g : geo; b_bm : N; b_alloc : amap N; b_rev : amap N; b_count : Z; b_hint : N }.

Definition binit (g : geo) : bstate :=
  {| b_g := g; b_bm := 0; b_alloc := []; b_rev := []; b_count := 0%Z; b_hint := 0 |}.

Definition total64 (g : geo) : N := wrap64 (g_total g).

(* scan [n] slots starting at [i] for a clear bit; structural on the binary representation of n so that
   no unary number is ever built; stops at the first clear bit *)
Fixpoint scanP (p : positive) (b i : N) : option N :=
  match p with
  | xH => if N.testbit b i then None else Some i
  | xO q => match scanP q b i with Some j => Some j | None => scanP q b (i + Npos q) end
  | xI q => if N.testbit b i
            then match scanP q b (i + 1) with Some j => Some j | None => scanP q b (i + 1 + Npos q) end
            else Some i
  end.
Definition scan (n b i : N) : option N := match n with N0 => None | Npos p => scanP p b i end.

(* findFreeIndex: from the hint to the end, then from 0 to the hint *)
Definition find_free (s : bstate) : option N :=
  let total := total64 (b_g s) in
  let start := if total <=? b_hint s then 0 else b_hint s in
  match scan (total - start) (b_bm s) start with
  | Some i => Some i
  | None => scan start (b_bm s) 0
  end.

(* getIndexByPrefix incl. index.Uint64() *)
Definition index_of (s : bstate) (a pl : N) : option N :=
  match index_of_addr (b_g s) a pl with Some i => Some (wrap64 i) | None => None end.

Definition unit_of (s : bstate) (i : N) : N := addr_of_index (b_g s) i.
Definition count64 (s : bstate) : N := wrap64 (Z.to_N (Z.abs (b_count s))).   (* big.Int.Uint64() *)

Definition upd (s : bstate) bm al rv cnt hint : bstate :=
  {| b_g := b_g s; b_bm := bm; b_alloc := al; b_rev := rv; b_count := cnt; b_hint := hint |}.

Definition lower_hint (s : bstate) (i : N) : N := if i <? b_hint s then i else b_hint s.

(* ghost markers: 0504 = exhaustion reported because totalPrefixes.Uint64() truncated to 0 *)
Definition step (s : bstate) (o : op) : bstate * out * list N :=
  match o with
  | Alloc h =>
      match aget h (b_alloc s) with
      | Some i => (s, OUnit (unit_of s i), [])
      | None =>
          match find_free s with
          | None => (s, OErr 1, if W64 <=? g_total (b_g s) then [504] else [])
          | Some i =>
              (upd s (N.setbit (b_bm s) i) (aset h i (b_alloc s)) (aset i h (b_rev s))
                   (b_count s + 1)%Z (i + 1), OUnit (unit_of s i), [])
          end
      end
  | AllocSpec h a pl =>
      match index_of s a pl with
      | None => (s, OErr 4, [])
      | Some i =>
          if N.testbit (b_bm s) i then
            match aget i (b_rev s) with
            | Some h' => if h' =? h then (s, OOk, []) else (s, OErr 3, [])
            | None => (s, OErr 3, [])
            end
          else match aget h (b_alloc s) with
               | Some _ => (s, OErr 3, [])
               | None => (upd s (N.setbit (b_bm s) i) (aset h i (b_alloc s)) (aset i h (b_rev s))
                              (b_count s + 1)%Z (b_hint s), OOk, [])
               end
      end
  | Release h =>
      match aget h (b_alloc s) with
      | None => (s, OErr 2, [])
      | Some i => (upd s (N.clearbit (b_bm s) i) (adel h (b_alloc s)) (adel i (b_rev s))
                       (b_count s - 1)%Z (lower_hint s i), OOk, [])
      end
  | ReleaseUnit a pl =>
      match index_of s a pl with
      | None => (s, OErr 4, [])
      | Some i =>
          if negb (N.testbit (b_bm s) i) then (s, OErr 2, [])
          else
            let al := match aget i (b_rev s) with Some h => adel h (b_alloc s) | None => b_alloc s end in
            (upd s (N.clearbit (b_bm s) i) al (adel i (b_rev s)) (b_count s - 1)%Z (lower_hint s i), OOk, [])
      end
  | SetAlloc h a pl =>
      match index_of s a pl with
      | None => (s, OErr 4, [])
      | Some i =>
          if match aget i (b_rev s) with Some h' => negb (h' =? h) | None => false end
          then (s, OErr 5, [])
          else
            match aget h (b_alloc s) with
            | Some old =>
                if old =? i then (s, OOk, [])    (* identical record re-applied: nothing changes (fix 46ed00d) *)
                else
                  (upd s (N.setbit (N.clearbit (b_bm s) old) i) (aset h i (b_alloc s))
                       (aset i h (adel old (b_rev s))) (b_count s - 1 + 1)%Z (b_hint s), OOk, [])
            | None =>
                (upd s (N.setbit (b_bm s) i) (aset h i (b_alloc s)) (aset i h (b_rev s))
                     (b_count s + 1)%Z (b_hint s), OOk, [])
            end
      end
  | Lookup h =>
      match aget h (b_alloc s) with Some i => (s, OUnit (unit_of s i), []) | None => (s, ONone, []) end
  | LookupUnit a pl =>
      match index_of s a pl with
      | None => (s, ONone, [])
      | Some i => match aget i (b_rev s) with Some h => (s, OHolder h, []) | None => (s, ONone, []) end
      end
  | Stats =>
      let al := count64 s in let tot := total64 (b_g s) in
      (s, if tot =? 0 then OStats al tot 0 1 else OStats al tot (al * 100) tot,
       if W64 <=? g_total (b_g s) then [504] else [])
  | Snap => (s, OSnap (sort_pairs (map (fun p => (fst p, unit_of s (snd p))) (b_alloc s))), [])
  | _ => (s, OErr 9, [])
  end.

(* Spec configuration of a bitmap pool *)
Definition bitmap_usable (g : geo) (u : N) : bool :=
  (g_base g <=? u) && ((u - g_base g) mod g_step g =? 0) && ((u - g_base g) / g_step g <? g_total g).
Definition bitmap_canon (g : geo) (a pl : N) : option N :=
  match index_of_addr g a pl with Some i => Some (addr_of_index g i) | None => None end.
Definition bitmap_scfg (prop : N) (g : geo) : scfg :=
  {| sc_prop := prop; sc_usable := bitmap_usable g; sc_canon := bitmap_canon g; sc_cap := g_total g;
     sc_grace := None; sc_scale := 100 |}.
