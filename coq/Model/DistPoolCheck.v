(* C05 on allocator.DistributedAllocator (pkg/allocator/distributed.go): the Model is b-c12's
   Model/DistAlloc.v (imported, not edited: [dstep] over the inner Bitmap / epoch allocator + the
   store map, every store call's outcome an oracle flag of the op, [DRestart] = stop + reload from
   the same store).  This file adds the C05 trace monitor over its observations and the entry point
   evaluated on the harness cases (stream "dist" of harness/c01).

   Monitor state: [dp_L] = who holds a unit AS THE CALLERS WERE TOLD (a successful Allocate adds, a
   successful Release removes; an Allocate / Release that reports a store failure changes nothing).
   After every operation the implementation's memory snapshot (Get of every subscriber of the case)
   is compared with it:
     clause 3  exhausted_only_if_full   Allocate -> exhausted while fewer holders than units
     clause 4  returns_to_circulation   memory holds a unit for a subscriber that released it / was
                                        refused it (failed persistence did not give the unit back);
                                        Release of a live holder answered "not allocated"
     clause 5  renew_protects / lost    a live holder is absent from memory (also after a reload), or
                                        a live holder's Allocate is answered "exhausted"
     clause 6  stats_exact              Stats().Allocated <> number of live holders, Total <> units
   In lease mode a reload re-chooses addresses (C12's known finding), so only WHO holds is compared
   there; in session mode the unit too. *)
From Coq Require Import NArith ZArith List Bool.
From Verif Require Import Base.Word Base.Check Model.PoolMap Model.Geometry Model.PoolSpec Model.Bitmap
  Model.DistAlloc Model.DistAllocSpec.
Import ListNotations.
Local Open Scope N_scope.

Record dps := { dp_cap : N; dp_lease : bool; dp_L : amap N }.

Definition dp_init (c : cfg) : dps :=
  let total := g_total (c_geo c) in
  {| dp_cap := if c_lease c then total - 2 else total; dp_lease := c_lease c; dp_L := [] |}.

Definition dp_post (s : dps) (L : amap N) (o : dout) : dps + N :=
  let M := o_mem o in
  if negb (forallb (fun p => match aget (fst p) M with
                             | Some u => dp_lease s || (u =? snd p)
                             | None => false
                             end) L) then inr 5
  else if negb (forallb (fun p => ahas (fst p) L) M) then inr 4
  else inl {| dp_cap := dp_cap s; dp_lease := dp_lease s;
              dp_L := if dp_lease s then map (fun p => (fst p, match aget (fst p) M with Some u => u | None => snd p end)) L
                      else L |}.

Definition dp_accept (s : dps) (op : dop) (o : dout) : dps + N :=
  let L := dp_L s in
  match op, o_ret o with
  | DAlloc h _ _, RUnit u => dp_post s (aset h u L) o
  | DAlloc h _ _, RErr 1 =>
      if asize L <? dp_cap s then inr 3 else if ahas h L then inr 5 else dp_post s L o
  | DRelease h _, ROk => dp_post s (adel h L) o
  | DRelease h _, RErr 2 => if ahas h L then inr 4 else dp_post s L o
  | DStats, RStats al tot _ _ =>
      if (al =? asize L) && (tot =? dp_cap s) then dp_post s L o else inr 6
  | _, _ => dp_post s L o
  end.

Definition dist05_case := ((bool * (N * N * N * N) * N * list N) * list (dop * dout))%type.
Definition mkcfg05 (c : bool * (N * N * N * N) * N * list N) : cfg :=
  let '(lease, (bits, base, ppl, pl), grace, univ) := c in
  {| c_lease := lease; c_geo := {| g_bits := bits; g_base := base; g_ppl := ppl; g_pl := pl |};
     c_grace := grace; c_univ := univ |}.
Definition run_dist05 (prop : N) (cs : list dist05_case) : list (list N) :=
  if prop =? 5 then
    check_all dstep dp_accept dout_eqb 1
      (map (fun c : dist05_case => (dinit (mkcfg05 (fst c)), dp_init (mkcfg05 (fst c)), snd c)) cs)
  else [].
Definition run_dist05_case := dist05_case.
