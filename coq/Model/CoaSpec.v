(* Executable monitor for C15 over observed traces: one step = one UDP datagram delivered to the
   CoA/Disconnect listener together with what was observed (handler invocations, datagrams sent
   back, or a crash).  It is written from the property text and RFC 2865/5176 packet layout, on
   plain byte lists, without the code's control flow:

     complete        : at least 20 bytes, 20 <= Length <= bytes received (a read takes at most 4096)
     verifies        : bytes 4..19 = digest(bytes 0..3 ++ 16 zero bytes ++ bytes 20..Length-1 ++ secret)
     request         : Code is 40 (Disconnect-Request) or 43 (CoA-Request)
     well-formed     : bytes 20..Length-1 are a sequence of (type, length >= 2, value) attributes

   clause 0  only-if    : a handler call or a response happens only for a complete request that verifies
   clause 1  if         : a complete, well-formed request that verifies gets exactly one response, and
                          the installed handler of its kind is invoked exactly once
                          (complete + verifies but attribute area not well-formed: either is accepted,
                          the property text does not decide it; at most one call / one response)
   clause 2  response   : every response has the request's identifier, the ACK/NAK code of the request's
                          kind, a correct Length, and Response Authenticator
                          = digest(resp 0..3 ++ request authenticator ++ resp attributes ++ secret)
   clause 3  no crash   : the listener does not panic (a crash is an effect: it ends the process)
   clause 4  observable : the driver's independent verdict "complete and verifies" (crypto/md5) equals
                          the monitor's
   clause 9  oracle     : a digest the monitor needs is missing from the case's table (harness defect)

   The digest is a parameter [Ho] (partial: the harness supplies a finite table). *)
From Coq Require Import NArith List Bool.
From Verif Require Import Base.Word Model.Coa.
Import ListNotations.
Local Open Scope N_scope.

(* o_ma: the driver's claim about the request's Message-Authenticator (attribute 80), 0 = no claim,
   1 = present with a valid HMAC-MD5, 2 = present, not valid. Not read by the monitor (the property
   does not mention it); CoaCheck.step checks the claim against a Gallina HMAC-MD5 (generator
   self-check). *)
Record op := { o_dg : bytes; o_hr : hresp; o_authentic : bool;
               o_tbl : list (bytes * bytes); o_md5 : bool; o_ma : N }.
Inductive out :=
| OPanic
| OMiss                                           (* Model only: digest not in the case's table *)
| OObs (calls : list (N * request)) (resps : list bytes).

Record sstate := { s_secret : bytes; s_coa_set : bool; s_dm_set : bool }.

Definition s_n (dg : bytes) : nat := Nat.min (length dg) 4096%nat.
Definition s_len (dg : bytes) : nat := N.to_nat (be16 (nth 2%nat dg 0) (nth 3%nat dg 0)).
Definition s_code (dg : bytes) : N := nth 0%nat dg 0.
Definition s_complete (dg : bytes) : bool :=
  Nat.leb 20%nat (s_n dg) && Nat.leb 20%nat (s_len dg) && Nat.leb (s_len dg) (s_n dg).
Definition s_auth (dg : bytes) : bytes := firstn 16%nat (skipn 4%nat dg).
Definition s_attrs (dg : bytes) : bytes := firstn (s_len dg - 20)%nat (skipn 20%nat dg).
Definition s_reqkey (secret dg : bytes) : bytes := firstn 4%nat dg ++ repeat 0 16%nat ++ s_attrs dg ++ secret.
Definition s_isreq (dg : bytes) : bool := (s_code dg =? 40) || (s_code dg =? 43).

(* strict TLV tiling of the attribute area *)
Fixpoint s_tlv (fuel : nat) (l : bytes) : bool :=
  match fuel with
  | O => false
  | S f => match l with
           | [] => true
           | [_] => false
           | _ :: al :: rest =>
               let v := (N.to_nat al - 2)%nat in
               (2 <=? al) && Nat.leb v (length rest) && s_tlv f (skipn v rest)
           end
  end.
Definition s_wf (dg : bytes) : bool := s_tlv (S (length (s_attrs dg))) (s_attrs dg).

(* ---------- reference semantics of the listener on plain byte lists ----------
   What the listener does with one datagram, written without buffers, slices or offsets; the
   refinement theorem (Props/C15.v) says the Model of the code computes exactly this. *)

(* attributes as the code's parser accepts them: (type, length >= 2, value) repeated; a single
   trailing byte is ignored (parseAttributes stops when fewer than 2 bytes remain) *)
Fixpoint parse_list (fuel : nat) (l : bytes) : pres :=
  match fuel with
  | O => PPanic
  | S f =>
      match l with
      | t :: al :: rest =>
          let alen := N.to_nat al in
          if Nat.ltb alen 2%nat || Nat.ltb (length l) alen then PErr
          else match parse_list f (skipn (alen - 2)%nat rest) with
               | POk r => POk ((t, firstn (alen - 2)%nat rest) :: r)
               | e => e
               end
      | _ => POk []
      end
  end.
Definition attrs_parse (l : bytes) : pres := parse_list (S (length l)) l.

Definition obs_of (o : outcome) : out :=
  match o with
  | Drop => OObs [] []
  | Panic => OPanic
  | Handle c called req resp => OObs (if called then [(c, req)] else []) [resp]
  end.

Section Reference.
  Variable secret : bytes.
  Variable coa_set dm_set : bool.
  Variable handler : N -> request -> hresp.
  Variable H : bytes -> bytes.

  Definition req_verifies (dg : bytes) : bool :=
    bytes_eqb (s_auth dg) (digest16 (H (s_reqkey secret dg))).

  Definition respond (code ident : N) (reqauth : bytes) (r : hresp) : bytes :=
    let attrs := resp_attrs r in
    let hdr := resp_hdr code ident attrs in
    hdr ++ digest16 (H (hdr ++ reqauth ++ attrs ++ secret)) ++ attrs.

  Definition ref_dispatch (dg : bytes) (attrs : list attr) : outcome :=
    if s_code dg =? 43 then
      let req := parse_coa attrs in
      let r := if coa_set then handler 43 req else coa_default in
      Handle 43 coa_set req (respond (if h_ok r then 44 else 45) (nth 1%nat dg 0) (s_auth dg) r)
    else if s_code dg =? 40 then
      let req := parse_dm attrs in
      let r := if dm_set then handler 40 req else dm_default in
      Handle 40 dm_set req (respond (if h_ok r then 41 else 42) (nth 1%nat dg 0) (s_auth dg) r)
    else Drop.

  Definition coa_reference (dg : bytes) : outcome :=
    if negb (s_complete dg) then Drop
    else if negb (req_verifies dg) then Drop
    else match attrs_parse (s_attrs dg) with
         | POk attrs => ref_dispatch dg attrs
         | _ => Drop
         end.
End Reference.

Definition s_respkey (secret dg r : bytes) : bytes := firstn 4%nat r ++ s_auth dg ++ skipn 20%nat r ++ secret.

(* ---------- the property, stated on what was emitted (independent of the Model) ----------
   [resp_wire_ok H secret dg r]: the datagram [r] that was SENT, as a byte string with whatever
   attribute bytes it carries, is a response to [dg] in the sense of the property text:
   identifier = request identifier, code = ACK/NAK of the request's code, Length field = datagram
   length, and bytes 4..19 = digest(code, id, length, Request Authenticator of dg,
   attributes-as-sent, secret). *)
Definition resp_wire_ok (H : bytes -> bytes) (secret dg r : bytes) : bool :=
  Nat.leb 20%nat (length r) && (nth 1%nat r 0 =? nth 1%nat dg 0) &&
  ((nth 0%nat r 0 =? s_code dg + 1) || (nth 0%nat r 0 =? s_code dg + 2)) &&
  Nat.eqb (s_len r) (length r) &&
  bytes_eqb (digest16 (H (s_respkey secret dg r))) (firstn 16%nat (skipn 4%nat r)).

(* "complete RADIUS packet whose Request Authenticator verifies" + CoA/Disconnect request *)
Definition s_authentic (H : bytes -> bytes) (secret dg : bytes) : bool :=
  s_complete dg && bytes_eqb (digest16 (H (s_reqkey secret dg))) (s_auth dg).

(* what the property text says about ONE delivered datagram and the effects observed for it
   ([installed]: a handler for the request's kind is installed) *)
Definition C15_step_ok (H : bytes -> bytes) (secret : bytes) (coa_set dm_set : bool)
           (dg : bytes) (calls : list (N * request)) (resps : list bytes) : Prop :=
  let installed := if s_code dg =? 43 then coa_set else dm_set in
  (* only if: any effect needs an authentic CoA/Disconnect request; handler calls are of its kind *)
  ((calls <> [] \/ resps <> []) -> s_authentic H secret dg = true /\ s_isreq dg = true) /\
  (forall c, In c calls -> fst c = s_code dg) /\
  (* if: an authentic, well-formed request is answered once and handed to the installed handler once *)
  (s_authentic H secret dg = true -> s_isreq dg = true -> s_wf dg = true ->
   length resps = 1%nat /\ length calls = (if installed then 1%nat else 0%nat)) /\
  (* never more than one response / one call, no call without a response *)
  (length resps <= 1 /\ length calls <= (if installed then 1 else 0) /\ length calls <= length resps)%nat /\
  (* every response emitted verifies against the request, whatever attributes it carries *)
  (forall r, In r resps -> resp_wire_ok H secret dg r = true).

Section Accept.
  Variable Ho : bytes -> option bytes.

  (* clause 2 for one response; None = ok *)
  Definition resp_ok (secret dg r : bytes) : option N :=
    let c := s_code dg in
    if negb (Nat.leb 20%nat (length r)) then Some 2
    else if negb (nth 1%nat r 0 =? nth 1%nat dg 0) then Some 2
    else if negb ((nth 0%nat r 0 =? c + 1) || (nth 0%nat r 0 =? c + 2)) then Some 2
    else if negb (Nat.eqb (s_len r) (length r)) then Some 2
    else match Ho (s_respkey secret dg r) with
         | None => Some 9
         | Some d => if bytes_eqb (digest16 d) (firstn 16%nat (skipn 4%nat r)) then None else Some 2
         end.

  Fixpoint resps_ok (secret dg : bytes) (rs : list bytes) : option N :=
    match rs with
    | [] => None
    | r :: tl => match resp_ok secret dg r with Some c => Some c | None => resps_ok secret dg tl end
    end.

  Definition accept (ss : sstate) (o : op) (r : out) : sstate + N :=
    let dg := o_dg o in
    match r with
    | OPanic => inr 3
    | OMiss => inr 9
    | OObs calls resps =>
        let quiet := match calls, resps with [], [] => true | _, _ => false end in
        if negb (s_complete dg) then
          if o_authentic o then inr 4 else if quiet then inl ss else inr 0
        else
          match Ho (s_reqkey (s_secret ss) dg) with
          | None => inr 9
          | Some d =>
              let verifies := bytes_eqb (digest16 d) (s_auth dg) in
              if negb (Bool.eqb (o_authentic o) verifies) then inr 4
              else if negb (verifies && s_isreq dg) then (if quiet then inl ss else inr 0)
              else
                let installed := if s_code dg =? 43 then s_coa_set ss else s_dm_set ss in
                if negb (forallb (fun c => fst c =? s_code dg) calls) then inr 0
                else if s_wf dg &&
                        negb (Nat.eqb (length resps) 1%nat && Nat.eqb (length calls) (if installed then 1%nat else 0%nat))
                     then inr 1
                else if negb (Nat.leb (length resps) 1%nat && Nat.leb (length calls) (if installed then 1%nat else 0%nat)
                              && Nat.leb (length calls) (length resps))
                     then inr 1
                else match resps_ok (s_secret ss) dg resps with
                     | Some c => inr c
                     | None => inl ss
                     end
          end
    end.
End Accept.

(* the monitor over a whole trace (the harness uses Base/Check.accept_trace, the same fold with
   step numbers); true = every step accepted *)
Fixpoint accept_list (Ho : bytes -> option bytes) (ss : sstate) (tr : list (op * out)) : bool :=
  match tr with
  | [] => true
  | (o, r) :: tl => match accept Ho ss o r with inl ss' => accept_list Ho ss' tl | inr _ => false end
  end.
