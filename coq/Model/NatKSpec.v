(* Monitor for the Manager with a real subscriber_nat kernel map (Model/NatK.v).
   clauses 0-4 of Model/NatSpec.v on the Manager calls (a failed AllocateNAT / refused DeallocateNAT is
   an RErr: it must write no record and leaves the table as it was; nothing may be reported afterwards
   for a private IP whose allocation failed; a later success is a new assignment and must write exactly
   its assign record), plus
   clause 3 on stats: GetAllocationCount = number of holders
   clause 5  datapath map : after every operation -- also a failed one -- subscriber_nat holds exactly
                            one entry per holder, carrying its block (public IP, start, end, cursor =
                            start), and nothing else except the keys the harness put there itself *)
From Coq Require Import ZArith NArith List Bool.
From Verif Require Import Model.Nat Model.NatSpec Model.NatK.
Import ListNotations.
Local Open Scope Z_scope.

Record ksstate := { ks_ss : sstate; ks_foreign : list Z }.
Definition ksinit (c : cfg) (m : logmode) : ksstate := {| ks_ss := sinit c m; ks_foreign := [] |}.

Definition kentry_is (b : blk) (e : kentry) : bool :=
  (ke_key e =? b_priv b) && (ke_pub e =? b_pub b) && (ke_start e =? b_start b) && (ke_end e =? b_end b) &&
  (ke_next e =? b_start b) && ke_rest0 e.

Definition kfind (k : Z) (l : list kentry) : option kentry := find (fun e => ke_key e =? k) l.

Fixpoint nodupb (l : list Z) : bool :=
  match l with [] => true | x :: tl => negb (existsb (Z.eqb x) tl) && nodupb tl end.

Definition kmap_ok (tab : list blk) (foreign : list Z) (l : list kentry) : bool :=
  forallb (fun b => match kfind (b_priv b) l with Some e => kentry_is b e | None => false end) tab &&
  forallb (fun e => existsb (fun b => b_priv b =? ke_key e) tab || existsb (Z.eqb (ke_key e)) foreign) l &&
  nodupb (map ke_key l).

Definition kaccept (s : ksstate) (o : kop) (r : kout) : ksstate + N :=
  match o, r with
  | KO o', KOut r' =>
      match accept (ks_ss s) o' r' with
      | inr c => inr c
      | inl ss' =>
          match o', o_res r' with
          | Stats, RStats cnt _ => if cnt =? Z.of_nat (length (ss_tab ss')) then inl {| ks_ss := ss'; ks_foreign := ks_foreign s |} else inr 3%N
          | _, _ => inl {| ks_ss := ss'; ks_foreign := ks_foreign s |}
          end
      end
  | KPut k, KOut r' =>
      match o_res r' with
      | RNone => inl {| ks_ss := ks_ss s; ks_foreign := k :: ks_foreign s |}
      | _ => inl s
      end
  | KDel k, KOut _ => inl {| ks_ss := ks_ss s; ks_foreign := filter (fun x => negb (x =? k)) (ks_foreign s) |}
  | KDump, KMap l => if kmap_ok (ss_tab (ks_ss s)) (ks_foreign s) l then inl s else inr 5%N
  | _, _ => inr 9%N
  end.
