(* Entry point of stream "peers" (harness/c01/peers.go): case = ((universe per node, rankings), trace). *)
From Coq Require Import NArith List Bool.
From Verif Require Import Base.Check Model.PoolMap Model.PoolSpec Model.FreeList Model.PeerPools.
Import ListNotations.
Local Open Scope N_scope.

Definition run_peers_case := ((list (list N) * list (N * list N)) * list (pop * pout))%type.
Definition run_peers (prop : N) (cs : list run_peers_case) : list (list N) :=
  if prop =? 5 then
    check_all pstepo paccept pout_eqb 1
      (map (fun c : run_peers_case => (pp_init (fst (fst c)) (snd (fst c)), @nil N, snd c)) cs)
  else [].
