(* Entry point of stream "peers" (harness/c01/peers.go): case = (((base, prefix length, gateway) per node,
   rankings), trace); every node's universe is computed as pool.generateAvailableIPs does (FreeList.local_univ). *)
From Coq Require Import NArith List Bool.
From Verif Require Import Base.Check Model.PoolMap Model.PoolSpec Model.FreeList Model.PeerPools.
Import ListNotations.
Local Open Scope N_scope.

Definition run_peers_case := ((list (N * N * N) * list (N * list N)) * list (pop * pout))%type.
Definition peers_univs (l : list (N * N * N)) : list (list N) := map (fun c => let '(b, ppl, gw) := c in local_univ b ppl gw) l.
Definition run_peers (prop : N) (cs : list run_peers_case) : list (list N) :=
  if prop =? 5 then
    check_all pstepo paccept pout_eqb 1
      (map (fun c : run_peers_case => (pp_init (peers_univs (fst (fst c))) (snd (fst c)), @nil N, snd c)) cs)
  else [].
