(* C11 — IPv6CP option processor (pkg/pppoe/ipv6cp.go).  The collision test reads
   config.LocalInterfaceID while the Configure-Request carries negotiated.LocalInterfaceID; a
   Configure-Nak changes only the latter — as coded. *)
From Coq Require Import ZArith NArith List Bool.
From Verif Require Import Base.Word Model.Fsm Model.Lcp Model.Ipcp.
Import ListNotations.
Local Open Scope N_scope.

Record v6x := mkv6x { vx_cfg : N; vx_neg : N; vx_maxre : Z; vx_rng : list N }.

(* generateInterfaceID: 8 random bytes, b[0] |= 0x02 *)
Definition draw_ifid (rng : list N) : N * list N :=
  let '(b, r) := take_pad 8 rng in
  (be_val (match b with x :: tl => N.lor x 2 :: tl | [] => [] end), r).

Definition v6_opt (x : v6x) (o : opt) : v6x * verdict :=
  if ot o =? 1 then
    if negb (len (od o) =? 8) then (x, VRej)
    else let id := be_val (od o) in
      if id =? 0 then
        let '(v, r) := draw_ifid (vx_rng x) in (mkv6x (vx_cfg x) (vx_neg x) (vx_maxre x) r, VNak (mkopt 1 (be_bytes 8 v)))
      else if id =? vx_cfg x then
        let '(nl, r1) := draw_ifid (vx_rng x) in
        let '(v, r2) := draw_ifid r1 in
        (mkv6x nl nl (vx_maxre x) r2, VNak (mkopt 1 (be_bytes 8 v)))
      else (x, VAck)
  else (x, VRej).

Definition v6_cr (x : v6x) (opts : list opt) : v6x * (list opt * list opt * list opt) * list N :=
  (classify v6_opt x opts, []).

Definition v6_nak1 (x : v6x) (o : opt) : v6x :=
  if (ot o =? 1) && (len (od o) =? 8) then mkv6x (vx_cfg x) (be_val (od o)) (vx_maxre x) (vx_rng x) else x.
Definition v6_nak (x : v6x) (opts : list opt) : v6x := fold_left v6_nak1 opts x.

Definition v6_req (x : v6x) : list opt := [mkopt 1 (be_bytes 8 (vx_neg x))].
Definition v6_obs (x : v6x) : list N := be_bytes 8 (vx_cfg x) ++ be_bytes 8 (vx_neg x).

Definition v6_procs : procs v6x :=
  mkprocs v6_cr v6_nak (fun x _ => x) false false v6_req (fun x => ncp_irc (vx_maxre x)) false (fun _ => []) v6_obs.

Definition v6_new (id : N) (maxre : Z) (rng : list N) : fsm v6x :=
  let '(i, r) := if id =? 0 then draw_ifid rng else (id, rng) in
  init (mkv6x i i maxre r).
