(* Entry point evaluated on the case files harness/c07 writes: one case = one run of one program on
   one frame with given map contents; the observation is what the native runner (guard page flush
   against the frame end) or the kernel (BPF_PROG_TEST_RUN) did. *)
From Coq Require Import NArith List Bool.
From Verif Require Import Base.Word Base.Check Model.PktMonad Model.TcAntispoofPkt Model.PktSpec.
Import ListNotations.
Local Open Scope N_scope.

(* concrete maps: (map id, entries as raw key/value bytes).  Array maps are given with all their
   entries (the harness adds the zero-filled ones the kernel pre-allocates). *)
Definition mapent : Type := N * list (list N * list N).

Fixpoint assoc (k : list N) (l : list (list N * list N)) : option (list N) :=
  match l with
  | [] => None
  | (k', v) :: tl => if bytes_eqb k k' then Some v else assoc k tl
  end.

(* LPM trie: key = u32 prefixlen (host order) ++ data bytes, matched most-significant-bit first *)
Fixpoint lpm (k : list N) (l : list (list N * list N)) (best : option (N * list N)) : option (list N) :=
  match l with
  | [] => match best with Some (_, v) => Some v | None => None end
  | (k', v) :: tl =>
      let plen := le_v (firstn 4 k') in
      let bits := 8 * N.of_nat (length (skipn 4 k')) in
      let m := (plen <=? le_v (firstn 4 k)) && (plen <=? bits)
               && (N.shiftr (be_val (skipn 4 k)) (bits - plen) =? N.shiftr (be_val (skipn 4 k')) (bits - plen)) in
      let better := match best with Some (p, _) => p <? plen | None => true end in
      lpm k tl (if m && better then Some (plen, v) else best)
  end.

Fixpoint find_map (id : N) (ms : list mapent) : option (list (list N * list N)) :=
  match ms with
  | [] => None
  | (i, l) :: tl => if i =? id then Some l else find_map id tl
  end.

Definition mk_maps (ms : list mapent) : maps := fun id k =>
  match find_map id ms with
  | Some l => if id =? MAP_AS_RANGES then lpm k l None else assoc k l
  | None => None
  end.

(* op = (program, maps, (now, skb_len, max_len), frame) *)
Definition op : Type := N * list mapent * (N * N * N) * frame.
Definition model_obs (o : op) : obs :=
  let '(p, ms, (now, skblen, maxlen), f) := o in
  obs_of f (run (prog_of p (mk_maps ms) {| e_now := now; e_skblen := skblen; e_maxlen := maxlen |}) f).

Definition step (s : unit) (o : op) : unit * obs * list N :=
  let r := model_obs o in
  let '(p, _, _, f) := o in
  (tt, r, markers_of p f r).
Definition accept (s : unit) (o : op) (r : obs) : unit + N :=
  let '(p, ms, _, f) := o in
  match accept_obs p (mk_maps ms) f r with inl _ => inl tt | inr c => inr c end.

(* constructors used by the case files (applications of typed functions elaborate much faster than
   tuple / long list notations).  The changed bytes come as runs: (start, consecutive new bytes). *)
Definition rn (start : N) (bs : list N) : N * list N := (start, bs).
Fixpoint run_pairs (i : N) (bs : list N) : list (N * N) :=
  match bs with [] => [] | b :: tl => (i, b) :: run_pairs (i + 1) tl end.
Definition expand (rs : list (N * list N)) : list (N * N) := flat_map (fun r => run_pairs (fst r) (snd r)) rs.
Definition mkobs (fault : bool) (v len : N) (rs : list (N * list N)) : obs :=
  {| o_fault := fault; o_verdict := v; o_len := len; o_diff := expand rs |}.
Definition kv (k v : list N) : list N * list N := (k, v).
Definition me (id : N) (l : list (list N * list N)) : mapent := (id, l).

(* padding pattern of the harness' base frames: byte i = (i*7+1) mod 256, for i = start .. start+n-1 *)
Fixpoint padgen_from (i : N) (n : nat) : list N :=
  match n with O => [] | S k => N.land (i * 7 + 1) 255 :: padgen_from (i + 1) k end.
Definition padgen (start n : N) : list N := padgen_from start (N.to_nat n).

Definition case : Type := op * obs.
(* the frame is the first L bytes of a base frame shared by the cases of one group *)
Definition mkcase (p : N) (ms : list mapent) (now L maxlen : N) (base : list N) (o : obs) : case :=
  ((p, ms, (now, L, maxlen), firstn (N.to_nat L) base), o).
Definition mk (c : case) : unit * unit * list (op * obs) := (tt, tt, [c]).
Definition run_cases (cs : list case) : list (list N) :=
  check_all step accept obs_eqb 1%N (map mk cs).
