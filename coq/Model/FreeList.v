(* ONE parametric model of the free-list pools:
     dhcp.Pool            (pkg/dhcp/pool.go)          Allocate(mac) / Reserve(mac, ip) / Release(ip) / MarkUnavailable(ip) / Stats
     dhcpv6.AddressPool   (pkg/dhcpv6/server.go)      Allocate(duid) / Release(duid)
     dhcpv6.PrefixPool    (pkg/dhcpv6/server.go)      Allocate(duid) / Release(duid)
     pppoe.IPPool         (pkg/pppoe/server.go)       Allocate(session) / Release(session)
     pool.LocalPool       (pkg/pool/peer.go)          allocateLocal / releaseLocal / Get / Stats (+ reverse index)
   State: [f_avail] the free list (pop from the head, append on release), [f_alloc] holder -> unit,
   [f_revm] unit -> holder (LocalPool.ipToSub), [f_unav] the declined set (dhcp.Pool.unavailable).
   [f_idem] says whether Allocate first looks the holder up (true for all but pppoe.IPPool before the
   fix); when it is false a second Allocate by one holder pops another address (markers 101 / 505). *)
From Coq Require Import NArith List Bool.
From Verif Require Import Base.Word Model.PoolMap Model.Geometry Model.PoolSpec.
Import ListNotations.
Local Open Scope N_scope.

Record fstate := {
  f_idem : bool; f_univ : list N;
  f_avail : list N; f_alloc : amap N; f_revm : amap N; f_unav : list N }.

Definition finit (idem : bool) (univ : list N) : fstate :=
  {| f_idem := idem; f_univ := univ; f_avail := univ; f_alloc := []; f_revm := []; f_unav := [] |}.

Definition fupd (s : fstate) av al rv un : fstate :=
  {| f_idem := f_idem s; f_univ := f_univ s; f_avail := av; f_alloc := al; f_revm := rv; f_unav := un |}.

Fixpoint remove_first (x : N) (l : list N) : list N :=
  match l with [] => [] | y :: tl => if y =? x then tl else y :: remove_first x tl end.
Definition holder_of (u : N) (m : amap N) : option N :=
  match find (fun p => snd p =? u) m with Some p => Some (fst p) | None => None end.

Definition step (s : fstate) (o : op) : fstate * out * list N :=
  match o with
  | Alloc h =>
      match (if f_idem s then aget h (f_alloc s) else None) with
      | Some u => (s, OUnit u, [])
      | None =>
          match f_avail s with
          | [] => (s, OErr 1, if ahas h (f_alloc s) then [101] else [])
          | u :: tl =>
              (fupd s tl (aset h u (f_alloc s)) (aset u h (f_revm s)) (f_unav s), OUnit u,
               if ahas h (f_alloc s) then [101; 505] else [])
          end
      end
  | Release h =>
      match aget h (f_alloc s) with
      | None => (s, OOk, [])
      | Some u => (fupd s (f_avail s ++ [u]) (adel h (f_alloc s)) (adel u (f_revm s)) (f_unav s), OOk, [])
      end
  | ReleaseUnit a _ =>       (* dhcp.Pool.Release(ip): the holder is found by scanning the map *)
      match holder_of a (f_alloc s) with
      | None => (s, OOk, [])
      | Some h => (fupd s (f_avail s ++ [a]) (adel h (f_alloc s)) (adel a (f_revm s)) (f_unav s), OOk, [])
      end
  | MarkUnavail a _ =>        (* dhcp.Pool.MarkUnavailable: declined set, allocation dropped, off the free list *)
      (fupd s (remove_first a (f_avail s)) (filter (fun p => negb (snd p =? a)) (f_alloc s)) (adel a (f_revm s))
            (if memN a (f_unav s) then f_unav s else a :: f_unav s), OOk, [])
  | AllocSpec h a _ =>        (* dhcp.Pool.Reserve(mac, ip): false is reported as OErr 3 *)
      match aget h (f_alloc s) with
      | Some cur => (s, if cur =? a then OOk else OErr 3, [])
      | None =>
          if memN a (f_avail s)
          then (fupd s (remove_first a (f_avail s)) (aset h a (f_alloc s)) (aset a h (f_revm s)) (f_unav s), OOk, [])
          else (s, OErr 3, [])
      end
  | Lookup h =>
      match aget h (f_alloc s) with Some u => (s, OUnit u, []) | None => (s, ONone, []) end
  | Stats =>
      let al := asize (f_alloc s) in
      (s, OStats al (al + N.of_nat (length (f_avail s))) 0 0, [])
  | _ => (s, OErr 9, [])
  end.

(* ---- the universes, computed as the constructors do ---- *)
Fixpoint nseq (start : N) (n : nat) : list N :=
  match n with O => [] | S k => start :: nseq (start + 1) k end.

(* dhcp.Pool.generateAvailableIPs: i = 1 .. numHosts, minus reserved, byte additions, minus gateway *)
Definition dhcp4_univ (base ppl reslo reshi gw : N) : list N :=
  let hosts := 2 ^ (32 - ppl) in
  if hosts <=? 2 then [] else
  let num := hosts - 2 in
  filter (fun a => negb (a =? gw))
    (map (add_nocarry32 base)
       (filter (fun i => negb (i <=? reslo) && negb (num - reshi <? i)) (nseq 1 (N.to_nat num)))).

(* pool.generateAvailableIPs: uint32 addition *)
Definition local_univ (base ppl gw : N) : list N :=
  let hosts := 2 ^ (32 - ppl) in
  if hosts <=? 2 then [] else
  filter (fun a => negb (a =? gw)) (map (fun i => (base + i) mod 4294967296) (nseq 1 (N.to_nat (hosts - 2)))).

(* pppoe.NewIPPool: nextIP from the network address while inside; gateway and 255.255.255.255 skipped
   (the subnet broadcast address is NOT skipped) *)
Definition pppoe_univ (base ppl gw : N) : list N :=
  let size := 2 ^ (32 - ppl) in
  filter (fun a => negb (a =? gw) && negb (a =? 4294967295)) (nseq (base + 1) (N.to_nat (size - 1))).

(* dhcpv6.NewAddressPool: the first 1000 addresses after the network address, while inside *)
Definition v6addr_univ (base ppl : N) : list N :=
  let size := 2 ^ (128 - ppl) in
  nseq (base + 1) (N.to_nat (N.min 1000 (size - 1))).

(* dhcpv6.NewPrefixPool: min(2^(dlen-ones), 1000) prefixes, index bits OR-ed in *)
Definition v6prefix_univ (base ppl dlen : N) : list N :=
  map (pd_prefix base ppl dlen) (nseq 0 (N.to_nat (N.min 1000 (2 ^ (dlen - ppl))))).

Definition freelist_scfg (prop : N) (univ : list N) : scfg :=
  {| sc_prop := prop; sc_usable := fun u => memN u univ;
     sc_canon := fun a _ => if memN a univ then Some a else None;
     sc_cap := N.of_nat (length univ); sc_grace := None; sc_scale := 1 |}.
