(* C06 - MEANING-level encoding of map members.

   Model/Layout.v decides that the two declarations describe the same bytes (size, offsets, widths).  That is
   not yet "the same encoding": a member that holds an address, a MAC or a port is derived by the Go code from
   the value it means (net.IP, net.HardwareAddr, uint16) and USED by the C program in one of three ways:

     UNet     compared with / copied from / copied into packet bytes as raw memory (ip->saddr, s6_addr[i],
              eth->h_source, tcp->source ...): the bytes in the map must be the wire (network-order) bytes
     UHost    a native integer the program does arithmetic on (counters, lengths, flags, ports it passes
              through bpf_htons itself): the bytes in the map are the little-endian integer
     UOpaque  never read by any program in bpf/ (kept for the control plane's own use)

   [usage_table] holds this classification for every member of every map key / value / record, established by
   reading bpf/*.c once (the using statement is quoted per map).  The member list itself is REGENERATED
   (Gen/Layouts.v); [enc_verdict] reports every regenerated member that has no entry (new member: its encoding
   was never examined) and every UNet member whose element width / count on either side is no longer the one
   the entry was established for (retyped member, e.g. 16 x u8 -> 4 x u32: same size, same offsets, but the Go
   derivation of the elements must be re-established).

   Encoding families (how Go derives the stored elements from the wire bytes of the value it means):
     [words_ne w]  native: copy() of the bytes (w = 1) or binary.NativeEndian/LittleEndian.UintN
     [words_be w]  the "BigEndian idiom": binary.BigEndian.UintN over each group of w bytes
   cilium marshals the elements natively ([marshal] = little-endian on the supported hosts). *)
From Coq Require Import NArith List Bool String Ascii Arith.
From Verif Require Import Base.Word Model.Layout.
Import ListNotations.
Local Open Scope N_scope.

(* ------------------------------------------------------------------ encoding families *)
Fixpoint chunks (w k : nat) (bs : bytes) : list bytes :=      (* k groups of w bytes *)
  match k with O => [] | S k' => firstn w bs :: chunks w k' (skipn w bs) end.

Definition words_ne (w k : nat) (bs : bytes) : list N := map le_dec (chunks w k bs).
Definition words_be (w k : nat) (bs : bytes) : list N := map be_val (chunks w k bs).
Definition marshal (w : nat) (vs : list N) : bytes := enc_elems w vs.
(* what a UNet member must hold for the program to match the value: its wire bytes *)
Definition c_net_bytes (wire : bytes) : bytes := wire.

Definition group_palin (w k : nat) (bs : bytes) : bool :=
  forallb (fun g => bytes_eqb (rev g) g) (chunks w k bs).

(* ---- IPv6 address member (antispoof subscriber_binding.ipv6_addr)
   Go  AddBindingV6: copy(existing.IPv6Addr[:], ipv6.To16())  with IPv6Addr [16]byte      -> 16 x u8, native
   C   antispoof_ingress: for i<16: ip6->saddr.s6_addr[i] != binding->ipv6_addr[i]        -> raw bytes *)
Definition go_ip6_member (ip6 : bytes) : bytes := marshal 1 (words_ne 1 16 ip6).
Definition c_ip6_member (ip6 : bytes) : bytes := c_net_bytes ip6.
(* the same member declared as four 32-bit words and filled with the BigEndian idiom (what a retyping of both
   declarations to __u32[4] / [4]uint32 invites): stated to characterise the family, not used by [step] *)
Definition go_ip6_member_be32 (ip6 : bytes) : bytes := marshal 4 (words_be 4 4 ip6).

(* ---- MAC member (dhcp_server_config.server_mac)
   Go  SetServerConfig: if len(mac) >= 6 { copy(config.ServerMAC[:], mac[:6]) }  (shorter: left zero)
   C   copy_mac(eth->h_source, config->server_mac) *)
Definition go_mac_member (mac : bytes) : bytes :=
  if Nat.leb 6 (List.length mac) then marshal 1 (words_ne 1 6 mac) else zeros 6.
Definition c_mac_member (mac : bytes) : bytes := c_net_bytes (firstn 6 mac).

(* ---- 16-bit port members
   Go  stores the port number it was given (uint16) -> marshalled natively
   C   UNet  (nat_key.src_port/dst_port, nat_session ports, eim_key.internal_port in get_eim_mapping): the raw
             be16 word of the L4 header
       UHost (eim_mapping.external_port, port_block ports, nat_config ports): a native integer (bpf_htons at use) *)
Definition go_port_member (p : N) : bytes := marshal 2 [p].
Definition c_port_net (p : N) : bytes := be_bytes 2 p.       (* bytes on the wire *)
Definition c_port_host (p : N) : bytes := le_enc 2 p.
Definition port_palin (p : N) : bool := (p / 256 =? p mod 256).

(* ------------------------------------------------------------------ usage table *)
Inductive usage := UHost | UNet | UOpaque.
Record uentry := UE { uname : string; uuse : usage; ugw : nat; ugc : nat; ucw : nat; ucc : nat; udyn : bool }.
(* udyn: the driver has a semantic (meaning-level) observation for this member: the real Go API is called with
   the value it means and the real program is run on a packet carrying that value *)
Local Open Scope string_scope.
Definition uH (n : string) : uentry := UE n UHost 0 0 0 0 false.
Definition uO (n : string) : uentry := UE n UOpaque 0 0 0 0 false.
Definition uN4 (n : string) (dyn : bool) : uentry := UE n UNet 4 1 4 1 dyn.      (* IPv4 word *)
Definition uNP (n : string) (dyn : bool) : uentry := UE n UNet 2 1 2 1 dyn.      (* be16 port *)
Definition uNB (n : string) (cnt : nat) (dyn : bool) : uentry := UE n UNet 1 cnt 1 cnt dyn.   (* byte array *)

Definition u_pool_assignment : list uentry :=
  (* dhcp_fastpath.c: ip_pools lookup by &assignment->pool_id; yiaddr = assignment->allocated_ip; now > lease_expiry *)
  [ uH "pool_id"; uN4 "allocated_ip" true; uO "vlan_id"; uO "client_class"; uH "lease_expiry"; uO "flags" ].
Definition u_token_bucket : list uentry :=
  [ uH "tokens"; uH "last_update"; uH "rate_bps"; uH "burst_bytes"; uH "priority" ].
Definition u_index : list uentry := [ uH "" ].     (* array index / integer key *)

Definition usage_table : list (string * list uentry) :=
  [ (* ---- antispoof.c *)
    ("antispoof/subscriber_bindings/key", [ uH "" ]);   (* mac_to_u64(eth->h_source): native u64 (clause 2) *)
    ("antispoof/subscriber_bindings/value",
       (* src_ip == binding->ipv4_addr ; s6_addr[i] != binding->ipv6_addr[i] ; ->ipv4_valid ->ipv6_valid ->mode *)
       [ uN4 "ipv4_addr" true; uNB "ipv6_addr" 16 true; uH "ipv4_valid"; uH "ipv6_valid"; uH "mode" ]);
    ("antispoof/antispoof_config/key", u_index);
    ("antispoof/antispoof_config/value", [ uH "default_mode"; uH "log_violations" ]);
    ("antispoof/antispoof_stats/key", u_index);
    ("antispoof/antispoof_stats/value",
       [ uH "packets_allowed"; uH "packets_dropped"; uH "packets_logged"; uH "ipv4_violations"; uH "ipv6_violations"; uH "unknown_mac" ]);
    ("antispoof/allowed_ranges_v4/key", [ uH "prefixlen"; uN4 "ip" true ]);   (* {.prefixlen = 32, .ip = ip->saddr} *)
    ("antispoof/allowed_ranges_v4/value", [ uO "" ]);                          (* only tested against NULL *)
    ("antispoof/-/record",
       (* log_violation: src_mac[i] = mac[i]; spoofed_ip = ip->saddr; allowed_ip = binding->ipv4_addr; the v6 arrays stay zero *)
       [ uH "timestamp"; uNB "src_mac" 6 false; uH "protocol"; uN4 "spoofed_ip" false; uN4 "allowed_ip" false;
         uO "spoofed_ipv6"; uO "allowed_ipv6" ]);
    (* ---- dhcp_fastpath.c / maps.h *)
    ("dhcp_fastpath/subscriber_pools/key", [ uH "" ]);          (* mac_to_u64(dhcp->chaddr) (clause 2) *)
    ("dhcp_fastpath/subscriber_pools/value", u_pool_assignment);
    ("dhcp_fastpath/vlan_subscriber_pools/key", [ uH "s_tag"; uH "c_tag" ]);   (* bpf_ntohs(TCI) & 0xFFF (clause 5) *)
    ("dhcp_fastpath/vlan_subscriber_pools/value", u_pool_assignment);
    ("dhcp_fastpath/circuit_id_subscribers/key", [ uNB "data" 32 true ]);    (* key->data[i] = opt[..] (clause 4) *)
    ("dhcp_fastpath/circuit_id_subscribers/value", u_pool_assignment);
    ("dhcp_fastpath/circuit_id_map/key", [ uO "" ]);            (* no program reads circuit_id_map *)
    ("dhcp_fastpath/circuit_id_map/value", [ uO "" ]);
    ("dhcp_fastpath/ip_pools/key", [ uH "" ]);
    ("dhcp_fastpath/ip_pools/value",
       (* option 1 = prefix_to_mask(pool->prefix_len); option 3 = pool->gateway raw; option 6 = dns_* raw;
          option 51 = bpf_htonl(pool->lease_time); ->network is never read *)
       [ uO "network"; uH "prefix_len"; uN4 "gateway" true; uN4 "dns_primary" true; uN4 "dns_secondary" true; uH "lease_time" ]);
    ("dhcp_fastpath/server_config/key", u_index);
    ("dhcp_fastpath/server_config/value",
       (* copy_mac(eth->h_source, config->server_mac); ip->saddr = config->server_ip; interface_index never read *)
       [ uNB "server_mac" 6 true; uN4 "server_ip" true; uO "interface_index" ]);
    ("dhcp_fastpath/stats_map/key", u_index);
    ("dhcp_fastpath/stats_map/value",
       [ uH "total_requests"; uH "fastpath_hits"; uH "fastpath_misses"; uH "errors"; uH "cache_expired"; uH "option82_present";
         uH "option82_absent"; uH "broadcast_replies"; uH "unicast_replies"; uH "vlan_packets" ]);
    (* ---- nat44.c *)
    ("nat44/subscriber_nat/key", [ uN4 "" true ]);               (* lookup by &ip->saddr *)
    ("nat44/subscriber_nat/value",
       (* nat_ip = block.public_ip -> ip->saddr raw; port_start/port_end/next_port: arithmetic, bpf_htons(alloc_port) at use *)
       [ uN4 "block.public_ip" true; uH "block.port_start"; uH "block.port_end"; uH "block.next_port"; uH "block.ports_in_use";
         uH "block.allocated_at"; uH "block.subscriber_id"; uH "block.block_size_log2"; uH "block.flags";
         uH "sessions_active"; uH "sessions_total"; uH "bytes_out"; uH "bytes_in" ]);
    ("nat44/nat_sessions/key",
       (* key.src_ip = ip->saddr; key.src_port = tcp->source (raw be16); key.protocol = ip->protocol *)
       [ uN4 "src_ip" true; uN4 "dst_ip" true; uNP "src_port" true; uNP "dst_port" true; uH "protocol" ]);
    ("nat44/nat_sessions/value",
       (* .nat_ip raw; .nat_port = bpf_htons(alloc_port) -> tcp->source raw; .orig_port = src_port raw *)
       [ uN4 "nat_ip" false; uNP "nat_port" false; uNP "orig_port" false; uN4 "orig_ip" false; uN4 "dest_ip" false; uNP "dest_port" false;
         uH "last_seen"; uH "created"; uH "packets_out"; uH "packets_in"; uH "bytes_out"; uH "bytes_in";
         uH "state"; uH "protocol"; uH "flags"; uH "is_hairpin" ]);
    ("nat44/eim_table/key",
       (* get_eim_mapping(ip->saddr, src_port raw, ip->protocol) *)
       [ uN4 "internal_ip" false; uNP "internal_port" false; uH "protocol" ]);
    ("nat44/eim_table/value",
       (* nat_ip = eim->external_ip raw; nat_port = bpf_htons(eim->external_port) *)
       [ uN4 "external_ip" false; uH "external_port"; uH "created"; uH "last_used"; uH "ref_count"; uH "flags" ]);
    ("nat44/hairpin_ips/key", [ uN4 "" false ]);                 (* lookup by &dest_ip (raw ip->daddr) *)
    ("nat44/hairpin_ips/value", [ uO "" ]);
    ("nat44/nat_config_map/key", u_index);
    ("nat44/nat_config_map/value", [ uH "flags"; uH "port_range_start"; uH "port_range_end"; uH "default_ports_per_sub" ]);
    ("nat44/nat_stats_map/key", u_index);
    ("nat44/nat_stats_map/value",
       [ uH "packets_snat"; uH "packets_dnat"; uH "packets_hairpin"; uH "packets_dropped"; uH "packets_passed"; uH "sessions_created";
         uH "sessions_expired"; uH "port_exhaustion"; uH "eim_hits"; uH "eim_misses"; uH "alg_triggers"; uH "conntrack_lookups";
         uH "conntrack_hits" ]);
    ("nat44/alg_ports/key", [ uH "" ]);                          (* ((__u32)port << 16) | protocol (clause 6) *)
    ("nat44/alg_ports/value", [ uH "port"; uH "protocol"; uH "alg_type"; uH "flags" ]);
    ("nat44/-/record",
       (* log_nat_event(ip->saddr, nat_ip, src_port raw, nat_port raw, ip->daddr, dst_port raw, ...) *)
       [ uH "timestamp"; uH "event_type"; uH "subscriber_id"; uN4 "private_ip" false; uN4 "public_ip" false; uNP "private_port" false;
         uNP "public_port" false; uN4 "dest_ip" false; uNP "dest_port" false; uH "protocol"; uH "flags" ]);
    (* ---- qos_ratelimit.c *)
    ("qos_ratelimit/qos_egress/key", [ uN4 "" true ]);           (* lookup by &ip->daddr *)
    ("qos_ratelimit/qos_egress/value", u_token_bucket);
    ("qos_ratelimit/qos_ingress/key", [ uN4 "" false ]);         (* lookup by &ip->saddr *)
    ("qos_ratelimit/qos_ingress/value", u_token_bucket);
    ("qos_ratelimit/qos_stats_map/key", u_index);
    ("qos_ratelimit/qos_stats_map/value", [ uH "packets_passed"; uH "packets_dropped"; uH "bytes_passed"; uH "bytes_dropped" ]) ].
Local Close Scope string_scope.

(* "object/map/role" of a pair name "object/map/role/GoType" *)
Fixpoint path_n (n : nat) (s : string) : string :=
  match s with
  | EmptyString => EmptyString
  | String a t =>
      if Ascii.eqb a "/"%char then match n with O => EmptyString | S k => String a (path_n k t) end
      else String a (path_n n t)
  end.
Definition pair_path (p : pair) : string := path_n 2 (pname p).

Fixpoint lookup_path (k : string) (t : list (string * list uentry)) : option (list uentry) :=
  match t with
  | [] => None
  | (k', v) :: t' => if String.eqb k k' then Some v else lookup_path k t'
  end.
Fixpoint lookup_member (n : string) (es : list uentry) : option uentry :=
  match es with
  | [] => None
  | e :: es' => if String.eqb (norm_name (uname e)) (norm_name n) then Some e else lookup_member n es'
  end.

Definition sigf (l : list field) : list field := filter (fun f => negb (fpad f)) l.

(* codes: 0 ok   1 the map / record has no usage table at all   2 member without an entry (new or renamed member:
   its encoding was never examined)   3 UNet member: C element width / count differ from the entry (retyped)
   4 UNet member: Go element width / count differ from the entry (retyped)   5 an entry names a member that no longer exists *)
Definition member_code (es : list uentry) (cf : field) (gf : option field) : N :=
  match lookup_member (fname cf) es with
  | None => 2
  | Some e =>
      match uuse e with
      | UNet =>
          if negb (Nat.eqb (fwidth cf) (ucw e) && Nat.eqb (fcount cf) (ucc e)) then 3
          else match gf with
               | Some g => if Nat.eqb (fwidth g) (ugw e) && Nat.eqb (fcount g) (ugc e) then 0 else 4
               | None => 0
               end
      | _ => 0
      end
  end.

Fixpoint enc_members (es : list uentry) (k : nat) (cs gs : list field) : list (nat * N) :=
  match cs with
  | [] => []
  | cf :: cs' =>
      let c := member_code es cf (hd_error gs) in
      (if c =? 0 then [] else [(k, c)]) ++ enc_members es (S k) cs' (tl gs)
  end.

Definition stale_entries (es : list uentry) (cs : list field) : list (nat * N) :=
  flat_map (fun e => if existsb (fun cf => String.eqb (norm_name (uname e)) (norm_name (fname cf))) cs then [] else [(0%nat, 5)]) es.

Definition enc_diag (p : pair) : list (nat * N) :=
  match lookup_path (pair_path p) usage_table with
  | None => [(0%nat, 1)]
  | Some es => enc_members es 0 (sigf (pc p)) (sigf (pgo p)) ++ stale_entries es (sigf (pc p))
  end.

Fixpoint enc_verdict_from (i : nat) (ps : list pair) : list (list N) :=
  match ps with
  | [] => []
  | p :: ps' => map (fun kc => [N.of_nat i; N.of_nat (fst kc); snd kc]) (enc_diag p) ++ enc_verdict_from (S i) ps'
  end.
(* one row [pair index; significant C member index; code] per member whose encoding is not established *)
Definition enc_verdict (ps : list pair) : list (list N) := enc_verdict_from 0 ps.
Definition enc_table_ok (ps : list pair) : bool := match enc_verdict ps with [] => true | _ => false end.

(* members classified UNet with / without a meaning-level observation in the driver: rows [pair index; member index; dyn] *)
Fixpoint net_members_from (i : nat) (ps : list pair) : list (list N) :=
  match ps with
  | [] => []
  | p :: ps' =>
      (match lookup_path (pair_path p) usage_table with
       | None => []
       | Some es =>
           let fix go (k : nat) (cs : list field) : list (list N) :=
             match cs with
             | [] => []
             | cf :: cs' =>
                 match lookup_member (fname cf) es with
                 | Some e => match uuse e with
                             | UNet => [[N.of_nat i; N.of_nat k; if udyn e then 1 else 0]]
                             | _ => []
                             end
                 | None => []
                 end ++ go (S k) cs'
             end in go 0%nat (sigf (pc p))
       end) ++ net_members_from (S i) ps'
  end.
Definition net_members (ps : list pair) : list (list N) := net_members_from 0 ps.

(* ------------------------------------------------------------------ key structs: no byte outside a declared member *)
(* A key is compared as raw memory by the kernel.  A byte of the C key type that no member (named padding
   included) covers is an implicit hole: the program's stack copy need not zero it while Go always writes zero. *)
Fixpoint dense_from (start : nat) (c : list field) : bool :=
  match c with
  | [] => true
  | f :: c' => Nat.eqb (foff f) start && dense_from (start + fwidth f * fcount f) c'
  end.
Definition c_dense (p : pair) : bool :=
  dense_from 0 (pc p) && Nat.eqb (fold_right (fun f a => fwidth f * fcount f + a)%nat 0%nat (pc p)) (pcsize p).
