(* C14, history form: the health monitor inside the Model IS the hysteresis of Model/HealthHyst.v over
   the check results of the history (for every history, every other event interleaved), and the
   composition monitor + controller: a timer-started promotion needs a failed check that completed
   FailureThreshold consecutive failures, the partner down at every step since, and the failover delay
   elapsed since that check. *)
From Coq Require Import ZArith NArith List Bool Lia ZifyN ZifyNat ZifyBool.
From Verif Require Import Base.Check Model.HealthHyst Model.Failover Model.FailoverSpec
  Proofs.HealthHystProofs Proofs.FailoverProofs.
Import ListNotations.
Local Open Scope N_scope.

(* the check results of a history *)
Fixpoint checks (evs : list ev) : list bool :=
  match evs with
  | [] => []
  | e :: tl => match check_result e with Some ok => ok :: checks tl | None => checks tl end
  end.
(* model time that passes during a history *)
Fixpoint elapsed (evs : list ev) : N :=
  match evs with
  | [] => 0
  | Advance d :: tl => d + elapsed tl
  | _ :: tl => elapsed tl
  end.

Lemma checks_app a b : checks (a ++ b) = checks a ++ checks b.
Proof. induction a as [|e a IH]; cbn; auto. destruct (check_result e); cbn; now rewrite IH. Qed.
Lemma elapsed_app a b : elapsed (a ++ b) = elapsed a + elapsed b.
Proof. induction a as [|e a IH]; cbn; auto. destruct e; rewrite ?IH; lia. Qed.

Definition hy (s : state) : hyst := mkH (healthy s) (h_cf s) (h_cs s).

Lemma run_snoc c s evs e : run c s (evs ++ [e]) = nxt c (run c s evs) e.
Proof. unfold run. now rewrite fold_left_app. Qed.

(* one step of the Model's monitor part = one step of the hysteresis (nothing else touches it) *)
Lemma step_hy c s e :
  hy (nxt c s e) = match check_result e with
                   | Some ok => hyst_step (c_fthr c) (c_rthr c) (hy s) ok
                   | None => hy s
                   end.
Proof.
  unfold hy, nxt, step, hyst_step.
  destruct s as [r st0 h hcf hcs nw fo0 fb0 foz fbz infl ni nc nx nf sn].
  destruct h, e; unf; cbn.
  all: repeat (dm; cbn); rwb; cbn; try reflexivity.
Qed.

Lemma run_hy c : forall evs s,
  hy (run c s evs) = hyst_run (c_fthr c) (c_rthr c) (hy s) (checks evs).
Proof.
  induction evs as [|e tl IH]; intros s; [reflexivity|].
  change (run c s (e :: tl)) with (run c (nxt c s e) tl). rewrite IH, step_hy. cbn.
  destruct (check_result e); reflexivity.
Qed.

Theorem model_health_is_hysteresis : forall c evs,
  hy (run c (init c) evs) = hyst_run (c_fthr c) (c_rthr c) hyst0 (checks evs).
Proof. intros. apply run_hy. Qed.

Lemma healthy_hy c evs : healthy (run c (init c) evs) = y_up (hyst_run (c_fthr c) (c_rthr c) hyst0 (checks evs)).
Proof. rewrite <- model_health_is_hysteresis. reflexivity. Qed.

(* ConsecutiveFailures / ConsecutiveSuccesses are the trailing runs of the check history *)
Theorem counters_are_trailing_runs : forall c evs,
  h_cf (run c (init c) evs) = trail false (checks evs) /\
  h_cs (run c (init c) evs) = trail true (checks evs).
Proof.
  intros c evs. destruct (hyst_counters (c_fthr c) (c_rthr c) (checks evs)) as [Hf Hs].
  rewrite <- model_health_is_hysteresis in Hf, Hs. auto.
Qed.

Lemma checks_snoc_none evs e : check_result e = None -> checks (evs ++ [e]) = checks evs.
Proof. intros H. rewrite checks_app. cbn. rewrite H. apply app_nil_r. Qed.

(* partner-down is reported only at a failed check that completes >= FailureThreshold consecutive
   failed checks *)
Theorem partner_down_only_after_threshold : forall c evs e,
  healthy (run c (init c) evs) = true -> healthy (run c (init c) (evs ++ [e])) = false ->
  e = Down /\ c_fthr c <= trail false (checks (evs ++ [e])) /\ 1 <= trail false (checks (evs ++ [e])).
Proof.
  intros c evs e. rewrite !healthy_hy. destruct (check_result e) as [ok|] eqn:He.
  - rewrite checks_app. cbn. rewrite He. intros Hu Hd.
    destruct (hyst_goes_down _ _ _ _ Hu Hd) as (-> & H1 & H2). destruct e; try discriminate. auto.
  - rewrite checks_snoc_none by auto. congruence.
Qed.

(* partner-up only at a successful check that completes >= RecoveryThreshold consecutive successes *)
Theorem partner_up_only_after_threshold : forall c evs e,
  healthy (run c (init c) evs) = false -> healthy (run c (init c) (evs ++ [e])) = true ->
  e = Up /\ c_rthr c <= trail true (checks (evs ++ [e])) /\ 1 <= trail true (checks (evs ++ [e])).
Proof.
  intros c evs e. rewrite !healthy_hy. destruct (check_result e) as [ok|] eqn:He.
  - rewrite checks_app. cbn. rewrite He. intros Hu Hd.
    destruct (hyst_goes_up _ _ _ _ Hu Hd) as (-> & H1 & H2). destruct e; try discriminate. auto.
  - rewrite checks_snoc_none by auto. congruence.
Qed.

(* the partner is reported down exactly when a failed check completed max F 1 consecutive failures and no
   max R 1 consecutive successful checks followed *)
Theorem partner_down_iff : forall c evs,
  healthy (run c (init c) evs) = false <->
  exists a b, checks evs = a ++ b /\ c_fthr c <= trail false a /\ 1 <= trail false a /\ quiet (c_rthr c) b.
Proof. intros. rewrite healthy_hy. apply hyst_down_iff. Qed.

(* ---------- composition: monitor + controller ---------- *)

(* [since] and the clock, one step *)
Lemma step_since c s e :
  since (nxt c s e) = if healthy s && negb (healthy (nxt c s e)) then now s else since s.
Proof.
  unfold nxt, step.
  destruct s as [r st0 h hcf hcs nw fo0 fb0 foz fbz infl ni nc nx nf sn].
  destruct h, e; unf; cbn.
  all: repeat (dm; cbn); try reflexivity.
Qed.

Lemma step_now c s e : now (nxt c s e) = now s + elapsed [e].
Proof.
  unfold nxt, step.
  destruct s as [r st0 h hcf hcs nw fo0 fb0 foz fbz infl ni nc nx nf sn].
  destruct e; unf; cbn.
  all: repeat (dm; cbn); lia.
Qed.

(* while the partner is reported down: the history splits at the check that took it down *)
Definition down_since (c : config) (evs : list ev) : Prop :=
  exists pre post, evs = pre ++ Down :: post /\
    healthy (run c (init c) pre) = true /\
    (forall k, healthy (run c (init c) (pre ++ Down :: firstn k post)) = false) /\
    since (run c (init c) evs) = now (run c (init c) pre) /\
    now (run c (init c) evs) = since (run c (init c) evs) + elapsed post.

Lemma firstn_snoc_cases {A} k (l : list A) x :
  firstn k (l ++ [x]) = firstn k l \/ firstn k (l ++ [x]) = l ++ [x].
Proof.
  destruct (Nat.le_gt_cases k (length l)) as [H|H].
  - left. rewrite firstn_app. replace (k - length l)%nat with 0%nat by lia. cbn. apply app_nil_r.
  - right. apply firstn_all2. rewrite app_length. cbn. lia.
Qed.

Lemma down_has_since c : forall evs, healthy (run c (init c) evs) = false -> down_since c evs.
Proof.
  induction evs as [|e evs IH] using rev_ind; [discriminate|].
  intros Hd. destruct (healthy (run c (init c) evs)) eqn:Hu.
  - destruct (partner_down_only_after_threshold c evs e Hu Hd) as (-> & _).
    exists evs, []. repeat split; auto.
    + intros k. destruct k; cbn; exact Hd.
    + rewrite run_snoc, step_since. rewrite <- run_snoc, Hu, Hd. reflexivity.
    + rewrite run_snoc, step_since, step_now. rewrite <- run_snoc, Hu, Hd. cbn. lia.
  - destruct (IH eq_refl) as (pre & post & -> & Hp & Hk & Hs & Hn).
    exists pre, (post ++ [e]). rewrite <- app_assoc. cbn. repeat split; auto.
    + intros k. destruct (firstn_snoc_cases k post e) as [-> | ->]; auto.
      replace (pre ++ Down :: post ++ [e]) with ((pre ++ Down :: post) ++ [e])
        by (rewrite <- app_assoc; reflexivity). exact Hd.
    + replace (pre ++ Down :: post ++ [e]) with ((pre ++ Down :: post) ++ [e])
        by (rewrite <- app_assoc; reflexivity).
      rewrite run_snoc, step_since, Hu. cbn. exact Hs.
    + replace (pre ++ Down :: post ++ [e]) with ((pre ++ Down :: post) ++ [e])
        by (rewrite <- app_assoc; reflexivity).
      rewrite run_snoc, step_since, step_now, Hu, elapsed_app. cbn [andb]. rewrite Hn. lia.
Qed.

Lemma run_inv2 c : forall evs s, run_ok not_stale c s evs = true -> inv2 c s -> inv2 c (run c s evs).
Proof.
  induction evs as [|e tl IH]; intros s G H; [exact H|].
  cbn in G. apply andb_true_iff in G. destruct G as [G1 G2].
  change (run c s (e :: tl)) with (run c (nxt c s e) tl). apply IH; auto. apply step_inv2; auto.
Qed.

(* a timer function that passes the state check (the callback is entered) in the timer-atomic
   semantics: the controller was pending with a due timer armed at the instant of the down report *)
Lemma firefo_starts c s :
  inv2 c s -> o_cb (obs c s FireFO) <> None ->
  healthy s = false /\ since s + c_delay c <= now s.
Proof.
  unfold inv2, obs, step.
  destruct s as [r st0 h hcf hcs nw fo0 fb0 foz fbz infl ni nc nx nf sn].
  unf; cbn. destruct fo0 as [D|]; cbn; [|congruence].
  destruct (D <=? nw) eqn:HD; cbn; [|congruence].
  destruct st0; cbn; try congruence; intros [H1 H2] _.
  - destruct (H2 eq_refl) as [-> <-]. split; auto. apply N.leb_le in HD. lia.
  - congruence.
Qed.

(* THE COMPOSITION.  In the timer-atomic semantics, whenever the failover timer's function starts an
   execution (the standby is about to promote itself) after the history [evs]:
   the history is  pre ++ Down :: post  where that failed check completed >= FailureThreshold
   consecutive failed checks of a partner that was healthy, the partner has been reported down after
   every single event since, and at least the failover delay has elapsed since that check. *)
Theorem promotion_needs_sustained_check_failure : forall c evs,
  run_ok not_stale c (init c) evs = true ->
  o_cb (obs c (run c (init c) evs) FireFO) <> None ->
  exists pre post, evs = pre ++ Down :: post /\
    healthy (run c (init c) pre) = true /\
    c_fthr c <= trail false (checks (pre ++ [Down])) /\ 1 <= trail false (checks (pre ++ [Down])) /\
    (forall k, healthy (run c (init c) (pre ++ Down :: firstn k post)) = false) /\
    c_delay c <= elapsed post.
Proof.
  intros c evs G Hcb.
  assert (HI : inv2 c (run c (init c) evs)) by (apply run_inv2; auto; exact I).
  destruct (firefo_starts c _ HI Hcb) as [Hd Ht].
  destruct (down_has_since c evs Hd) as (pre & post & -> & Hp & Hk & Hs & Hn).
  exists pre, post. split; [reflexivity|]. split; [exact Hp|].
  destruct (partner_down_only_after_threshold c pre Down Hp (Hk 0%nat)) as (_ & H1 & H2).
  repeat split; auto. lia.
Qed.

(* ---------- the armed deadline, every history (stale timers, overlapping executions included) ----------
   Whenever the controller is pending, its failover timer is armed and its deadline is the instant of
   the down report that started the CURRENT uninterrupted down episode plus the configured delay —
   never an earlier episode's. *)
Definition invP (c : config) (s : state) : Prop :=
  st s = Pending -> healthy s = false /\ fo s = Some (since s + c_delay c).

Lemma step_invP c s e : invP c s -> invP c (nxt c s e).
Proof.
  unfold invP, nxt, step.
  destruct s as [r st0 h hcf hcs nw fo0 fb0 foz fbz infl ni nc nx nf sn].
  destruct h, e; unf; cbn.
  all: intros H; destruct st0; cbn in *.
  all: repeat (dm; cbn in * ); try congruence; try (intros _; split; reflexivity).
  all: try (destruct (H eq_refl) as [X _]; discriminate X).
  all: try (intros E; destruct (H E) as [H1 H2]; try discriminate H1; split; [reflexivity | exact H2]).
Qed.

Lemma run_invP c : forall evs s, invP c s -> invP c (run c s evs).
Proof.
  induction evs as [|e tl IH]; intros s H; [exact H|].
  change (run c s (e :: tl)) with (run c (nxt c s e) tl). apply IH, step_invP, H.
Qed.

Theorem pending_deadline_is_since_plus_delay : forall c evs,
  st (run c (init c) evs) = Pending ->
  healthy (run c (init c) evs) = false /\
  fo (run c (init c) evs) = Some (since (run c (init c) evs) + c_delay c).
Proof. intros c evs. apply (run_invP c evs (init c)). intros E; discriminate E. Qed.

(* history form: the deadline is (model time of the check that started the current down episode) + delay *)
Theorem armed_deadline_is_episode_start_plus_delay : forall c evs,
  st (run c (init c) evs) = Pending ->
  exists pre post, evs = pre ++ Down :: post /\
    healthy (run c (init c) pre) = true /\
    (forall k, healthy (run c (init c) (pre ++ Down :: firstn k post)) = false) /\
    fo (run c (init c) evs) = Some (now (run c (init c) pre) + c_delay c).
Proof.
  intros c evs HP. destruct (pending_deadline_is_since_plus_delay c evs HP) as [Hd Hf].
  destruct (down_has_since c evs Hd) as (pre & post & E & Hp & Hk & Hs & _).
  exists pre, post. repeat split; auto. rewrite Hf, Hs. reflexivity.
Qed.

(* non-vacuity, second episode: down at 0, recovery at 9 (cancelled), down again at 12: the deadline is
   12 + 10, not 0 + 10 *)
Lemma second_episode_deadline :
  st (run cfg0 (init cfg0) [Down; Advance 9; Up; Advance 3; Down; Advance 5]) = Pending /\
  fo (run cfg0 (init cfg0) [Down; Advance 9; Up; Advance 3; Down; Advance 5]) = Some 22.
Proof. vm_compute. split; reflexivity. Qed.

(* non-vacuity: default thresholds 3 / 2; F F S F F F reports the partner down at the sixth check only,
   one success does not bring it back, and the timer promotes after the delay *)
Definition cfg32 : config := Build_config 10 12 true Standby 3 2.
Definition h_flap : list ev := [Down; Down; Up; Down; Down; Down; Advance 4; Up; Down; Advance 6].
Lemma h_flap_promotes :
  run_ok not_stale cfg32 (init cfg32) h_flap = true /\
  o_cb (obs cfg32 (run cfg32 (init cfg32) h_flap) FireFO) = Some Active /\
  healthy (run cfg32 (init cfg32) [Down; Down; Up; Down; Down]) = true /\
  healthy (run cfg32 (init cfg32) [Down; Down; Up; Down; Down; Down]) = false /\
  monitor (fun _ => true) cfg32 (init cfg32) (sinit cfg32) (h_flap ++ [FireFO; CbReturn 0 true]) = None.
Proof. vm_compute. repeat split; reflexivity. Qed.
