(* C20 — HashCircuitID (pkg/ebpf/loader.go): the Model [chash] is 64-bit FNV-1a over the WHOLE input.
   Facts for every byte string: the unfolding equations (every byte enters the hash, in order, with
   uint64 wrap-around), and: two circuit-ids that differ in exactly one byte (anywhere: first, middle,
   last) never share a hash, because one FNV-1a round is a bijection of the 64-bit state for a fixed
   byte (the prime is odd) and injective in the byte for a fixed state. *)
From Coq Require Import ZArith NArith List Bool Lia ZifyN ZifyNat ZifyBool.
From Verif Require Import Base.Word Model.Keys.
Import ListNotations.
Local Open Scope N_scope.

Definition hstep (h b : N) : N := mul64 (xor64 h b) fnv_prm.

Lemma chash_fold l : chash l = fold_left hstep l fnv_init.
Proof. reflexivity. Qed.

Lemma chash_nil : chash [] = fnv_init.
Proof. reflexivity. Qed.

Lemma chash_snoc l b : chash (l ++ [b]) = hstep (chash l) b.
Proof. unfold chash. rewrite fold_left_app. reflexivity. Qed.

Lemma chash_app l1 l2 : chash (l1 ++ l2) = fold_left hstep l2 (chash l1).
Proof. unfold chash. rewrite fold_left_app. reflexivity. Qed.

(* one round in plain arithmetic: ((h xor b) * 0x100000001b3) mod 2^64 *)
Lemma hstep_mod h b : hstep h b = (N.lxor h b * fnv_prm) mod W64.
Proof. unfold hstep, mul64, xor64. apply wrap64_mod. Qed.

Lemma hstep_lt h b : hstep h b < W64.
Proof. unfold hstep, mul64. apply wrap64_lt. Qed.

Lemma chash_lt l : chash l < W64.
Proof.
  destruct l as [|x l] using rev_ind; [vm_compute; reflexivity|]. rewrite chash_snoc. apply hstep_lt.
Qed.

Lemma wrap64_small a : a < W64 -> wrap64 a = a.
Proof. intros H. rewrite wrap64_mod. apply N.mod_small. exact H. Qed.

Lemma lxor_lt a b : a < W64 -> b < W64 -> N.lxor a b < W64.
Proof.
  intros Ha Hb. rewrite <- (wrap64_small a Ha), <- (wrap64_small b Hb). unfold wrap64.
  assert (D : N.lxor (N.land a mask64) (N.land b mask64) = N.land (N.lxor a b) mask64).
  { apply N.bits_inj. intros n. rewrite N.land_spec, !N.lxor_spec, !N.land_spec.
    destruct (N.testbit a n), (N.testbit b n), (N.testbit mask64 n); reflexivity. }
  rewrite D. apply (wrap64_lt (N.lxor a b)).
Qed.

Lemma lxor_cancel h a b : N.lxor h a = N.lxor h b -> a = b.
Proof.
  intros H. assert (X : N.lxor h (N.lxor h a) = N.lxor h (N.lxor h b)) by (rewrite H; reflexivity).
  rewrite <- !N.lxor_assoc, N.lxor_nilpotent, !N.lxor_0_l in X. exact X.
Qed.

Lemma lxor_cancel_r h h' b : N.lxor h b = N.lxor h' b -> h = h'.
Proof. rewrite (N.lxor_comm h b), (N.lxor_comm h' b). apply lxor_cancel. Qed.

(* the FNV prime is odd: it has an inverse modulo 2^64 *)
Definition fnv_inv : N := 14886173955864302971.
Lemma fnv_inv_ok : (fnv_prm * fnv_inv) mod W64 = 1.
Proof. vm_compute. reflexivity. Qed.

Lemma mul_prm_inj x y : x < W64 -> y < W64 -> mul64 x fnv_prm = mul64 y fnv_prm -> x = y.
Proof.
  intros Hx Hy H. unfold mul64 in H. rewrite !wrap64_mod in H.
  assert (Wnz : W64 <> 0) by discriminate.
  assert (X : forall z, z < W64 -> ((z * fnv_prm) mod W64 * fnv_inv) mod W64 = z).
  { intros z Hz. rewrite N.mul_mod_idemp_l by exact Wnz. rewrite <- N.mul_assoc.
    rewrite <- N.mul_mod_idemp_r by exact Wnz. rewrite fnv_inv_ok, N.mul_1_r. apply N.mod_small. exact Hz. }
  rewrite <- (X x Hx), <- (X y Hy), H. reflexivity.
Qed.

Lemma hstep_inj_byte h a b : h < W64 -> a < W64 -> b < W64 -> hstep h a = hstep h b -> a = b.
Proof.
  intros Hh Ha Hb H. unfold hstep, xor64 in H. apply mul_prm_inj in H; try (apply lxor_lt; assumption).
  exact (lxor_cancel _ _ _ H).
Qed.

Lemma hstep_inj_state h h' b : h < W64 -> h' < W64 -> b < W64 -> hstep h b = hstep h' b -> h = h'.
Proof.
  intros Hh Hh' Hb H. unfold hstep, xor64 in H. apply mul_prm_inj in H; try (apply lxor_lt; assumption).
  exact (lxor_cancel_r _ _ _ H).
Qed.

Lemma fold_hstep_inj suf : wf_bytes suf -> forall u v, u < W64 -> v < W64 ->
  fold_left hstep suf u = fold_left hstep suf v -> u = v.
Proof.
  induction suf as [|x suf IH]; intros Hw u v Hu Hv H; [exact H|]. inversion Hw as [|? ? Hx Hs]; subst.
  cbn in H. apply IH in H; try assumption; try apply hstep_lt.
  apply (hstep_inj_state u v x); try assumption. unfold W64. lia.
Qed.

(* circuit-ids that differ in exactly one position have different hashes *)
Theorem chash_one_byte_differs : forall pre a b suf,
  wf_bytes suf -> a < 256 -> b < 256 -> a <> b ->
  chash (pre ++ a :: suf) <> chash (pre ++ b :: suf).
Proof.
  intros pre a b suf Hs Ha Hb Hne H. rewrite !chash_app in H. cbn in H.
  apply fold_hstep_inj in H; try assumption; try apply hstep_lt.
  apply hstep_inj_byte in H; [contradiction|apply chash_lt| |]; unfold W64; lia.
Qed.

(* in particular the LAST byte of a circuit-id of any length enters the hash *)
Corollary chash_last_byte_matters : forall l a b, a < 256 -> b < 256 -> a <> b -> chash (l ++ [a]) <> chash (l ++ [b]).
Proof. intros l a b Ha Hb Hne. apply chash_one_byte_differs; [constructor|assumption..]. Qed.

(* the published FNV-1a 64 test vector for "test" (0xf9e6e6ef197c2b25) *)
Example chash_known_value : chash [116; 101; 115; 116] = 18007334074686647077.
Proof. vm_compute. reflexivity. Qed.

(* ------------------------------------------------------------------ MakeCircuitIDKey, exactly
   two circuit-ids get the same 32-byte key if and only if they agree after cutting to 32 bytes and
   dropping trailing zero bytes: the guard of the injectivity theorem (at most 32 bytes, no trailing zero)
   is precisely the set on which that normalisation is the identity *)
Fixpoint strip0 (l : bytes) : bytes :=
  match l with
  | [] => []
  | x :: tl => match strip0 tl with
               | [] => if x =? 0 then [] else [x]
               | r => x :: r
               end
  end.
Definition cnorm (l : bytes) : bytes := strip0 (firstn ckey_len l).

Lemma strip0_zeros n : strip0 (repeat 0 n) = [].
Proof. induction n as [|n IH]; cbn; [reflexivity|]. rewrite IH. reflexivity. Qed.

Lemma strip0_pad l n : strip0 (l ++ repeat 0 n) = strip0 l.
Proof.
  induction l as [|x l IH]; cbn; [apply strip0_zeros|]. rewrite IH. reflexivity.
Qed.

Lemma strip0_split l : l = strip0 l ++ repeat 0 (length l - length (strip0 l)) /\ (length (strip0 l) <= length l)%nat.
Proof.
  induction l as [|x l [IH IL]]; cbn; [split; [reflexivity|lia]|].
  destruct (strip0 l) as [|y r] eqn:E.
  - cbn in IH. rewrite Nat.sub_0_r in IH. destruct (x =? 0) eqn:Ex.
    + apply N.eqb_eq in Ex. subst x. cbn. split; [rewrite <- IH; reflexivity|lia].
    + cbn. rewrite Nat.sub_0_r. split; [rewrite <- IH; reflexivity|lia].
  - split; [|cbn [length] in *; lia]. cbn in IH. cbn. f_equal. exact IH.
Qed.

Lemma ckey_as_pad l :
  ckey l = firstn ckey_len l ++ repeat 0 (ckey_len - length (firstn ckey_len l)).
Proof.
  unfold ckey. f_equal. f_equal. rewrite firstn_length. unfold ckey_len. lia.
Qed.

Lemma pad_norm x : (length x <= 32)%nat ->
  x ++ repeat 0 (32 - length x) = strip0 x ++ repeat 0 (32 - length (strip0 x)).
Proof.
  intros Hx. destruct (strip0_split x) as [Hs Hl]. rewrite Hs at 1. rewrite <- app_assoc, <- repeat_app.
  f_equal. f_equal. lia.
Qed.

Theorem ckey_collide_iff : forall a b, ckey a = ckey b <-> cnorm a = cnorm b.
Proof.
  intros a b. rewrite !ckey_as_pad. unfold cnorm.
  assert (La : (length (firstn ckey_len a) <= 32)%nat) by (rewrite firstn_length; unfold ckey_len; lia).
  assert (Lb : (length (firstn ckey_len b) <= 32)%nat) by (rewrite firstn_length; unfold ckey_len; lia).
  split.
  - intros H. apply (f_equal strip0) in H. rewrite !strip0_pad in H. exact H.
  - intros H. change ckey_len with 32%nat in *. rewrite (pad_norm _ La), (pad_norm _ Lb), H. reflexivity.
Qed.

(* the normalisation is the identity exactly on the guarded circuit-ids *)
Lemma strip0_id l : trailing_zero l = false -> strip0 l = l.
Proof.
  intros H. destruct (strip0_split l) as [Hs Hl].
  destruct (length l - length (strip0 l))%nat as [|n] eqn:E.
  - cbn in Hs. rewrite app_nil_r in Hs. symmetry. exact Hs.
  - exfalso. rewrite Hs in H. change (repeat 0 (S n)) with ([0] ++ repeat 0 n)%list in H.
    assert (R : repeat 0 (S n) = repeat 0 n ++ [0]).
    { clear. induction n as [|n IH]; [reflexivity|]. cbn. cbn in IH. rewrite <- IH. reflexivity. }
    change ([0] ++ repeat 0 n)%list with (repeat 0 (S n)) in H. rewrite R, app_assoc in H.
    unfold trailing_zero in H. rewrite rev_app_distr in H. cbn in H. discriminate.
Qed.

Theorem cnorm_id_on_guard : forall l, (length l <= 32)%nat -> trailing_zero l = false -> cnorm l = l.
Proof.
  intros l Hl Ht. unfold cnorm. rewrite firstn_all2 by (unfold ckey_len; lia). apply strip0_id. exact Ht.
Qed.
