(* The hysteresis of Model/HealthHyst.v over ALL lists of check results (true = the check succeeded):
   its counters are the lengths of the trailing runs; it goes down only at a failure that completes
   >= F consecutive failures and comes back only at a success that completes >= R consecutive
   successes; it is down exactly when the list splits into a part that ends with >= max F 1
   consecutive failures and a rest without max R 1 consecutive successes. *)
From Coq Require Import ZArith NArith List Bool Lia ZifyN ZifyNat ZifyBool.
From Verif Require Import Model.HealthHyst.
Import ListNotations.
Local Open Scope N_scope.

Lemma hyst_run_snoc F R y l x : hyst_run F R y (l ++ [x]) = hyst_step F R (hyst_run F R y l) x.
Proof. unfold hyst_run. now rewrite fold_left_app. Qed.

Lemma trail_snoc b l x : trail b (l ++ [x]) = if Bool.eqb x b then trail b l + 1 else 0.
Proof. unfold trail. rewrite rev_app_distr. reflexivity. Qed.

Lemma trail_nil b : trail b [] = 0. Proof. reflexivity. Qed.

(* the counters are the trailing run lengths *)
Lemma hyst_counters F R : forall l,
  y_f (hyst_run F R hyst0 l) = trail false l /\ y_s (hyst_run F R hyst0 l) = trail true l.
Proof.
  induction l as [|x l IH] using rev_ind; [split; reflexivity|].
  rewrite hyst_run_snoc, !trail_snoc. destruct IH as [If Is].
  unfold hyst_step. destruct x; cbn; rewrite ?If, ?Is; split; lia.
Qed.

(* down only at a failed check completing >= F consecutive failures *)
Lemma hyst_goes_down F R l x :
  y_up (hyst_run F R hyst0 l) = true -> y_up (hyst_run F R hyst0 (l ++ [x])) = false ->
  x = false /\ F <= trail false (l ++ [x]) /\ 1 <= trail false (l ++ [x]).
Proof.
  rewrite hyst_run_snoc, trail_snoc. destruct (hyst_counters F R l) as [If _].
  unfold hyst_step. intros Hu. rewrite Hu. destruct x; cbn; [discriminate|].
  rewrite If. intros H. apply negb_false_iff, N.leb_le in H. repeat split; lia.
Qed.

(* healthy again only at a successful check completing >= R consecutive successes *)
Lemma hyst_goes_up F R l x :
  y_up (hyst_run F R hyst0 l) = false -> y_up (hyst_run F R hyst0 (l ++ [x])) = true ->
  x = true /\ R <= trail true (l ++ [x]) /\ 1 <= trail true (l ++ [x]).
Proof.
  rewrite hyst_run_snoc, trail_snoc. destruct (hyst_counters F R l) as [_ Is].
  unfold hyst_step. intros Hu. rewrite Hu. destruct x; cbn; [|discriminate].
  rewrite Is. intros H. apply N.leb_le in H. repeat split; lia.
Qed.

(* ... and it does go down / come back at such a check (the report is not late either) *)
Lemma hyst_down_at_threshold F R l :
  F <= trail false l -> 1 <= trail false l -> y_up (hyst_run F R hyst0 l) = false.
Proof.
  destruct l as [|x l _] using rev_ind; [cbn; lia|].
  rewrite hyst_run_snoc, trail_snoc. destruct (hyst_counters F R l) as [If _].
  unfold hyst_step. destruct x; cbn; [lia|]. rewrite If. intros H _.
  destruct (y_up _); auto. apply negb_false_iff, N.leb_le. lia.
Qed.

Lemma hyst_up_at_threshold F R l :
  R <= trail true l -> 1 <= trail true l -> y_up (hyst_run F R hyst0 l) = true.
Proof.
  destruct l as [|x l _] using rev_ind; [cbn; lia|].
  rewrite hyst_run_snoc, trail_snoc. destruct (hyst_counters F R l) as [_ Is].
  unfold hyst_step. destruct x; cbn; [|lia]. rewrite Is. intros H _.
  destruct (y_up _); auto. apply N.leb_le. lia.
Qed.

(* [quiet R b]: no prefix of b ends with max R 1 consecutive successes, i.e. b contains no such run *)
Definition quiet (R : N) (b : list bool) : Prop :=
  forall b1 b2, b = b1 ++ b2 -> trail true b1 < N.max R 1.

Lemma trail_true_after_failure a b :
  1 <= trail false a -> trail true (a ++ b) = trail true b.
Proof.
  intros Ha. induction b as [|x b IH] using rev_ind.
  - rewrite app_nil_r. destruct a as [|y a _] using rev_ind; [cbn in Ha; lia|].
    rewrite trail_snoc in *. destruct y; cbn in *; [lia|reflexivity].
  - rewrite app_assoc, !trail_snoc, IH. reflexivity.
Qed.

Lemma app_snoc_split {A} (b1 b2 b : list A) x :
  b ++ [x] = b1 ++ b2 -> (exists b2', b2 = b2' ++ [x] /\ b = b1 ++ b2') \/ (b2 = [] /\ b1 = b ++ [x]).
Proof.
  intros H. destruct b2 as [|y b2 _] using rev_ind.
  - right. rewrite app_nil_r in H. auto.
  - left. rewrite app_assoc in H. apply app_inj_tail in H. destruct H as [H1 H2]. subst. eauto.
Qed.

(* the partner is down exactly when some failed check completed >= max F 1 consecutive failures and
   no max R 1 consecutive successes followed *)
Theorem hyst_down_iff F R l :
  y_up (hyst_run F R hyst0 l) = false <->
  exists a b, l = a ++ b /\ F <= trail false a /\ 1 <= trail false a /\ quiet R b.
Proof.
  split.
  - induction l as [|x l IH] using rev_ind; [discriminate|].
    intros Hd. destruct (y_up (hyst_run F R hyst0 l)) eqn:Hu.
    + destruct (hyst_goes_down F R l x Hu Hd) as (_ & H1 & H2).
      exists (l ++ [x]), []. rewrite app_nil_r. repeat split; auto.
      intros b1 b2 E. symmetry in E. apply app_eq_nil in E. destruct E as [-> _]. cbn. lia.
    + destruct (IH eq_refl) as (a & b & -> & Ha & Ha1 & Hq).
      exists a, (b ++ [x]). rewrite app_assoc. repeat split; auto.
      intros b1 b2 E. apply app_snoc_split in E. destruct E as [(b2' & -> & ->) | (-> & ->)].
      * eapply Hq; eauto.
      * rewrite trail_snoc. destruct x; cbn; [|lia].
        (* a success that left the partner down: fewer than R in a row *)
        rewrite hyst_run_snoc in Hd. unfold hyst_step in Hd. rewrite Hu in Hd. cbn in Hd.
        destruct (hyst_counters F R (a ++ b)) as [_ Is]. rewrite Is in Hd.
        rewrite trail_true_after_failure in Hd by auto. apply N.leb_gt in Hd. lia.
  - intros (a & b & -> & Ha & Ha1 & Hq). revert Hq. induction b as [|x b IH] using rev_ind; intros Hq.
    + rewrite app_nil_r. apply hyst_down_at_threshold; auto.
    + assert (Hb : quiet R b).
      { intros b1 b2 E. apply (Hq b1 (b2 ++ [x])). rewrite E, app_assoc. reflexivity. }
      specialize (IH Hb). rewrite app_assoc, hyst_run_snoc. unfold hyst_step. rewrite IH.
      destruct x; cbn; auto.
      destruct (hyst_counters F R (a ++ b)) as [_ Is]. rewrite Is.
      rewrite trail_true_after_failure by auto. apply N.leb_gt.
      pose proof (Hq (b ++ [true]) [] (eq_sym (app_nil_r _))) as H. rewrite trail_snoc in H. cbn in H.
      lia.
Qed.
