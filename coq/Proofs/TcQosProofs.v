From Coq Require Import ZArith NArith List Lia ZifyN ZifyNat ZifyBool.
From Verif Require Import Base.Word Model.TcQos Model.QosMgr Model.TcQosSpec.
Import ListNotations.
Local Open Scope N_scope.

Lemma rate_zero_step t now len : rate t = 0 -> tb_step t now len = (t, true).
Proof. intros H. unfold tb_step. rewrite H. reflexivity. Qed.
