(* Lemmas for C19 (Model/TcQos.v, Model/QosMgr.v, Model/TcQosSpec.v). *)
From Coq Require Import ZArith NArith List Bool Lia ZifyN ZifyNat ZifyBool.
From Verif Require Import Base.Word Base.Check Model.TcQos Model.QosMgr Model.TcQosSpec.
Import ListNotations.
Local Open Scope N_scope.

(* ------------------------------------------------------------------ arithmetic helpers *)
Lemma W64_pos : 0 < W64. Proof. reflexivity. Qed.
Lemma G_pos : 0 < G. Proof. reflexivity. Qed.

Lemma wrap64_small a : a < W64 -> wrap64 a = a.
Proof. intros H. rewrite wrap64_mod. apply N.mod_small. exact H. Qed.

Lemma wrap64_le a : wrap64 a <= a.
Proof. rewrite wrap64_mod. apply N.mod_le. discriminate. Qed.

Lemma sub64_mono a b : b <= a -> a < W64 -> sub64 a b = a - b.
Proof.
  intros Hle Hlt. unfold sub64. rewrite (wrap64_small b) by lia. rewrite wrap64_mod.
  replace (a + W64 - b) with ((a - b) + 1 * W64) by lia.
  rewrite N.mod_add by discriminate. apply N.mod_small. lia.
Qed.

Lemma rate8_div t : rate8 t = rate t / 8.
Proof. unfold rate8. rewrite N.shiftr_div_pow2. reflexivity. Qed.

(* ------------------------------------------------------------------ packet sequences on one bucket *)
(* admitted bytes of a sequence of (now, len) offered to one bucket *)
Fixpoint run (t : tb) (pks : list (N * N)) : tb * N :=
  match pks with
  | [] => (t, 0)
  | (now, len) :: r =>
      let '(t1, ok) := tb_step t now len in
      let '(t2, s) := run t1 r in (t2, (if ok then len else 0) + s)
  end.

(* arrival times non-decreasing from t0, inside [0, 2^64) *)
Fixpoint mono (t0 : N) (pks : list (N * N)) : Prop :=
  match pks with
  | [] => True
  | (now, _) :: r => t0 <= now /\ now < W64 /\ mono now r
  end.

Definition last_time (t0 : N) (pks : list (N * N)) : N := fold_left (fun _ p => fst p) pks t0.

Lemma last_time_cons t0 p r : last_time t0 (p :: r) = last_time (fst p) r.
Proof. reflexivity. Qed.

Lemma mono_last t0 pks : mono t0 pks -> t0 <= last_time t0 pks.
Proof.
  revert t0; induction pks as [|[now len] r IH]; intros t0; cbn [mono]; [unfold last_time; cbn; lia|].
  intros (H1 & _ & H3). rewrite last_time_cons. cbn [fst]. specialize (IH _ H3). lia.
Qed.

(* configuration quantified by the property: tokens <= burst, burst a 32-bit value, last a 64-bit value *)
Definition wf (t : tb) : Prop := tokens t <= burst t /\ burst t < W32 /\ last t < W64.

Lemma refill_bound t now : wf t -> last t <= now -> now < W64 ->
  tb_refill t now <= burst t /\ tb_refill t now <= tokens t + (now - last t) * rate8 t / G.
Proof.
  intros (Ht & Hb & Hl) Hle Hlt. unfold tb_refill, refill_product. rewrite sub64_mono by lia.
  set (p := (now - last t) * rate8 t).
  assert (Hd : wrap64 p / G <= p / G) by (apply N.div_le_mono; [discriminate|apply wrap64_le]).
  assert (Hs : wrap64 p / G < W64).
  { apply N.div_lt_upper_bound; [discriminate|]. pose proof (wrap64_lt p). unfold G, W64 in *. lia. }
  assert (Hq : wrap64 p / G <= 18446744073).
  { apply N.lt_succ_r. apply N.div_lt_upper_bound; [discriminate|]. pose proof (wrap64_lt p). unfold G, W64 in *. lia. }
  set (newt := wrap64 p / G) in *. clearbody newt p.
  unfold add64. rewrite wrap64_small by (unfold W32, W64 in *; lia).
  destruct (burst t <? tokens t + newt) eqn:E; lia.
Qed.

Lemma step_bound t now len : wf t -> rate t <> 0 -> last t <= now -> now < W64 ->
  let '(t1, ok) := tb_step t now len in
  wf t1 /\ last t1 = now /\ rate t1 = rate t /\ burst t1 = burst t /\
  (if ok then len else 0) + tokens t1 <= tokens t + (now - last t) * rate8 t / G /\
  (if ok then len else 0) + tokens t1 <= burst t.
Proof.
  intros Hwf Hr Hle Hlt. pose proof (refill_bound t now Hwf Hle Hlt) as (Hb1 & Hb2).
  destruct Hwf as (Ht & Hb & Hl). unfold tb_step.
  destruct (rate t =? 0) eqn:Er; [lia|].
  set (t2 := tb_refill t now) in *. clearbody t2.
  destruct (len <=? t2) eqn:El; unfold wf; cbn [tokens last rate burst prio]; repeat split; lia.
Qed.

Lemma div_add_le x y : x / G + y / G <= (x + y) / G.
Proof.
  pose proof (N.div_mod x G ltac:(discriminate)). pose proof (N.div_mod y G ltac:(discriminate)).
  apply N.div_le_lower_bound; [discriminate|]. unfold G in *. lia.
Qed.

Lemma run_bound pks : forall t, wf t -> rate t <> 0 -> mono (last t) pks ->
  let '(t2, s) := run t pks in
  wf t2 /\ rate t2 = rate t /\ burst t2 = burst t /\ last t2 = last_time (last t) pks /\
  s + tokens t2 <= tokens t + (last_time (last t) pks - last t) * rate8 t / G.
Proof.
  induction pks as [|[now len] r IH]; intros t Hwf Hr Hm; cbn [run].
  - unfold last_time; cbn. rewrite N.sub_diag. cbn. repeat split; try lia; apply Hwf.
  - cbn [mono] in Hm. destruct Hm as (Hle & Hlt & Hm).
    pose proof (step_bound t now len Hwf Hr Hle Hlt) as Hs.
    destruct (tb_step t now len) as [t1 ok].
    destruct Hs as (Hwf1 & Hl1 & Hr1 & Hb1 & Hineq & _).
    rewrite <- Hl1 in Hm. specialize (IH t1 Hwf1 ltac:(congruence) Hm).
    destruct (run t1 r) as [t2 s].
    destruct IH as (Hwf2 & Hr2 & Hb2 & Hl2 & Hineq2).
    rewrite last_time_cons. cbn [fst]. rewrite Hl1 in *.
    assert (Hr8 : rate8 t1 = rate8 t) by (unfold rate8; congruence). rewrite Hr8 in *.
    pose proof (mono_last _ _ Hm) as Hml.
    set (T := last_time now r) in *.
    pose proof (div_add_le ((now - last t) * rate8 t) ((T - now) * rate8 t)) as Hfl.
    replace ((now - last t) * rate8 t + (T - now) * rate8 t) with ((T - last t) * rate8 t) in Hfl by nia.
    repeat split; try congruence; try apply Hwf2; lia.
Qed.

(* The property's upper bound, window form: take any history [pre], then any window of packets starting
   with the packet at [now]: the bytes admitted in the window are at most
   burst + (rate/8) * (window length in ns) / 10^9. *)
Definition admitted_after (t : tb) (pre win : list (N * N)) : N := snd (run (fst (run t pre)) win).

Theorem admitted_upper_bound : forall t pre now len rest,
  wf t -> rate t <> 0 -> mono (last t) (pre ++ (now, len) :: rest) ->
  admitted_after t pre ((now, len) :: rest) <= burst t + (last_time now rest - now) * (rate t / 8) / G.
Proof.
  intros t pre now len rest Hwf Hr Hm. unfold admitted_after.
  assert (Hsplit : forall l1 l2 t0, mono t0 (l1 ++ l2) -> mono t0 l1 /\ mono (last_time t0 l1) l2).
  { induction l1 as [|[n l] l1 IH]; intros l2 t0 H; cbn [app mono] in *; [unfold last_time; cbn; tauto|].
    destruct H as (H1 & H2 & H3). destruct (IH _ _ H3). rewrite last_time_cons. cbn [fst]. tauto. }
  destruct (Hsplit _ _ _ Hm) as (Hm1 & Hm2).
  pose proof (run_bound pre t Hwf Hr Hm1) as Hp. destruct (run t pre) as [t1 s1]. cbn [fst].
  destruct Hp as (Hwf1 & Hr1 & Hb1 & Hl1 & _). rewrite <- Hl1 in Hm2.
  cbn [run]. cbn [mono] in Hm2. destruct Hm2 as (Hle & Hlt & Hm3).
  pose proof (step_bound t1 now len Hwf1 ltac:(congruence) Hle Hlt) as Hs.
  destruct (tb_step t1 now len) as [t2 ok]. destruct Hs as (Hwf2 & Hl2 & Hr2 & Hb2 & _ & Hcap).
  rewrite <- Hl2 in Hm3.
  pose proof (run_bound rest t2 Hwf2 ltac:(congruence) Hm3) as Hq. destruct (run t2 rest) as [t3 s3]. cbn [snd].
  destruct Hq as (_ & _ & _ & _ & Hineq). rewrite Hl2 in Hineq.
  rewrite <- rate8_div. assert (H8 : rate8 t2 = rate8 t) by (unfold rate8; congruence). rewrite H8 in Hineq.
  destruct ok; lia.
Qed.

(* ------------------------------------------------------------------ rate 0 = unlimited *)
Lemma rate_zero_step t now len : rate t = 0 -> tb_step t now len = (t, true).
Proof. intros H. unfold tb_step. rewrite H. reflexivity. Qed.

Theorem rate_zero_admits_all : forall pks t, rate t = 0 ->
  run t pks = (t, fold_right (fun p a => snd p + a) 0 pks).
Proof.
  induction pks as [|[now len] r IH]; intros t H; cbn [run]; [reflexivity|].
  rewrite rate_zero_step by exact H. rewrite IH by exact H. reflexivity.
Qed.

(* program level: whatever the frame, clock and packet length, a hit on an entry with rate 0 passes and
   leaves the map untouched *)
Theorem rate_zero_prog : forall d m f plen now pin key v t,
  qos_lookup d m f = LHit key v t -> rate t = 0 ->
  exists p, qos_prog d m f plen now pin = (m, VRet TC_ACT_OK p, []).
Proof.
  intros d m f plen now pin key v t Hl Hr. unfold qos_prog. rewrite Hl. rewrite rate_zero_step by exact Hr.
  rewrite Hr. cbn. destruct d; eexists; reflexivity.
Qed.

(* ------------------------------------------------------------------ Model traces through the monitor *)
Definition model_io (ops : list op) : list (op * out) :=
  map (fun x => (fst (fst x), snd (fst x))) (model_trace step init ops).
(* (step, clause+1) of the first rejection of the Model's own trace, (0,0) when accepted *)
Definition model_verdict (ops : list op) : N * N := accept_trace accept 1 sinit (model_io ops).

Definition sub1 : bytes := [10; 0; 0; 1].
Definition raw_bucket (tok lst r b : N) : bytes := tb_encode {| tokens := tok; last := lst; rate := r; burst := b; prio := 0 |}.

(* (i) 8 kbit/s = 1000 byte/s, burst 1500, a 100-byte packet offered every 999 999 ns (refill floor(0.999) = 0
   every time, last_update advanced every time): after the initial burst nothing is ever admitted; the
   monitor rejects when the credit discarded while the subscriber was being refused exceeds burst + 65535 *)
Definition starve_trunc_ops : list op :=
  [PutRaw Egress sub1 (raw_bucket 1500 1000 8000 1500); Rep Egress sub1 100 1000 999999 70000].
Lemma starve_trunc_rejected : model_verdict starve_trunc_ops = (2, 2).
Proof. vm_compute. reflexivity. Qed.

(* (ii) 100 Gbit/s: a gap of 1.4757 s makes elapsed * (rate/8) = 2^64 + 1.29e9: the refill is 1 token
   instead of a full bucket; the packet refused before the gap is refused again after it *)
Definition starve_wrap_ops : list op :=
  [PutRaw Egress sub1 (raw_bucket 0 0 100000000000 1500); Sub Egress sub1 1500 0; Sub Egress sub1 1500 1475739526].
Lemma starve_wrap_rejected : model_verdict starve_wrap_ops = (3, 2).
Proof. vm_compute. reflexivity. Qed.

Definition no_starvation_statement : Prop := forall ops, snd (model_verdict ops) <> 2.

Theorem no_starvation_refuted : ~ no_starvation_statement.
Proof. intros H. apply (H starve_trunc_ops). rewrite starve_trunc_rejected. reflexivity. Qed.

Theorem no_starvation_refuted_by_wrap : exists ops, snd (model_verdict ops) = 2 /\
  exists t now, refill_product t now >= W64 /\ In (PutRaw Egress sub1 (tb_encode t)) ops.
Proof.
  exists starve_wrap_ops. split; [rewrite starve_wrap_rejected; reflexivity|].
  exists {| tokens := 0; last := 0; rate := 100000000000; burst := 1500; prio := 0 |}, 1475739526.
  split; [vm_compute; discriminate|left; reflexivity].
Qed.

(* the starvation is permanent: whenever every gap is shorter than one token period (gap * rate/8 < 10^9)
   the refill is 0 forever, whatever the number of packets *)
Lemma zero_refill t now : wf t -> last t <= now -> now < W64 -> (now - last t) * rate8 t < G ->
  tb_refill t now = tokens t.
Proof.
  intros (Ht & Hb & Hl) Hle Hlt Hp. unfold tb_refill, refill_product. rewrite sub64_mono by lia.
  rewrite wrap64_small by (unfold G, W64 in *; lia). rewrite N.div_small by exact Hp.
  unfold add64. rewrite N.add_0_r. rewrite wrap64_small by (unfold W32, W64 in *; lia).
  destruct (burst t <? tokens t) eqn:E; lia.
Qed.

Fixpoint arrivals (n : nat) (now gap len : N) : list (N * N) :=
  match n with O => [] | S k => (now + gap, len) :: arrivals k (now + gap) gap len end.

Theorem starved_forever : forall n t gap len,
  wf t -> rate t <> 0 -> gap * rate8 t < G -> tokens t < len -> last t + N.of_nat n * gap < W64 ->
  snd (run t (arrivals n (last t) gap len)) = 0.
Proof.
  induction n as [|n IH]; intros t gap len Hwf Hr Hg Htok Hend; [reflexivity|].
  cbn [arrivals run]. unfold tb_step. destruct (rate t =? 0) eqn:Er; [lia|].
  assert (Hn : last t + gap <= last t + N.of_nat (S n) * gap) by nia.
  assert (Hn2 : last t + gap + N.of_nat n * gap < W64) by nia.
  assert (Hz : tb_refill t (last t + gap) = tokens t).
  { apply zero_refill; [exact Hwf|lia|lia|]. replace (last t + gap - last t) with gap by lia. exact Hg. }
  rewrite Hz. destruct (len <=? tokens t) eqn:El; [lia|].
  set (t1 := {| tokens := tokens t; last := last t + gap; rate := rate t; burst := burst t; prio := prio t |}).
  assert (H0 : snd (run t1 (arrivals n (last t1) gap len)) = 0).
  { apply IH.
    - destruct Hwf as (H1 & H2 & H3). unfold wf, t1; cbn [tokens last burst]. lia.
    - exact Hr.
    - exact Hg.
    - exact Htok.
    - unfold t1; cbn [last]. exact Hn2. }
  unfold t1 in H0 at 2. cbn [last] in H0.
  destruct (run t1 (arrivals n (last t + gap) gap len)) as [t2 s]. cbn [snd] in *. lia.
Qed.

(* ------------------------------------------------------------------ control plane -> data path *)
Lemma le_n_length n : forall v, length (le_n n v) = n.
Proof. induction n; intros v; cbn; [reflexivity|]. rewrite IHn. reflexivity. Qed.

Lemma le_v_le_n n : forall v, v < 256 ^ N.of_nat n -> le_v (le_n n v) = v.
Proof.
  induction n as [|n IH]; intros v Hv.
  - cbn in *. lia.
  - cbn [le_n le_v]. rewrite IH.
    + change 255 with (N.ones 8). rewrite N.land_ones, N.shiftr_div_pow2. change (2 ^ 8) with 256.
      pose proof (N.div_mod v 256 ltac:(discriminate)). lia.
    + rewrite N.shiftr_div_pow2. change (2 ^ 8) with 256.
      apply N.div_lt_upper_bound; [discriminate|].
      replace (N.of_nat (S n)) with (N.succ (N.of_nat n)) in Hv by lia. rewrite N.pow_succ_r' in Hv. exact Hv.
Qed.

Lemma firstn_le_n n v r : firstn n (le_n n v ++ r) = le_n n v.
Proof.
  rewrite <- (le_n_length n v) at 1. rewrite firstn_app, Nat.sub_diag, firstn_all. cbn. apply app_nil_r.
Qed.
Lemma skipn_le_n n v r : skipn n (le_n n v ++ r) = r.
Proof.
  rewrite <- (le_n_length n v) at 1. rewrite skipn_app, Nat.sub_diag, skipn_all. reflexivity.
Qed.

Lemma skipn_add {A} a : forall b (l : list A), skipn (a + b) l = skipn b (skipn a l).
Proof. induction a as [|a IH]; intros b l; [reflexivity|]. destruct l; cbn; [destruct b; reflexivity|apply IH]. Qed.

Lemma nth28 (a b c d x : bytes) : length a = 8%nat -> length b = 8%nat -> length c = 8%nat -> length d = 4%nat ->
  nth 28 (a ++ b ++ c ++ d ++ x) 0 = nth 0 x 0.
Proof.
  intros Ha Hb Hc Hd. rewrite !app_assoc. rewrite app_nth2; rewrite !app_length, Ha, Hb, Hc, Hd; [reflexivity|lia].
Qed.

Lemma decode_full r b p : r < W64 -> b < W32 -> p < 256 ->
  tb_decode (full_bucket r b p) = Some {| tokens := b; last := 0; rate := r; burst := b; prio := p |}.
Proof.
  intros Hr Hb Hp. unfold full_bucket, tb_encode, tb_decode. cbn [tokens last rate burst prio].
  rewrite !app_length, !le_n_length. cbn [length Nat.add N.of_nat N.eqb Pos.of_succ_nat Pos.succ Pos.eqb].
  rewrite nth28 by apply le_n_length. cbn [nth].
  rewrite firstn_le_n.
  change 24%nat with (8 + (8 + 8))%nat. change 16%nat with (8 + 8)%nat.
  rewrite !skipn_add. rewrite !skipn_le_n. rewrite !firstn_le_n.
  rewrite !le_v_le_n by (cbn; unfold W64, W32 in *; lia).
  change 255 with (N.ones 8). rewrite N.land_ones. rewrite (N.mod_small p) by exact Hp. reflexivity.
Qed.

Lemma m_get_put m : forall k v, m_get (m_put m k v) k = Some v.
Proof.
  assert (Hr : forall k, bytes_eqb k k = true) by (intros k; apply bytes_eqb_eq; reflexivity).
  induction m as [|[k' v'] m IH]; intros k v; cbn; [rewrite Hr; reflexivity|].
  destruct (bytes_eqb k k') eqn:E; cbn; [rewrite Hr; reflexivity|].
  destruct (lex_leb k k'); cbn; [rewrite Hr; reflexivity|]. rewrite E. apply IH.
Qed.

Lemma lookup_sub_frame d m a b c e :
  qos_lookup d m (sub_frame d [a; b; c; e]) =
  match m_get m [a; b; c; e] with
  | None => LPass
  | Some v => match tb_decode v with None => LOob | Some t => LHit [a; b; c; e] v t end
  end.
Proof. destruct d; reflexivity. Qed.

Lemma div256 x y : y < 256 -> (x * 256 + y) / 256 = x.
Proof. intros H. rewrite N.div_add_l by discriminate. rewrite N.div_small by exact H. lia. Qed.
Lemma mod256 x y : y < 256 -> (x * 256 + y) mod 256 = y.
Proof. intros H. rewrite N.add_comm, N.mod_add by discriminate. apply N.mod_small. exact H. Qed.

Lemma key_bytes_rev a b c e : a < 256 -> b < 256 -> c < 256 -> e < 256 -> key_bytes [a; b; c; e] = [e; c; b; a].
Proof.
  intros Ha Hb Hc He. unfold key_bytes, ip_to_key, be32. cbn [le_n].
  change 255 with (N.ones 8). rewrite !N.land_ones, !N.shiftr_div_pow2. change (2 ^ 8) with 256.
  rewrite !(div256 _ e He), !(div256 _ c Hc), !(div256 _ b Hb).
  rewrite (mod256 _ e He), (mod256 _ c Hc), (mod256 _ b Hb), (N.mod_small a 256 Ha). reflexivity.
Qed.

(* "the policy set through the control plane is the one enforced": after SetSubscriberQoS the data path,
   looking at a frame of that subscriber, finds a bucket with the policy's rate and burst, full *)
Definition enforced (s : state) (d : dir) (ip : bytes) (r b : N) : Prop :=
  exists v t, qos_lookup d (get_map s d) (sub_frame d ip) = LHit ip v t /\ rate t = r /\ burst t = b /\ tokens t = b.

Definition valid_req (ip : bytes) (down up b pr : N) : Prop :=
  (exists a b' c e, ip = [a; b'; c; e] /\ a < 256 /\ b' < 256 /\ c < 256 /\ e < 256) /\
  down < W64 /\ up < W64 /\ b < W32 /\ pr < 256.

Definition policy_enforced_statement : Prop := forall s viap ip down up b pr, valid_req ip down up b pr ->
  let s' := fst (fst (step s (SetQoS viap ip down up b pr))) in
  enforced s' Egress ip down (contract_burst down b) /\ enforced s' Ingress ip up (contract_burst up b).

Lemma not_enforced_byte_order : ~ enforced (fst (fst (step init (SetQoS false [10; 0; 0; 2] 8000 8000 0 0)))) Egress [10; 0; 0; 2] 8000 65536.
Proof. intros (v & t & H & _). vm_compute in H. discriminate. Qed.

Theorem policy_enforced_refuted : ~ policy_enforced_statement.
Proof.
  intros H. specialize (H init false [10; 0; 0; 2] 8000 8000 0 0).
  destruct H as (He & _).
  - split; [exists 10, 0, 0, 2; repeat split; reflexivity|repeat split; reflexivity].
  - apply not_enforced_byte_order. exact He.
Qed.

(* second, independent way: palindromic address (key order harmless), explicit burst: ingress ignores it *)
Theorem policy_enforced_refuted_ingress_burst :
  ~ enforced (fst (fst (step init (SetQoS false [7; 7; 7; 7] 80000 80000 1500 0)))) Ingress [7; 7; 7; 7] 80000 1500.
Proof. intros (v & t & H & _ & Hb & _). vm_compute in H. inversion H; subst. vm_compute in Hb. discriminate. Qed.

Definition palindromic (ip : bytes) : Prop := exists a b, ip = [a; b; b; a] /\ a < 256 /\ b < 256.

Lemma clamp_burst_lt x : clamp_burst x < W32.
Proof. unfold clamp_burst. destruct (_ <? 65536); [reflexivity|]. destruct (10485760 <? _) eqn:E; [reflexivity|]. unfold W32. lia. Qed.

Lemma clamp_default r : r < 34359738368 -> clamp_burst (r / 8) = default_burst r.
Proof.
  intros H. unfold clamp_burst, default_burst.
  assert (r / 8 < W32) by (apply N.div_lt_upper_bound; [discriminate|unfold W32; lia]).
  fold W32. rewrite N.mod_small by assumption. reflexivity.
Qed.

(* guard: palindromic address, default burst (BurstBytes = 0), rates below 2^35 bit/s (34.4 Gbit/s; above,
   uint32(bps/8) truncates before the clamp) *)
Theorem policy_enforced_partial : forall s viap ip down up pr,
  palindromic ip -> down < 34359738368 -> up < 34359738368 -> pr < 256 ->
  let s' := fst (fst (step s (SetQoS viap ip down up 0 pr))) in
  enforced s' Egress ip down (contract_burst down 0) /\ enforced s' Ingress ip up (contract_burst up 0).
Proof.
  intros s viap ip down up pr (a & b & -> & Ha & Hb) Hd Hu Hp. cbn [step is_v4 length N.of_nat N.eqb Pos.of_succ_nat Pos.succ Pos.eqb].
  unfold set_qos. cbn [fst]. rewrite key_bytes_rev by assumption.
  unfold enforced, contract_burst, egress_burst, ingress_burst. cbn [N.eqb get_map eg ing].
  rewrite !lookup_sub_frame, !m_get_put.
  rewrite !decode_full by (try apply clamp_burst_lt; unfold W64; lia).
  rewrite !clamp_default by assumption.
  split; eexists; eexists; (split; [reflexivity|cbn; repeat split; reflexivity]).
Qed.

(* ------------------------------------------------------------------ no starvation inside the guard *)
(* the monitor's per-contract judgement run in lockstep with the bucket on the Model's own verdicts *)
Fixpoint judge_run (c : contract) (t : tb) (pks : list (N * N)) : option N :=
  match pks with
  | [] => None
  | (now, len) :: r =>
      let '(t1, ok) := tb_step t now len in
      match judge c len now (if ok then TC_ACT_OK else TC_ACT_SHOT) None with
      | inr k => Some k
      | inl c' => judge_run c' t1 r
      end
  end.

(* decidable guard: clock monotone below 2^64, every gap a whole number of token periods, no 64-bit wrap *)
Fixpoint exact_gaps (t0 r8 : N) (pks : list (N * N)) : Prop :=
  match pks with
  | [] => True
  | (now, _) :: r => t0 <= now /\ now < W64 /\ ((now - t0) * r8) mod G = 0 /\ (now - t0) * r8 < W64 /\ exact_gaps now r8 r
  end.
Fixpoint exact_gapsb (t0 r8 : N) (pks : list (N * N)) : bool :=
  match pks with
  | [] => true
  | (now, _) :: r => (t0 <=? now) && (now <? W64) && (((now - t0) * r8) mod G =? 0) && ((now - t0) * r8 <? W64) && exact_gapsb now r8 r
  end.
Lemma exact_gapsb_ok t0 r8 pks : exact_gapsb t0 r8 pks = true -> exact_gaps t0 r8 pks.
Proof.
  revert t0; induction pks as [|[now len] r IH]; intros t0 H; cbn in *; [exact I|].
  rewrite !andb_true_iff in H. destruct H as ((((H1 & H2) & H3) & H4) & H5).
  repeat split; try lia. apply IH. exact H5.
Qed.

Definition sync (t : tb) (c : contract) : Prop :=
  c_rate c = rate t /\ c_burst c = burst t /\ c_L c = tokens t * S8 /\ c_tprev c = Some (last t) /\ c_U c = 0.

Lemma S8_G : S8 = 8 * G. Proof. reflexivity. Qed.

Lemma judge_step t c now len : wf t -> rate t <> 0 -> rate t = 8 * rate8 t -> sync t c ->
  last t <= now -> now < W64 -> ((now - last t) * rate8 t) mod G = 0 -> (now - last t) * rate8 t < W64 ->
  let '(t1, ok) := tb_step t now len in
  wf t1 /\ rate t1 = rate t /\ last t1 = now /\
  match judge c len now (if ok then TC_ACT_OK else TC_ACT_SHOT) None with
  | inr k => k <> 1
  | inl c' => sync t1 c'
  end.
Proof.
  intros Hwf Hr Hr8 (Sr & Sb & SL & St & SU) Hle Hlt Hmod Hnw.
  pose proof Hwf as (Ht & Hb & Hl).
  set (g := now - last t) in *.
  pose proof (N.div_mod (g * rate8 t) G ltac:(discriminate)) as Hdm. rewrite Hmod, N.add_0_r in Hdm.
  set (q := g * rate8 t / G) in *.
  assert (Hq : q < 18446744074).
  { apply N.div_lt_upper_bound; [discriminate|]. unfold G, W64 in *. lia. }
  assert (Hrefill : tb_refill t now = if burst t <? tokens t + q then burst t else tokens t + q).
  { unfold tb_refill, refill_product. rewrite sub64_mono by lia. fold g. rewrite wrap64_small by exact Hnw. fold q.
    unfold add64. rewrite wrap64_small by (unfold W32, W64 in *; lia). reflexivity. }
  assert (Hcred : rate t * g = q * S8).
  { rewrite Hr8, S8_G. replace (8 * rate8 t * g) with (8 * (g * rate8 t)) by lia. rewrite Hdm. lia. }
  unfold tb_step. destruct (rate t =? 0) eqn:Er; [lia|].
  rewrite Hrefill. set (t2 := if burst t <? tokens t + q then burst t else tokens t + q).
  assert (Ht2 : t2 <= burst t) by (unfold t2; destruct (burst t <? tokens t + q) eqn:E; lia).
  unfold judge. rewrite Sr, Er, St.
  replace (last t <=? now) with true by (symmetry; apply N.leb_le; exact Hle). fold g.
  rewrite Hcred, SL, Sb, SU.
  replace (tokens t * S8 + q * S8) with ((tokens t + q) * S8) by lia.
  assert (HLm : (if burst t * S8 <? (tokens t + q) * S8 then burst t * S8 else (tokens t + q) * S8) = t2 * S8).
  { unfold t2. destruct (burst t <? tokens t + q) eqn:E.
    - replace (burst t * S8 <? (tokens t + q) * S8) with true; [reflexivity|]. symmetry. apply N.ltb_lt. unfold S8. lia.
    - replace (burst t * S8 <? (tokens t + q) * S8) with false; [reflexivity|]. symmetry. apply N.ltb_ge. unfold S8. lia. }
  rewrite HLm. clear HLm.
  destruct (len <=? t2) eqn:El.
  - (* admitted *)
    cbn [N.eqb TC_ACT_OK]. unfold wf; cbn [tokens last rate burst prio].
    split; [lia|]. split; [reflexivity|]. split; [reflexivity|].
    destruct (burst t * S8 <? _) eqn:EH; [cbv iota; lia|].
    destruct (c_prio c); unfold sync; cbn [c_rate c_burst c_L c_tprev c_U tokens last rate burst];
      (replace (len * S8 <=? t2 * S8) with true by (symmetry; apply N.leb_le; unfold S8; lia));
      repeat split; try assumption; try reflexivity; unfold S8; lia.
  - (* dropped *)
    change (TC_ACT_SHOT =? TC_ACT_OK) with false. change (TC_ACT_SHOT =? TC_ACT_SHOT) with true. cbv iota.
    unfold wf; cbn [tokens last rate burst prio].
    split; [lia|]. split; [reflexivity|]. split; [reflexivity|].
    assert (HU : (if c_pdrop c && (len <=? burst t) then 0 + ((tokens t + q) * S8 - t2 * S8) else 0) = 0).
    { destruct (c_pdrop c); cbn [andb]; [|reflexivity]. destruct (len <=? burst t) eqn:Ee; [|reflexivity].
      assert (t2 = tokens t + q) by (unfold t2 in *; destruct (burst t <? tokens t + q) eqn:E; lia). lia. }
    rewrite HU.
    replace ((burst t + MAXPKT) * S8 <? 0) with false by (symmetry; apply N.ltb_ge; lia).
    unfold sync; cbn [c_rate c_burst c_L c_tprev c_U tokens last rate burst]. repeat split; try assumption; reflexivity.
Qed.

Theorem no_starvation_partial : forall pks t c,
  wf t -> rate t <> 0 -> rate t = 8 * rate8 t -> sync t c -> exact_gaps (last t) (rate8 t) pks ->
  judge_run c t pks <> Some 1.
Proof.
  induction pks as [|[now len] r IH]; intros t c Hwf Hr Hr8 Hs Hg; cbn [judge_run]; [discriminate|].
  cbn [exact_gaps] in Hg. destruct Hg as (Hle & Hlt & Hmod & Hnw & Hrest).
  pose proof (judge_step t c now len Hwf Hr Hr8 Hs Hle Hlt Hmod Hnw) as Hj.
  destruct (tb_step t now len) as [t1 ok]. destruct Hj as (Hwf1 & Hr1 & Hl1 & Hj).
  destruct (judge c len now (if ok then TC_ACT_OK else TC_ACT_SHOT) None) as [c'|k].
  - apply IH; try assumption; try congruence.
    + unfold rate8 in *. rewrite Hr1. exact Hr8.
    + rewrite Hl1. replace (rate8 t1) with (rate8 t) by (unfold rate8; congruence). exact Hrest.
  - intros H. inversion H. subst. apply Hj. reflexivity.
Qed.

(* non-vacuity of the guard: a backlogged 1000 byte/s flow with 1 ms gaps *)
Example exact_guard_satisfiable :
  let t := {| tokens := 1500; last := 0; rate := 8000; burst := 1500; prio := 0 |} in
  wf t /\ rate t = 8 * rate8 t /\
  exact_gaps (last t) (rate8 t) [(1000000, 100); (2000000, 100); (1000000000, 1500)] /\
  sync t (new_contract Egress sub1 8000 1500 None 1500 (Some 0)).
Proof.
  cbv zeta. split; [unfold wf; cbn; unfold W32, W64; lia|]. split; [reflexivity|].
  split; [apply exact_gapsb_ok; vm_compute; reflexivity|]. unfold sync. cbn. repeat split; reflexivity.
Qed.

(* ------------------------------------------------------------------ the monitor's clause 0 and the bucket *)
(* The monitor's upper reference H and the bucket in lockstep: H + tokens never exceeds burst, so the
   Model's own verdicts are never rejected for clause 0 — for every arrival sequence (no guard besides
   the property's own quantifier: tokens <= burst, monotone clock below 2^64). *)
Definition usync (t : tb) (c : contract) : Prop :=
  c_rate c = rate t /\ c_burst c = burst t /\ c_tprev c = Some (last t) /\ c_H c + tokens t * S8 <= burst t * S8.

Lemma judge_step_upper t c now len : wf t -> rate t <> 0 -> usync t c -> last t <= now -> now < W64 ->
  let '(t1, ok) := tb_step t now len in
  wf t1 /\ rate t1 = rate t /\ last t1 = now /\
  match judge c len now (if ok then TC_ACT_OK else TC_ACT_SHOT) None with
  | inr k => k <> 0
  | inl c' => usync t1 c'
  end.
Proof.
  intros Hwf Hr (Sr & Sb & St & SH) Hle Hlt.
  pose proof (refill_bound t now Hwf Hle Hlt) as (Hb1 & Hb2).
  pose proof Hwf as (Ht & Hb & Hl).
  set (g := now - last t) in *.
  assert (Hq : (g * rate8 t / G) * S8 <= rate t * g).
  { pose proof (N.mul_div_le (g * rate8 t) G ltac:(discriminate)) as H1.
    pose proof (N.mul_div_le (rate t) 8 ltac:(discriminate)) as H2. rewrite <- rate8_div in H2.
    rewrite S8_G. set (q := g * rate8 t / G) in *. nia. }
  set (q := g * rate8 t / G) in *.
  unfold tb_step. destruct (rate t =? 0) eqn:Er; [lia|].
  set (t2 := tb_refill t now) in *.
  unfold judge. rewrite Sr, Er, St.
  replace (last t <=? now) with true by (symmetry; apply N.leb_le; exact Hle). fold g.
  rewrite Sb. set (cred := rate t * g) in *.
  set (Hd := if cred <=? c_H c then c_H c - cred else 0).
  assert (HHd : Hd + t2 * S8 <= burst t * S8).
  { unfold Hd. destruct (cred <=? c_H c) eqn:Ec; unfold S8 in *; nia. }
  destruct (len <=? t2) eqn:El.
  - cbn [N.eqb TC_ACT_OK]. unfold wf; cbn [tokens last rate burst prio].
    split; [lia|]. split; [reflexivity|]. split; [reflexivity|].
    fold Hd. destruct (burst t * S8 <? Hd + len * S8) eqn:EH; [unfold S8 in *; nia|].
    destruct (c_prio c); unfold usync; cbn [c_rate c_burst c_H c_tprev tokens last rate burst];
      repeat split; try assumption; try reflexivity; unfold S8 in *; nia.
  - change (TC_ACT_SHOT =? TC_ACT_OK) with false. change (TC_ACT_SHOT =? TC_ACT_SHOT) with true. cbv iota.
    unfold wf; cbn [tokens last rate burst prio].
    split; [lia|]. split; [reflexivity|]. split; [reflexivity|].
    match goal with |- context [if ?x <? ?y then inr 1 else _] => destruct (x <? y) end; [discriminate|].
    unfold usync; cbn [c_rate c_burst c_H c_tprev tokens last rate burst]. fold Hd.
    repeat split; try assumption; reflexivity.
Qed.

Theorem upper_clause_never_rejects_model : forall pks t c,
  wf t -> rate t <> 0 -> usync t c -> mono (last t) pks -> judge_run c t pks <> Some 0.
Proof.
  induction pks as [|[now len] r IH]; intros t c Hwf Hr Hs Hm; cbn [judge_run]; [discriminate|].
  cbn [mono] in Hm. destruct Hm as (Hle & Hlt & Hrest).
  pose proof (judge_step_upper t c now len Hwf Hr Hs Hle Hlt) as Hj.
  destruct (tb_step t now len) as [t1 ok]. destruct Hj as (Hwf1 & Hr1 & Hl1 & Hj).
  destruct (judge c len now (if ok then TC_ACT_OK else TC_ACT_SHOT) None) as [c'|k].
  - apply IH; try assumption; try congruence.
  - intros H. inversion H. subst. apply Hj. reflexivity.
Qed.

(* ------------------------------------------------------------------ the policy table (radius.PolicyManager) *)
Definition after_ops (s : state) (ops : list op) : state := fold_left (fun st o => fst (fst (step st o))) ops s.

Lemma p_get_put t : forall n v, p_get (p_put t n v) n = Some v.
Proof.
  assert (Hr : forall k, bytes_eqb k k = true) by (intros k; apply bytes_eqb_eq; reflexivity).
  induction t as [|[n' v'] t IH]; intros n v; cbn; [rewrite Hr; reflexivity|].
  destruct (bytes_eqb n n') eqn:E; cbn; [rewrite Hr; reflexivity|].
  destruct (lex_leb n n'); cbn; [rewrite Hr; reflexivity|]. rewrite E. apply IH.
Qed.

Lemma pols_apply s ip n : pols (fst (fst (step s (ApplyPol ip n)))) = pols s.
Proof.
  cbn [step]. destruct (p_get (pols s) n) as [[[[d u] b] p]|]; [|reflexivity].
  destruct (is_v4 ip); [|reflexivity]. unfold set_qos. reflexivity.
Qed.

Lemma apply_is_set s ip n d u b p : p_get (pols s) n = Some (d, u, b, p) ->
  step s (ApplyPol ip n) = step s (SetQoS true ip d u b p).
Proof. intros H. cbn [step]. rewrite H. reflexivity. Qed.

(* a plan that is re-defined and re-applied is the plan in force: whatever was defined and applied before
   under that name (lower or higher rate, rate 0, another burst or priority), GetPolicy returns the new
   definition and SetSubscriberPolicy writes exactly what SetSubscriberQoS would write for the new values *)
Theorem policy_redefinition_applied : forall s n ip d1 u1 b1 p1 d2 u2 b2 p2, n <> [] ->
  let s2 := after_ops s [PolAdd n d1 u1 b1 p1; ApplyPol ip n; PolAdd n d2 u2 b2 p2] in
  step s2 (PolGet n) = (s2, OPol (Some (d2, u2, b2, p2)), []) /\
  step s2 (ApplyPol ip n) = step s2 (SetQoS true ip d2 u2 b2 p2).
Proof.
  intros s n ip d1 u1 b1 p1 d2 u2 b2 p2 Hn. cbv zeta.
  assert (Hg : p_get (pols (after_ops s [PolAdd n d1 u1 b1 p1; ApplyPol ip n; PolAdd n d2 u2 b2 p2])) n = Some (d2, u2, b2, p2)).
  { unfold after_ops. cbn [fold_left].
    set (s1 := fst (fst (step s (PolAdd n d1 u1 b1 p1)))).
    set (s1' := fst (fst (step s1 (ApplyPol ip n)))).
    destruct n as [|x n]; [contradiction|]. cbn [step fst pols]. apply p_get_put. }
  split; [cbn [step]; rewrite Hg; reflexivity|apply apply_is_set; exact Hg].
Qed.

(* through a named plan the guarded enforcement theorem holds as for SetSubscriberQoS *)
Theorem policy_via_plan_enforced_partial : forall s n ip down up pr,
  n <> [] -> palindromic ip -> down < 34359738368 -> up < 34359738368 -> pr < 256 ->
  let s' := after_ops s [PolAdd n down up 0 pr; ApplyPol ip n] in
  enforced s' Egress ip down (contract_burst down 0) /\ enforced s' Ingress ip up (contract_burst up 0).
Proof.
  intros s n ip down up pr Hn Hpal Hd Hu Hp. cbv zeta. unfold after_ops. cbn [fold_left].
  set (s1 := fst (fst (step s (PolAdd n down up 0 pr)))).
  assert (Hg : p_get (pols s1) n = Some (down, up, 0, pr)).
  { unfold s1. destruct n as [|x n]; [contradiction|]. cbn [step fst pols]. apply p_get_put. }
  rewrite (apply_is_set s1 ip n _ _ _ _ Hg).
  exact (policy_enforced_partial s1 true ip down up pr Hpal Hd Hu Hp).
Qed.

(* ------------------------------------------------------------------ the policy table over ALL histories *)
(* What one plan name is bound to after a history of control-plane calls, told without the table: the last
   AddPolicy of that name (non-empty names only), RemovePolicy unbinds, LoadDefaultPolicies re-defines the
   built-in names.  Every other op (SetSubscriberQoS, packets, snapshots, GetPolicy ...) leaves it alone. *)
Fixpoint assoc_last (l : list (bytes * pol)) (n : bytes) (cur : option pol) : option pol :=
  match l with [] => cur | (n', v) :: tl => assoc_last tl n (if bytes_eqb n n' then Some v else cur) end.

Definition plan_track (n : bytes) (cur : option pol) (o : op) : option pol :=
  match o with
  | PolAdd n' d u b p => match n' with [] => cur | _ => if bytes_eqb n n' then Some (d, u, b, p) else cur end
  | PolRemove n' => if bytes_eqb n n' then None else cur
  | PolLoadDefaults => assoc_last default_policies n cur
  | _ => cur
  end.
Definition plan_after (n : bytes) (ops : list op) (cur : option pol) : option pol := fold_left (plan_track n) ops cur.

Lemma bytes_eqb_refl k : bytes_eqb k k = true.
Proof. apply bytes_eqb_eq. reflexivity. Qed.

Lemma bytes_eqb_trans_false m n n' : bytes_eqb n n' = false -> bytes_eqb m n = true -> bytes_eqb m n' = false.
Proof.
  intros E H. apply bytes_eqb_eq in H. subst m. exact E.
Qed.

Lemma p_get_put_gen t : forall n v m, p_get (p_put t n v) m = if bytes_eqb m n then Some v else p_get t m.
Proof.
  induction t as [|[n' v'] t IH]; intros n v m; cbn; [reflexivity|].
  destruct (bytes_eqb n n') eqn:E.
  - apply bytes_eqb_eq in E. subst n'. cbn. destruct (bytes_eqb m n); reflexivity.
  - destruct (lex_leb n n'); cbn; [reflexivity|].
    rewrite IH. destruct (bytes_eqb m n') eqn:E2; [|reflexivity].
    destruct (bytes_eqb m n) eqn:E3; [|reflexivity].
    apply bytes_eqb_eq in E2, E3. subst. rewrite bytes_eqb_refl in E. discriminate.
Qed.

Lemma p_get_del_gen t : forall n m, p_get (p_del t n) m = if bytes_eqb m n then None else p_get t m.
Proof.
  induction t as [|[n' v'] t IH]; intros n m; cbn; [destruct (bytes_eqb m n); reflexivity|].
  destruct (bytes_eqb n n') eqn:E.
  - apply bytes_eqb_eq in E. subst n'. rewrite IH. destruct (bytes_eqb m n); reflexivity.
  - cbn. rewrite IH. destruct (bytes_eqb m n') eqn:E2; [|reflexivity].
    destruct (bytes_eqb m n) eqn:E3; [|reflexivity].
    apply bytes_eqb_eq in E2, E3. subst. rewrite bytes_eqb_refl in E. discriminate.
Qed.

Lemma p_get_fold_put l : forall t m,
  p_get (fold_left (fun t x => p_put t (fst x) (snd x)) l t) m = assoc_last l m (p_get t m).
Proof.
  induction l as [|[n' v] l IH]; intros t m; cbn [fold_left assoc_last fst snd]; [reflexivity|].
  rewrite IH, p_get_put_gen. reflexivity.
Qed.

Lemma pols_set_map s d m : pols (set_map s d m) = pols s.
Proof. destruct d; reflexivity. Qed.

Lemma plan_step s o n : p_get (pols (fst (fst (step s o)))) n = plan_track n (p_get (pols s) n) o.
Proof.
  destruct o; cbn [step plan_track].
  - destruct (_ && _); cbn [fst]; [apply f_equal2; [apply pols_set_map|reflexivity]|reflexivity].
  - destruct (is_v4 ip); [|reflexivity]. unfold set_qos. reflexivity.
  - destruct (is_v4 ip); reflexivity.
  - destruct (qos_prog _ _ _ _ _ _) as [[m' v] mk]. cbn [fst]. rewrite pols_set_map. reflexivity.
  - destruct (qos_prog _ _ _ _ _ _) as [[m' v] mk]. cbn [fst]. rewrite pols_set_map. reflexivity.
  - destruct (rep_run _ _ _ _ _ _ _) as [[m' l] mk]. cbn [fst]. rewrite pols_set_map. reflexivity.
  - reflexivity.
  - destruct name as [|x name]; [reflexivity|]. cbn [fst pols]. apply p_get_put_gen.
  - cbn [fst pols]. apply p_get_del_gen.
  - reflexivity.
  - cbn [fst pols]. apply p_get_fold_put.
  - reflexivity.
  - destruct (p_get (pols s) name) as [[[[d u] b] p]|]; [|reflexivity].
    destruct (is_v4 ip); [|reflexivity]. unfold set_qos. reflexivity.
Qed.

(* FULL, every history (control-plane calls interleaved with anything else), every name, every prior table *)
Theorem policy_table_last_definition_wins : forall ops s n,
  p_get (pols (after_ops s ops)) n = plan_after n ops (p_get (pols s) n).
Proof.
  unfold after_ops, plan_after. induction ops as [|o ops IH]; intros s n; cbn [fold_left]; [reflexivity|].
  rewrite IH, plan_step. reflexivity.
Qed.

(* ... and that binding is what GetPolicy returns and what SetSubscriberPolicy writes (or refuses) *)
Theorem policy_plan_in_force : forall ops s n ip,
  let s' := after_ops s ops in
  match plan_after n ops (p_get (pols s) n) with
  | Some (d, u, b, p) => step s' (PolGet n) = (s', OPol (Some (d, u, b, p)), []) /\
                         step s' (ApplyPol ip n) = step s' (SetQoS true ip d u b p)
  | None => step s' (PolGet n) = (s', OPol None, []) /\ step s' (ApplyPol ip n) = (s', OErr, [])
  end.
Proof.
  intros ops s n ip. cbv zeta. rewrite <- policy_table_last_definition_wins.
  destruct (p_get (pols (after_ops s ops)) n) as [[[[d u] b] p]|] eqn:Hg.
  - split; [cbn [step]; rewrite Hg; reflexivity|apply apply_is_set; exact Hg].
  - split; cbn [step]; rewrite Hg; reflexivity.
Qed.

Lemma after_ops_app s a b : after_ops s (a ++ b) = after_ops (after_ops s a) b.
Proof. unfold after_ops. apply fold_left_app. Qed.

(* guarded enforcement through a named plan, for EVERY history that leaves the plan bound to these values *)
Theorem policy_via_plan_enforced_partial_gen : forall ops s n ip down up pr,
  plan_after n ops (p_get (pols s) n) = Some (down, up, 0, pr) ->
  palindromic ip -> down < 34359738368 -> up < 34359738368 -> pr < 256 ->
  let s' := after_ops s (ops ++ [ApplyPol ip n]) in
  enforced s' Egress ip down (contract_burst down 0) /\ enforced s' Ingress ip up (contract_burst up 0).
Proof.
  intros ops s n ip down up pr Hpl Hpal Hd Hu Hp. cbv zeta. rewrite after_ops_app.
  rewrite <- policy_table_last_definition_wins in Hpl.
  change (after_ops (after_ops s ops) [ApplyPol ip n]) with (fst (fst (step (after_ops s ops) (ApplyPol ip n)))).
  rewrite (apply_is_set _ ip n _ _ _ _ Hpl).
  exact (policy_enforced_partial (after_ops s ops) true ip down up pr Hpal Hd Hu Hp).
Qed.

Example plan_guard_satisfiable :
  let guest := [103;117;101;115;116] in
  plan_after guest [PolAdd guest 1000 1000 1500 0; PolLoadDefaults; PolAdd guest 80000000 20000000 0 3;
                    PolRemove [1]; Sub Egress [10;1;1;10] 100 5] None = Some (80000000, 20000000, 0, 3) /\
  plan_after guest [PolAdd guest 1000 1000 1500 0; PolLoadDefaults] None = Some (10000000, 5000000, 500000, 2) /\
  plan_after guest [PolLoadDefaults; PolRemove guest] None = None.
Proof. vm_compute. repeat split; reflexivity. Qed.

(* egress alone needs a weaker guard: ANY rate below 2^64 and ANY explicit burst (or the default one below
   2^35 bit/s); only the key byte order (palindromic address) remains *)
Theorem policy_enforced_egress_partial : forall s viap ip down up b pr,
  palindromic ip -> down < W64 -> b < W32 -> pr < 256 -> (b = 0 -> down < 34359738368) ->
  let s' := fst (fst (step s (SetQoS viap ip down up b pr))) in
  enforced s' Egress ip down (contract_burst down b).
Proof.
  intros s viap ip down up b pr (a & c & -> & Ha & Hc) Hd Hb Hp Hz.
  cbn [step is_v4 length N.of_nat N.eqb Pos.of_succ_nat Pos.succ Pos.eqb].
  unfold set_qos. cbn [fst]. rewrite key_bytes_rev by assumption.
  unfold enforced, contract_burst, egress_burst. cbn [get_map eg].
  rewrite !lookup_sub_frame, !m_get_put.
  destruct (b =? 0) eqn:Eb.
  - apply N.eqb_eq in Eb. rewrite decode_full by (try apply clamp_burst_lt; assumption).
    rewrite clamp_default by (apply Hz; exact Eb).
    eexists; eexists; (split; [reflexivity|cbn; repeat split; reflexivity]).
  - rewrite decode_full by assumption.
    eexists; eexists; (split; [reflexivity|cbn; repeat split; reflexivity]).
Qed.

(* rate 0 set through the control plane = unlimited at the data path: FULL for the bucket written by
   SetSubscriberQoS / SetSubscriberPolicy (any burst, any other direction's rate, any prior state), for
   every packet length and clock value, and the map is left as it is (so it holds for every sequence) *)
Theorem rate_zero_set_unlimited : forall s viap ip up b pr plen now pin,
  palindromic ip -> b < W32 -> pr < 256 ->
  let s' := fst (fst (step s (SetQoS viap ip 0 up b pr))) in
  exists p, qos_prog Egress (eg s') (sub_frame Egress ip) plen now pin = (eg s', VRet TC_ACT_OK p, []).
Proof.
  intros s viap ip up b pr plen now pin (a & c & -> & Ha & Hc) Hb Hp. cbv zeta.
  cbn [step is_v4 length N.of_nat N.eqb Pos.of_succ_nat Pos.succ Pos.eqb].
  unfold set_qos. cbn [fst eg].
  rewrite key_bytes_rev by assumption.
  assert (Hbe : egress_burst 0 b < W32).
  { unfold egress_burst. destruct (b =? 0); [apply clamp_burst_lt|exact Hb]. }
  eapply rate_zero_prog.
  - rewrite lookup_sub_frame, m_get_put, decode_full by (try assumption; reflexivity). reflexivity.
  - reflexivity.
Qed.

Theorem rate_zero_set_unlimited_ingress : forall s viap ip down b pr plen now pin,
  palindromic ip -> pr < 256 ->
  let s' := fst (fst (step s (SetQoS viap ip down 0 b pr))) in
  exists p, qos_prog Ingress (ing s') (sub_frame Ingress ip) plen now pin = (ing s', VRet TC_ACT_OK p, []).
Proof.
  intros s viap ip down b pr plen now pin (a & c & -> & Ha & Hc) Hp. cbv zeta.
  cbn [step is_v4 length N.of_nat N.eqb Pos.of_succ_nat Pos.succ Pos.eqb].
  unfold set_qos. cbn [fst ing].
  rewrite key_bytes_rev by assumption.
  eapply rate_zero_prog.
  - rewrite lookup_sub_frame, m_get_put, decode_full by (try assumption; try apply clamp_burst_lt; reflexivity). reflexivity.
  - reflexivity.
Qed.

(* the same through a plan that a history left bound to download rate 0 (e.g. a limited plan RE-defined to
   unlimited, or the built-in "unlimited"), after the plan is (re-)applied *)
Theorem rate_zero_via_plan_unlimited : forall ops s n ip up b pr plen now pin,
  plan_after n ops (p_get (pols s) n) = Some (0, up, b, pr) ->
  palindromic ip -> b < W32 -> pr < 256 ->
  let s' := after_ops s (ops ++ [ApplyPol ip n]) in
  exists p, qos_prog Egress (eg s') (sub_frame Egress ip) plen now pin = (eg s', VRet TC_ACT_OK p, []).
Proof.
  intros ops s n ip up b pr plen now pin Hpl Hpal Hb Hp. cbv zeta. rewrite after_ops_app.
  rewrite <- policy_table_last_definition_wins in Hpl.
  change (after_ops (after_ops s ops) [ApplyPol ip n]) with (fst (fst (step (after_ops s ops) (ApplyPol ip n)))).
  rewrite (apply_is_set _ ip n _ _ _ _ Hpl).
  exact (rate_zero_set_unlimited (after_ops s ops) true ip up b pr plen now pin Hpal Hb Hp).
Qed.

(* ------------------------------------------------------------------ monitor accepts the Model: control plane *)
(* every op except packet runs; on such histories no clause of the monitor can fire on the Model's own
   outputs: the "control-plane call fails / plan read back is not the plan defined / unknown plan not
   refused" part of clause 3 is never raised by the Model, for any history and any starting table *)
Definition ctl_op (o : op) : bool :=
  match o with Pkt _ _ _ _ | Sub _ _ _ _ | Rep _ _ _ _ _ _ => false | _ => true end.

Definition model_io_from (s : state) (ops : list op) : list (op * out) :=
  map (fun x => (fst (fst x), snd (fst x))) (model_trace step s ops).

Lemma pol_eqb_refl p : pol_eqb p p = true.
Proof. destruct p as [[[[a b] c] d]|]; cbn; [rewrite !N.eqb_refl; reflexivity|reflexivity]. Qed.

Lemma accept_ctl s ss o : s_p ss = pols s -> ctl_op o = true ->
  exists ss', accept ss o (snd (fst (step s o))) = inl ss' /\ s_p ss' = pols (fst (fst (step s o))).
Proof.
  intros Hs Hc. destruct o; try discriminate Hc; cbn [step accept].
  - destruct (_ && _); cbn [fst snd accept_c].
    + destruct (tb_decode val); eexists; (split; [reflexivity|cbn [s_p]; rewrite pols_set_map; exact Hs]).
    + eexists; (split; [reflexivity|exact Hs]).
  - destruct (is_v4 ip) eqn:E.
    + unfold set_qos. cbn [fst snd accept_c]. eexists; (split; [reflexivity|exact Hs]).
    + cbn [fst snd accept_c]. rewrite E. eexists; (split; [reflexivity|exact Hs]).
  - destruct (is_v4 ip); cbn [fst snd accept_c]; eexists; (split; [reflexivity|exact Hs]).
  - cbn [fst snd accept_c]. eexists; (split; [reflexivity|exact Hs]).
  - destruct name as [|x name]; cbn [fst snd]; eexists; (split; [reflexivity|]); [exact Hs|cbn [s_p pols]; rewrite Hs; reflexivity].
  - cbn [fst snd]. eexists; (split; [reflexivity|]). cbn [s_p pols]. rewrite Hs. reflexivity.
  - cbn [fst snd]. rewrite Hs, pol_eqb_refl. eexists; (split; [reflexivity|exact Hs]).
  - cbn [fst snd]. eexists; (split; [reflexivity|]). cbn [s_p pols]. rewrite Hs. reflexivity.
  - cbn [fst snd]. eexists; (split; [reflexivity|exact Hs]).
  - rewrite Hs. destruct (p_get (pols s) name) as [[[[d u] b] p]|]; cbn [fst snd].
    + destruct (is_v4 ip) eqn:E.
      * unfold set_qos. cbn [fst snd accept_c]. eexists; (split; [reflexivity|reflexivity]).
      * cbn [fst snd accept_c]. rewrite E. eexists; (split; [reflexivity|reflexivity]).
    + eexists; (split; [reflexivity|exact Hs]).
Qed.

Theorem monitor_accepts_model_control_plane : forall ops s ss i,
  s_p ss = pols s -> forallb ctl_op ops = true ->
  accept_trace accept i ss (model_io_from s ops) = (0, 0).
Proof.
  unfold model_io_from. induction ops as [|o ops IH]; intros s ss i Hs Hc; [reflexivity|].
  cbn [forallb] in Hc. apply andb_true_iff in Hc. destruct Hc as [Ho Hc].
  destruct (accept_ctl s ss o Hs Ho) as (ss' & Ha & Hs').
  cbn [model_trace]. destruct (step s o) as [[s1 r] mk] eqn:Est. cbn [map fst snd accept_trace].
  cbn [fst snd] in Ha, Hs'. rewrite Ha. apply IH; assumption.
Qed.

Example control_plane_history_nontrivial :
  let guest := [103;117;101;115;116] in
  let ops := [PolLoadDefaults; PolGet guest; PolAdd guest 80000000 20000000 0 3; PolGet guest; ApplyPol [10;1;1;10] guest;
              PolAdd [] 1 1 1 1; PolRemove guest; ApplyPol [10;1;1;10] guest; PolGet guest; PolList; Snap Egress] in
  forallb ctl_op ops = true /\
  map snd (model_io_from init ops) =
    [OUnit; OPol (Some (10000000, 5000000, 500000, 2)); OUnit; OPol (Some (80000000, 20000000, 0, 3)); OUnit;
     OErr; OUnit; OErr; OPol None;
     ONames (map fst (p_del (fold_left (fun t x => p_put t (fst x) (snd x)) default_policies []) guest));
     OSnap [([10;1;1;10], full_bucket 80000000 10000000 3)]].
Proof. vm_compute. split; reflexivity. Qed.
