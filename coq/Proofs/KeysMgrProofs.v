(* C20 — lemmas about Model/KeysMgr.v: subscriber.Manager as a sequence of critical sections.
   [g_run] folds over an ARBITRARY list of atomic steps, i.e. over every interleaving of any number of
   concurrent CreateSession / AssignAddress / ActivateSession / TerminateSession calls (and over step
   lists no execution produces, e.g. a second section without its first: the statements cover them too). *)
From Coq Require Import ZArith NArith List Bool Lia ZifyN ZifyNat ZifyBool.
From Verif Require Import Base.Word Model.Keys Model.KeysMgr Proofs.KeysProofs.
Import ListNotations.
Local Open Scope N_scope.

Definition g_next_st (st : gst) (o : gop) : gst := fst (fst (g_step st o)).
Definition g_run (st : gst) (ops : list gop) : gst := fold_left g_next_st ops st.

(* forward and reverse agree: byMAC names a session under m exactly when that session is stored and its
   MAC is m (so a MAC names at most one stored session, and every stored session is found by its MAC);
   the same for byIP and the session's IPv4 address *)
Definition mac_agree (st : gst) : Prop :=
  forall m id, aget (g_mac st) m = Some id <->
               exists o, aget (g_heap st) id = Some o /\ so_stored o = true /\ so_mac o = m.
Definition ip_agree (st : gst) : Prop :=
  forall k id, aget (g_ip st) k = Some id <->
               exists o, aget (g_heap st) id = Some o /\ so_stored o = true /\ so_ip o = Some k.
Definition heap_bound (st : gst) : Prop := forall id, aget (g_heap st) id <> None -> id < g_next st.

(* ---- refutations on the code as it is (each schedule is replayed on the real manager by the check) ---- *)
(* known finding K20g, marker 2024: ActivateSession overwrites the terminating state, a second
   TerminateSession is admitted, and its second section deletes the MAC entry of a NEW session *)
Definition k20g_schedule : list gop :=
  [GCreate 0 0; GAssignBegin 0; GAssignWrite 0 10; GAssignEnd 0; GTermBegin 0; GActivate 0; GTermBegin 0;
   GTermEnd 0; GCreate 1 0; GTermEnd 0].
Theorem mac_agree_refuted_double_teardown :
  exists ops, ~ mac_agree (g_run (g_init 100 [] []) ops).
Proof.
  exists k20g_schedule. intros H.
  assert (X : aget (g_mac (g_run (g_init 100 [] []) k20g_schedule)) 0 = Some 1).
  { apply (H 0 1). eexists. split; [vm_compute; reflexivity|]. split; reflexivity. }
  vm_compute in X. discriminate.
Qed.

(* known finding K20f, marker 2022: a second address for one session leaves the first byIP entry *)
Theorem ip_agree_refuted_reassign :
  exists ops, ~ ip_agree (g_run (g_init 100 [] []) ops).
Proof.
  exists [GCreate 0 0; GAssignWrite 0 10; GAssignWrite 0 11]. intros H.
  destruct (proj1 (H 10 0) eq_refl) as (o & Ho & _ & Hi). vm_compute in Ho. inversion Ho; subst. discriminate.
Qed.

(* ---- guards (decidable, on the state before the step) ---- *)
(* MAC index: the second section of TerminateSession runs for a session that is still stored *)
Definition g_guard_mac (st : gst) (o : gop) : bool :=
  match o with
  | GTermEnd id => stored st id
  | _ => true
  end.
(* IP index: moreover an address is written only for a session that has none, and only an address no
   session is indexed under (what a correct allocator hands out); a write the code refuses is harmless *)
Definition g_guard (st : gst) (o : gop) : bool :=
  match o with
  | GTermEnd id => stored st id
  | GAssignWrite id ip =>
      match aget (g_heap st) id with
      | Some ob => negb (so_stored ob) || so_term ob ||
                   (match so_ip ob with None => true | Some _ => false end && negb (amem (g_ip st) ip))
      | None => true
      end
  | _ => true
  end.

Fixpoint g_run_with (g : gst -> gop -> bool) (st : gst) (ops : list gop) : option gst :=
  match ops with
  | [] => Some st
  | o :: tl => if g st o then g_run_with g (g_next_st st o) tl else None
  end.

Lemma g_run_with_run g ops : forall st st', g_run_with g st ops = Some st' -> st' = g_run st ops.
Proof.
  induction ops as [|o ops IH]; intros st st' H; cbn in H; [inversion H; reflexivity|].
  destruct (g st o); [|discriminate]. cbn. apply IH. exact H.
Qed.

(* ---- building blocks ---- *)
Lemma mac_touch st id o o' :
  mac_agree st -> aget (g_heap st) id = Some o ->
  so_mac o' = so_mac o -> so_stored o' = so_stored o ->
  forall nx bi, mac_agree (g_with st nx (aset (g_heap st) id o') (g_mac st) bi).
Proof.
  intros A Ho Hm Hs nx bi m e. cbn. rewrite aget_aset. destruct (id =? e) eqn:E.
  - apply N.eqb_eq in E; subst e. rewrite (A m id). split.
    + intros (o0 & H0 & H1 & H2). rewrite Ho in H0. inversion H0; subst o0.
      exists o'. split; [reflexivity|]. rewrite Hs, Hm. split; assumption.
    + intros (o1 & H0 & H1 & H2). inversion H0; subst o1. exists o. split; [exact Ho|].
      rewrite <- Hs, <- Hm. split; assumption.
  - apply A.
Qed.

Lemma ip_touch st id o o' :
  ip_agree st -> aget (g_heap st) id = Some o ->
  so_ip o' = so_ip o -> so_stored o' = so_stored o ->
  forall nx bm, ip_agree (g_with st nx (aset (g_heap st) id o') bm (g_ip st)).
Proof.
  intros A Ho Hm Hs nx bm k e. cbn. rewrite aget_aset. destruct (id =? e) eqn:E.
  - apply N.eqb_eq in E; subst e. rewrite (A k id). split.
    + intros (o0 & H0 & H1 & H2). rewrite Ho in H0. inversion H0; subst o0.
      exists o'. split; [reflexivity|]. rewrite Hs, Hm. split; assumption.
    + intros (o1 & H0 & H1 & H2). inversion H0; subst o1. exists o. split; [exact Ho|].
      rewrite <- Hs, <- Hm. split; assumption.
  - apply A.
Qed.

Lemma bound_touch st id o o' nx bm bi :
  heap_bound st -> aget (g_heap st) id = Some o -> g_next st <= nx ->
  heap_bound (g_with st nx (aset (g_heap st) id o') bm bi).
Proof.
  intros B Ho Hn e. cbn. rewrite aget_aset. destruct (id =? e) eqn:E.
  - apply N.eqb_eq in E; subst e. intros _. assert (id < g_next st) by (apply B; congruence). lia.
  - intros H. apply B in H. lia.
Qed.

(* CreateSession on a fresh object number and a MAC without entry *)
Lemma mac_create st mac :
  mac_agree st -> heap_bound st -> amem (g_mac st) mac = false ->
  mac_agree (g_with st (g_next st + 1)
                    (aset (g_heap st) (g_next st) {| so_mac := mac; so_ip := None; so_term := false; so_stored := true |})
                    (aset (g_mac st) mac (g_next st)) (g_ip st)).
Proof.
  intros A B Hf m e. cbn. rewrite !aget_aset. apply amem_false in Hf.
  assert (Hfresh : aget (g_heap st) (g_next st) = None).
  { destruct (aget (g_heap st) (g_next st)) eqn:E; [|reflexivity].
    assert (g_next st < g_next st) by (apply B; congruence). lia. }
  destruct (mac =? m) eqn:Em; destruct (g_next st =? e) eqn:Ee.
  - apply N.eqb_eq in Em. apply N.eqb_eq in Ee. subst. split; [|reflexivity].
    intros _. eexists. split; [reflexivity|]. split; reflexivity.
  - apply N.eqb_eq in Em. apply N.eqb_neq in Ee. subst m. split.
    + intros H; inversion H; congruence.
    + intros H. apply A in H. congruence.
  - apply N.eqb_neq in Em. apply N.eqb_eq in Ee. subst e. split.
    + intros H. apply A in H. destruct H as (o & Ho & _). congruence.
    + intros (o & Ho & _ & Hm). inversion Ho; subst o. cbn in Hm. congruence.
  - apply A.
Qed.

Lemma ip_create st mac bm :
  ip_agree st -> heap_bound st ->
  ip_agree (g_with st (g_next st + 1)
                   (aset (g_heap st) (g_next st) {| so_mac := mac; so_ip := None; so_term := false; so_stored := true |})
                   bm (g_ip st)).
Proof.
  intros A B k e. cbn. rewrite aget_aset.
  destruct (g_next st =? e) eqn:Ee; [|apply A]. apply N.eqb_eq in Ee. subst e. split.
  - intros H. apply A in H. destruct H as (o & Ho & _).
    assert (g_next st < g_next st) by (apply B; congruence). lia.
  - intros (o & Ho & _ & Hi). inversion Ho; subst o. discriminate.
Qed.

(* the write of AssignAddress: first address of the session, address without entry *)
Lemma ip_write st id o ip :
  ip_agree st -> aget (g_heap st) id = Some o -> so_stored o = true -> so_ip o = None ->
  aget (g_ip st) ip = None ->
  forall bm, ip_agree (g_with st (g_next st)
                   (aset (g_heap st) id {| so_mac := so_mac o; so_ip := Some ip; so_term := so_term o; so_stored := so_stored o |})
                   bm (aset (g_ip st) ip id)).
Proof.
  intros A Ho Hs Hn Hf bm k e. cbn. rewrite !aget_aset.
  destruct (ip =? k) eqn:Ek; destruct (id =? e) eqn:Ee.
  - apply N.eqb_eq in Ek. apply N.eqb_eq in Ee. subst. split; [|reflexivity].
    intros _. eexists. split; [reflexivity|]. cbn. split; [exact Hs|reflexivity].
  - apply N.eqb_eq in Ek. apply N.eqb_neq in Ee. subst k. split.
    + intros H; inversion H; congruence.
    + intros H. apply A in H. congruence.
  - apply N.eqb_neq in Ek. apply N.eqb_eq in Ee. subst e. split.
    + intros H. apply A in H. destruct H as (o0 & H0 & _ & Hi). congruence.
    + intros (o1 & H1 & _ & Hi). inversion H1; subst o1. cbn in Hi. congruence.
  - apply A.
Qed.

(* section 2 of TerminateSession for a stored session *)
Lemma mac_term_end st id o bi :
  mac_agree st -> aget (g_heap st) id = Some o -> so_stored o = true ->
  mac_agree (g_with st (g_next st)
                    (aset (g_heap st) id {| so_mac := so_mac o; so_ip := so_ip o; so_term := so_term o; so_stored := false |})
                    (adel (g_mac st) (so_mac o)) bi).
Proof.
  intros A Ho Hs m e. cbn. rewrite aget_adel, aget_aset.
  assert (Hown : aget (g_mac st) (so_mac o) = Some id) by (apply A; exists o; auto).
  destruct (so_mac o =? m) eqn:Em; destruct (id =? e) eqn:Ee.
  - split; [discriminate|]. intros (o1 & H1 & Hst & _). inversion H1; subst o1. discriminate.
  - apply N.eqb_eq in Em. apply N.eqb_neq in Ee. subst m. split; [discriminate|].
    intros H. apply A in H. congruence.
  - apply N.eqb_neq in Em. apply N.eqb_eq in Ee. subst e. split.
    + intros H. apply A in H. destruct H as (o0 & H0 & _ & Hm). congruence.
    + intros (o1 & H1 & Hst & _). inversion H1; subst o1. discriminate.
  - apply A.
Qed.

Lemma ip_term_end st id o bm :
  ip_agree st -> aget (g_heap st) id = Some o -> so_stored o = true ->
  ip_agree (g_with st (g_next st)
                   (aset (g_heap st) id {| so_mac := so_mac o; so_ip := so_ip o; so_term := so_term o; so_stored := false |})
                   bm (match so_ip o with Some k => adel (g_ip st) k | None => g_ip st end)).
Proof.
  intros A Ho Hs k e. cbn. rewrite aget_aset. destruct (so_ip o) as [k0|] eqn:Ei.
  - rewrite aget_adel.
    assert (Hown : aget (g_ip st) k0 = Some id) by (apply A; exists o; auto).
    destruct (k0 =? k) eqn:Ek; destruct (id =? e) eqn:Ee.
    + split; [discriminate|]. intros (o1 & H1 & Hst & _). inversion H1; subst o1. discriminate.
    + apply N.eqb_eq in Ek. apply N.eqb_neq in Ee. subst k. split; [discriminate|].
      intros H. apply A in H. congruence.
    + apply N.eqb_neq in Ek. apply N.eqb_eq in Ee. subst e. split.
      * intros H. apply A in H. destruct H as (o0 & H0 & _ & Hm). congruence.
      * intros (o1 & H1 & Hst & _). inversion H1; subst o1. discriminate.
    + apply A.
  - destruct (id =? e) eqn:Ee; [|apply A]. apply N.eqb_eq in Ee. subst e. split.
    + intros H. apply A in H. destruct H as (o0 & H0 & _ & Hm). congruence.
    + intros (o1 & H1 & Hst & _). inversion H1; subst o1. discriminate.
Qed.

(* ---- one step ---- *)
Lemma term_begin_shape st id st' r :
  term_begin st id = (st', r) ->
  st' = st \/ exists o, aget (g_heap st) id = Some o /\ so_stored o = true /\
                        st' = set_obj st id {| so_mac := so_mac o; so_ip := so_ip o; so_term := true; so_stored := true |}.
Proof.
  unfold term_begin. destruct (aget (g_heap st) id) as [o|] eqn:Ho; [|intros H; inversion H; auto].
  destruct (so_stored o) eqn:Hs; cbn; [|intros H; inversion H; auto].
  destruct (so_term o); intros H; inversion H; auto. right. exists o. auto.
Qed.

Definition g_inv_mac (st : gst) : Prop := heap_bound st /\ mac_agree st.
Definition g_inv (st : gst) : Prop := heap_bound st /\ mac_agree st /\ ip_agree st.

Lemma term_begin_inv st id st' r : term_begin st id = (st', r) ->
  (heap_bound st -> heap_bound st') /\ (mac_agree st -> mac_agree st') /\ (ip_agree st -> ip_agree st') /\
  (forall o, r = RNone -> aget (g_heap st') id = Some o -> so_stored o = true).
Proof.
  intros H. pose proof (term_begin_shape _ _ _ _ H) as [->|(o & Ho & Hs & ->)].
  - split; [auto|]. split; [auto|]. split; [auto|]. intros o Hr Hg. subst r. unfold term_begin in H. rewrite Hg in H.
    destruct (so_stored o) eqn:E; [reflexivity|]. cbn in H. inversion H.
  - unfold set_obj. split; [|split; [|split]].
    + intros B. eapply bound_touch; eauto. lia.
    + intros A. eapply mac_touch; eauto.
    + intros A. eapply ip_touch; eauto.
    + intros o1 _ Hg. cbn in Hg. rewrite aget_aset, N.eqb_refl in Hg. inversion Hg; reflexivity.
Qed.

Lemma term_end_inv st id : stored st id = true ->
  let st' := fst (fst (term_end st id)) in
  (heap_bound st -> heap_bound st') /\ (mac_agree st -> mac_agree st') /\ (ip_agree st -> ip_agree st').
Proof.
  unfold stored, term_end. destruct (aget (g_heap st) id) as [o|] eqn:Ho; [|discriminate]. intros Hs. cbn.
  split; [|split].
  - intros B. eapply bound_touch; eauto. lia.
  - intros A. apply mac_term_end; assumption.
  - intros A. apply ip_term_end; assumption.
Qed.

Lemma term_end_bound st id : heap_bound st -> heap_bound (fst (fst (term_end st id))).
Proof.
  intros B. unfold term_end. destruct (aget (g_heap st) id) as [o|] eqn:Ho; [|exact B]. cbn.
  eapply bound_touch; eauto. lia.
Qed.

(* every step keeps the heap bound; every step but a second section on a removed session keeps the MAC index *)
Lemma g_step_bound st o : heap_bound st -> heap_bound (g_next_st st o).
Proof.
  intros B. unfold g_next_st, g_step. destruct o as [id mac|id|id ip|id|id|id|id|id].
  - destruct (negb (id =? g_next st)) eqn:E1; [exact B|]. apply negb_false_iff in E1. apply N.eqb_eq in E1. subst id.
    destruct (g_cap st <=? g_count st); [exact B|]. destruct (amem (g_mac st) mac); [exact B|]. cbn.
    intros e. cbn. rewrite aget_aset. destruct (g_next st =? e) eqn:E; [apply N.eqb_eq in E; lia|].
    intros H. apply B in H. lia.
  - exact B.
  - destruct (aget (g_heap st) id) as [ob|] eqn:Ho; [|exact B].
    destruct (negb (so_stored ob) || so_term ob); [exact B|]. cbn. eapply bound_touch; eauto. lia.
  - destruct (aget (g_heap st) id); exact B.
  - destruct (aget (g_heap st) id) as [ob|] eqn:Ho; [|exact B]. destruct (negb (so_stored ob)); [exact B|].
    cbn. unfold set_obj. eapply bound_touch; eauto. lia.
  - destruct (term_begin st id) as [st' r] eqn:T. cbn. apply (proj1 (term_begin_inv _ _ _ _ T)). exact B.
  - pose proof (term_end_bound st id B) as H. destruct (term_end st id) as [[st' r] mk]. exact H.
  - assert (X : heap_bound (fst (fst (let '(st1, r) := term_begin st id in
                 match r with
                 | RNone => let '(st2, r2, mk) := term_end st1 id in g_out st2 r2 mk
                 | _ => g_out st r [] end)))).
    { destruct (term_begin st id) as [st1 r] eqn:T. pose proof (proj1 (term_begin_inv _ _ _ _ T) B) as B1.
      destruct r; try exact B. pose proof (term_end_bound st1 id B1) as H.
      destruct (term_end st1 id) as [[st2 r2] mk]. exact H. }
    destruct (aget (g_heap st) id) as [[m [k|] [|] [|]]|]; try exact X; exact B.
Qed.

Lemma g_step_mac st o : heap_bound st -> mac_agree st -> g_guard_mac st o = true -> mac_agree (g_next_st st o).
Proof.
  intros B A G. unfold g_next_st, g_step. destruct o as [id mac|id|id ip|id|id|id|id|id]; cbn in G.
  - destruct (negb (id =? g_next st)) eqn:E1; [exact A|]. apply negb_false_iff in E1. apply N.eqb_eq in E1. subst id.
    destruct (g_cap st <=? g_count st); [exact A|]. destruct (amem (g_mac st) mac) eqn:Hm; [exact A|]. cbn.
    apply mac_create; assumption.
  - exact A.
  - destruct (aget (g_heap st) id) as [ob|] eqn:Ho; [|exact A].
    destruct (negb (so_stored ob) || so_term ob); [exact A|]. cbn.
    intros m e. pose proof (mac_touch st id ob {| so_mac := so_mac ob; so_ip := Some ip; so_term := so_term ob; so_stored := so_stored ob |}
                              A Ho eq_refl eq_refl (g_next st) (aset (g_ip st) ip id) m e) as H. exact H.
  - destruct (aget (g_heap st) id); exact A.
  - destruct (aget (g_heap st) id) as [ob|] eqn:Ho; [|exact A]. destruct (so_stored ob) eqn:Hs; [|exact A]. cbn.
    unfold set_obj. eapply mac_touch; eauto.
  - destruct (term_begin st id) as [st' r] eqn:T. cbn. apply (proj1 (proj2 (term_begin_inv _ _ _ _ T))). exact A.
  - pose proof (proj1 (proj2 (term_end_inv st id G)) A) as H. destruct (term_end st id) as [[st' r] mk]. exact H.
  - assert (X : mac_agree (fst (fst (let '(st1, r) := term_begin st id in
                 match r with
                 | RNone => let '(st2, r2, mk) := term_end st1 id in g_out st2 r2 mk
                 | _ => g_out st r [] end)))).
    { destruct (term_begin st id) as [st1 r] eqn:T. pose proof (term_begin_inv _ _ _ _ T) as (_ & A1 & _ & S1).
      destruct r; try exact A. specialize (A1 A).
      assert (Hst : stored st1 id = true).
      { unfold stored. destruct (aget (g_heap st1) id) as [o1|] eqn:H1.
        - apply (S1 o1 eq_refl eq_refl).
        - exfalso. pose proof (term_begin_shape _ _ _ _ T) as [->|(o & Ho & Hs & ->)].
          + unfold term_begin in T. rewrite H1 in T. inversion T.
          + cbn in H1. rewrite aget_aset, N.eqb_refl in H1. discriminate. }
      pose proof (proj1 (proj2 (term_end_inv st1 id Hst)) A1) as H.
      destruct (term_end st1 id) as [[st2 r2] mk]. exact H. }
    destruct (aget (g_heap st) id) as [[m [k|] [|] [|]]|]; try exact X; exact A.
Qed.

Lemma g_guard_implies_mac st o : g_guard st o = true -> g_guard_mac st o = true.
Proof. destruct o; cbn; auto. Qed.

Lemma g_step_ip st o : heap_bound st -> ip_agree st -> g_guard st o = true -> ip_agree (g_next_st st o).
Proof.
  intros B A G. unfold g_next_st, g_step. destruct o as [id mac|id|id ip|id|id|id|id|id]; cbn in G.
  - destruct (negb (id =? g_next st)) eqn:E1; [exact A|]. apply negb_false_iff in E1. apply N.eqb_eq in E1. subst id.
    destruct (g_cap st <=? g_count st); [exact A|]. destruct (amem (g_mac st) mac) eqn:Hm; [exact A|]. cbn.
    apply ip_create; assumption.
  - exact A.
  - destruct (aget (g_heap st) id) as [ob|] eqn:Ho; [|exact A].
    destruct (negb (so_stored ob) || so_term ob) eqn:R; [exact A|]. cbn in G.
    apply andb_true_iff in G. destruct G as [G1 G2]. apply negb_true_iff in G2. apply amem_false in G2.
    apply orb_false_iff in R. destruct R as [R1 _]. apply negb_false_iff in R1.
    destruct (so_ip ob) eqn:Hi; [discriminate|]. cbn.
    exact (ip_write st id ob ip A Ho R1 Hi G2 (g_mac st)).
  - destruct (aget (g_heap st) id); exact A.
  - destruct (aget (g_heap st) id) as [ob|] eqn:Ho; [|exact A]. destruct (so_stored ob) eqn:Hs; [|exact A]. cbn.
    unfold set_obj. eapply ip_touch; eauto.
  - destruct (term_begin st id) as [st' r] eqn:T. cbn. apply (proj1 (proj2 (proj2 (term_begin_inv _ _ _ _ T)))). exact A.
  - pose proof (proj2 (proj2 (term_end_inv st id G)) A) as H. destruct (term_end st id) as [[st' r] mk]. exact H.
  - assert (X : ip_agree (fst (fst (let '(st1, r) := term_begin st id in
                 match r with
                 | RNone => let '(st2, r2, mk) := term_end st1 id in g_out st2 r2 mk
                 | _ => g_out st r [] end)))).
    { destruct (term_begin st id) as [st1 r] eqn:T. pose proof (term_begin_inv _ _ _ _ T) as (_ & _ & A1 & S1).
      destruct r; try exact A. specialize (A1 A).
      assert (Hst : stored st1 id = true).
      { unfold stored. destruct (aget (g_heap st1) id) as [o1|] eqn:H1.
        - apply (S1 o1 eq_refl eq_refl).
        - exfalso. pose proof (term_begin_shape _ _ _ _ T) as [->|(o & Ho & Hs & ->)].
          + unfold term_begin in T. rewrite H1 in T. inversion T.
          + cbn in H1. rewrite aget_aset, N.eqb_refl in H1. discriminate. }
      pose proof (proj2 (proj2 (term_end_inv st1 id Hst)) A1) as H.
      destruct (term_end st1 id) as [[st2 r2] mk]. exact H. }
    destruct (aget (g_heap st) id) as [[m [k|] [|] [|]]|]; try exact X; exact A.
Qed.

Lemma g_init_inv cap pm pi : g_inv (g_init cap pm pi).
Proof.
  repeat split; cbn; try discriminate; try (intros (o & H & _); discriminate). intros id H. contradiction.
Qed.

(* ---- the theorems ---- *)
Theorem mgr_mac_index_agrees_partial : forall cap pm pi ops st,
  g_run_with g_guard_mac (g_init cap pm pi) ops = Some st -> mac_agree st.
Proof.
  intros cap pm pi ops st H.
  assert (X : forall ops s s', g_inv_mac s -> g_run_with g_guard_mac s ops = Some s' -> g_inv_mac s').
  { clear. induction ops as [|o ops IH]; intros s s' I H; cbn in H; [inversion H; subst; exact I|].
    destruct (g_guard_mac s o) eqn:G; [|discriminate]. eapply IH; [|exact H]. destruct I as [B A].
    split; [apply g_step_bound; exact B|apply g_step_mac; assumption]. }
  destruct (g_init_inv cap pm pi) as (B & A & _). exact (proj2 (X ops _ _ (conj B A) H)).
Qed.

Theorem mgr_indexes_agree_partial : forall cap pm pi ops st,
  g_run_with g_guard (g_init cap pm pi) ops = Some st -> mac_agree st /\ ip_agree st.
Proof.
  intros cap pm pi ops st H.
  assert (X : forall ops s s', g_inv s -> g_run_with g_guard s ops = Some s' -> g_inv s').
  { clear. induction ops as [|o ops IH]; intros s s' I H; cbn in H; [inversion H; subst; exact I|].
    destruct (g_guard s o) eqn:G; [|discriminate]. eapply IH; [|exact H]. destruct I as (B & A & C).
    split; [apply g_step_bound; exact B|].
    split; [apply g_step_mac; auto using g_guard_implies_mac|apply g_step_ip; assumption]. }
  exact (proj2 (X ops _ _ (g_init_inv cap pm pi) H)).
Qed.

(* a key identifies at most one stored session *)
Theorem mgr_key_identifies_one : forall st a b oa ob,
  aget (g_heap st) a = Some oa -> aget (g_heap st) b = Some ob ->
  so_stored oa = true -> so_stored ob = true ->
  (mac_agree st -> so_mac oa = so_mac ob -> a = b) /\
  (ip_agree st -> forall k, so_ip oa = Some k -> so_ip ob = Some k -> a = b).
Proof.
  intros st a b oa ob Ha Hb Sa Sb. split.
  - intros A Hm.
    assert (H1 : aget (g_mac st) (so_mac oa) = Some a) by (apply A; exists oa; auto).
    assert (H2 : aget (g_mac st) (so_mac oa) = Some b) by (apply A; exists ob; auto).
    congruence.
  - intros A k Ka Kb.
    assert (H1 : aget (g_ip st) k = Some a) by (apply A; exists oa; auto).
    assert (H2 : aget (g_ip st) k = Some b) by (apply A; exists ob; auto).
    congruence.
Qed.

(* releasing: the second section of TerminateSession frees the session's MAC and address and touches no
   other entry; the MAC is accepted again at once (capacity permitting) *)
Theorem mgr_term_end_frees : forall st id o,
  aget (g_heap st) id = Some o ->
  let st' := g_next_st st (GTermEnd id) in
  aget (g_mac st') (so_mac o) = None /\
  (forall m, m <> so_mac o -> aget (g_mac st') m = aget (g_mac st) m) /\
  (forall k, so_ip o <> Some k -> aget (g_ip st') k = aget (g_ip st) k) /\
  (forall k, so_ip o = Some k -> aget (g_ip st') k = None) /\
  (g_count st' < g_cap st' ->
   o_ret (snd (fst (g_step st' (GCreate (g_next st') (so_mac o))))) = RKey (g_next st')).
Proof.
  intros st id o Ho. unfold g_next_st, g_step, term_end. rewrite Ho. cbn [fst snd g_out].
  set (st' := g_with st _ _ _ _).
  assert (M : aget (g_mac st') (so_mac o) = None) by (cbn; rewrite aget_adel, N.eqb_refl; reflexivity).
  split; [exact M|]. split; [|split; [|split]].
  - intros m Hm. cbn. rewrite aget_adel. destruct (so_mac o =? m) eqn:E; [apply N.eqb_eq in E; congruence|reflexivity].
  - intros k Hk. cbn. destruct (so_ip o) as [k0|]; [|reflexivity]. rewrite aget_adel.
    destruct (k0 =? k) eqn:E; [apply N.eqb_eq in E; congruence|reflexivity].
  - intros k Hk. cbn. rewrite Hk, aget_adel, N.eqb_refl. reflexivity.
  - intros Hc. cbn [g_step]. rewrite N.eqb_refl. cbn [negb].
    destruct (g_cap st' <=? g_count st') eqn:E; [lia|].
    unfold amem. rewrite M. reflexivity.
Qed.

(* non-vacuity: a schedule inside the guard in which an AssignAddress and a TerminateSession of the same
   session overlap (the write is refused), the MAC is reused while the old call is still finishing, and
   the bystander keeps its entries *)
Example mgr_guard_satisfiable :
  exists st, g_run_with g_guard (g_init 100 [] [])
               [GCreate 0 0; GCreate 1 1; GAssignBegin 1; GAssignWrite 1 11; GAssignEnd 1;
                GAssignBegin 0; GAssignWrite 0 10; GAssignBegin 0; GTermBegin 0; GAssignEnd 0; GAssignWrite 0 12;
                GTermEnd 0; GCreate 2 0; GTerm 2; GCreate 3 0] = Some st /\
             aget (g_mac st) 0 = Some 3 /\ aget (g_mac st) 1 = Some 1 /\ aget (g_ip st) 11 = Some 1 /\
             aget (g_ip st) 10 = None /\ aget (g_ip st) 12 = None.
Proof. eexists. split; [vm_compute; reflexivity|]. repeat split. Qed.
