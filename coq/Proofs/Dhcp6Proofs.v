(* Lemmas about Model/Dhcp6.v for property C02: the free-list pool invariant, the server invariant
   (every lease value is the client's pool allocation), one-step specification, clause lemmas. *)
From Coq Require Import NArith List Bool Lia ZifyN ZifyNat ZifyBool FinFun.
From Verif Require Import Model.Dhcp4 Model.Dhcp6 Proofs.Dhcp4Proofs.
Import ListNotations.
Local Open Scope N_scope.

(* ---------- a free-list pool over universe U ---------- *)
Record pinv (U : list N) (al : list (N * N)) (av : list N) : Prop := {
  q_av : NoDup av; q_vals : NoDup (map snd al); q_keys : NoDup (map fst al);
  q_disj : forall v, In v av -> ~ In v (map snd al);
  q_univ : forall v, In v av \/ In v (map snd al) -> In v U }.

Lemma palloc_inv U h al av v al' av' :
  pinv U al av -> pool_alloc h al av = Some (v, al', av') ->
  pinv U al' av' /\ alookup h al' = Some v /\ (forall h', h' <> h -> alookup h' al' = alookup h' al) /\
  (forall h', h' <> h -> alookup h' al <> Some v) /\ In v U /\
  (alookup h al = Some v \/ (alookup h al = None /\ av = v :: av')).
Proof.
  intros [P1 P2 P6 P3 PU]. unfold pool_alloc. destruct (alookup h al) eqn:E.
  - intro H; inv H. split; [constructor; auto|]. repeat split; auto.
    + intros h' Hn Hc. apply Hn. eapply lookup_vals_inj; eauto.
    + apply PU. right. eapply lookup_in_vals; eauto.
  - destruct av as [|x tl]; [discriminate|]. intro H; inv H. inv P1.
    assert (Hx : ~ In v (map snd al)) by (apply P3; now left).
    split; [constructor; cbn|split; [|split; [|split; [|split]]]; cbn].
    + assumption.
    + constructor; auto.
    + constructor; auto. now apply alookup_none.
    + intros y Hy [Hc|Hc]; [subst; auto|]. apply (P3 y); [now right|assumption].
    + intros y [Hy|[Hy|Hy]]; apply PU; cbn; auto.
    + now rewrite N.eqb_refl.
    + intros h' Hn. destruct (h =? h') eqn:E2; [apply N.eqb_eq in E2; congruence|reflexivity].
    + intros h' Hn Hc. apply Hx. eapply lookup_in_vals; eauto.
    + apply PU. left; now left.
    + right. auto.
Qed.

Lemma nodup_map_aremove {B} (f : N * N -> B) k (l : list (N * N)) : NoDup (map f l) -> NoDup (map f (aremove k l)).
Proof. apply nodup_map_filter. Qed.

Lemma prelease_inv U h al av al' av' :
  pinv U al av -> pool_release_key h al av = (al', av') ->
  pinv U al' av' /\ alookup h al' = None /\ (forall h', h' <> h -> alookup h' al' = alookup h' al) /\
  (forall v, alookup h al = Some v -> In v av').
Proof.
  intros [P1 P2 P6 P3 PU]. unfold pool_release_key. destruct (alookup h al) as [v|] eqn:E; intro H; inv H.
  - assert (Hv : In v (map snd al)) by (eapply lookup_in_vals; eauto).
    assert (Hsub : forall y, In y (map snd (aremove h al)) -> In y (map snd al) /\ y <> v).
    { intros y Hy. apply in_map_iff in Hy. destruct Hy as [[k y'] [Hy1 Hy2]]. cbn in Hy1. subst y'.
      unfold aremove in Hy2. apply filter_In in Hy2. destruct Hy2 as [Hy2 Hk]. cbn in Hk.
      split; [now apply (in_map snd) in Hy2|]. intros ->. apply alookup_in in E.
      assert (k = h) by (eapply vals_inj; eauto). subst. rewrite N.eqb_refl in Hk. discriminate. }
    split; [constructor|repeat split].
    + apply nodup_snoc; auto. intro Hc. now apply (P3 v).
    + now apply nodup_map_aremove.
    + now apply nodup_map_aremove.
    + intros y Hy Hc. apply Hsub in Hc. apply in_app_or in Hy. destruct Hy as [Hy|[Hy|[]]]; [apply (P3 y); tauto|subst; tauto].
    + intros y [Hy|Hy]; apply PU; [apply in_app_or in Hy; destruct Hy as [Hy|[Hy|[]]]; [tauto|subst; tauto]|apply Hsub in Hy; tauto].
    + apply alookup_aremove_eq.
    + intros h' Hn. now apply alookup_aremove_ne.
    + intros y Hy. inv Hy. apply in_or_app. right; now left.
  - split; [constructor; auto|]. repeat split; auto. intros; discriminate.
Qed.

(* ---------- server invariant ---------- *)
Record inv6 (c : cfg6) (s : state6) : Prop := {
  i_a : pinv (init_aavail c) (aalloc s) (aavail s);
  i_p : pinv (init_pavail c) (palloc s) (pavail s);
  i_la : forall d l a, alookup d (leases6 s) = Some l -> l6_addr l = Some a -> alookup d (aalloc s) = Some a;
  i_lp : forall d l p, alookup d (leases6 s) = Some l -> l6_pfx l = Some p -> alookup d (palloc s) = Some p;
  i_g : forall d u, alookup d (granted s) = Some u -> c_valid c <= u }.

Definition wf6 (c : cfg6) : Prop := 0 < p_step c.

Lemma init6_inv c : wf6 c -> inv6 c (init6 c).
Proof.
  intro Hw. constructor; cbn; try (intros; discriminate).
  - constructor; cbn; try constructor; try tauto.
    unfold init_aavail. apply Injective_map_NoDup; [|apply seq_NoDup]. intros i j H. lia.
  - constructor; cbn; try constructor; try tauto.
    unfold init_pavail. apply Injective_map_NoDup; [|apply seq_NoDup]. intros i j H. unfold wf6 in Hw. nia.
Qed.

Definition client6 (o : op6) : N :=
  match o with
  | Solicit d _ _ _ | Request6 d _ _ _ | Renew d _ _ | Rebind d _ _ | Confirm d _ | Release6 d | Decline6 d | InfoReq d => d
  | Advance6 _ => 0
  end.
Definition na_of (r : reply6) : ia6 := match r with R6Adv na _ | R6Reply na _ _ => na | _ => IaNone end.
Definition pd_of (r : reply6) : ia6 := match r with R6Adv _ pd | R6Reply _ pd _ => pd | _ => IaNone end.

(* what a granted value satisfies in the state before the message *)
Definition grant_ok (U : list N) (al : list (N * N)) (av : list N) (d v : N) : Prop :=
  In v U /\ (forall d', d' <> d -> alookup d' al <> Some v) /\
  (alookup d al = Some v \/ (alookup d al = None /\ hd_error av = Some v)).

Lemma grant_of_alloc U d al av v al' av' :
  pinv U al av -> pool_alloc d al av = Some (v, al', av') -> grant_ok U al av d v.
Proof.
  intros Hp Ha. destruct (palloc_inv _ _ _ _ _ _ _ Hp Ha) as (_ & _ & _ & H1 & H2 & H3).
  repeat split; auto. destruct H3 as [H3|[H3 H4]]; [now left|right; split; [assumption|now rewrite H4]].
Qed.

Lemma advertise_spec c s d na pd s' r :
  inv6 c s -> advertise s d na pd = (s', r) ->
  inv6 c s' /\ (forall v, na_of r = IaVal v -> grant_ok (init_aavail c) (aalloc s) (aavail s) d v) /\
  (forall v, pd_of r = IaVal v -> grant_ok (init_pavail c) (palloc s) (pavail s) d v).
Proof.
  intros [Ia Ip La Lp Lg]. unfold advertise.
  destruct na; [destruct (pool_alloc d (aalloc s) (aavail s)) as [[[va al] av]|] eqn:Ea|];
  (destruct pd; [destruct (pool_alloc d (palloc s) (pavail s)) as [[[vp pl] pv]|] eqn:Ep|]);
  intro H; inv H; cbn;
  repeat match goal with
  | H : pool_alloc _ (aalloc s) _ = Some _ |- _ =>
      pose proof (grant_of_alloc _ _ _ _ _ _ _ Ia H); destruct (palloc_inv _ _ _ _ _ _ _ Ia H) as (? & ? & ? & _); clear H
  | H : pool_alloc _ (palloc s) _ = Some _ |- _ =>
      pose proof (grant_of_alloc _ _ _ _ _ _ _ Ip H); destruct (palloc_inv _ _ _ _ _ _ _ Ip H) as (? & ? & ? & _); clear H
  end;
  (split; [constructor; cbn; auto;
           intros d0 l0 x Hl0 Hx;
           try (specialize (La _ _ _ Hl0 Hx)); try (specialize (Lp _ _ _ Hl0 Hx));
           (destruct (N.eq_dec d0 d) as [->|Hn];
            [match goal with
             | G : grant_ok _ (aalloc s) _ _ _ |- alookup _ _ = Some _ => destruct G as (_ & _ & [G|[G _]]); congruence
             | G : grant_ok _ (palloc s) _ _ _ |- alookup _ _ = Some _ => destruct G as (_ & _ & [G|[G _]]); congruence
             | _ => idtac end
            |repeat match goal with Hh : forall h', h' <> d -> alookup h' ?a = _ |- alookup _ ?a = _ => rewrite Hh by assumption end; auto])
         |split; intros v Hv; inv Hv; assumption]).
Qed.

Lemma build_reply_spec c s d na pd rapid s' r mk :
  inv6 c s -> build_reply c s d na pd rapid = (s', r, mk) ->
  inv6 c s' /\ (forall v, na_of r = IaVal v -> grant_ok (init_aavail c) (aalloc s) (aavail s) d v) /\
  (forall v, pd_of r = IaVal v -> grant_ok (init_pavail c) (palloc s) (pavail s) d v).
Proof.
  intros [Ia Ip La Lp Lg]. unfold build_reply.
  assert (L0a : forall a, l6_addr (get_lease s d) = Some a -> alookup d (aalloc s) = Some a).
  { unfold get_lease. destruct (alookup d (leases6 s)) eqn:E; [intros a Ha; apply (La _ _ _ E Ha)|cbn; discriminate]. }
  assert (L0p : forall a, l6_pfx (get_lease s d) = Some a -> alookup d (palloc s) = Some a).
  { unfold get_lease. destruct (alookup d (leases6 s)) eqn:E; [intros a Ha; apply (Lp _ _ _ E Ha)|cbn; discriminate]. }
  destruct na; [destruct (pool_alloc d (aalloc s) (aavail s)) as [[[va al] av]|] eqn:Ea|];
  (destruct pd; [destruct (pool_alloc d (palloc s) (pavail s)) as [[[vp pl] pv]|] eqn:Ep|]);
  intro H; inv H; cbn [na_of pd_of];
  repeat match goal with
  | H : pool_alloc _ (aalloc s) _ = Some _ |- _ =>
      pose proof (grant_of_alloc _ _ _ _ _ _ _ Ia H); destruct (palloc_inv _ _ _ _ _ _ _ Ia H) as (? & ? & ? & _); clear H
  | H : pool_alloc _ (palloc s) _ = Some _ |- _ =>
      pose proof (grant_of_alloc _ _ _ _ _ _ _ Ip H); destruct (palloc_inv _ _ _ _ _ _ _ Ip H) as (? & ? & ? & _); clear H
  end;
  (split; [constructor; cbn [leases6 aalloc aavail palloc pavail granted];
           [assumption|assumption|intros d0 l0 x|intros d0 l0 x|
            intros d0 u; first [apply Lg | destruct (N.eq_dec d0 d) as [->|Hn];
              [rewrite alookup_aset_eq; intro Hu; inv Hu; lia|rewrite alookup_aset_ne by assumption; apply Lg]]];
           (destruct (N.eq_dec d0 d) as [->|Hn];
            [rewrite ?alookup_aset_eq; intros Hl0; inv Hl0; cbn;
             try (intros Hx; inv Hx; assumption);
             try (intros Hx;
                  match goal with
                  | G : grant_ok _ (aalloc s) _ _ _ |- alookup _ ?a = Some _ =>
                      try (apply L0a in Hx; destruct G as (_ & _ & [G|[G _]]); congruence)
                  | G : grant_ok _ (palloc s) _ _ _ |- alookup _ ?a = Some _ =>
                      try (apply L0p in Hx; destruct G as (_ & _ & [G|[G _]]); congruence)
                  | _ => idtac end;
                  try (apply L0a in Hx; assumption); try (apply L0p in Hx; assumption))
            |rewrite ?alookup_aset_ne by assumption; intros Hl0 Hx;
             try (specialize (La _ _ _ Hl0 Hx)); try (specialize (Lp _ _ _ Hl0 Hx));
             repeat match goal with Hh : forall h', h' <> d -> alookup h' ?a = _ |- alookup _ ?a = _ => rewrite Hh by assumption end;
             eauto])
         |split; intros v Hv; inv Hv; assumption]).
Qed.

Lemma release6_inv c s d : inv6 c s -> inv6 c (release6 s d).
Proof.
  intros [Ia Ip La Lp Lg]. unfold release6. destruct (alookup d (leases6 s)) as [l|] eqn:El; [|constructor; auto].
  destruct (match l6_addr l with Some _ => pool_release_key d (aalloc s) (aavail s) | None => (aalloc s, aavail s) end) as [al av] eqn:Ea.
  destruct (match l6_pfx l with Some _ => pool_release_key d (palloc s) (pavail s) | None => (palloc s, pavail s) end) as [pl pv] eqn:Ep.
  assert (Ha : pinv (init_aavail c) al av /\ (forall h', h' <> d -> alookup h' al = alookup h' (aalloc s))).
  { destruct (l6_addr l); [destruct (prelease_inv _ _ _ _ _ _ Ia Ea) as (? & _ & ? & _); auto|inv Ea; auto]. }
  assert (Hp : pinv (init_pavail c) pl pv /\ (forall h', h' <> d -> alookup h' pl = alookup h' (palloc s))).
  { destruct (l6_pfx l); [destruct (prelease_inv _ _ _ _ _ _ Ip Ep) as (? & _ & ? & _); auto|inv Ep; auto]. }
  destruct Ha as [Ha1 Ha2]. destruct Hp as [Hp1 Hp2].
  constructor; cbn; auto.
  - intros d0 l0 a H Hx. apply alookup_aremove_some in H. destruct H as [Hn H]. rewrite Ha2 by assumption. eauto.
  - intros d0 l0 a H Hx. apply alookup_aremove_some in H. destruct H as [Hn H]. rewrite Hp2 by assumption. eauto.
  - intros d0 u H. apply alookup_aremove_some in H. destruct H as [Hn H]. eauto.
Qed.

Lemma renew_pre_inv c s d l v : inv6 c s -> alookup d (leases6 s) = Some l ->
  inv6 c {| leases6 := aset d {| l6_addr := l6_addr l; l6_pfx := l6_pfx l; l6_vend := v |} (leases6 s);
            aalloc := aalloc s; aavail := aavail s; palloc := palloc s; pavail := pavail s;
            now6 := now6 s; granted := granted s |}.
Proof.
  intros [Ia Ip La Lp Lg] Hl. constructor; cbn [leases6 aalloc aavail palloc pavail granted]; auto.
  - intros d0 l0 a. destruct (N.eq_dec d0 d) as [->|Hn].
    + rewrite alookup_aset_eq. intro H; inv H. cbn. eauto.
    + rewrite alookup_aset_ne by assumption. eauto.
  - intros d0 l0 a. destruct (N.eq_dec d0 d) as [->|Hn].
    + rewrite alookup_aset_eq. intro H; inv H. cbn. eauto.
    + rewrite alookup_aset_ne by assumption. eauto.
Qed.

(* one step: the invariant is kept, and every address / prefix in the reply is grantable to that client *)
Lemma step6_spec c s o s' r mk :
  inv6 c s -> step6 c s o = (s', r, mk) ->
  inv6 c s' /\ (forall v, na_of r = IaVal v -> grant_ok (init_aavail c) (aalloc s) (aavail s) (client6 o) v) /\
  (forall v, pd_of r = IaVal v -> grant_ok (init_pavail c) (palloc s) (pavail s) (client6 o) v).
Proof.
  intros Hi Hs.
  assert (Hnone : forall s1, inv6 c s1 -> forall r1, na_of r1 = IaNone -> pd_of r1 = IaNone ->
     inv6 c s1 /\ (forall v, na_of r1 = IaVal v -> grant_ok (init_aavail c) (aalloc s) (aavail s) (client6 o) v) /\
     (forall v, pd_of r1 = IaVal v -> grant_ok (init_pavail c) (palloc s) (pavail s) (client6 o) v)).
  { intros s1 H1 r1 E1 E2. rewrite E1, E2. split; [assumption|split; intros; discriminate]. }
  assert (Hren : forall d na pd, client6 o = d -> renew c s d na pd = (s', r, mk) ->
     inv6 c s' /\ (forall v, na_of r = IaVal v -> grant_ok (init_aavail c) (aalloc s) (aavail s) d v) /\
     (forall v, pd_of r = IaVal v -> grant_ok (init_pavail c) (palloc s) (pavail s) d v)).
  { intros d na pd Hc Hr. unfold renew in Hr. destruct (alookup d (leases6 s)) as [l|] eqn:El.
    - pose proof (renew_pre_inv c s d l (now6 s + c_valid c) Hi El) as Hi1.
      apply (build_reply_spec _ _ _ _ _ _ _ _ _ Hi1 Hr).
    - inv Hr. apply Hnone; auto. }
  destruct o as [d rapid na pd|d sid na pd|d na pd|d na pd|d addr|d|d|d|t]; cbn in Hs; cbn [client6].
  - destruct rapid; [eapply build_reply_spec; eauto|].
    destruct (advertise s d na pd) as [s1 r1] eqn:Ea. inv Hs. eapply advertise_spec; eauto.
  - destruct sid; [eapply build_reply_spec; eauto|]. inv Hs. apply (Hnone s' Hi); reflexivity.
  - apply (Hren d na pd); auto.
  - apply (Hren d na pd); auto.
  - inv Hs. apply (Hnone s' Hi); reflexivity.
  - inv Hs. apply (Hnone _ (release6_inv c s d Hi)); reflexivity.
  - inv Hs. apply (Hnone _ (release6_inv c s d Hi)); reflexivity.
  - inv Hs. apply (Hnone s' Hi); reflexivity.
  - inv Hs. apply Hnone; [|reflexivity|reflexivity]. destruct Hi. constructor; auto.
Qed.

Lemma run6_inv c ops : wf6 c -> inv6 c (run6 c ops).
Proof.
  intro Hw. unfold run6. generalize (init6_inv c Hw). generalize (init6 c).
  induction ops as [|o tl IH]; cbn; intros s0 H0; [assumption|]. apply IH.
  unfold step6s. destruct (step6 c s0 o) as [[s1 r1] mk1] eqn:E. cbn. eapply step6_spec; eauto.
Qed.

Definition holds6a (s : state6) (d v : N) : Prop :=
  alookup d (aalloc s) = Some v \/ exists l, alookup d (leases6 s) = Some l /\ l6_addr l = Some v.
Definition holds6p (s : state6) (d v : N) : Prop :=
  alookup d (palloc s) = Some v \/ exists l, alookup d (leases6 s) = Some l /\ l6_pfx l = Some v.

(* (a)+(c), addresses: a value in an Advertise/Reply is one of the pool's addresses and no other client
   holds it (lease entry or outstanding advertise) *)
Lemma v6_a_addr c ops o s' r mk v d' :
  wf6 c -> step6 c (run6 c ops) o = (s', r, mk) -> na_of r = IaVal v ->
  In v (init_aavail c) /\ (d' <> client6 o -> ~ holds6a (run6 c ops) d' v).
Proof.
  intros Hw Hs Hv. pose proof (run6_inv c ops Hw) as Hi.
  destruct (step6_spec _ _ _ _ _ _ Hi Hs) as (_ & Ha & _). destruct (Ha v Hv) as (H1 & H2 & _).
  split; [assumption|]. intros Hn [Hh|[l [Hl Hx]]]; [now apply (H2 d' Hn)|].
  destruct Hi as [_ _ La _ _]. apply (H2 d' Hn). eauto.
Qed.
Lemma v6_a_pfx c ops o s' r mk v d' :
  wf6 c -> step6 c (run6 c ops) o = (s', r, mk) -> pd_of r = IaVal v ->
  In v (init_pavail c) /\ (d' <> client6 o -> ~ holds6p (run6 c ops) d' v).
Proof.
  intros Hw Hs Hv. pose proof (run6_inv c ops Hw) as Hi.
  destruct (step6_spec _ _ _ _ _ _ Hi Hs) as (_ & _ & Ha). destruct (Ha v Hv) as (H1 & H2 & _).
  split; [assumption|]. intros Hn [Hh|[l [Hl Hx]]]; [now apply (H2 d' Hn)|].
  destruct Hi as [_ _ _ Lp _]. apply (H2 d' Hn). eauto.
Qed.

(* (b) no two lease entries share an address or a prefix *)
Lemma v6_b c ops d1 d2 l1 l2 :
  wf6 c -> alookup d1 (leases6 (run6 c ops)) = Some l1 -> alookup d2 (leases6 (run6 c ops)) = Some l2 ->
  (forall a, l6_addr l1 = Some a -> l6_addr l2 = Some a -> d1 = d2) /\
  (forall p, l6_pfx l1 = Some p -> l6_pfx l2 = Some p -> d1 = d2).
Proof.
  intros Hw H1 H2. destruct (run6_inv c ops Hw) as [[_ Qa _ _ _] [_ Qp _ _ _] La Lp _]. split.
  - intros a A1 A2. eapply lookup_vals_inj; [exact Qa|eapply La; eauto|eapply La; eauto].
  - intros p A1 A2. eapply lookup_vals_inj; [exact Qp|eapply Lp; eauto|eapply Lp; eauto].
Qed.

(* (d) Renew / Rebind of a held address returns the same address *)
Lemma v6_d c ops d l a pd :
  wf6 c -> alookup d (leases6 (run6 c ops)) = Some l -> l6_addr l = Some a ->
  step6 c (run6 c ops) (Rebind d true pd) = step6 c (run6 c ops) (Renew d true pd) /\
  exists s' rpd mk, step6 c (run6 c ops) (Renew d true pd) = (s', R6Reply (IaVal a) rpd false, mk).
Proof.
  intros Hw Hl Ha. destruct (run6_inv c ops Hw) as [_ _ La _ _]. pose proof (La _ _ _ Hl Ha) as Hal.
  split; [reflexivity|]. cbn. unfold renew. rewrite Hl. unfold build_reply. cbn [aalloc aavail palloc pavail]. unfold pool_alloc at 1. rewrite Hal.
  destruct pd; [destruct (pool_alloc d (palloc (run6 c ops)) (pavail (run6 c ops))) as [[[vp pl] pv]|]|];
  eexists _, _, _; reflexivity.
Qed.

(* (f) release: the released address is back on the free list *)
Lemma v6_f_release c ops d l a :
  wf6 c -> alookup d (leases6 (run6 c ops)) = Some l -> l6_addr l = Some a ->
  In a (aavail (step6s c (run6 c ops) (Release6 d))) /\ alookup d (leases6 (step6s c (run6 c ops) (Release6 d))) = None.
Proof.
  intros Hw Hl Ha. destruct (run6_inv c ops Hw) as [Ia _ La _ _]. pose proof (La _ _ _ Hl Ha) as Hal.
  unfold step6s. cbn. unfold release6. rewrite Hl, Ha.
  destruct (pool_release_key d (aalloc (run6 c ops)) (aavail (run6 c ops))) as [al av] eqn:E.
  destruct (prelease_inv _ _ _ _ _ _ Ia E) as (_ & _ & _ & Hin).
  destruct (match l6_pfx l with Some _ => _ | None => _ end) as [pl pv]. cbn. split; [eauto|apply alookup_aremove_eq].
Qed.


(* (d) for delegated prefixes: Renew / Rebind of a held prefix returns the same prefix *)
Lemma v6_d_pfx c ops d l p na :
  wf6 c -> alookup d (leases6 (run6 c ops)) = Some l -> l6_pfx l = Some p ->
  step6 c (run6 c ops) (Rebind d na true) = step6 c (run6 c ops) (Renew d na true) /\
  exists s' rna mk, step6 c (run6 c ops) (Renew d na true) = (s', R6Reply rna (IaVal p) false, mk).
Proof.
  intros Hw Hl Hp. destruct (run6_inv c ops Hw) as [_ _ _ Lp _]. pose proof (Lp _ _ _ Hl Hp) as Hpl.
  split; [reflexivity|]. cbn. unfold renew. rewrite Hl. unfold build_reply. cbn [aalloc aavail palloc pavail].
  destruct na; [destruct (pool_alloc d (aalloc (run6 c ops)) (aavail (run6 c ops))) as [[[va al] av]|]|];
  unfold pool_alloc; rewrite Hpl; eexists _, _, _; reflexivity.
Qed.

(* (f) release for delegated prefixes: the released prefix is back on the free list *)
Lemma v6_f_release_pfx c ops d l p :
  wf6 c -> alookup d (leases6 (run6 c ops)) = Some l -> l6_pfx l = Some p ->
  In p (pavail (step6s c (run6 c ops) (Release6 d))) /\ alookup d (leases6 (step6s c (run6 c ops) (Release6 d))) = None.
Proof.
  intros Hw Hl Hp. destruct (run6_inv c ops Hw) as [_ Ip _ Lp _]. pose proof (Lp _ _ _ Hl Hp) as Hpl.
  unfold step6s. cbn. unfold release6. rewrite Hl, Hp.
  destruct (match l6_addr l with Some _ => _ | None => _ end) as [al av].
  destruct (pool_release_key d (palloc (run6 c ops)) (pavail (run6 c ops))) as [pl pv] eqn:E.
  destruct (prelease_inv _ _ _ _ _ _ Ip E) as (_ & _ & _ & Hin).
  cbn. split; [eauto|apply alookup_aremove_eq].
Qed.

(* Information-Request never changes the binding state and carries no value *)
Lemma v6_inforeq_stateless c s d : step6 c s (InfoReq d) = (s, R6Info, []).
Proof. reflexivity. Qed.

(* (f) expiry, partial: while no more than the valid lifetime has elapsed in total, no binding has run out *)
Lemma v6_f_expiry_partial c ops pd :
  wf6 c -> now6 (run6 c ops) <= c_valid c -> expired_holder (run6 c ops) pd = false.
Proof.
  intros Hw Hn. destruct (run6_inv c ops Hw) as [_ _ _ _ Lg]. unfold expired_holder.
  apply not_true_is_false. intro H. apply existsb_exists in H. destruct H as [[d l] [_ H]]. cbn in H.
  apply andb_true_iff in H. destruct H as [_ H]. destruct (alookup d (granted (run6 c ops))) eqn:E; [|discriminate].
  apply Lg in E. lia.
Qed.

(* (e) partial: the declined address goes to the END of the free list: while another free address
   exists, the next client is not given the declined one *)
Lemma v6_e_partial c ops d l a d2 x tl :
  wf6 c -> alookup d (leases6 (run6 c ops)) = Some l -> l6_addr l = Some a ->
  aavail (run6 c ops) = x :: tl -> d2 <> d -> alookup d2 (aalloc (run6 c ops)) = None ->
  exists s' rpd mk, step6 c (step6s c (run6 c ops) (Decline6 d)) (Request6 d2 true true false) = (s', R6Reply (IaVal x) rpd false, mk) /\ x <> a.
Proof.
  intros Hw Hl Ha Hav Hn Hd2. destruct (run6_inv c ops Hw) as [Ia _ La _ _]. pose proof (La _ _ _ Hl Ha) as Hal.
  assert (Hx : x <> a).
  { destruct Ia as [_ _ _ Q _]. intros ->. apply (Q a); [rewrite Hav; now left|eapply lookup_in_vals; eauto]. }
  unfold step6s. cbn. unfold release6. rewrite Hl, Ha. unfold pool_release_key at 1. rewrite Hal.
  destruct (match l6_pfx l with Some _ => _ | None => _ end) as [pl pv]. cbn.
  unfold build_reply. cbn [aalloc aavail palloc pavail]. unfold pool_alloc at 1.
  rewrite alookup_aremove_ne by assumption. rewrite Hd2, Hav. cbn.
  eexists _, _, _. split; [reflexivity|assumption].
Qed.

(* ---- DHCPv6 witnesses: corpus/C02/k02b and k02c ---- *)
Definition w6 : cfg6 := {| a_base := 42540766411283801782723599580828532736; a_size := 2;
                           p_base := 42540766411592077866725330020378607616; p_step := 18446744073709551616;
                           p_count := 2; c_valid := 100 |}.

(* (e): the address a client declined is handed to the next client *)
Lemma v6_e_refuted : exists c ops d l a o s' r mk,
  alookup d (leases6 (run6 c ops)) = Some l /\ l6_addr l = Some a /\
  step6 c (run6 c (ops ++ [Decline6 d])) o = (s', r, mk) /\ na_of r = IaVal a.
Proof.
  exists w6, [Request6 1 true true false], 1. eexists _, _, (Request6 2 true true false), _, _, _.
  split; [vm_compute; reflexivity|]. split; [reflexivity|]. split; vm_compute; reflexivity.
Qed.

(* (f) expiry: the only address is still held after its valid lifetime ran out; the next client is refused *)
Lemma v6_f_expiry_refuted : exists c ops o s' r mk,
  step6 c (run6 c ops) o = (s', r, mk) /\ na_of r = IaErr 2 /\ expired_holder (run6 c ops) false = true.
Proof.
  exists w6, [Request6 1 true true true; Advance6 101], (Request6 2 true true false). eexists _, _, _.
  split; [vm_compute; reflexivity|]. split; [reflexivity|]. vm_compute. reflexivity.
Qed.

Example v6_hyps_satisfiable :
  wf6 w6 /\ (exists l, alookup 1 (leases6 (run6 w6 [Solicit 1 false true true; Request6 1 true true true; Advance6 50])) = Some l
                       /\ l6_addr l = Some (a_base w6 + 1) /\ l6_pfx l = Some (p_base w6)) /\
  now6 (run6 w6 [Solicit 1 false true true; Request6 1 true true true; Advance6 50]) <= c_valid w6.
Proof. split; [reflexivity|]. split; [eexists; split; [|split]; vm_compute; reflexivity|vm_compute; discriminate]. Qed.
