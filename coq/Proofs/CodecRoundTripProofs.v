(* C09 — round trips: parsing what the serializer wrote gives back the values (PPPoE tags,
   DHCPv6 options: the 16-bit TLV codec). *)
From Coq Require Import ZArith NArith List Lia ZifyN ZifyNat ZifyBool Bool.
From Verif Require Import Model.CodecBase Model.CodecPPPoE Model.CodecDhcp6 Proofs.CodecBaseProofs.
Import ListNotations.
Local Open Scope N_scope.

Lemma sub0_mid (pre v rest : bytes) :
  sub0 (pre ++ v ++ rest) (lenN pre) (lenN pre + lenN v) = Ok v.
Proof.
  unfold sub0, sub. rewrite lenN_nil, !lenN_app.
  replace ((lenN pre <=? lenN pre + lenN v) && (lenN pre + lenN v <=? lenN pre + (lenN v + lenN rest) + 0))
    with true by (symmetry; apply andb_true_iff; split; lia).
  f_equal. rewrite app_nil_r. unfold lenN.
  replace (N.to_nat (N.of_nat (length pre))) with (length pre) by lia.
  replace (N.to_nat (N.of_nat (length pre) + N.of_nat (length v) - N.of_nat (length pre))) with (length v) by lia.
  rewrite skipn_app, skipn_all, Nat.sub_diag. cbn [skipn app].
  rewrite firstn_app, firstn_all, Nat.sub_diag. cbn [firstn]. apply app_nil_r.
Qed.

Lemma put16_len x : lenN (put16 x) = 2. Proof. reflexivity. Qed.

Lemma be16_put16 (pre rest : bytes) (x : N) : x < 65536 ->
  be16 (pre ++ put16 x ++ rest) (lenN pre) = Ok x.
Proof.
  intros Hx. unfold be16.
  pose proof (sub0_mid pre (put16 x) rest) as H. rewrite put16_len in H. rewrite H. cbn [bind put16].
  f_equal.
  assert (x / 256 < 256) by (apply N.div_lt_upper_bound; lia).
  rewrite (N.mod_small (x / 256)) by assumption.
  pose proof (N.div_mod x 256). lia.
Qed.

Definition tlv_ok (eol : bool) (t : N * bytes) : Prop :=
  fst t < 65536 /\ lenN (snd t) < 65536 /\ (eol = true -> fst t <> 0).

Lemma tlv16_loop_roundtrip eol ts : Forall (tlv_ok eol) ts ->
  forall fuel pre acc steps, (length ts <= fuel)%nat ->
  fst (tlv16_loop eol fuel (pre ++ ser_tlv16 ts) (lenN pre) acc steps) = Ok (rev acc ++ tlv_rows ts).
Proof.
  induction 1 as [|[ty v] tl [Hty [Hv He]] Htl IH]; intros fuel pre acc steps Hf.
  - cbn [ser_tlv16 tlv_rows map]. rewrite !app_nil_r.
    destruct fuel; cbn [tlv16_loop]; (destruct (lenN pre + 4 <=? lenN pre) eqn:E; [lia|reflexivity]).
  - cbn [fst snd] in *. destruct fuel as [|f]; [cbn in Hf; lia|]. cbn [tlv16_loop ser_tlv16].
    set (d := pre ++ put16 ty ++ put16 (lenN v) ++ v ++ ser_tlv16 tl).
    assert (Hd : lenN d = lenN pre + 4 + lenN v + lenN (ser_tlv16 tl)).
    { unfold d. rewrite !lenN_app, !put16_len. lia. }
    destruct (lenN pre + 4 <=? lenN d) eqn:E; [|lia].
    assert (H1 : be16 d (lenN pre) = Ok ty) by (unfold d; apply be16_put16; assumption).
    assert (H2 : be16 d (lenN pre + 2) = Ok (lenN v)).
    { unfold d. rewrite (app_assoc pre (put16 ty)).
      replace (lenN pre + 2) with (lenN (pre ++ put16 ty)) by (rewrite lenN_app, put16_len; reflexivity).
      apply be16_put16; assumption. }
    rewrite H1, H2.
    replace (eol && (ty =? 0)) with false.
    2:{ destruct eol; [|reflexivity]. cbn. symmetry. apply N.eqb_neq. apply He. reflexivity. }
    destruct (lenN d <? lenN pre + 4 + lenN v) eqn:E2; [lia|].
    assert (H3 : sub0 d (lenN pre + 4) (lenN pre + 4 + lenN v) = Ok v).
    { unfold d. rewrite (app_assoc pre (put16 ty)), (app_assoc (pre ++ put16 ty) (put16 (lenN v))).
      replace (lenN pre + 4) with (lenN ((pre ++ put16 ty) ++ put16 (lenN v)))
        by (rewrite !lenN_app, !put16_len; lia).
      apply sub0_mid. }
    rewrite H3.
    specialize (IH f (((pre ++ put16 ty) ++ put16 (lenN v)) ++ v) ((ty :: lenN v :: v) :: acc) (steps + 1)).
    replace (lenN ((((pre ++ put16 ty) ++ put16 (lenN v)) ++ v))) with (lenN pre + 4 + lenN v) in IH
      by (rewrite !lenN_app, !put16_len; lia).
    replace ((((pre ++ put16 ty) ++ put16 (lenN v)) ++ v) ++ ser_tlv16 tl) with d in IH
      by (unfold d; rewrite <- !app_assoc; reflexivity).
    rewrite IH by (cbn in Hf; lia).
    cbn [rev tlv_rows map fst snd]. rewrite <- app_assoc. reflexivity.
Qed.

(* ParseTags (SerializeTags ts) = ts, for tags with non-zero type (type 0 is End-Of-List) *)
Lemma parse_tags_roundtrip ts : Forall (tlv_ok true) ts -> parse_tags (ser_tlv16 ts) = Ok (tlv_rows ts).
Proof.
  intros H. unfold parse_tags, tlv16.
  pose proof (tlv16_loop_roundtrip true ts H (S (length (ser_tlv16 ts))) [] [] 0) as R.
  cbn [app lenN length rev] in R. change (N.of_nat 0) with 0 in R. apply R.
  clear R. induction ts as [|[ty v] tl IHt]; cbn [ser_tlv16 length]; [lia|].
  inversion H; subst. specialize (IHt H3). rewrite !app_length. cbn [put16 length]. lia.
Qed.

(* dhcpv6.ParseOptions (SerializeOptions os) = os *)
Lemma d6_options_roundtrip os : Forall (tlv_ok false) os -> d6_options (ser_tlv16 os) = Ok (tlv_rows os).
Proof.
  intros H. unfold d6_options, tlv16.
  pose proof (tlv16_loop_roundtrip false os H (S (length (ser_tlv16 os))) [] [] 0) as R.
  cbn [app lenN length rev] in R. change (N.of_nat 0) with 0 in R. apply R.
  clear R. induction os as [|[ty v] tl IHt]; cbn [ser_tlv16 length]; [lia|].
  inversion H; subst. specialize (IHt H3). rewrite !app_length. cbn [put16 length]. lia.
Qed.
